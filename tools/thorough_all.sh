#!/bin/bash
# usage: tools/thorough_all.sh [ids...]   — thorough tier of every check, one after the other (log on stdout).
# With VERIF_REPO set (e.g. to a snapshot of /repo) the checks run against that tree.
cd "$(dirname "$0")/.."
ids="$@"; [ -z "$ids" ] && ids="C18 C19 C16 C17 C10 C07 C09 C04 C08 C14 C13 C12 C11 C15 C06 C03 C01 C02 C05"
for p in $ids; do
  s=$(date +%s)
  ./check $p --tier thorough 2>&1 | grep -E "VIOLATION|done:|KNOWN|coqchk" | cut -c1-260
  echo "$p $(( $(date +%s) - s ))s"
  if ls work/replay/${p}_*.json >/dev/null 2>&1; then python3 - "$p" <<'PY'
import json,glob,sys
for f in sorted(glob.glob('work/replay/%s_*.json' % sys.argv[1]))[:1]:
    d=json.load(open(f)); print('   ', json.dumps(d.get('input') or d.get('broken'))[:700]); print('   ', [x['what'][:200] for x in d.get('further_violations',[])][:5])
PY
  fi
done
