"""
pygallina — a fail-closed translator from the subset of Python used by hera/op.py,
hera/vm.py and hera/utils.py into Gallina text over Hera.Lib.Py / Hera.Lib.Machine.

Everything is a `pv` (Python value); statements become a state/exception-monad term.
Any construct outside the supported subset raises Unsupported, which aborts generation
(DESIGN.md §2.2: "fail-closed").  Nothing is ever guessed.
"""
import ast


class Unsupported(Exception):
    def __init__(self, node, why):
        self.node = node
        self.why = why
        line = getattr(node, "lineno", "?")
        super().__init__("line {}: {} ({})".format(line, why, type(node).__name__))


def coq_string(s):
    """A Coq string literal for an ASCII Python string."""
    out = []
    for ch in s:
        o = ord(ch)
        if ch == '"':
            out.append('""')
        elif 32 <= o < 127:
            out.append(ch)
        else:
            raise ValueError("non-printable character in string literal: %r" % s)
    return '"' + "".join(out) + '"%string'


def coq_z(n):
    return str(n) if n >= 0 else "(%d)" % n


def coq_ident(name):
    # Python identifiers are valid Coq identifiers except for a few reserved words
    reserved = {"left": "left_", "right": "right_", "end": "end_", "in": "in_", "at": "at_",
                "as": "as_", "let": "let_", "fun": "fun_", "match": "match_", "with": "with_",
                "return": "return_", "if": "if_", "then": "then_", "else": "else_", "for": "for_",
                "exists": "exists_", "forall": "forall_", "Type": "Type_", "Set": "Set_",
                "Prop": "Prop_", "fix": "fix_", "cofix": "cofix_", "using": "using_",
                "where": "where_", "struct": "struct_", "value": "value_", "result": "result_",
                "target": "target_", "s": "s_"}
    if name.startswith("_"):
        name = "u" + name
    return reserved.get(name, name)


BINOPS = {
    ast.Add: "py_add", ast.Sub: "py_sub", ast.Mult: "py_mul", ast.BitAnd: "py_band",
    ast.BitOr: "py_bor", ast.BitXor: "py_bxor",
}
CMPOPS = {
    ast.Lt: "py_lt", ast.LtE: "py_le", ast.Gt: "py_gt", ast.GtE: "py_ge",
    ast.Eq: "py_eq", ast.NotEq: "py_ne",
}

# vm attributes -> (getter, setter)
VM_ATTRS = {
    "pc": ("get_pc", "set_pc"),
    "dc": ("get_dc", "set_dc"),
    "flag_sign": ("get_f_s", "set_f_s"),
    "flag_zero": ("get_f_z", "set_f_z"),
    "flag_overflow": ("get_f_v", "set_f_v"),
    "flag_carry": ("get_f_c", "set_f_c"),
    "flag_carry_block": ("get_f_cb", "set_f_cb"),
    "halted": ("get_halted", "set_halted"),
    "op_count": ("get_op_count", "set_op_count"),
    "warned_for_overflow": ("get_warned_ovf", "set_warned_ovf"),
    "warned_for_SWI": ("get_warned_swi", "set_warned_swi"),
    "warned_for_RTI": ("get_warned_rti", "set_warned_rti"),
    "warning_count": ("get_warning_count", "set_warning_count"),
    "location": ("get_location", "set_location"),
    "input_pos": ("get_input_pos", "set_input_pos"),
    "input_buffer": ("get_input_buffer", "set_input_buffer"),
}
SETTINGS_ATTRS = {
    "data_start": ("get_data_start", None),
    "warn_return_on": ("get_warn_return_on", None),
    "warning_count": ("get_swarning_count", "set_swarning_count"),
}


def const_fold(node):
    """Fold an integer constant expression (used for 2 ** 16 and friends); None if not constant."""
    if isinstance(node, ast.Constant) and type(node.value) is int:
        return node.value
    if isinstance(node, ast.UnaryOp) and isinstance(node.op, ast.USub):
        v = const_fold(node.operand)
        return None if v is None else -v
    if isinstance(node, ast.BinOp):
        a, b = const_fold(node.left), const_fold(node.right)
        if a is None or b is None:
            return None
        if isinstance(node.op, ast.Pow) and b >= 0:
            return a ** b
        if isinstance(node.op, ast.Add):
            return a + b
        if isinstance(node.op, ast.Sub):
            return a - b
        if isinstance(node.op, ast.Mult):
            return a * b
    return None


class Fmt:
    """A translation-time string value: format text + Coq terms for its arguments."""

    def __init__(self, fmt, args):
        self.fmt = fmt
        self.args = args
        self.binds = []


class FnInfo:
    def __init__(self, name, params, pure, returns_value, coqname, kind=None):
        self.name = name
        self.params = params
        self.pure = pure
        self.returns_value = returns_value
        self.coqname = coqname
        # "pure": total pv function; "res": may raise but touches no machine state;
        # "M": state/exception monad
        self.kind = kind or ("pure" if pure else "M")


class Translator:
    """
    Translates one function/method body.

    ctx:
      vm_name      -- the Python name bound to the virtual machine ("vm", or "self" in vm.py)
      self_name    -- the Python name of the operation object ("self") or None
      functions    -- dict name -> FnInfo for module-level functions already translated
      vm_methods   -- dict name -> FnInfo for VirtualMachine methods
      resolve_self -- callback (method_name) -> FnInfo for self.<method>(vm, ...) dispatch
      resolve_super-- callback (method_name) -> FnInfo for super().<method>(vm)
    """

    def __init__(self, vm_name=None, self_name=None, functions=None, vm_methods=None,
                 resolve_self=None, resolve_super=None, fmt_params=()):
        self.vm_name = vm_name
        self.self_name = self_name
        self.functions = functions or {}
        self.vm_methods = vm_methods or {}
        self.resolve_self = resolve_self
        self.resolve_super = resolve_super
        self.fresh = 0
        self.fmt_env = {}
        for p in fmt_params:
            self.fmt_env[p] = Fmt(None, None)  # parameter: (p_fmt, p_args)
        self.fmt_params = set(fmt_params)
        self.pure = True       # becomes False if a monadic construct is needed
        self.uses_state = False  # becomes True if machine state is touched
        self.mode = "M"        # "M": state/exception monad; "R": exception monad only

    def ret(self, t):
        return ("ret %s" if self.mode == "M" else "rret %s") % t

    def raise_kw(self):
        return "raise" if self.mode == "M" else "rraise"

    def tmp(self, base="t"):
        self.fresh += 1
        return "%s_%d" % (base, self.fresh)

    # ---- expressions -----------------------------------------------------------
    # expr() returns (binds, term) where binds is a list of (pattern, monadic-term)
    # to be performed, in order, before `term` (a pure Gallina pv term) is meaningful.

    def is_vm(self, node):
        return isinstance(node, ast.Name) and node.id == self.vm_name

    def is_self(self, node):
        return isinstance(node, ast.Name) and node.id == self.self_name and self.self_name != self.vm_name

    def expr(self, node, lazy=False):
        """lazy=True: we are inside a conditionally evaluated position; effects forbidden."""
        c = const_fold(node)
        if c is not None and not (isinstance(node, ast.Constant) and type(node.value) is bool):
            return [], "(PI %s)" % coq_z(c)
        if isinstance(node, ast.Constant):
            if node.value is True:
                return [], "(PB true)"
            if node.value is False:
                return [], "(PB false)"
            if node.value is None:
                return [], "PNone"
            if isinstance(node.value, str):
                return [], "(PS [%s])" % "; ".join(str(ord(ch)) for ch in node.value)
            raise Unsupported(node, "constant of unsupported type")
        if isinstance(node, ast.Name):
            if node.id in self.fmt_env:
                raise Unsupported(node, "formatted string used as a value")
            return [], coq_ident(node.id)
        if isinstance(node, ast.BinOp):
            lb, lt = self.expr(node.left, lazy)
            rb, rt = self.expr(node.right, lazy)
            op = type(node.op)
            if op in BINOPS:
                return lb + rb, "(%s %s %s)" % (BINOPS[op], lt, rt)
            if op in (ast.LShift, ast.RShift):
                k = const_fold(node.right)
                if k is None or k < 0:
                    raise Unsupported(node, "shift by a non-literal or negative amount")
                return lb + rb, "(%s %s %s)" % ("py_shl" if op is ast.LShift else "py_shr", lt, rt)
            if op in (ast.Mod, ast.FloorDiv):
                k = const_fold(node.right)
                if k is None or k == 0:
                    raise Unsupported(node, "division by a non-literal or zero")
                return lb + rb, "(%s %s %s)" % ("py_mod" if op is ast.Mod else "py_floordiv", lt, rt)
            raise Unsupported(node, "binary operator")
        if isinstance(node, ast.UnaryOp):
            b, t = self.expr(node.operand, lazy)
            if isinstance(node.op, ast.Not):
                return b, "(py_not %s)" % t
            if isinstance(node.op, ast.USub):
                return b, "(py_neg %s)" % t
            raise Unsupported(node, "unary operator")
        if isinstance(node, ast.BoolOp):
            fn = "py_and" if isinstance(node.op, ast.And) else "py_or"
            b0, t = self.expr(node.values[0], lazy)
            binds = list(b0)
            for v in node.values[1:]:
                bv, tv = self.expr(v, lazy=True)
                binds += bv
                t = "(%s %s %s)" % (fn, t, tv)
            return binds, t
        if isinstance(node, ast.Compare):
            binds, lt = self.expr(node.left, lazy)
            terms = []
            for op, comp in zip(node.ops, node.comparators):
                if type(op) not in CMPOPS:
                    raise Unsupported(node, "comparison operator")
                # comparands after the first are conditionally evaluated in a chain; all
                # our comparands are effect-free so this is only checked, never relied on
                cb, ct = self.expr(comp, lazy or bool(terms))
                binds += cb
                terms.append("(%s %s %s)" % (CMPOPS[type(op)], lt, ct))
                lt = ct
            t = terms[0]
            for u in terms[1:]:
                t = "(py_and %s %s)" % (t, u)
            return binds, t
        if isinstance(node, ast.IfExp):
            cb, ct = self.expr(node.test, lazy)
            ab, at = self.expr(node.body, lazy=True)
            bb, bt = self.expr(node.orelse, lazy=True)
            return cb + ab + bb, "(py_ifexp %s %s %s)" % (ct, at, bt)
        if isinstance(node, ast.Attribute):
            return self.attr_read(node)
        if isinstance(node, ast.Subscript):
            # self.args[i]
            if (isinstance(node.value, ast.Attribute) and self.is_self(node.value.value)
                    and node.value.attr == "args"):
                i = const_fold(node.slice)
                if i is None:
                    raise Unsupported(node, "self.args index must be a literal")
                if lazy:
                    raise Unsupported(node, "self.args[...] in a conditionally evaluated position")
                v = self.tmp("a")
                self.pure = False
                return [(v, "args_at args %s" % coq_z(i))], v
            # self.registers[i] / self.memory[i] (inside vm.py)
            if isinstance(node.value, ast.Attribute) and self.is_vm(node.value.value):
                if lazy:
                    raise Unsupported(node, "container read in a conditionally evaluated position")
                ib, it = self.expr(node.slice)
                v = self.tmp("x")
                self.pure = False
                if node.value.attr == "registers":
                    return ib + [(v, "regs_getitem %s" % it)], v
                if node.value.attr == "memory":
                    return ib + [(v, "mem_getitem %s" % it)], v
            raise Unsupported(node, "subscript")
        if isinstance(node, ast.Call):
            return self.call(node, lazy)
        raise Unsupported(node, "expression")

    def attr_read(self, node):
        # vm.<attr>
        if self.is_vm(node.value):
            if node.attr in VM_ATTRS:
                v = self.tmp("v")
                self.pure = False
                return [(v, VM_ATTRS[node.attr][0])], v
            if node.attr == "expected_returns":
                v = self.tmp("v")
                self.pure = False
                return [(v, "ers_nonempty")], v   # only truthiness is ever used
            raise Unsupported(node, "unknown vm attribute %s" % node.attr)
        # vm.settings.<attr>
        if (isinstance(node.value, ast.Attribute) and self.is_vm(node.value.value)
                and node.value.attr == "settings"):
            if node.attr in SETTINGS_ATTRS:
                v = self.tmp("v")
                self.pure = False
                return [(v, SETTINGS_ATTRS[node.attr][0])], v
            raise Unsupported(node, "unknown settings attribute %s" % node.attr)
        raise Unsupported(node, "attribute read")

    def call_args(self, nodes, lazy):
        binds, terms = [], []
        for a in nodes:
            if isinstance(a, ast.Starred):
                raise Unsupported(a, "star argument")
            b, t = self.expr(a, lazy)
            binds += b
            terms.append(t)
        return binds, terms

    def call(self, node, lazy):
        f = node.func
        # bool(x), int(x), len(x), ord(x)
        if isinstance(f, ast.Name) and f.id in ("bool", "int") and len(node.args) == 1 and not node.keywords:
            b, t = self.expr(node.args[0], lazy)
            return b, "(py_%s %s)" % (f.id, t)
        if isinstance(f, ast.Name) and f.id in ("len", "ord") and len(node.args) == 1 and not node.keywords:
            # len(self.memory)
            a = node.args[0]
            if (f.id == "len" and isinstance(a, ast.Attribute) and self.is_vm(a.value)
                    and a.attr == "memory"):
                v = self.tmp("n")
                self.pure = False
                return [(v, "mem_len")], v
            if lazy:
                raise Unsupported(node, "len/ord in a conditionally evaluated position")
            b, t = self.expr(a)
            v = self.tmp("n")
            self.pure = False
            return b + [(v, "py_%s %s" % (f.id, t))], v
        if isinstance(f, ast.Name) and f.id == "format_int" and len(node.args) == 1 and not node.keywords:
            b, t = self.expr(node.args[0], lazy)
            return b, "(PF (as_int %s))" % t
        # module-level function
        if isinstance(f, ast.Name) and f.id in self.functions:
            info = self.functions[f.id]
            if node.keywords or len(node.args) != len(info.params):
                raise Unsupported(node, "call arity/keywords")
            b, ts = self.call_args(node.args, lazy)
            if info.kind == "pure":
                return b, "(%s %s)" % (info.coqname, " ".join(ts))
            if lazy:
                raise Unsupported(node, "effectful call in a conditionally evaluated position")
            v = self.tmp("r")
            self.pure = False
            app = "%s %s" % (info.coqname, " ".join(ts))
            if info.kind == "res" and self.mode == "M":
                app = "lift (%s)" % app
            elif info.kind == "M" and self.mode == "R":
                raise Unsupported(node, "state-dependent call in a state-free function")
            return b + [(v, app)], v
        # vm.method(...)
        if isinstance(f, ast.Attribute) and self.is_vm(f.value) and f.attr in self.vm_methods:
            info = self.vm_methods[f.attr]
            if lazy:
                raise Unsupported(node, "vm method call in a conditionally evaluated position")
            return self.method_call(node, info, node.args, "r")
        # self.calculate(vm, ...), self.should(vm)
        if (isinstance(f, ast.Attribute) and self.is_self(f.value) and self.resolve_self
                and node.args and self.is_vm(node.args[0])):
            info = self.resolve_self(f.attr)
            if info is None:
                raise Unsupported(node, "cannot resolve self.%s" % f.attr)
            if lazy:
                raise Unsupported(node, "method call in a conditionally evaluated position")
            return self.method_call(node, info, node.args[1:], "r")
        # super().execute(vm)
        if (isinstance(f, ast.Attribute) and isinstance(f.value, ast.Call)
                and isinstance(f.value.func, ast.Name) and f.value.func.id == "super"
                and not f.value.args and self.resolve_super and node.args and self.is_vm(node.args[0])):
            info = self.resolve_super(f.attr)
            if info is None:
                raise Unsupported(node, "cannot resolve super().%s" % f.attr)
            if lazy:
                raise Unsupported(node, "super call in a conditionally evaluated position")
            return self.method_call(node, info, node.args[1:], "r")
        raise Unsupported(node, "call")

    def method_call(self, node, info, argnodes, base):
        kw = {k.arg: k.value for k in node.keywords}
        params = list(info.params)
        nodes = list(argnodes)
        if len(nodes) > len(params):
            raise Unsupported(node, "too many arguments")
        rest = params[len(nodes):]
        for p in rest:
            if p not in kw:
                raise Unsupported(node, "missing argument %s" % p)
            nodes.append(kw.pop(p))
        if kw:
            raise Unsupported(node, "unexpected keyword")
        binds, terms = [], []
        for p, a in zip(params, nodes):
            if p in getattr(info, "fmt_params", ()):
                fm = self.fmt_value(a)
                terms.append(coq_string(fm.fmt) if fm.fmt is not None else coq_ident(a.id) + "_fmt")
                terms.append("[%s]" % "; ".join(fm.args) if fm.fmt is not None else coq_ident(a.id) + "_args")
            else:
                b, t = self.expr(a)
                binds += b
                terms.append(t)
        v = self.tmp(base)
        self.pure = False
        extra = " args" if getattr(info, "takes_args", False) else ""
        return binds + [(v, "%s%s %s" % (info.coqname, extra, " ".join(terms)) if terms
                         else "%s%s" % (info.coqname, extra))], v

    def fmt_value(self, node):
        """A string-valued expression at translation time."""
        if isinstance(node, ast.Constant) and isinstance(node.value, str):
            return Fmt(node.value, [])
        if isinstance(node, ast.Name) and node.id in self.fmt_env:
            fm = self.fmt_env[node.id]
            return fm
        if (isinstance(node, ast.Call) and isinstance(node.func, ast.Attribute)
                and node.func.attr == "format" and isinstance(node.func.value, ast.Constant)
                and isinstance(node.func.value.value, str) and not node.keywords):
            # arguments must be effect-free locals here; binds are not allowed
            args = []
            binds = []
            for a in node.args:
                b, t = self.expr(a)
                binds += b
                args.append(t)
            fm = Fmt(node.func.value.value, args)
            fm.binds = binds
            return fm
        raise Unsupported(node, "string expression")

    # ---- statements ------------------------------------------------------------

    def wrap(self, binds, body):
        out = body
        arrow = "<-" if self.mode == "M" else "<~"
        for pat, term in reversed(binds):
            out = "%s %s %s ;;\n%s" % (pat, arrow, term, out)
        return out

    def stmts(self, body, k, returns_value):
        """Translate the statement list `body`; `k` is the (already translated) monadic
        continuation term to run afterwards, or None when falling off the end of the
        function."""
        if not body:
            if k is not None:
                return k
            return self.ret("PNone" if returns_value else "tt")
        st, rest = body[0], body[1:]
        R = lambda: self.stmts(rest, k, returns_value)

        if isinstance(st, ast.Expr) and isinstance(st.value, ast.Constant) and isinstance(st.value.value, str):
            return R()  # docstring
        if isinstance(st, ast.Pass):
            return R()
        if isinstance(st, ast.Return):
            if st.value is None:
                return self.ret("PNone" if returns_value else "tt")
            b, t = self.expr(st.value)
            return self.wrap(b, self.ret(t))
        if isinstance(st, ast.Raise):
            return self.raise_(st)
        if isinstance(st, ast.If):
            b, t = self.expr(st.test)
            # the continuation is duplicated into both branches (bodies here are tiny)
            kont = self.stmts(rest, k, returns_value) if (rest or k is not None) else None
            saved = dict(self.fmt_env)
            then_ = self.stmts(st.body, kont, returns_value)
            self.fmt_env = dict(saved)
            else_ = self.stmts(st.orelse, kont, returns_value)
            self.fmt_env = saved
            return self.wrap(b, "(if truthy %s then\n%s\nelse\n%s)" % (t, then_, else_))
        if isinstance(st, ast.Assign):
            if len(st.targets) != 1:
                raise Unsupported(st, "multiple assignment targets")
            return self.assign(st.targets[0], st.value, R)
        if isinstance(st, ast.AugAssign):
            op = type(st.op)
            if op not in BINOPS:
                raise Unsupported(st, "augmented assignment operator")
            b, t = self.expr(st.value)
            tgt = st.target
            if isinstance(tgt, ast.Name):
                n = coq_ident(tgt.id)
                return self.wrap(b, "let %s := (%s %s %s) in\n%s" % (n, BINOPS[op], n, t, R()))
            if isinstance(tgt, ast.Attribute):
                rb, rt = self.attr_read(tgt)
                setter = self.attr_setter(tgt)
                self.pure = False
                return self.wrap(b + rb, "%s (%s %s %s) ;;;\n%s" % (setter, BINOPS[op], rt, t, R()))
            raise Unsupported(st, "augmented assignment target")
        if isinstance(st, ast.Expr) and isinstance(st.value, ast.Call):
            return self.call_stmt(st.value, R)
        if isinstance(st, ast.For):
            return self.for_(st, R)
        raise Unsupported(st, "statement")

    def raise_(self, st):
        self.pure = False
        e = st.exc
        if isinstance(e, ast.Name) and e.id == "NotImplementedError":
            return self.raise_kw() + " NotImplementedError"
        if (isinstance(e, ast.Call) and isinstance(e.func, ast.Name) and len(e.args) == 1
                and isinstance(e.args[0], ast.Constant) and isinstance(e.args[0].value, str)):
            if e.func.id == "HERAError":
                return self.raise_kw() + " (HERAError %s)" % coq_string(e.args[0].value)
            if e.func.id == "RuntimeError":
                return self.raise_kw() + " RuntimeError"
        raise Unsupported(st, "raise of unsupported exception")

    def attr_setter(self, tgt):
        if self.is_vm(tgt.value) and tgt.attr in VM_ATTRS:
            return VM_ATTRS[tgt.attr][1]
        if (isinstance(tgt.value, ast.Attribute) and self.is_vm(tgt.value.value)
                and tgt.value.attr == "settings" and tgt.attr in SETTINGS_ATTRS
                and SETTINGS_ATTRS[tgt.attr][1]):
            return SETTINGS_ATTRS[tgt.attr][1]
        raise Unsupported(tgt, "assignment to unknown attribute")

    def assign(self, tgt, value, R):
        # msg = "...".format(...)   (translation-time string)
        if isinstance(tgt, ast.Name):
            try:
                fm = self.fmt_value(value)
            except Unsupported:
                fm = None
            if fm is not None and isinstance(value, ast.Call):
                if fm.binds:
                    raise Unsupported(value, "format argument needs evaluation of state")
                self.fmt_env[tgt.id] = fm
                return R()
        # a, b = self.args
        if isinstance(tgt, ast.Tuple):
            names = []
            for e in tgt.elts:
                if not isinstance(e, ast.Name):
                    raise Unsupported(tgt, "tuple target element")
                names.append("_" if e.id == "_" else coq_ident(e.id))
            self.pure = False
            if (isinstance(value, ast.Attribute) and self.is_self(value.value) and value.attr == "args"
                    and len(names) in (2, 3)):
                pat = "'(%s)" % ", ".join(names)
                return "%s <- unpack%d args ;;\n%s" % (pat, len(names), R())
            # _, expected = vm.expected_returns.pop()
            if (isinstance(value, ast.Call) and isinstance(value.func, ast.Attribute)
                    and value.func.attr == "pop" and not value.args
                    and isinstance(value.func.value, ast.Attribute)
                    and self.is_vm(value.func.value.value)
                    and value.func.value.attr == "expected_returns" and len(names) == 2):
                return "'(%s, %s) <- ers_pop ;;\n%s" % (names[0], names[1], R())
            raise Unsupported(tgt, "tuple assignment")
        if isinstance(tgt, ast.Name):
            b, t = self.expr(value)
            return self.wrap(b, "let %s := %s in\n%s" % (coq_ident(tgt.id), t, R()))
        if isinstance(tgt, ast.Attribute):
            # self.registers = [0] * 16 and friends are handled by the vm.py driver (reset)
            setter = self.attr_setter(tgt)
            b, t = self.expr(value)
            self.pure = False
            return self.wrap(b, "%s %s ;;;\n%s" % (setter, t, R()))
        if isinstance(tgt, ast.Subscript):
            # self.registers[i] = v / self.memory[a] = v   (vm.py)
            if isinstance(tgt.value, ast.Attribute) and self.is_vm(tgt.value.value):
                ib, it = self.expr(tgt.slice)
                vb, vt = self.expr(value)
                self.pure = False
                if tgt.value.attr == "registers":
                    return self.wrap(vb + ib, "regs_setitem %s %s ;;;\n%s" % (it, vt, R()))
                if tgt.value.attr == "memory":
                    return self.wrap(vb + ib, "mem_setitem %s %s ;;;\n%s" % (it, vt, R()))
            raise Unsupported(tgt, "subscript assignment")
        raise Unsupported(tgt, "assignment target")

    def call_stmt(self, call, R):
        f = call.func
        self.pure = False
        # print(...)
        if isinstance(f, ast.Name) and f.id == "print":
            kw = {k.arg: k.value for k in call.keywords}
            nl = "true"
            if "end" in kw:
                e = kw.pop("end")
                if not (isinstance(e, ast.Constant) and e.value == ""):
                    raise Unsupported(call, "print end=")
                nl = "false"
            if kw or len(call.args) != 1:
                raise Unsupported(call, "print form")
            a = call.args[0]
            try:
                fm = self.fmt_value(a)
                if fm.fmt is None:
                    raise Unsupported(a, "print of formatted parameter")
                return self.wrap(fm.binds, "emit_out %s [%s] %s ;;;\n%s" % (coq_string(fm.fmt), "; ".join(fm.args), nl, R()))
            except Unsupported:
                b, t = self.expr(a)
                return self.wrap(b, "emit_out %s [%s] %s ;;;\n%s" % (coq_string("{}"), t, nl, R()))
        # print_warning(vm.settings, msg, loc=...)
        if isinstance(f, ast.Name) and f.id in ("print_warning", "print_error"):
            kw = {k.arg: k.value for k in call.keywords}
            if len(call.args) != 2 or set(kw) != {"loc"}:
                raise Unsupported(call, "print_warning form")
            s0 = call.args[0]
            if not (isinstance(s0, ast.Attribute) and self.is_vm(s0.value) and s0.attr == "settings"):
                raise Unsupported(call, "print_warning settings argument")
            fm = self.fmt_value(call.args[1])
            if fm.binds:
                raise Unsupported(call, "format argument needs evaluation of state")
            lb, lt = self.expr(kw["loc"])
            fn = "emit_warn" if f.id == "print_warning" else "emit_err"
            if fm.fmt is None:
                n = coq_ident(call.args[1].id)
                return self.wrap(lb, "%s %s_fmt %s_args %s ;;;\n%s" % (fn, n, n, lt, R()))
            return self.wrap(lb, "%s %s [%s] %s ;;;\n%s" % (fn, coq_string(fm.fmt), "; ".join(fm.args), lt, R()))
        # vm.expected_returns.append((a, b))
        if (isinstance(f, ast.Attribute) and f.attr == "append" and isinstance(f.value, ast.Attribute)
                and self.is_vm(f.value.value) and f.value.attr == "expected_returns"
                and len(call.args) == 1 and isinstance(call.args[0], ast.Tuple)
                and len(call.args[0].elts) == 2):
            b1, t1 = self.expr(call.args[0].elts[0])
            b2, t2 = self.expr(call.args[0].elts[1])
            return self.wrap(b1 + b2, "ers_append %s %s ;;;\n%s" % (t1, t2, R()))
        # self.memory.extend([0] * n)     (vm.py)
        if (isinstance(f, ast.Attribute) and f.attr == "extend" and isinstance(f.value, ast.Attribute)
                and self.is_vm(f.value.value) and f.value.attr == "memory" and len(call.args) == 1):
            a = call.args[0]
            if (isinstance(a, ast.BinOp) and isinstance(a.op, ast.Mult) and isinstance(a.left, ast.List)
                    and len(a.left.elts) == 1 and const_fold(a.left.elts[0]) == 0):
                b, t = self.expr(a.right)
                return self.wrap(b, "mem_extend_zeros %s ;;;\n%s" % (t, R()))
            raise Unsupported(call, "memory.extend form")
        b, t = self.call(call, lazy=False)
        # drop the result
        pat, term = b[-1]
        return self.wrap(b[:-1], "%s ;;;\n%s" % (term, R()))

    def for_(self, st, R):
        if st.orelse:
            raise Unsupported(st, "for-else")
        for n in ast.walk(ast.Module(body=st.body, type_ignores=[])):
            if isinstance(n, (ast.Return, ast.Break, ast.Continue)):
                raise Unsupported(n, "control flow inside for body")
            if isinstance(n, (ast.Assign, ast.AugAssign)):
                tg = n.targets[0] if isinstance(n, ast.Assign) else n.target
                if isinstance(tg, ast.Name):
                    raise Unsupported(n, "assignment to a local inside for body")
        self.pure = False
        it = st.iter
        # for dest, val in self.settings.init:
        if (isinstance(st.target, ast.Tuple) and len(st.target.elts) == 2
                and isinstance(it, ast.Attribute) and it.attr == "init"
                and isinstance(it.value, ast.Attribute) and self.is_vm(it.value.value)
                and it.value.attr == "settings"):
            a, b = (coq_ident(e.id) for e in st.target.elts)
            body = self.stmts(st.body, None, False)
            return ("ini <- get_init ;;\nfor_pairs ini (fun %s %s =>\n%s) ;;;\n%s" % (a, b, body, R()))
        # for c in <expr string>:
        if isinstance(st.target, ast.Name):
            b, t = self.expr(it)
            body = self.stmts(st.body, None, False)
            v = self.tmp("cs")
            return self.wrap(b + [(v, "str_chars %s" % t)],
                             "for_chars %s (fun %s =>\n%s) ;;;\n%s" % (v, coq_ident(st.target.id), body, R()))
        raise Unsupported(st, "for loop form")


def function_returns_value(fn):
    for n in ast.walk(fn):
        if isinstance(n, ast.Return) and n.value is not None:
            return True
    return False


def translate_function(fn, coqname, tr, params, extra_params="", force_monadic=False):
    """Return (coq_text, pure, returns_value)."""
    returns_value = function_returns_value(fn)
    tr.pure = True
    body = tr.stmts(fn.body, None, returns_value)
    plist = []
    for p in params:
        if p in tr.fmt_params:
            plist.append("(%s_fmt : string) (%s_args : list pv)" % (coq_ident(p), coq_ident(p)))
        else:
            plist.append("(%s : pv)" % coq_ident(p))
    ps = " ".join(plist)
    rty = "pv" if returns_value else "unit"
    if tr.pure and returns_value and not force_monadic:
        # re-translate purely: strip `ret`
        text = pure_body(fn, tr)
        return ("Definition %s %s%s : pv :=\n%s.\n" % (coqname, extra_params, ps, text), True, True)
    mon = "M" if tr.mode == "M" else "res"
    return ("Definition %s %s%s : %s %s :=\n%s.\n" % (coqname, extra_params, ps, mon, rty, body), False, returns_value)


def pure_body(fn, tr):
    """Translate a side-effect-free function with if/return structure into a pure term."""
    def go(body):
        if not body:
            raise Unsupported(fn, "pure function may fall off the end")
        st, rest = body[0], body[1:]
        if isinstance(st, ast.Expr) and isinstance(st.value, ast.Constant) and isinstance(st.value.value, str):
            return go(rest)
        if isinstance(st, ast.Return):
            b, t = tr.expr(st.value)
            assert not b
            return t
        if isinstance(st, ast.If):
            b, t = tr.expr(st.test)
            assert not b
            # go() stops at the first Return it meets, so appending `rest` is harmless
            then_ = go(st.body + rest)
            else_ = go(st.orelse + rest)
            return "(if truthy %s then %s else %s)" % (t, then_, else_)
        if isinstance(st, ast.Assign) and len(st.targets) == 1 and isinstance(st.targets[0], ast.Name):
            b, t = tr.expr(st.value)
            assert not b
            return "(let %s := %s in %s)" % (coq_ident(st.targets[0].id), t, go(rest))
        raise Unsupported(st, "statement in pure function")
    return go(fn.body)


def ends_in_return(body):
    return bool(body) and isinstance(body[-1], ast.Return)
