"""
convgen — translation of the `convert` methods, the class-level tables (P, BITV, class
order, inheritance facts) of hera/op.py and `operation_length` of hera/checker.py.
Fail-closed like the rest of the translator.
"""
import ast

from pygallina import Unsupported, coq_ident, coq_string, coq_z, const_fold

TOKEN_TYPES = {"INT": "T_INT", "REGISTER": "T_REGISTER", "SYMBOL": "T_SYMBOL",
               "STRING": "T_STRING", "CHAR": "T_CHAR"}


def cname_ident(c):
    return "uu" + c[2:] if c.startswith("__") else c


class Conv:
    """Translate one convert method for one concrete class. Values are typed:
       'pv' (Python value), 'tok' (Token), 'op' (operation), 'ops' (list of operations)."""

    def __init__(self, om, concrete, defining, gen_convert, functions):
        self.om = om
        self.concrete = concrete
        self.defining = defining
        self.gen_convert = gen_convert      # callback(class, after=None) -> coq name of its convert
        self.functions = functions
        self.env = {}                        # local name -> (kind, term)
        self.fresh = 0
        self.binds = []

    def tmp(self, b):
        self.fresh += 1
        return "%s_%d" % (b, self.fresh)

    def is_self(self, n):
        return isinstance(n, ast.Name) and n.id == "self"

    def bind(self, term, base):
        v = self.tmp(base)
        self.binds.append((v, term))
        return v

    # -- expressions --------------------------------------------------------------
    def expr(self, n):
        c = const_fold(n)
        if c is not None and not (isinstance(n, ast.Constant) and type(n.value) is bool):
            return "pv", "(PI %s)" % coq_z(c)
        if isinstance(n, ast.Name):
            if n.id == "self":
                return "op", "self_"
            if n.id in self.env:
                return self.env[n.id]
            raise Unsupported(n, "unknown name %s" % n.id)
        if isinstance(n, ast.Subscript) and isinstance(n.value, ast.Attribute) and self.is_self(n.value.value):
            i = const_fold(n.slice)
            if i is None:
                raise Unsupported(n, "index must be literal")
            if n.value.attr == "tokens":
                return "tok", self.bind("tokens_at self_ %s" % coq_z(i), "t")
            if n.value.attr == "args":
                return "pv", self.bind("oargs_at self_ %s" % coq_z(i), "a")
        if isinstance(n, ast.BinOp):
            lk, lt = self.expr(n.left)
            rk, rt = self.expr(n.right)
            if lk == "ops" and rk == "ops" and isinstance(n.op, ast.Add):
                return "ops", "(%s ++ %s)" % (lt, rt)
            if lk == "pv" and rk == "pv":
                if isinstance(n.op, ast.BitAnd):
                    return "pv", "(py_band %s %s)" % (lt, rt)
                if isinstance(n.op, ast.RShift) and (const_fold(n.right) or -1) >= 0:
                    return "pv", "(py_shr %s %s)" % (lt, rt)
            raise Unsupported(n, "binary operation in convert")
        if isinstance(n, ast.List):
            items = []
            for e in n.elts:
                k, t = self.expr(e)
                if k != "op":
                    raise Unsupported(e, "list element is not an operation")
                items.append(t)
            return "ops", "[%s]" % "; ".join(items)
        if isinstance(n, ast.Call):
            return self.call(n)
        raise Unsupported(n, "expression in convert")

    def call(self, n):
        f = n.func
        # Token.R(x) / Token.Int(x) / Token(Token.INT, x)
        if isinstance(f, ast.Attribute) and isinstance(f.value, ast.Name) and f.value.id == "Token":
            if f.attr in ("R", "Int", "Sym") and len(n.args) == 1 and not n.keywords:
                k, t = self.expr(n.args[0])
                if k != "pv":
                    raise Unsupported(n, "token payload")
                return "tok", "(%s %s)" % ({"R": "tok_reg", "Int": "tok_int", "Sym": "tok_sym"}[f.attr], t)
        if isinstance(f, ast.Name) and f.id in self.functions and len(n.args) == 1 and not n.keywords:
            info = self.functions[f.id]
            k, t = self.expr(n.args[0])
            if k != "pv":
                raise Unsupported(n, "argument kind")
            if info.kind == "pure":
                return "pv", "(%s %s)" % (info.coqname, t)
            if info.kind == "res":
                return "pv", self.bind("%s %s" % (info.coqname, t), "r")
            raise Unsupported(n, "state-dependent call in convert")
        # X.convert() / super().convert()
        if isinstance(f, ast.Attribute) and f.attr == "convert" and not n.args and not n.keywords:
            if (isinstance(f.value, ast.Call) and isinstance(f.value.func, ast.Name)
                    and f.value.func.id == "super" and not f.value.args):
                name = self.gen_convert(self.concrete, after=self.defining)
                return "ops", self.bind("%s self_" % name, "l")
            k, t = self.expr(f.value)
            if k != "op":
                raise Unsupported(n, ".convert() receiver")
            cls = getattr(self, "_last_cls", None)
            if cls is None:
                raise Unsupported(n, ".convert() on an operation of unknown class")
            name = self.gen_convert(cls)
            return "ops", self.bind("%s %s" % (name, t), "l")
        # operation construction: Cls(tok, ..., loc=...) / self.__class__(tok, ...)
        cls = None
        if isinstance(f, ast.Name) and f.id in self.om.classes:
            cls = f.id
        elif (isinstance(f, ast.Attribute) and f.attr == "__class__" and self.is_self(f.value)):
            cls = self.concrete
        if cls is not None:
            for kw in n.keywords:
                if kw.arg != "loc":
                    raise Unsupported(n, "keyword in operation construction")
            if len(n.args) == 1 and isinstance(n.args[0], ast.Starred):
                st = n.args[0].value
                if isinstance(st, ast.Attribute) and self.is_self(st.value) and st.attr == "tokens":
                    toks = "(o_toks self_)"
                elif isinstance(st, ast.Attribute) and self.is_self(st.value) and st.attr == "args":
                    # AbstractOperation.__init__ does `a.value for a in args`: the operand
                    # VALUES are ints/strs, which have no .value
                    self.binds.append(("_", "(match o_toks self_ with [] => Ok tt | _ => Raise AttributeError end)"))
                    toks = "[]"
                else:
                    raise Unsupported(n, "starred argument")
            else:
                items = []
                for a in n.args:
                    k, t = self.expr(a)
                    if k != "tok":
                        raise Unsupported(a, "operation argument is not a token")
                    items.append(t)
                toks = "[%s]" % "; ".join(items)
            self._last_cls = cls
            return "op", "(mkop O_%s %s)" % (cname_ident(cls), toks)
        raise Unsupported(n, "call in convert")

    def cond(self, n):
        # self.tokens[i].type ==/!= Token.K
        if (isinstance(n, ast.Compare) and len(n.ops) == 1 and isinstance(n.ops[0], (ast.Eq, ast.NotEq))
                and isinstance(n.left, ast.Attribute) and n.left.attr == "type"
                and isinstance(n.comparators[0], ast.Attribute)
                and isinstance(n.comparators[0].value, ast.Name) and n.comparators[0].value.id == "Token"
                and n.comparators[0].attr in TOKEN_TYPES):
            k, t = self.expr(n.left.value)
            if k != "tok":
                raise Unsupported(n, "type test on a non-token")
            c = "(ttype_eqb (t_type %s) %s)" % (t, TOKEN_TYPES[n.comparators[0].attr])
            return c if isinstance(n.ops[0], ast.Eq) else "(negb %s)" % c
        raise Unsupported(n, "condition in convert")

    # -- statements ----------------------------------------------------------------
    def wrap(self, body):
        out = body
        for v, term in reversed(self.binds):
            out = "%s <~ %s ;;\n%s" % (v, term, out)
        self.binds = []
        return out

    def stmts(self, body):
        if not body:
            raise Unsupported(ast.Pass(), "convert falls off the end")
        st, rest = body[0], body[1:]
        if isinstance(st, ast.Expr) and isinstance(st.value, ast.Constant) and isinstance(st.value.value, str):
            return self.stmts(rest)
        if isinstance(st, ast.Return):
            k, t = self.expr(st.value)
            if k != "ops":
                raise Unsupported(st, "convert must return a list of operations")
            return self.wrap("rret %s" % t)
        if isinstance(st, ast.Assign) and len(st.targets) == 1 and isinstance(st.targets[0], ast.Name):
            k, t = self.expr(st.value)
            pre = self.wrap("")
            name = coq_ident(st.targets[0].id)
            self.env[st.targets[0].id] = (k, name)
            return "%slet %s := %s in\n%s" % (pre, name, t, self.stmts(rest))
        if isinstance(st, ast.If):
            c = self.cond(st.test)
            pre = self.wrap("")
            env = dict(self.env)
            a = self.stmts(st.body + rest)
            self.env = dict(env)
            b = self.stmts(st.orelse + rest)
            self.env = env
            return "%s(if %s then\n%s\nelse\n%s)" % (pre, c, a, b)
        raise Unsupported(st, "statement in convert")


OPCODE_CONVERT_TEMPLATE = "return [disassemble(self.args[0], allow_unknown=True)]"


def gen_convert(om, functions, header):
    out = [header]
    done = {}
    order = []

    def gen(concrete, after=None):
        d, fn = om.find(concrete, "convert", after=after)
        if fn is None:
            raise Unsupported(ast.Pass(), "no convert for %s" % concrete)
        name = "convert_%s" % cname_ident(concrete) if after is None else \
            "convert_%s_via_%s" % (cname_ident(concrete), cname_ident(d))
        if name in done:
            if done[name] is None:
                raise Unsupported(fn, "recursive convert")
            return name
        done[name] = None
        if concrete == "OPCODE" and d == "OPCODE":
            body = [s for s in fn.body if not (isinstance(s, ast.Expr) and isinstance(s.value, ast.Constant))]
            tmpl = ast.parse(OPCODE_CONVERT_TEMPLATE.replace("return", "x =")).body[0].value
            if not (len(body) == 1 and isinstance(body[0], ast.Return)
                    and ast.dump(body[0].value) == ast.dump(tmpl)):
                raise Unsupported(fn, "OPCODE.convert is no longer `[disassemble(self.args[0], allow_unknown=True)]`")
            text = ("(* hera/op.py  OPCODE.convert = [disassemble(self.args[0], allow_unknown=True)]: shape "
                    "checked here, defined in Model/Bitvec.v (convert_full) *)\n"
                    "Definition convert_OPCODE (self_ : op) : res (list op) := Raise (ModelError %s).\n"
                    % (coq_string("OPCODE.convert is defined in Model/Bitvec.v"),))
        else:
            cv = Conv(om, concrete, d, gen, functions)
            body = cv.stmts(fn.body)
            text = ("(* hera/op.py  %s.convert as seen from %s *)\n"
                    "Definition %s (self_ : op) : res (list op) :=\n%s.\n" % (d, concrete, name, body))
        done[name] = text
        order.append(name)
        return name

    for c in om.concrete:
        try:
            gen(c)
        except Unsupported as e:
            raise Unsupported(e.node, "%s.convert: %s" % (c, e.why))
    for n in order:
        out.append(done[n] + "\n")
    out.append("Definition convert (o : op) : res (list op) :=\n  match o_cls o with\n%s\n  end.\n"
               % "\n".join("  | O_%s => convert_%s o" % (cname_ident(c), cname_ident(c)) for c in om.concrete))
    return "".join(out)


# ---- tables ------------------------------------------------------------------------------------

def ptype_term(om, node):
    if isinstance(node, ast.Name):
        simple = {"REGISTER": "P_REGISTER", "REGISTER_OR_LABEL": "P_REGISTER_OR_LABEL", "STRING": "P_STRING",
                  "LABEL_TYPE": "P_LABEL_TYPE", "I16_OR_LABEL": "P_I16_OR_LABEL", "I8_OR_LABEL": "P_I8_OR_LABEL"}
        if node.id in simple:
            # the module-level constant must still be the string of its own name
            v = om.consts.get(node.id)
            if not (isinstance(v, ast.Constant) and v.value == node.id):
                raise Unsupported(node, "parameter kind constant %s redefined" % node.id)
            return simple[node.id]
        if node.id in om.consts:
            return ptype_term(om, om.consts[node.id])
    if (isinstance(node, ast.Call) and isinstance(node.func, ast.Name) and node.func.id == "range"
            and not node.keywords and 1 <= len(node.args) <= 2):
        vals = [const_fold(a) for a in node.args]
        if None in vals:
            raise Unsupported(node, "range bound not constant")
        lo, hi = (0, vals[0]) if len(vals) == 1 else vals
        return "(P_RANGE %s %s)" % (coq_z(lo), coq_z(hi))
    raise Unsupported(node, "parameter kind")


def gen_tables(om, checker_tree, header):
    out = [header]
    rows_p, rows_b = [], []
    for c in om.concrete:
        _, p = om.find(c, "P")
        if p is None:
            raise Unsupported(om.classes[c].node, "class %s has no P" % c)
        if not isinstance(p, ast.Tuple):
            raise Unsupported(p, "P of %s is not a tuple literal" % c)
        rows_p.append("  | O_%s => [%s]" % (cname_ident(c), "; ".join(ptype_term(om, e) for e in p.elts)))
        _, b = om.find(c, "BITV")
        if not (isinstance(b, ast.Constant) and isinstance(b.value, str)):
            raise Unsupported(om.classes[c].node, "BITV of %s is not a string literal" % c)
        rows_b.append("  | O_%s => %s" % (cname_ident(c), coq_string(b.value)))
    out.append("Definition P_of (o : opname) : list ptype :=\n  match o with\n%s\n  end.\n\n" % "\n".join(rows_p))
    out.append("Definition BITV_of (o : opname) : string :=\n  match o with\n%s\n  end.\n\n" % "\n".join(rows_b))
    # name_to_class (order matters for disassemble)
    out.append("Definition name_to_class : list (string * opname) :=\n  [%s].\n\n"
               % ";\n   ".join("(%s, O_%s)" % (coq_string(k), cname_ident(c)) for k, c in om.name_to_class))
    # isinstance facts
    for base, fname in (("DataOperation", "is_data_op"), ("DebuggingOperation", "is_debugging_op"),
                        ("RegisterBranch", "is_register_branch"), ("RelativeBranch", "is_relative_branch"),
                        ("Branch", "is_branch")):
        yes = [c for c in om.concrete if base in om.mro(c)]
        out.append("Definition %s (o : opname) : bool :=\n  match o with\n  | %s => true\n  | _ => false\n  end.\n\n"
                   % (fname, " | ".join("O_" + cname_ident(c) for c in yes)))
    # which classes override assemble / typecheck / disassemble (the hand models must cover exactly these)
    for meth in ("assemble", "typecheck", "disassemble", "execute", "convert"):
        own = sorted({om.find(c, meth)[0] for c in om.concrete})
        out.append("Definition %s_definers : list string := [%s].\n" % (meth, "; ".join(coq_string(x) for x in own)))
    out.append("\n" + gen_operation_length(om, checker_tree))
    return "".join(out)


def gen_operation_length(om, tree):
    fns = {n.name: n for n in tree.body if isinstance(n, ast.FunctionDef)}
    if "operation_length" not in fns:
        raise Unsupported(tree, "checker.operation_length not found")
    fn = fns["operation_length"]

    def cond(n):
        if isinstance(n, ast.BoolOp) and isinstance(n.op, ast.And):
            return "(%s)" % " && ".join(cond(v) for v in n.values)
        if (isinstance(n, ast.Call) and isinstance(n.func, ast.Name) and n.func.id == "isinstance"
                and len(n.args) == 2 and isinstance(n.args[0], ast.Name) and n.args[0].id == "op"
                and isinstance(n.args[1], ast.Name)):
            base = n.args[1].id
            yes = [c for c in om.concrete if base in om.mro(c)]
            if not yes:
                raise Unsupported(n, "isinstance of unknown class")
            return "(existsb (opname_eqb (o_cls o)) [%s])" % "; ".join("O_" + cname_ident(c) for c in yes)
        if isinstance(n, ast.Compare) and len(n.ops) == 1:
            l, r, o = n.left, n.comparators[0], n.ops[0]
            # op.name == "X"
            if (isinstance(l, ast.Attribute) and l.attr == "name" and isinstance(l.value, ast.Name)
                    and l.value.id == "op" and isinstance(r, ast.Constant) and isinstance(r.value, str)
                    and isinstance(o, ast.Eq)):
                if r.value not in om.classes:
                    raise Unsupported(n, "op.name compared with unknown class %s" % r.value)
                return "(opname_eqb (o_cls o) O_%s)" % cname_ident(r.value)
            # len(op.tokens) == k
            if (isinstance(l, ast.Call) and isinstance(l.func, ast.Name) and l.func.id == "len"
                    and isinstance(o, ast.Eq) and const_fold(r) is not None):
                return "(zlen (o_toks o) =? %s)" % coq_z(const_fold(r))
            # op.tokens[i].type ==/!= Token.K
            if (isinstance(l, ast.Attribute) and l.attr == "type" and isinstance(l.value, ast.Subscript)
                    and isinstance(r, ast.Attribute) and r.attr in TOKEN_TYPES):
                i = const_fold(l.value.slice)
                t = "(ttype_eqb (t_type (nth %d (o_toks o) dummy_tok)) %s)" % (i, TOKEN_TYPES[r.attr])
                return t if isinstance(o, ast.Eq) else "(negb %s)" % t
        raise Unsupported(n, "condition in operation_length")

    def body(stmts):
        st = [s for s in stmts if not (isinstance(s, ast.Expr) and isinstance(s.value, ast.Constant))]
        if len(st) == 1 and isinstance(st[0], ast.Return) and const_fold(st[0].value) is not None:
            return coq_z(const_fold(st[0].value))
        if len(st) == 1 and isinstance(st[0], ast.If):
            return "(if %s then %s else %s)" % (cond(st[0].test), body(st[0].body), body(st[0].orelse))
        raise Unsupported(st[0] if st else fn, "statement in operation_length")

    return ("(* hera/checker.py *)\nDefinition operation_length (o : op) : Z :=\n%s.\n"
            % (body(fn.body),))
