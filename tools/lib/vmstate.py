"""
vmstate — one abstract description of a machine state, convertible to
  * a Gallina `vm` term for the model,
  * a real hera.vm.VirtualMachine,
and the decoding of the model's encoded result / snapshot of the real machine into the
same canonical Python dict so the two can be diffed.
"""
import contextlib
import io
import sys

from coqrun import pairs, pv, pvlist, z, zlist

EXN_NAMES = {1: "IndexError", 2: "ValueError", 3: "KeyError", 4: "TypeError",
             5: "AttributeError", 6: "HERAError", 7: "NotImplementedError",
             8: "RuntimeError", 9: "SystemExit", 10: "OutOfFuel", 11: "ModelError"}


class St:
    """Abstract pre-state. flags: dict name->bool|int ; mem: dict addr->val (+ mlen)."""

    def __init__(self, regs=None, pc=0, dc=None, flags=None, mem=None, mlen=16, halted=False,
                 ers=(), op_count=0, warned_ovf=False, warning_count=0, swarning_count=0,
                 data_start=0xC001, warn_return_on=True, init=(), throttle=None,
                 input_buffer="", input_pos=0):
        self.regs = list(regs) if regs is not None else [0] * 16
        self.pc = pc
        self.data_start = data_start
        self.dc = data_start if dc is None else dc
        self.flags = {"s": False, "z": False, "v": False, "c": False, "cb": False}
        if flags:
            self.flags.update(flags)
        self.mem = dict(mem or {})
        self.mlen = max([mlen] + [a + 1 for a in self.mem])
        self.halted = halted
        self.ers = list(ers)
        self.op_count = op_count
        self.warned_ovf = warned_ovf
        self.warning_count = warning_count
        self.swarning_count = swarning_count
        self.warn_return_on = warn_return_on
        self.init = list(init)
        self.throttle = throttle
        self.input_buffer = input_buffer
        self.input_pos = input_pos

    def to_json(self):
        d = dict(self.__dict__)
        d["mem"] = {str(k): v for k, v in self.mem.items()}
        return d

    def settings_term(self):
        thr = "None" if self.throttle is None else "(Some %s)" % z(self.throttle)
        return "(mksettings %s %s %s %s)" % (
            z(self.data_start), "true" if self.warn_return_on else "false", pairs(self.init), thr)

    def term(self):
        f = self.flags
        cells = pairs(sorted(self.mem.items()))
        return ("(mkvm %s %s %s %s %s %s %s %s (mkmem %s %s) %s %s %s %s (PB false) (PB false) %s %s PNone %s %s [] %s)"
                % (zlist(self.regs), z(self.pc), z(self.dc), pv(f["s"]), pv(f["z"]), pv(f["v"]),
                   pv(f["c"]), pv(f["cb"]), z(self.mlen), cells, pv(self.halted), pairs(self.ers),
                   z(self.op_count), pv(self.warned_ovf), z(self.warning_count),
                   z(self.swarning_count), zlist([ord(c) for c in self.input_buffer]),
                   z(self.input_pos), self.settings_term()))

    def make_settings(self):
        from hera.data import Settings
        st = Settings()
        st.color = False
        st.data_start = self.data_start
        st.warn_return_on = self.warn_return_on
        st.init = list(self.init)
        st.throttle = False if self.throttle is None else self.throttle
        st.warning_count = self.swarning_count
        return st

    def make_vm(self):
        from hera.vm import VirtualMachine
        vm = VirtualMachine(self.make_settings())
        vm.registers = list(self.regs)
        vm.pc = self.pc
        vm.dc = self.dc
        vm.flag_sign = self.flags["s"]
        vm.flag_zero = self.flags["z"]
        vm.flag_overflow = self.flags["v"]
        vm.flag_carry = self.flags["c"]
        vm.flag_carry_block = self.flags["cb"]
        vm.memory = [0] * self.mlen
        for a, v in self.mem.items():
            vm.memory[a] = v
        vm.halted = self.halted
        vm.expected_returns = list(self.ers)
        vm.op_count = self.op_count
        vm.warned_for_overflow = self.warned_ovf
        vm.warning_count = self.warning_count
        vm.input_buffer = self.input_buffer
        vm.input_pos = self.input_pos
        return vm


# ---- decoding the model's encoding ----------------------------------------------------

class Reader:
    def __init__(self, l):
        self.l = l
        self.i = 0

    def int(self):
        v = self.l[self.i]
        self.i += 1
        return v

    def pv(self):
        t = self.int()
        if t == 0:
            return None
        if t == 1:
            return bool(self.int())
        if t == 2:
            return self.int()
        if t == 3:
            n = self.int()
            return "".join(chr(self.int()) for _ in range(n))
        if t == 4:
            return ("format_int", self.int())
        raise ValueError("bad pv tag %r" % t)

    def string(self):
        n = self.int()
        return "".join(chr(self.int()) for _ in range(n))

    def list(self, f):
        n = self.int()
        return [f() for _ in range(n)]

    def done(self):
        return self.i == len(self.l)


def canon_val(v):
    """bool and int are distinguished (that is what C02 is about)."""
    if isinstance(v, bool):
        return ["bool", v]
    return v


def decode_vm(r):
    d = {}
    d["regs"] = r.list(r.int)
    d["pc"] = r.int()
    d["dc"] = r.int()
    d["flags"] = {k: canon_val(r.pv()) for k in ("s", "z", "v", "c", "cb")}
    mlen = r.int()
    cells = r.list(lambda: (r.int(), r.int()))
    mem = {}
    for k, v in cells:        # newest first: first binding wins
        if k not in mem:
            mem[k] = v
    d["mlen"] = mlen
    d["mem"] = {k: v for k, v in sorted(mem.items()) if v != 0}
    d["halted"] = canon_val(r.pv())
    d["ers"] = [list(p) for p in r.list(lambda: (r.int(), r.int()))]
    d["op_count"] = r.int()
    d["warned_ovf"] = canon_val(r.pv())
    r.pv()
    r.pv()
    d["warning_count"] = r.int()
    d["swarning_count"] = r.int()
    r.pv()  # location
    d["input_buffer"] = "".join(chr(c) for c in r.list(r.int))
    d["input_pos"] = r.int()
    d["stdout"], d["stderr"] = render_events(r.list(lambda: decode_event(r)))
    return d


def decode_event(r):
    kind = r.int()
    fmt = r.string()
    args = r.list(r.pv)
    if kind == 1:
        return ("out", fmt, args, bool(r.int()))
    loc = r.pv()
    return ("warn" if kind == 2 else "err", fmt, args, loc)


def render_arg(a):
    if isinstance(a, tuple) and a[0] == "format_int":
        from hera.utils import format_int
        return format_int(a[1])
    return a


def render_events(events):
    out, err = [], []
    for kind, fmt, args, extra in events:
        text = fmt.format(*[render_arg(a) for a in args])
        if kind == "out":
            out.append(text + ("\n" if extra else ""))
        elif kind == "warn":
            err.append("Warning: " + text + "\n")
        else:
            err.append("Error: " + text + "\n")
    return "".join(out), "".join(err)


def decode_result(l, with_value=False):
    r = Reader(l)
    tag = r.int()
    if tag == 1:
        code = r.int()
        return {"raise": EXN_NAMES.get(code, "?%d" % code)}
    d = {}
    if with_value:
        d["value"] = canon_val(r.pv())
    d.update(decode_vm(r))
    if not r.done():
        raise ValueError("trailing data in encoded result")
    return d


# ---- snapshot of the real machine ---------------------------------------------------------

def plain(x):
    """hera.data.Label / DataLabel / Constant are ints with a class of their own: what the machine holds is the
    integer (bools and anything that is no int at all are kept, so that the well-formedness oracle sees them)."""
    return int(x) if isinstance(x, int) and not isinstance(x, bool) else x


def snapshot_vm(vm, stdout="", stderr=""):
    d = {}
    d["regs"] = [plain(x) for x in vm.registers]
    d["pc"] = plain(vm.pc)
    d["dc"] = plain(vm.dc)
    d["flags"] = {"s": canon_val(vm.flag_sign), "z": canon_val(vm.flag_zero),
                  "v": canon_val(vm.flag_overflow), "c": canon_val(vm.flag_carry),
                  "cb": canon_val(vm.flag_carry_block)}
    d["mlen"] = len(vm.memory)
    d["mem"] = {k: plain(v) for k, v in enumerate(vm.memory) if v != 0}
    d["halted"] = canon_val(vm.halted)
    d["ers"] = [[plain(x) for x in p] for p in vm.expected_returns]
    d["op_count"] = vm.op_count
    d["warned_ovf"] = canon_val(getattr(vm, "warned_for_overflow", None))
    d["warning_count"] = vm.warning_count
    d["swarning_count"] = vm.settings.warning_count
    d["input_buffer"] = vm.input_buffer
    d["input_pos"] = vm.input_pos
    d["stdout"] = stdout
    d["stderr"] = stderr
    return d


@contextlib.contextmanager
def captured():
    out, err = io.StringIO(), io.StringIO()
    o, e = sys.stdout, sys.stderr
    sys.stdout, sys.stderr = out, err
    try:
        yield out, err
    finally:
        sys.stdout, sys.stderr = o, e


def run_real(fn):
    """Run fn() capturing output; map exceptions to the model's names."""
    with captured() as (out, err):
        try:
            v = fn()
            exc = None
        except SystemExit as e:
            v, exc = None, "SystemExit"
        except BaseException as e:  # noqa
            v, exc = None, type(e).__name__
    return v, exc, out.getvalue(), err.getvalue()


def diff(a, b, path=""):
    """First difference between two canonical structures, or None."""
    if type(a) != type(b):
        return "%s: %r vs %r" % (path, a, b)
    if isinstance(a, dict):
        for k in sorted(set(a) | set(b), key=str):
            if k not in a or k not in b:
                return "%s.%s: %r vs %r" % (path, k, a.get(k), b.get(k))
            d = diff(a[k], b[k], "%s.%s" % (path, k))
            if d:
                return d
        return None
    if isinstance(a, list):
        if len(a) != len(b):
            return "%s: length %d vs %d" % (path, len(a), len(b))
        for i, (x, y) in enumerate(zip(a, b)):
            d = diff(x, y, "%s[%d]" % (path, i))
            if d:
                return d
        return None
    return None if a == b else "%s: %r vs %r" % (path, a, b)
