"""
coqrun — evaluate batches of closed Gallina terms of type `list Z` inside Coq
(`Eval vm_compute`), sharded over several coqc processes, and parse the printed lists.
"""
import os
import re
import shutil
import subprocess
import sys
from concurrent.futures import ThreadPoolExecutor

VERIF = os.path.dirname(os.path.dirname(os.path.dirname(os.path.abspath(__file__))))
COQ_DIR = os.path.join(VERIF, "coq")
WORK = os.path.join(VERIF, "work")

COQ_LOADPATH = []
for d in ("Lib", "Gen", "Spec", "Model", "Proofs", "Properties"):
    COQ_LOADPATH += ["-Q", os.path.join(COQ_DIR, d), "Hera." + d]


class CoqRunError(Exception):
    pass


def parse_lists(text):
    """Parse the output of `Eval vm_compute in (l : list (list Z))` — possibly several
    Evals — into a list of lists of ints."""
    results = []
    # each Eval prints "     = [[..]; [..]]\n     : list (list Z)"
    for m in re.finditer(r"=\s*(\[.*?\])\s*:\s*list \(list Z\)", text, flags=re.S):
        body = m.group(1)
        body = body.replace("%Z", "")
        depth = 0
        cur = None
        num = ""
        for ch in body:
            if ch == "[":
                depth += 1
                if depth == 2:
                    cur = []
            elif ch == "]":
                if num:
                    cur.append(int(num))
                    num = ""
                if depth == 2:
                    results.append(cur)
                    cur = None
                depth -= 1
            elif ch in "-0123456789":
                num += ch
            else:
                if num:
                    cur.append(int(num))
                    num = ""
    return results


def run_shard(path):
    import shlex
    cmd = ["bash", "-c", "ulimit -s unlimited 2>/dev/null; exec timeout 900 coqc "
           + " ".join(shlex.quote(x) for x in COQ_LOADPATH + [path])]
    p = subprocess.run(cmd, stdout=subprocess.PIPE, stderr=subprocess.PIPE, text=True)
    if p.returncode != 0:
        raise CoqRunError("coqc failed on %s:\n%s" % (path, (p.stdout + p.stderr)[-3000:]))
    return parse_lists(p.stdout)


def eval_cases(tag, header, terms, shard=300, jobs=None):
    """terms: list of Gallina terms of type `list Z`.  Returns list of int lists (same order)."""
    d = os.path.join(WORK, "corr", tag)
    shutil.rmtree(d, ignore_errors=True)
    os.makedirs(d)
    paths = []
    for k in range(0, len(terms), shard):
        chunk = terms[k:k + shard]
        name = "cases_%s_%04d" % (re.sub(r"\W", "_", tag), k // shard)
        path = os.path.join(d, name + ".v")
        with open(path, "w") as f:
            f.write(header)
            f.write("\nSet Printing Depth 100000000.\nSet Printing Width 1000000.\n")
            f.write("Definition cases : list (list Z) :=\n  [\n   ")
            f.write(";\n   ".join(chunk))
            f.write("\n  ].\nEval vm_compute in cases.\n")
        paths.append(path)
    jobs = jobs or min(16, max(1, len(paths)))
    with ThreadPoolExecutor(max_workers=jobs) as ex:
        outs = list(ex.map(run_shard, paths))
    res = []
    for o, k in zip(outs, range(0, len(terms), shard)):
        n = len(terms[k:k + shard])
        if len(o) != n:
            raise CoqRunError("shard %d: expected %d results, parsed %d" % (k // shard, n, len(o)))
        res += o
    shutil.rmtree(d, ignore_errors=True)
    return res


# ---- Gallina literals --------------------------------------------------------------

def z(n):
    return str(n) if n >= 0 else "(%d)" % n


def zlist(l):
    return "[" + "; ".join(z(x) for x in l) + "]"


def pv(v):
    if v is None:
        return "PNone"
    if v is True:
        return "(PB true)"
    if v is False:
        return "(PB false)"
    if isinstance(v, int):
        return "(PI %s)" % z(v)
    if isinstance(v, str):
        return "(PS %s)" % zlist([ord(c) for c in v])
    raise TypeError(v)


def pvlist(l):
    return "[" + "; ".join(pv(x) for x in l) + "]"


def pairs(l):
    return "[" + "; ".join("(%s, %s)" % (z(a), z(b)) for a, b in l) + "]"
