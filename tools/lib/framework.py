"""
framework — the shared flow of every check (DESIGN.md §6):

  regenerate Gen -> build the property's Coq cone -> re-check the property file (Print
  Assumptions) -> correspondence -> known-finding replays -> evidence -> verdict
  (on any break: search for a failing input, then VIOLATION).
"""
import fcntl
import json
import os
import random
import re
import subprocess
import sys
import time

VERIF = os.path.dirname(os.path.dirname(os.path.dirname(os.path.abspath(__file__))))
COQ_DIR = os.path.join(VERIF, "coq")
WORK = os.path.join(VERIF, "work")
REPO = os.environ.get("VERIF_REPO", "/repo")
sys.path.insert(0, os.path.join(VERIF, "tools", "lib"))
sys.path.insert(0, REPO)
os.environ.setdefault("PYTHONHASHSEED", "0")

import coqrun  # noqa: E402

TRUSTED_BASE_COMMON = [
    "Coq 8.16.1 kernel (coqc); vm_compute (bytecode VM) for finite sweeps; no native_compute",
    "tools/translate (Python-ast -> Gallina translator, fail-closed) and coq/Lib/Py.v, coq/Lib/Machine.v "
    "(hand-written Python value / VirtualMachine state semantics), validated each run by differential "
    "execution of the generated definitions against the real hera-py code",
    "coq/Spec/*.v: hand-written specification (my reading of HERA 2.4 and hera-py's doc strings)",
    "correspondence harness tools/props/*.py + tools/lib/*.py (sampling; coverage reported in this file)",
]


class Ctx:
    def __init__(self, pid, tier, seed):
        self.pid = pid
        self.tier = tier
        self.seed = seed
        self.rng = random.Random((seed * 1000003) ^ hash_str(pid))
        self.t0 = time.time()
        self.notes = []
        self.repo = REPO

    def log(self, msg):
        sys.stderr.write("[%s %6.1fs] %s\n" % (self.pid, time.time() - self.t0, msg))
        sys.stderr.flush()


def hash_str(s):
    h = 0
    for ch in s:
        h = (h * 131 + ord(ch)) & 0xFFFFFFFF
    return h


class Lock:
    def __enter__(self):
        os.makedirs(WORK, exist_ok=True)
        self.f = open(os.path.join(WORK, "lock"), "w")
        fcntl.flock(self.f, fcntl.LOCK_EX)
        return self

    def __exit__(self, *a):
        fcntl.flock(self.f, fcntl.LOCK_UN)
        self.f.close()


def regenerate(ctx):
    """Run the translator. Returns (ok, message)."""
    p = subprocess.run([sys.executable, os.path.join(VERIF, "tools", "translate", "gen.py"),
                        "--repo", REPO, "--out", os.path.join(COQ_DIR, "Gen")],
                       stdout=subprocess.PIPE, stderr=subprocess.PIPE, text=True)
    msg = (p.stdout + p.stderr).strip()
    ctx.log("translate: " + msg.replace("\n", " | "))
    # 0 = every generated file written; 3 = some files could not be regenerated and were replaced by files that do not
    # compile (GEN-PARTIAL): only what depends on them stops checking; anything else = the translator itself failed
    return ("ok" if p.returncode == 0 else "partial" if p.returncode == 3 else "failed"), msg


def ensure_makefile():
    mk = os.path.join(COQ_DIR, "Makefile")
    cp = os.path.join(COQ_DIR, "_CoqProject")
    if not os.path.exists(mk) or os.path.getmtime(mk) < os.path.getmtime(cp):
        subprocess.run(["coq_makefile", "-f", "_CoqProject", "-o", "Makefile"], cwd=COQ_DIR,
                       stdout=subprocess.PIPE, stderr=subprocess.PIPE)


def build(ctx, targets, timeout=3000):
    """make the given .vo targets (full .vo build). Returns (ok, log)."""
    ensure_makefile()
    cmd = ["timeout", str(timeout), "make", "-j16"] + targets
    p = subprocess.run(cmd, cwd=COQ_DIR, stdout=subprocess.PIPE, stderr=subprocess.STDOUT, text=True)
    ok = p.returncode == 0
    ctx.log("build %s: %s" % (" ".join(targets), "ok" if ok else "FAILED"))
    return ok, p.stdout


def first_error(log):
    m = re.search(r'File "([^"]+)", line (\d+), characters [^\n]*\n(Error:.*?)(?:\n\n|\nmake)', log, flags=re.S)
    if m:
        return {"file": m.group(1), "line": int(m.group(2)), "error": m.group(3)[:1500]}
    return {"error": log[-1500:]}


LAST_GOOD = os.path.join(WORK, "gen_lastgood")


def keep_last_good_generation():
    import shutil
    os.makedirs(LAST_GOOD, exist_ok=True)
    for f in os.listdir(os.path.join(COQ_DIR, "Gen")):
        if f.endswith(".v"):
            src, dst = os.path.join(COQ_DIR, "Gen", f), os.path.join(LAST_GOOD, f)
            try:
                if not os.path.exists(dst) or open(src).read() != open(dst).read():
                    shutil.copyfile(src, dst)
            except OSError:
                pass


def restore_last_good_generation(ctx):
    import shutil
    # the generation kept by the last run on which the translator succeeded; failing that (a fresh copy of /verif whose
    # very first run meets a tree the translator refuses) the generation from the pinned tree that is committed with the
    # translator.  Either is used for the search only, never for the verdict.
    source = LAST_GOOD if os.path.isdir(LAST_GOOD) and os.listdir(LAST_GOOD) else os.path.join(VERIF, "tools", "translate", "baseline_gen")
    if not os.path.isdir(source):
        return False
    n = 0
    for f in os.listdir(source):
        src, dst = os.path.join(source, f), os.path.join(COQ_DIR, "Gen", f)
        try:
            if not os.path.exists(dst) or open(src).read() != open(dst).read():
                shutil.copyfile(src, dst)
                n += 1
        except OSError:
            return False
    ctx.log("search: the last generation that succeeded is put back (%d file(s)); it is regenerated on the next run" % n)
    return True


def stub_in_log(log):
    """Does the build fail in a generated file that the translator replaced by its non-compiling stand-in?"""
    for m in re.finditer(r'File "([^"]*Gen/[^"]+\.v)"', log):
        path = m.group(1)
        try:
            with open(os.path.join(COQ_DIR, path) if not os.path.isabs(path) else path) as f:
                if f.read(16).startswith("(* GEN-FAILED"):
                    return True
        except OSError:
            pass
    return False


def theorem_at(path, line):
    """Name of the Lemma/Theorem enclosing `line` of a .v file."""
    try:
        with open(os.path.join(COQ_DIR, path) if not os.path.isabs(path) else path) as f:
            lines = f.readlines()
    except OSError:
        return None
    for i in range(min(line, len(lines)) - 1, -1, -1):
        m = re.match(r"\s*(Theorem|Lemma|Corollary|Example|Definition|Fixpoint)\s+(\w+)", lines[i])
        if m:
            return m.group(2)
    return None


def check_property_file(ctx, pid):
    """Compile Properties/<pid>.v afresh to collect the Print Assumptions output.
    Returns (ok, theorems, assumptions_text, log)."""
    path = os.path.join(COQ_DIR, "Properties", pid + ".v")
    with open(path) as f:
        src = f.read()
    theorems = re.findall(r"^\s*(?:Theorem|Corollary)\s+(\w+)", src, flags=re.M)
    cmd = ["timeout", "900", "coqc"] + coqrun.COQ_LOADPATH + [path]
    p = subprocess.run(cmd, cwd=COQ_DIR, stdout=subprocess.PIPE, stderr=subprocess.STDOUT, text=True)
    ok = p.returncode == 0
    closed = len(re.findall(r"Closed under the global context", p.stdout))
    axioms = sorted(set(re.findall(r"^(\w[\w.]*)\s*:", p.stdout, flags=re.M)) - set(theorems) - {"Warning"})
    ctx.log("property file %s: %s, %d theorems, %d closed, axioms=%s"
            % (pid, "ok" if ok else "FAILED", len(theorems), closed, axioms))
    return ok, theorems, {"closed_under_global_context": closed, "axioms": axioms,
                          "raw": p.stdout[-4000:]}, p.stdout


def coqchk(ctx, pid):
    """Re-check the compiled property file and everything it depends on with the independent
    checker; it must report no axiom, no type-in-type, no unsafe fixpoint, no assumed positivity."""
    cmd = ["timeout", "3000", "coqchk", "-silent", "-o"] + coqrun.COQ_LOADPATH + ["Hera.Properties." + pid]
    p = subprocess.run(cmd, cwd=COQ_DIR, stdout=subprocess.PIPE, stderr=subprocess.STDOUT, text=True)
    summary = p.stdout[p.stdout.find("CONTEXT SUMMARY"):] if "CONTEXT SUMMARY" in p.stdout else p.stdout[-1500:]
    items = re.findall(r"\* ([^:\n]+):\s*(.*?)\n\s*\n", summary + "\n\n", flags=re.S)
    info = {k.strip(): " ".join(v.split()) for k, v in items}
    if p.returncode == 124:
        # the independent checker does not use the bytecode VM: cones that contain the 65536-word sweeps
        # (C05_Sweep, C06_Decode, Word16) can take hours.  Not completing is recorded, it is not a failure.
        ctx.log("coqchk %s: not completed within the time limit" % pid)
        ctx.notes.append("coqchk did not complete within 50 min on this cone (it re-evaluates the vm_compute sweeps "
                         "without the VM); coqc's kernel checked every file")
        return True, {"completed": False}
    ok = p.returncode == 0 and all(info.get(k) == "<none>" for k in (
        "Axioms", "Constants/Inductives relying on type-in-type",
        "Constants/Inductives relying on unsafe (co)fixpoints", "Inductives whose positivity is assumed"))
    ctx.log("coqchk %s: %s %s" % (pid, "ok" if ok else "FAILED", info))
    info["completed"] = True
    return ok, info if info else {"raw": summary[-1500:]}


AUDIT_RE = re.compile(r"\b(Admitted|admit|Axiom|Parameter|Conjecture|Unset Guard|bypass_check|type-in-type|impredicative-set)\b")


def audit_sources():
    bad = []
    for root, _, files in os.walk(COQ_DIR):
        for fn in files:
            if fn.endswith(".v"):
                p = os.path.join(root, fn)
                with open(p) as f:
                    for i, line in enumerate(f, 1):
                        code = re.sub(r"\(\*.*?\*\)", "", line)
                        if AUDIT_RE.search(code):
                            bad.append("%s:%d: %s" % (os.path.relpath(p, COQ_DIR), i, line.strip()))
    return bad


def load_known_findings(pid):
    with open(os.path.join(VERIF, "known_findings.json")) as f:
        kf = json.load(f)
    return [e for e in kf["findings"] if e["property"] == pid]


def write_replay(ctx, name, payload):
    d = os.path.join(WORK, "replay")
    os.makedirs(d, exist_ok=True)
    path = os.path.join(d, "%s_%s.json" % (ctx.pid, name))
    with open(path, "w") as f:
        json.dump(payload, f, indent=1, default=str)
    return path


def write_evidence(ctx, coverage, assumptions, violations):
    ev = {
        "property_id": ctx.pid,
        "tier": ctx.tier,
        "seed": ctx.seed,
        "level": "proof",
        "coverage": coverage,
        "assumptions": assumptions,
        "wall_s": round(time.time() - ctx.t0, 2),
        "violations": violations,
    }
    os.makedirs(os.path.join(VERIF, "evidence"), exist_ok=True)
    path = os.path.join(VERIF, "evidence", ctx.pid + ".json")
    with open(path, "w") as f:
        json.dump(ev, f, indent=1, default=str)
    return path


def run_check(mod, argv):
    """mod: a property module with attributes
         PID, TARGETS (list of .vo), ASSUMPTIONS (list of str), TRUSTED (list of str)
         correspondence(ctx) -> dict(cases=int, nontrivial=int, rule=str, samples=[...],
                                     distribution={...}, disagreements=[{...}], exhaustive=bool)
         search(ctx, reason) -> failing-input dict or None     (optional)
         known_replays(ctx, findings) -> list of (finding, reproduced: bool)   (optional)
    """
    import argparse
    ap = argparse.ArgumentParser()
    ap.add_argument("--tier", default=os.environ.get("VERIF_TIER", "quick"))
    ap.add_argument("--replay")
    a = ap.parse_args(argv)
    tier = a.tier if a.tier in ("quick", "thorough") else "quick"
    seed = int(os.environ.get("VERIF_SEED", "0") or 0)
    ctx = Ctx(mod.PID, tier, seed)
    if a.replay:
        return mod.replay(ctx, a.replay)

    import glob
    for old_replay in glob.glob(os.path.join(WORK, "replay", mod.PID + "_*.json")):
        os.remove(old_replay)
    breaks = []        # list of dicts describing what no longer checks
    violations = []    # list of (what, replay_path, found_input: bool)
    corr = None
    theorems, assumptions_info = [], {}
    discharged = 0

    with Lock():
        gen_state, msg = regenerate(ctx)
        if gen_state == "ok":
            keep_last_good_generation()
        if gen_state == "failed":
            breaks.append({"kind": "translator", "detail": msg})
        else:
            ok, log = build(ctx, mod.TARGETS)
            if not ok and gen_state == "partial" and stub_in_log(log):
                # this property's cone needs a file the translator could not regenerate
                breaks.append({"kind": "translator", "detail": msg})
                # the verdict stands; for the search for a failing input the last generation that succeeded is put
                # back, so that model and specification can still be evaluated against the changed code
                if restore_last_good_generation(ctx):
                    build(ctx, mod.TARGETS)
            elif not ok:
                err = first_error(log)
                if "file" in err:
                    err["theorem"] = theorem_at(err["file"], err["line"])
                breaks.append({"kind": "proof", "detail": err})
            else:
                ok, theorems, assumptions_info, plog = check_property_file(ctx, mod.PID)
                if not ok:
                    breaks.append({"kind": "proof", "detail": first_error(plog)})
                else:
                    discharged = len(theorems)
                if assumptions_info.get("axioms"):
                    allowed = set(getattr(mod, "ALLOWED_AXIOMS", []))
                    extra = [x for x in assumptions_info["axioms"] if x not in allowed]
                    if extra:
                        breaks.append({"kind": "axioms", "detail": extra})
        if tier == "thorough":
            bad = audit_sources()
            if bad:
                breaks.append({"kind": "audit", "detail": bad})
            if not breaks and os.environ.get("VERIF_SKIP_COQCHK") == "1":
                # for sweeps of the correspondence at thorough sizes only; never set by the registered commands
                assumptions_info["coqchk"] = "skipped (VERIF_SKIP_COQCHK=1)"
                ctx.notes.append("coqchk skipped on request (VERIF_SKIP_COQCHK=1)")
            elif not breaks:
                okc, detail = coqchk(ctx, mod.PID)
                assumptions_info["coqchk"] = detail
                if not okc:
                    breaks.append({"kind": "coqchk", "detail": detail})

        # correspondence runs even when a proof broke: its disagreements feed the search
        gen_ok = not any(b["kind"] == "translator" for b in breaks)
        try:
            corr = mod.correspondence(ctx, model_available=gen_ok and model_builds(ctx, mod))
        except coqrun.CoqRunError as e:
            breaks.append({"kind": "correspondence-run", "detail": str(e)[-1500:]})
            corr = {"cases": 0, "nontrivial": 0, "rule": "correspondence could not run", "samples": [],
                    "distribution": {}, "disagreements": [], "spec_failures": []}
        except Exception:  # noqa — the harness met something in the repository it cannot drive
            import traceback
            tb = traceback.format_exc()
            ctx.log("correspondence harness failed:\n" + tb[-1500:])
            breaks.append({"kind": "harness", "detail": tb[-2000:]})
            corr = {"cases": 0, "nontrivial": 0, "rule": "the correspondence harness could not drive the repository",
                    "samples": [], "distribution": {}, "disagreements": [], "spec_failures": []}

    known = load_known_findings(mod.PID)
    known_ids = {e["id"]: e for e in known if e["status"] == "known"}

    # disagreements model vs implementation
    for dg in corr.get("disagreements", []):
        breaks.append({"kind": "correspondence", "detail": dg})
    # failures of the property's oracle on the implementation (found inputs)
    found_inputs = list(corr.get("spec_failures", []))
    if breaks and hasattr(mod, "search"):
        ctx.log("searching for a failing input (%d break(s))" % len(breaks))
        try:
            extra = mod.search(ctx, breaks)
        except Exception:  # noqa
            import traceback
            ctx.log("search failed:\n" + traceback.format_exc()[-1000:])
            extra = None
        if extra:
            found_inputs += extra

    printed_known = set()
    for fi in found_inputs:
        kid = fi.get("known_id")
        if kid and kid in known_ids:
            if kid not in printed_known:
                print("KNOWN-FINDING: property=%s %s" % (mod.PID, known_ids[kid]["what"]))
                printed_known.add(kid)
            continue
        path = write_replay(ctx, "input_%d" % len(violations), {
            "property": mod.PID, "kind": "failing-input", "input": fi,
            "breaks": breaks[:5],
            "replay_cmd": "cd /verif && ./check %s --replay <this file>" % mod.PID})
        violations.append((fi.get("what", "failing input"), path, True))
    # known findings that are replayed explicitly
    if hasattr(mod, "known_replays"):
        for e, reproduced, extra_fail in mod.known_replays(ctx, known):
            if e["status"] == "known" and reproduced and e["id"] not in printed_known:
                print("KNOWN-FINDING: property=%s %s" % (mod.PID, e["what"]))
                printed_known.add(e["id"])
            if e["status"] == "fixed" and reproduced:
                path = write_replay(ctx, "regressed_%s" % e["id"], {
                    "property": mod.PID, "kind": "fixed-finding-returned", "finding": e,
                    "detail": extra_fail})
                violations.append(("fixed finding %s has returned" % e["id"], path, True))

    if breaks and not violations:
        # known findings do not excuse a broken obligation, unless every break is itself a
        # correspondence/oracle failure already attributed to a known finding
        unexplained = [b for b in breaks if not b.get("known_id")]
        if unexplained:
            b = unexplained[0]
            path = write_replay(ctx, "broken", {
                "property": mod.PID, "kind": "obligation-no-longer-checks",
                "broken": unexplained[:10],
                "note": "no failing input was found by the search; the property is no longer shown to hold"})
            violations.append(("%s no longer checks" % b["kind"], path, False))

    coverage = {
        "obligations": max(len(theorems), len(getattr(mod, "THEOREMS", [])), 1),
        "discharged": discharged,
        "checker_cmd": "cd /verif/coq && make %s && coqc Properties/%s.v" % (" ".join(mod.TARGETS), mod.PID),
        "trusted_base": TRUSTED_BASE_COMMON + list(getattr(mod, "TRUSTED", [])),
        "theorems": theorems,
        "print_assumptions": assumptions_info,
        "evaluations": corr.get("cases", 0),
        "distinct_nontrivial": corr.get("nontrivial", 0),
        "rule": corr.get("rule", ""),
        "samples": (corr.get("samples") or [])[:8] + [{"theorem": t} for t in theorems[:6]],
        "correspondence": {k: v for k, v in corr.items()
                           if k in ("cases", "distribution", "model_vs_impl_agree", "spec_vs_impl_agree",
                                    "skipped_unconstrained", "model_available")},
        "disagreements_checked": len(corr.get("disagreements", [])),
        "exhaustive": bool(corr.get("exhaustive", False)),
        "breaks": breaks[:10],
        "notes": ctx.notes + list(getattr(mod, "NOTES", [])),
    }
    write_evidence(ctx, coverage, list(getattr(mod, "ASSUMPTIONS", [])), len(violations))
    if violations:
        # one line per check: the first violation; the others are listed beside it
        what, path, found = violations[0]
        if len(violations) > 1:
            with open(path) as f:
                d = json.load(f)
            d["further_violations"] = [{"what": w, "replay": p} for w, p, _ in violations[1:]]
            with open(path, "w") as f:
                json.dump(d, f, indent=1, default=str)
        print("VIOLATION property=%s replay=%s%s" % (mod.PID, path, "" if found else " no-failing-input-found"))
    ctx.log("done: %d violation(s), %d obligations discharged" % (len(violations), discharged))
    return 1 if violations else 0


def model_builds(ctx, mod):
    """The executable model (Lib, Gen, Model glue) must compile for cases.v to run."""
    ok, log = build(ctx, getattr(mod, "MODEL_TARGETS", ["Model/InstrOf.vo", "Lib/Enc.vo"]))
    return ok
