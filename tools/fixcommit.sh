#!/bin/bash
# usage: fixcommit.sh "fix: message"  -- runs the pinned suite, commits /repo working tree if green
set -e
cd /repo
out=$(/venv/bin/python -m pytest -q -p no:cacheprovider --timeout=900 2>&1 | tail -1)
echo "$out"
case "$out" in *"893 passed"*) ;; *) echo "TESTS NOT GREEN"; exit 1;; esac
git add -A hera && git commit -q -m "$1" && git log --oneline | head -1
