#!/bin/bash
# usage: tools/quick_all.sh [seed...] — the quick tier of every check for each seed (default 0)
cd "$(dirname "$0")/.."
seeds="$@"; [ -z "$seeds" ] && seeds=0
for s in $seeds; do
  for p in C01 C02 C03 C04 C05 C06 C07 C08 C09 C10 C11 C12 C13 C14 C15 C16 C17 C18 C19; do
    out=$(VERIF_SEED=$s ./check $p 2>&1 | grep -E "VIOLATION|done:|Traceback" | cut -c1-200)
    echo "seed=$s $out"
    if echo "$out" | grep -q VIOLATION; then python3 - "$p" <<'PY'
import json,glob,sys
for f in sorted(glob.glob('work/replay/%s_*.json' % sys.argv[1]))[:1]:
    d=json.load(open(f)); print('   ', json.dumps(d.get('input') or d.get('broken'))[:900])
PY
    fi
  done
done
