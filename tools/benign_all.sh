#!/bin/bash
# usage: VERIF_REPO=<scratch copy of the repository> tools/benign_all.sh
# applies each behaviour-preserving rewrite kept under seeded/benign to the scratch copy and runs the quick tier of every
# check on it: anything but silence or `no-failing-input-found` (fail-closed translator) is a false alarm
cd "$(dirname "$0")/.."
[ -z "$VERIF_REPO" ] && { echo "VERIF_REPO must name a scratch copy"; exit 2; }
for d in ${BENIGN:-seeded/benign/R*}; do
  patch=$d/patch.diff
  ( cd "$VERIF_REPO" && git checkout -q -- . && git apply --3way "$OLDPWD/$patch" 2>/dev/null && git reset -q ) || { echo "== $d: patch does not apply"; continue; }
  echo "== $d"
  for p in C01 C02 C03 C04 C05 C06 C07 C08 C09 C10 C11 C12 C13 C14 C15 C16 C17 C18 C19; do
    out=$(./check $p 2>&1 | grep -E "VIOLATION|Traceback" | cut -c1-220)
    [ -n "$out" ] && echo "$p $out"
  done
  ( cd "$VERIF_REPO" && git checkout -q -- . )
done
echo "== done"
