"""C04 — labels, data labels and constants resolve to the right place in every mode."""
import os
import sys

sys.path.insert(0, os.path.join(os.path.dirname(os.path.abspath(__file__)), "..", "lib"))
sys.path.insert(0, os.path.dirname(os.path.abspath(__file__)))
import framework  # noqa: E402
import coqrun  # noqa: E402
import opcases as oc  # noqa: E402
import progcases as pc  # noqa: E402

PID = "C04"
TARGETS = ["Properties/C04.vo"]
MODEL_TARGETS = ["Model/Preproc.vo", "Model/EncOp.vo"]
ASSUMPTIONS = [
    "theorems are about Model/Preproc.v (hand model of checker.py and the typecheck half of op.py) over the "
    "generated operation_length / convert / P tables; the model is tied to the code by differential runs of "
    "the real parse+check on generated programs in all four modes",
    "programs shorter than 65536 instructions; CONSTANT with a numeric *string* operand is outside the model",
]
TRUSTED = ["coq/Model/Preproc.v"]
NOTES = []


def data_cells(d):
    cls, toks = d["cls"], d["toks"]
    if cls == "INTEGER":
        return 1
    if cls == "LP_STRING":
        return 1 + len(toks[0][1])
    if cls == "DSKIP":
        return toks[0][1]
    return 0


def oracle(text, cfg, src, out):
    """Independent check of the real check() output: where every symbol points."""
    if "raise" in out:
        return "check raised %s" % out["raise"]
    if out["errors"]:
        return None
    strip = cfg["mode"] in ("assemble", "preprocess")
    code, data = out["code"], out["data"]
    st = {k: (kind, v) for k, kind, v in out["symtab"] if isinstance(k, str)}
    # first code index produced by a source op with index >= i
    def first_code_at_or_after(i):
        for j, c in enumerate(code):
            if c["orig"] >= i:
                return j
        return len(code)
    consts = {}
    cells = 0
    for i, o in enumerate(src):
        cls, toks = o["cls"], o["toks"]
        if cls == "LABEL":
            want = first_code_at_or_after(i + 1)
            got = st.get(toks[0][1])
            if got != ("label", want):
                return "LABEL(%s) at source op %d is %r, the next instruction is number %d" % (toks[0][1], i, got, want)
        elif cls == "DLABEL":
            want = cfg["data_start"] + cells
            got = st.get(toks[0][1])
            if got != ("dlabel", want):
                return "DLABEL(%s) is %r, the next data cell is %d" % (toks[0][1], got, want)
        elif cls == "CONSTANT":
            v = toks[1][1]
            if isinstance(v, str):
                v = consts.get(v)
            consts[toks[0][1]] = v
            got = st.get(toks[0][1])
            if got != ("const", v):
                return "CONSTANT(%s) is %r, declared %r" % (toks[0][1], got, v)
        elif cls in ("INTEGER", "LP_STRING"):
            cells += data_cells(o)
        elif cls == "DSKIP":
            v = toks[0][1]
            cells += consts.get(v, 0) if isinstance(v, str) else v
    # an operation that is not expanded keeps its operands; a symbol among them is replaced by the symbol's value as
    # declared (a negative constant stays negative: seed C04f substituted its unsigned 16-bit reading)
    for j, c in enumerate(code + data):
        if not 0 <= c["orig"] < len(src):
            continue
        s = src[c["orig"]]
        if s["cls"] != c["cls"] or len(s["toks"]) != len(c["toks"]) or s["cls"] in ("LABEL", "DLABEL", "CONSTANT"):
            continue
        rel = s["cls"].endswith("R") and s["cls"] not in ("BR", "XOR", "OR", "LSR", "ASR")
        for i, (a, b) in enumerate(zip(s["toks"], c["toks"])):
            if a[0] != "SYMBOL" or a[1] not in st:
                continue
            kind, val = st[a[1]]
            if kind == "label":
                continue                    # code labels: the register forms expand, the relative forms carry a distance
            if rel and i == 0 and kind != "const":
                continue
            if list(b) != ["INT", val]:
                return "%s: operand %d names %s = %r, the preprocessed operation carries %r" % (s["cls"], i + 1, a[1], val, b)
    # relative branches carry the distance
    for j, c in enumerate(code):
        s = src[c["orig"]]
        if s["cls"].endswith("R") and s["cls"] not in ("BR", "XOR", "OR", "LSR", "ASR") and s["toks"] and s["toks"][0][0] == "SYMBOL":
            name = s["toks"][0][1]
            kind, val = st[name]
            want = val - j if kind != "const" else val
            if c["toks"][0] != ["INT", want]:
                return "%s(%s) at instruction %d carries %r, expected offset %d" % (s["cls"], name, j, c["toks"][0], want)
            if not -128 <= want < 128 and kind != "const":
                return "%s(%s) accepted with distance %d" % (s["cls"], name, want)
    return None


def runtime_layout(text, cfg):
    """Run/debug mode: the data statements, executed by the real machine after reset(), put their cells where the
    data labels say (seed C04d: the machine started its data counter somewhere else under --big-stack)."""
    if cfg["mode"] not in ("", "debug"):
        return None
    import io, contextlib
    from hera.checker import check
    from hera.data import DataLabel
    from hera.parser import parse
    from hera.vm import VirtualMachine
    st = pc.make_settings(cfg)
    try:
        with contextlib.redirect_stdout(io.StringIO()), contextlib.redirect_stderr(io.StringIO()):
            ops, msgs = parse(text, settings=st)
            if msgs.errors:
                return None
            prog, msgs2 = check(ops, st)
            if msgs2.errors or prog is None:
                return None
            vm = VirtualMachine(st)
            vm.reset()
            want = {}
            cells = []

            # names as written: a second parse, which check() has not touched (it substitutes symbols in place)
            ops0, _ = parse(text, settings=pc.make_settings(cfg))
            names = {}
            for o0, o1 in zip(ops0, ops):
                if type(o0).__name__ == "DLABEL" and o0.args and isinstance(o0.args[0], str):
                    names[id(o1)] = o0.args[0]

            def label_name(o):
                return names.get(id(o))
            src_data = [o for o in ops if type(o).__name__ in ("DLABEL", "INTEGER", "LP_STRING", "TIGER_STRING", "DSKIP")]
            conv = list(prog.data)
            ci = 0
            for o in src_data:
                if type(o).__name__ == "DLABEL":
                    if label_name(o) is not None:
                        want[label_name(o)] = vm.dc
                    continue
                if ci >= len(conv):
                    return None
                before = vm.dc
                conv[ci].execute(vm)
                if type(o).__name__ == "INTEGER":
                    cells.append((before, conv[ci].args[0]))
                ci += 1
    except SystemExit:
        return None
    for name, addr in want.items():
        v = prog.symbol_table.get(name)
        if isinstance(v, DataLabel) and int(v) != addr and 0 <= addr < 65536:
            return "DLABEL(%s) resolves to %d but the machine puts the next data cell at %d (data_start %d)" % (
                name, int(v), addr, cfg["data_start"])
    for addr, v in cells:
        if isinstance(v, int) and 0 <= addr < 65536 and vm.load_memory(addr) != (v & 0xFFFF):
            return "INTEGER(%d) was to be stored at %d, the machine holds %d there" % (v, addr, vm.load_memory(addr))
    return None


def include_twice_oracle():
    """A file included twice means its text twice: labels, relative offsets and constants of the whole program are
    those of the program with the file pasted in (seed C04g: the second copy shared operation objects with the
    first and inherited its offsets)."""
    import shutil
    import tempfile
    d = tempfile.mkdtemp()
    problems = []
    try:
        inc = "CMP(R1, R0)\nBZR(done)\nINC(R2, 1)\nSET(R3, done)\nBR(done)\n"
        layouts = [("SET(R1, 1)\n%s\nNOP()\nNOP()\n%s\nLABEL(done)\nHALT()\n", "forward"),
                   ("LABEL(done)\nNOP()\n%s\nINC(R4, 1)\nINC(R4, 2)\nINC(R4, 3)\n%s\nHALT()\n", "backward"),
                   ("%s\n" + "NOP()\n" * 120 + "%s\nLABEL(done)\nHALT()\n", "far")]
        open(os.path.join(d, "inc.hera"), "w").write(inc)
        for tmpl, what in layouts:
            main_text = tmpl % ('#include "inc.hera"', '#include "inc.hera"')
            pasted = tmpl % (inc.rstrip("\n"), inc.rstrip("\n"))
            for mode in ("", "assemble", "preprocess", "debug"):
                cfg = {"mode": mode, "allow_interrupts": mode in ("assemble", "preprocess"), "no_debug_ops": False, "data_start": 0xC001}
                mp = os.path.join(d, "main.hera")
                open(mp, "w").write(main_text)
                from hera.parser import parse
                from vmstate import run_real as rr
                res, exc, _, _ = rr(lambda: parse(main_text, path=mp, settings=pc.make_settings(cfg)))
                if exc:
                    problems.append("parsing a program that includes a file twice raised %s" % exc)
                    continue
                ops_i = res[0]
                ops_p, pm = pc.real_parse(pasted, cfg)
                a, b = pc.real_check(ops_i, cfg), pc.real_check(ops_p, cfg)
                strip = lambda r: {k: ([{kk: vv for kk, vv in c.items() if kk != "orig"} for c in v] if k in ("code", "data") else v)
                                   for k, v in r.items() if k in ("code", "data", "symtab", "errors")} if "raise" not in r else r
                if strip(a) != strip(b):
                    ca, cb = strip(a).get("code", []), strip(b).get("code", [])
                    k = next((i for i, (x, y) in enumerate(zip(ca, cb)) if x != y), min(len(ca), len(cb)))
                    problems.append("mode %r, %s layout: a program that includes a file twice is preprocessed differently from the same "
                                    "program with the file pasted in; first difference at instruction %d: %r vs %r; errors %r vs %r"
                                    % (mode, what, k, ca[k:k + 1], cb[k:k + 1], strip(a).get("errors"), strip(b).get("errors")))
                    break
    finally:
        shutil.rmtree(d, ignore_errors=True)
    return problems


def gen_cases(ctx, n):
    rng = ctx.rng
    cases = []
    for k in range(n):
        lines = pc.gen_valid(rng)
        if k % 4 == 0:
            lines = pc.mutate(rng, lines)
        cfg = pc.settings_for(rng)
        text = "\n".join(lines) + "\n"
        ops, pm = pc.real_parse(text, cfg)
        if ops is None or pm.get("errors"):
            continue
        desc = [oc.describe_real_op(o) for o in ops]
        for d in desc:
            d["toks"] = [list(pc.fix_tok(t)) for t in d["toks"]]
        cases.append((text, cfg, ops, desc))
    # relative branches to a label at the edges of the 8-bit distance, forwards and backwards, with pseudo-operations of
    # two instructions (and, where the mode drops them, debugging operations) in between (seed C04i accepted +128)
    for d in (126, 127, 128, 129, -127, -128, -129):
        for variant in range(2):
            n = abs(d)
            body = ["NOP()"] * (n - 1) if d > 0 else ["NOP()"] * n
            if variant == 1:
                body = ["SET(R1, 7)"] * 3 + body[6:]          # 3 x 2 instructions in place of 6 NOPs
                body.insert(rng.randrange(len(body)), "print_reg(R1)")
            br = rng.choice(["BRR", "BZR", "BNZR", "BCR"])
            lines = ["%s(edge)" % br] + body + ["LABEL(edge)", "HALT()"] if d > 0 else ["LABEL(edge)"] + body + ["%s(edge)" % br, "HALT()"]
            cfg = pc.settings_for(rng)
            if variant == 1 and cfg["mode"] not in ("assemble", "preprocess"):
                lines = [l for l in lines if l != "print_reg(R1)"]      # it would occupy a slot in run/debug mode
            text = "\n".join(lines) + "\n"
            ops, pm = pc.real_parse(text, cfg)
            if ops is None or pm.get("errors"):
                continue
            desc = [oc.describe_real_op(o) for o in ops]
            for dd in desc:
                dd["toks"] = [list(pc.fix_tok(t)) for t in dd["toks"]]
            cases.append((text, cfg, ops, desc))
    return cases


def correspondence(ctx, model_available=True):
    quick = ctx.tier == "quick"
    cases = gen_cases(ctx, 250 if quick else 4000)
    impl = [pc.real_check(ops, cfg) for _, cfg, ops, _ in cases]
    res = {"cases": len(cases), "disagreements": [], "spec_failures": [], "model_available": model_available,
           "distribution": {"accepted": 0, "rejected": 0, "with_labels": 0, "with_relative_label_branch": 0,
                            "with_debug_ops_stripped": 0, "modes": {}}}
    nontrivial = set()
    for (text, cfg, ops, desc), r in zip(cases, impl):
        dist = res["distribution"]
        dist["modes"][cfg["mode"] or "run"] = dist["modes"].get(cfg["mode"] or "run", 0) + 1
        if "raise" not in r and not r["errors"]:
            dist["accepted"] += 1
            has_label = any(d["cls"] == "LABEL" for d in desc)
            dist["with_labels"] += has_label
            rel = any(d["cls"].endswith("R") and d["toks"] and d["toks"][0][0] == "SYMBOL" for d in desc)
            dist["with_relative_label_branch"] += rel
            dbg = cfg["mode"] in ("assemble", "preprocess") and any(d["cls"].startswith("PRINT") for d in desc)
            dist["with_debug_ops_stripped"] += dbg
            if has_label or rel:
                nontrivial.add(text)
        else:
            dist["rejected"] += 1
        bad = oracle(text, cfg, desc, r) or runtime_layout(text, cfg)
        if bad:
            res["spec_failures"].append({"what": "mode %r: %s" % (cfg["mode"], bad), "program": text, "settings": cfg})
    if model_available:
        terms = ["enc_check (check %s %s)" % (pc.cs_term(cfg), pc.ops_term(desc)) for _, cfg, _, desc in cases]
        outs = coqrun.eval_cases("C04", pc.HEADER, terms, shard=60)
        agree = 0
        for (text, cfg, _, _), r, o in zip(cases, impl, outs):
            m = pc.decode_check(o)
            if m != r:
                diffk = [k for k in set(list(r) + list(m)) if r.get(k) != m.get(k)]
                res["disagreements"].append({"case": {"program": text, "settings": cfg}, "fields": diffk,
                                             "impl": {k: r.get(k) for k in diffk}, "model": {k: m.get(k) for k in diffk}})
            else:
                agree += 1
        res["model_vs_impl_agree"] = agree
    for b in include_twice_oracle():
        res["spec_failures"].append({"what": b})
    res["spec_failures"] = res["spec_failures"][:5]
    res["disagreements"] = res["disagreements"][:10]
    res["nontrivial"] = len(nontrivial)
    res["rule"] = ("generated programs (data section with constants, data labels, INTEGER/LP_STRING/DSKIP; code with "
                   "labels, forward/backward register and relative label branches, CALL to labels, SET of symbols, "
                   "pseudo-ops of every expansion length, debugging ops, OPCODE) plus a malformed stream (arity, kinds, "
                   "ranges, duplicates, data after code, far branches at distance 126..130), each in a random mode "
                   "(run/debug/assemble/preprocess), --no-debug-ops and --big-stack; real parse+check vs the model's "
                   "check (symbol table, code, data, messages), and an independent oracle on the real output: every "
                   "label = index of the next emitted instruction, data labels = next cell, constants = declared "
                   "value, relative branches carry target-minus-position. Non-trivial: accepted programs containing "
                   "a label or a relative label branch, distinct by text.")
    res["samples"] = [{"program": cases[0][0], "settings": cases[0][1]}]
    return res


def search(ctx, breaks):
    old = ctx.tier
    ctx.tier = "thorough"
    try:
        r = correspondence(ctx, model_available=False)
    except Exception as e:  # noqa
        ctx.log("search failed: %s" % str(e)[-300:])
        r = {"spec_failures": []}
    ctx.tier = old
    return r["spec_failures"][:3]


def replay(ctx, path):
    print(open(path).read()[:4000])
    return 0


if __name__ == "__main__":
    sys.exit(framework.run_check(sys.modules[__name__], sys.argv[1:]))
