"""
lexcases — token-stream correspondence for hera/lexer.py: the real Lexer and Model/Lexer.v on
the same ASCII texts (types, values, line, column, start offset of every token, the lexer's
warnings, final position, and whether next_char was ever called at the end of the text).
"""
import coqrun
import runcases as rc
from coqrun import zlist
from vmstate import Reader

HEADER = """From Coq Require Import ZArith List Bool.
From Hera.Model Require Import Lexer.
Import ListNotations.
Open Scope Z_scope.
"""

TYPES = {1: "INT", 2: "REGISTER", 3: "SYMBOL", 4: "STRING", 5: "BRACKETED", 6: "CHAR", 7: "MINUS", 8: "AT",
         9: "ASTERISK", 10: "PLUS", 11: "SLASH", 12: "LPAREN", 13: "RPAREN", 14: "LBRACE", 15: "RBRACE", 16: "COMMA",
         17: "SEMICOLON", 18: "FMT", 19: "INCLUDE", 20: "EOF", 21: "ERROR", 22: "UNKNOWN"}
ERRORS = {1: "unclosed string literal", 2: "unclosed character literal", 3: "over-long character literal",
          4: "unclosed bracketed expression"}
WARNS = {1: "invalid hex escape", 2: "invalid octal escape", 3: "unrecognized backslash escape"}

ALPHABET = list("abrRxX019 \t\n\r\"'\\/*#<>:(),;-+@{}_.") + ["\x00", "\x0b", "\x1c", "\x7f", "x", "n", "t", "8", "7"]
SNIPPETS = ["NOP()  /* a\n  b */ FOO(1)", "\tx /* c\n\n*/y", "SET(R1, 5)", "// c\n", "/* c */", "/*", "*/", '"a\\n"', '"\\x41"', '"\\x4"', '"\\101"', '"\\9"', '"\\q"', "'a'",
            "'\\n'", "'ab'", "#include", "#include <x.h>", '#include "f"', "<abc", ":fmt", ":", "0x1F", "0b101", "0o17",
            "0xZZ", "R12", "Rt", "FP_alt", "PC_ret", "r", "R", "_a1", "\\", '"\\', "'\\", '"\\x', "12ab", "0xg", "-5",
            "LABEL(x)", "\n\n", "\t", " ", '"unterminated', "'", '"', "/", "//", "/*/", "/**/", "a/*b*/c", "0", "00", "0b",
            "0x", "@R1", "{}", "$", "\x00", "\x1f"]


def gen_text(rng):
    k = rng.random()
    if k < 0.5:
        return "".join(rng.choice(SNIPPETS) + rng.choice(["", " ", "\n", ""]) for _ in range(rng.choice([1, 2, 4, 8])))
    if k < 0.85:
        return "".join(rng.choice(ALPHABET) for _ in range(rng.choice([1, 2, 3, 5, 8, 13, 30])))
    s = "".join(rng.choice(SNIPPETS) for _ in range(rng.choice([2, 5])))
    i = rng.randrange(len(s) + 1)
    return s[:i]            # truncated


def real_lex(text, budget=2.0):
    """-> dict(tokens=[(type, value, line, col)], warnings=[(msg, line, col)]) or {"raise": name}"""
    from hera.data import Token
    from hera.lexer import Lexer

    def go():
        lx = Lexer(text)
        toks = []
        for _ in range(len(text) + 2):
            t = lx.tkn
            toks.append((t.type.replace("TOKEN_", ""), t.value, t.location.line, t.location.column))
            if t.type == Token.EOF:
                break
            lx.next_token()
        else:
            return {"raise": "no EOF after %d tokens" % (len(text) + 2)}
        return {"tokens": toks, "warnings": [(m, l.line, l.column) for m, l in lx.messages.warnings],
                "pos": lx.position}
    try:
        return rc.with_budget(go, budget)
    except rc.Budget:
        return {"raise": "Budget"}
    except BaseException as e:  # noqa
        return {"raise": type(e).__name__}


def decode(l, text):
    r = Reader(l)
    toks = []
    for _ in range(r.int()):
        ty = r.int()
        why = r.int() if ty == 21 else None
        v = r.string()
        line, col, start = r.int(), r.int(), r.int()
        toks.append((TYPES[ty], ERRORS[why] if why else v, line, col, start))
    ws = [(WARNS[r.int()], r.int(), r.int()) for _ in range(r.int())]
    oob, pos = r.int(), r.int()
    assert r.done()
    return {"tokens": toks, "warnings": ws, "oob": bool(oob), "pos": pos}


def location_of(text, off):
    """The mathematical location of an offset: 1 + newlines before it, 1 + characters since the last one."""
    before = text[:off]
    return before.count("\n") + 1, off - (before.rfind("\n") + 1) + 1


def compare(tag, texts):
    res = {"cases": len(texts), "agree": 0, "disagreements": [], "spec_failures": [], "tokens": 0, "errors": 0,
           "warnings": 0, "kinds": {}}
    terms = ["enc_lex (lex %s)" % zlist([ord(c) for c in t]) for t in texts]
    outs = coqrun.eval_cases(tag, HEADER, terms, shard=300)
    for t, o in zip(texts, outs):
        m = decode(o, t)
        r = real_lex(t)
        if "raise" in r:
            res["spec_failures"].append({"what": "the lexer raised %s" % r["raise"], "text": t})
            if not m["oob"] and r["raise"] == "IndexError":
                res["disagreements"].append({"text": t, "what": "implementation raised IndexError, model did not read past the end"})
            continue
        # C17, on the implementation alone: the text at the reported line and column is the token
        lines = t.split("\n")
        for ty, v, line, col in r["tokens"]:
            if ty in ("SYMBOL", "REGISTER", "INT", "INCLUDE", "MINUS", "AT", "ASTERISK", "PLUS", "SLASH", "LPAREN", "RPAREN",
                      "LBRACE", "RBRACE", "COMMA", "SEMICOLON", "UNKNOWN") and isinstance(v, str) and v:
                if not (1 <= line <= len(lines) and lines[line - 1][col - 1:].startswith(v)):
                    got = lines[line - 1][col - 1:col - 1 + len(v)] if 1 <= line <= len(lines) else None
                    res["spec_failures"].append({"what": "token %s %r is reported at %d:%d, where the text reads %r" % (ty, v, line, col, got),
                                                 "text": t})
                    break
        mt = [x[:4] for x in m["tokens"]]
        if mt != r["tokens"] or m["warnings"] != r["warnings"] or m["pos"] != r["pos"] or m["oob"]:
            k = next((i for i, (a, b) in enumerate(zip(mt, r["tokens"])) if a != b), min(len(mt), len(r["tokens"])))
            res["disagreements"].append({"text": t, "first_difference_at_token": k,
                                         "impl": repr(r["tokens"][k:k + 2]), "model": repr(mt[k:k + 2]),
                                         "impl_warnings": repr(r["warnings"]), "model_warnings": repr(m["warnings"]),
                                         "model_oob": m["oob"]})
            continue
        res["agree"] += 1
        res["tokens"] += len(mt)
        res["warnings"] += len(m["warnings"])
        for ty, v, line, col, start in m["tokens"]:
            res["kinds"][ty] = res["kinds"].get(ty, 0) + 1
            if ty == "ERROR":
                res["errors"] += 1
            # C17: the reported location is the location of the token's first character
            if (line, col) != location_of(t, start):
                res["spec_failures"].append({"what": "token %s at offset %d is reported at %d:%d, it is at %r" % (
                    ty, start, line, col, location_of(t, start)), "text": t})
    return res
