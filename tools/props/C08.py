"""C08 — accepted programs never go wrong later."""
import io
import os
import sys
import tempfile

sys.path.insert(0, os.path.join(os.path.dirname(os.path.abspath(__file__)), "..", "lib"))
sys.path.insert(0, os.path.dirname(os.path.abspath(__file__)))
import framework  # noqa: E402
import coqrun  # noqa: E402
import opcases as oc  # noqa: E402
import progcases as pc  # noqa: E402
import runcases as rc  # noqa: E402
from vmstate import run_real  # noqa: E402

PID = "C08"
TARGETS = ["Properties/C08.vo"]
MODEL_TARGETS = ["Model/Preproc.vo", "Model/EncOp.vo"]
ASSUMPTIONS = [
    "theorems: operation-level (every accepted operation expands to instructions whose operands fit their "
    "fields) composed with C05 (they assemble) and C01/C02 (they execute; runs of any length never raise); "
    "label values < 65536 (programs shorter than 2^16 instructions), no user __eval",
    "the whole-program composition through checker.check() is exercised on the real tool by this check's oracle",
]
TRUSTED = ["coq/Model/Preproc.v"]
NOTES = []


def later_stages(text, cfg_mode, big):
    """Everything the tool does after accepting the program, in one mode. Returns a failure string or None."""
    from hera.main import main
    with tempfile.TemporaryDirectory() as d:
        p = os.path.join(d, "p.hera")
        open(p, "w").write(text)
        argvs = {
            "": [["--quiet", "--throttle", "200", p]],
            "assemble": [["assemble", "--stdout", p], ["assemble", "--stdout", "--code", p], ["assemble", "--stdout", "--data", p]],
            "preprocess": [["preprocess", p], ["preprocess", "--obfuscate", p]],
        }[cfg_mode]
        for argv in argvs:
            if big and cfg_mode in ("", "assemble"):
                argv = argv[:-1] + ["--big-stack", p]
            try:
                _, exc, out, err = rc.with_budget(lambda: run_real(lambda: main(argv)), 3.0)
            except rc.Budget:
                return "hera %s did not finish" % " ".join(argv[:-1])
            if exc and exc != "SystemExit":
                return "hera %s raised %s" % (" ".join(argv[:-1]), exc)
            if exc == "SystemExit" and "Error" not in err:
                return "hera %s exited without a diagnostic" % " ".join(argv[:-1])
            if cfg_mode == "assemble" and not exc:
                # every word the assembler prints is a 16-bit word
                import re
                for ln in out.splitlines():
                    t = ln.strip()
                    if not t or t.startswith("[") or t.startswith("//"):
                        continue
                    if "*" in t:
                        continue                    # `<count>*<value>`: a run of equal cells
                    if re.fullmatch(r"[0-9a-fA-F]+", t) and len(t.lstrip("0")) > 4:
                        return "hera %s prints the word %s, which does not fit in 16 bits" % (" ".join(argv[:-1]), t)
    return None


def mode_order_oracle():
    """What the checker says about a program in one mode does not depend on which programs were processed before, in
    which modes, in the same process (seed C08f: decoded words were cached across modes, so a word that `assemble`
    lets through — it accepts any 16-bit word — was afterwards taken for an instruction in run mode)."""
    problems = []
    for w in ("0x2400", "0x3d70", "0xffff", "0x2210", "0x23ff"):
        text = "OPCODE(%s)\nHALT()\n" % w
        verdicts = []
        for mode in ("", "debug", "preprocess", "assemble", "", "debug", "preprocess"):
            cfg = {"mode": mode, "allow_interrupts": mode in ("assemble", "preprocess"), "no_debug_ops": False, "data_start": 0xC001}
            ops, pm = pc.real_parse(text, cfg)
            if ops is None or pm.get("errors"):
                verdicts.append((mode, "parse"))
                continue
            r = pc.real_check(ops, cfg)
            verdicts.append((mode, "raise " + r["raise"] if "raise" in r else ("rejected" if r["errors"] else "accepted")))
        first = {}
        for mode, v in verdicts:
            if mode in first and first[mode] != v:
                problems.append("OPCODE(%s) in mode %r was %s, and after the same text had been assembled it is %s" % (w, mode, first[mode], v))
                break
            first.setdefault(mode, v)
        if problems:
            break
    return problems


def field_fit(prog_desc):
    """every real operation, assembled and disassembled, is itself (nothing truncated)"""
    import hera.op as op
    for d in prog_desc["code"]:
        if d["cls"] in ("PRINT", "PRINTLN", "PRINT_REG", "__EVAL", "OPCODE"):
            continue
        o = oc.real_op(d["cls"], [tuple(t) for t in d["toks"]])
        b, exc, _, _ = run_real(lambda: o.assemble())
        if exc:
            return "%s%s cannot be assembled: %s" % (d["cls"], d["toks"], exc)
        w = b[0] * 256 + b[1]
        back, exc, _, _ = run_real(lambda: op.disassemble(w))
        if exc:
            return "%s%s assembles to %04x which is not an instruction" % (d["cls"], d["toks"], w)
        bd = oc.describe_real_op(back)

        def norm(t):
            k, v = t
            # byte fields accept -128..255 and read back as 0..255; anything else must not be folded
            byte_field = k == "INT" and (d["cls"] in ("SETLO", "SETHI") or (d["cls"].endswith("R") and d["cls"] not in ("XOR", "OR", "LSR", "ASR", "BR")))
            return (k, v % 256) if byte_field and isinstance(v, int) and -128 <= v <= 255 else (k, v)
        if bd["cls"] != d["cls"] or [norm(tuple(t)) for t in bd["toks"]] != [norm(tuple(t)) for t in d["toks"]]:
            return "%s%s is encoded as %04x = %s%s: an operand does not fit its field" % (d["cls"], d["toks"], w, bd["cls"], bd["toks"])
    return None


def label_offsets(prog_desc, oplist):
    """A relative branch written with a label must carry the signed distance to that label, and it
    must fit the signed 8-bit field (otherwise the machine re-interprets it)."""
    from hera.data import Token
    import hera.op as op
    labels = {k: v for k, kind, v in prog_desc["symtab"] if kind == "label"}
    for i, d in enumerate(prog_desc["code"]):
        cls = getattr(op, d["cls"], None)
        if cls is None or not issubclass(cls, op.RelativeBranch) or d["orig"] < 0:
            continue
        src = oplist[d["orig"]]
        if not (src.tokens and src.tokens[0].type == Token.SYMBOL and src.tokens[0].value in labels):
            continue
        off = d["toks"][0][1]
        want = labels[src.tokens[0].value] - i
        if off != want or not -128 <= off <= 127:
            return "%s(%s) at instruction %d is emitted with offset %r; the label is %d instructions away and the field is signed 8-bit" % (
                d["cls"], src.tokens[0].value, i, off, want)
    return None


def correspondence(ctx, model_available=True):
    quick = ctx.tier == "quick"
    rng = ctx.rng
    res = {"cases": 0, "disagreements": [], "spec_failures": [], "model_available": model_available,
           "distribution": {"accepted": 0, "rejected": 0, "stage_runs": 0}}
    nontrivial = set()
    mcases = []
    for k in range(300 if quick else 3000):
        lines = pc.gen_valid(rng)
        if k % 5 == 0:
            lines = pc.mutate(rng, lines)
        # no __eval; SWI/RTI allowed only where the mode allows them (the checker decides)
        text = "\n".join(lines) + "\n"
        mode = rng.choice(["", "assemble", "preprocess"])
        big = rng.random() < 0.25
        cfg = {"mode": mode, "allow_interrupts": mode in ("assemble", "preprocess"), "no_debug_ops": False,
               "data_start": 0xC167 if big and mode in ("", "assemble") else 0xC001}
        ops, pm = pc.real_parse(text, cfg)
        res["cases"] += 1
        if ops is None:
            res["spec_failures"].append({"what": "parse raised %s" % pm["raise"], "program": text})
            continue
        if pm.get("errors"):
            res["distribution"]["rejected"] += 1
            continue
        r = pc.real_check(ops, cfg)
        if "raise" in r:
            res["spec_failures"].append({"what": "check raised %s" % r["raise"], "program": text, "mode": mode})
            continue
        if len(mcases) < (100 if quick else 1000):
            desc = [oc.describe_real_op(o) for o in ops]
            for d in desc:
                d["toks"] = [list(pc.fix_tok(t)) for t in d["toks"]]
            mcases.append((text, cfg, desc, r))
        if r["errors"]:
            res["distribution"]["rejected"] += 1
            continue
        res["distribution"]["accepted"] += 1
        nontrivial.add(text)
        bad = field_fit(r) or label_offsets(r, ops)
        if bad:
            res["spec_failures"].append({"what": "accepted in mode %r: %s" % (mode, bad), "program": text})
            continue
        bad = later_stages(text, mode, big)
        res["distribution"]["stage_runs"] += 1
        if bad:
            res["spec_failures"].append({"what": "accepted program, then %s" % bad, "program": text, "mode": mode})
    # every operand position fed through a named constant holding a boundary value or the signed spelling of a word: what
    # the checker lets through must survive substitution and the later stages (seed C08g)
    for v in ["-7931", "-24285", "-1", "-32768", "-32769", "65535", "65536", "-8698", "0xE105", "255", "256", "-128", "-129", "64", "65", "0"]:
        for tmpl in ["OPCODE(%s)", "SET(R1, %s)", "SETLO(R1, %s)", "SETHI(R1, %s)", "INC(R1, %s)", "DEC(R1, %s)", "LOAD(R1, %s, R2)",
                     "FON(%s)", "FSET4(%s)", "BRR(%s)", "SETRF(R2, %s)", "CMP(R1, R2)\nOPCODE(%s)"]:
            text = "CONSTANT(K, %s)\nCONSTANT(L, K)\n%s\nHALT()\n" % (v, tmpl % rng.choice(["K", "L"]))
            mode = rng.choice(["", "assemble", "preprocess", "debug"])
            cfg = {"mode": mode, "allow_interrupts": mode in ("assemble", "preprocess"), "no_debug_ops": False, "data_start": 0xC001}
            ops, pm = pc.real_parse(text, cfg)
            res["cases"] += 1
            if ops is None or pm.get("errors"):
                continue
            r = pc.real_check(ops, cfg)
            if "raise" in r:
                res["spec_failures"].append({"what": "check raised %s" % r["raise"], "program": text, "mode": mode})
                continue
            if r["errors"]:
                res["distribution"]["rejected"] += 1
                continue
            res["distribution"]["accepted"] += 1
            bad = field_fit(r) or label_offsets(r, ops) or (later_stages(text, mode, False) if mode != "debug" else None)
            if bad:
                res["spec_failures"].append({"what": "accepted in mode %r, then %s" % (mode, bad), "program": text})
    # a program longer than the address space: labels beyond 65535 cannot be loaded by SETLO/SETHI
    # ... and programs that fill the address space exactly, or miss by one: the label after the last instruction is
    # loaded by SET (2 instructions) and called (3 instructions) at the front (seed C07c: a label of value 0x10000
    # was let through and SET's expansion then raised)
    longs = ["BR(far)\n" + "NOP()\n" * 65540 + "LABEL(far)\nHALT()\n"]
    for total in ([65536] if quick else [65534, 65535, 65536, 65537]):
        longs.append("SET(R1, far)\nCALL(R12, far)\n" + "NOP()\n" * (total - 5) + "LABEL(far)\n")
    if not quick:
        longs.append("SETRF(R1, far)\n" + "NOP()\n" * (65536 - 4) + "LABEL(far)\n")
    for long_text in longs:
        cfg = {"mode": rng.choice(["", "assemble", "preprocess", "debug"]), "allow_interrupts": False, "no_debug_ops": False,
               "data_start": 0xC001}
        cfg["allow_interrupts"] = cfg["mode"] in ("assemble", "preprocess")
        ops, pm = pc.real_parse(long_text, cfg)
        res["cases"] += 1
        res["distribution"]["long_programs"] = res["distribution"].get("long_programs", 0) + 1
        if ops is not None and not pm.get("errors"):
            r = pc.real_check(ops, cfg)
            if "raise" in r:
                res["spec_failures"].append({"what": "check raised %s on a program of %d lines that fills the address space (mode %r)"
                                                     % (r["raise"], long_text.count("\n"), cfg["mode"]),
                                             "program": long_text[:40].replace("\n", " | ") + " ... " + long_text[-20:].replace("\n", " | ")})
            elif not r["errors"]:
                bad = field_fit({"code": r["code"][:4]})
                if bad:
                    res["spec_failures"].append({"what": "a 65541-instruction program is accepted: %s" % bad,
                                                 "program": "BR(far) + 65540 x NOP() + LABEL(far) HALT()"})
    # the hand model of checker.check() the theorems are about, on the same programs
    if model_available and mcases:
        import coqrun
        terms = ["enc_check (check %s %s)" % (pc.cs_term(cfg), pc.ops_term(desc)) for _, cfg, desc, _ in mcases]
        outs = coqrun.eval_cases("C08m", pc.HEADER, terms, shard=60)
        agree = 0
        for (text, cfg, _, r), o in zip(mcases, outs):
            m = pc.decode_check(o)
            if m != r:
                diffk = [k for k in set(list(r) + list(m)) if r.get(k) != m.get(k)]
                res["disagreements"].append({"case": {"program": text, "settings": cfg}, "fields": diffk,
                                             "impl": {k: r.get(k) for k in diffk}, "model": {k: m.get(k) for k in diffk}})
            else:
                agree += 1
        res["model_vs_impl_agree"] = agree
        res["distribution"]["model_cases"] = len(mcases)
    for b in mode_order_oracle():
        res["spec_failures"].append({"what": b})
    res["spec_failures"] = res["spec_failures"][:5]
    res["nontrivial"] = len(nontrivial)
    res["rule"] = ("generated programs (mostly valid; one in five with planted faults) in run / assemble / preprocess "
                   "mode and --big-stack; for each program the checker accepts: every real operation must survive "
                   "assemble -> disassemble unchanged (operands fit their fields), and the later stages of the real "
                   "tool (run with throttle; assemble --stdout with --code/--data; preprocess with --obfuscate) must "
                   "finish without an internal exception. Non-trivial: accepted programs, distinct by text.")
    res["samples"] = [{"program": next(iter(nontrivial)) if nontrivial else ""}]
    return res


def search(ctx, breaks):
    old = ctx.tier
    ctx.tier = "thorough"
    try:
        r = correspondence(ctx, model_available=False)
    except Exception as e:  # noqa
        ctx.log("search failed: %s" % str(e)[-300:])
        r = {"spec_failures": []}
    ctx.tier = old
    return r["spec_failures"][:3]


def replay(ctx, path):
    print(open(path).read()[:4000])
    return 0


if __name__ == "__main__":
    sys.exit(framework.run_check(sys.modules[__name__], sys.argv[1:]))
