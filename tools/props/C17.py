"""C17 — every diagnostic points at the real place in the user's file."""
import os
import shutil
import sys
import tempfile

sys.path.insert(0, os.path.join(os.path.dirname(os.path.abspath(__file__)), "..", "lib"))
sys.path.insert(0, os.path.dirname(os.path.abspath(__file__)))
import framework  # noqa: E402
import coqrun  # noqa: E402
import frontcases as fc  # noqa: E402
import lexcases as lc  # noqa: E402
import opcases as oc  # noqa: E402
import progcases as pc  # noqa: E402

PID = "C17"
TARGETS = ["Properties/C17.vo"]
MODEL_TARGETS = ["Model/Lexer.vo", "Model/Ifdef.vo", "Model/Preproc.vo", "Model/EncOp.vo", "Model/Caret.vo"]
ASSUMPTIONS = [
    "PARTIAL: the theorems give the location recorded in every token (Model/Lexer.v), the preservation of line "
    "numbers by conditional compilation (Model/Ifdef.v) and what the type checker attaches each diagnostic to "
    "(Model/Preproc.v: an operand fault to that operand's token, a wrong operand count to the operation); parser "
    "diagnostics, the quoted line, the caret, include attribution and run-time warnings are decided by the "
    "planted-fault oracle; the caret's display column is a theorem on Model/Caret.v (align_caret and a layout "
    "function compared with the real align_caret and with str.expandtabs; every character other than a tab is taken "
    "to be one column wide)",
    "ASCII texts; a tab counts as one column in reported columns (align_caret reproduces tabs when printing)",
]
TRUSTED = ["coq/Model/Lexer.v", "coq/Model/Ifdef.v"]


def include_fault(rng, root):
    """A fault planted inside an included file in a sub-directory: the diagnostic must name that file."""
    f = fc.planted_fault(rng)
    os.makedirs(os.path.join(root, "lib"), exist_ok=True)
    open(os.path.join(root, "lib", "inc.hera"), "w").write(f["text"])
    main = "// main\nSET(R1, 1)\n#include \"lib/inc.hera\"\nNOP()\n"
    mp = os.path.join(root, "main.hera")
    open(mp, "w").write(main)
    d = fc.diagnostics(main, path=mp)
    if isinstance(d, tuple):
        return "front end raised %s" % d[1]
    want = os.path.join(root, "lib", "inc.hera")
    for sev, m, line, col, path, q in d:
        if line == f["line"] and path is not None and os.path.realpath(path) == os.path.realpath(want):
            lines = f["text"].split("\n")
            if q != lines[line - 1]:
                return "diagnostic in the included file quotes %r; line %d there is %r" % (q, line, lines[line - 1])
            return None
    return "a fault on line %d of the included file is not attributed to it: %r" % (
        f["line"], [(s, m, l, c, os.path.basename(p) if p else p) for s, m, l, c, p, _ in d])


def runtime_warning(rng):
    """A run-time warning (stack pointer into the data segment) names the line of the operation."""
    from hera.main import main
    pre = fc.layout_prefix(rng)
    lines = pre + ["SET(R7, 0xD000)", "\tMOVE(SP, R7)", "HALT()"]
    want = len(pre) + 2
    d = tempfile.mkdtemp()
    try:
        p = os.path.join(d, "w.hera")
        open(p, "w").write("\n".join(lines) + "\n")
        # plain, throttled (both spellings) and with the return-address warning as the faulting operation
        argvs = [["--no-color", p], ["--no-color", "--throttle", "1000", p], ["--no-color", "--throttle=50", p]]
        argv = rng.choice(argvs)
        exc, out, err = fc.run_main(argv)
        p2 = os.path.join(d, "r.hera")
        lines2 = pre + ["SET(R13, 2)", "RETURN(R12, R13)", "HALT()"]
        open(p2, "w").write("\n".join(lines2) + "\n")
        exc2, out2, err2 = fc.run_main(argv[:-1] + [p2])
        # the operation that makes the stack pointer enter the data segment is a CALL / RETURN whose first operand
        # is SP (it exchanges SP with FP and jumps): the warning belongs to its line, not to where it jumps
        # (seed C17g: the location was looked up through the program counter, which the jump had already moved)
        p3 = os.path.join(d, "c.hera")
        lines3 = pre + ["SET(FP, 0xD000)", "SET(R5, fn)", "  CALL(SP, R5)", "HALT()", "LABEL(fn)", "MOVE(R1, R2)", "HALT()"]
        open(p3, "w").write("\n".join(lines3) + "\n")
        exc3, out3, err3 = fc.run_main(argv[:-1] + [p3])
    finally:
        shutil.rmtree(d, ignore_errors=True)
    how = " ".join(argv[:-1])
    stack3 = [l for l in err3.split("\n") if "stack has overflowed" in l]
    if stack3 and "line %d " % (len(pre) + 3) not in stack3[0]:
        return "hera %s: the stack warning raised by the CALL on line %d says: %r" % (how, len(pre) + 3, stack3[0][:200])
    if "stack has overflowed" not in err:
        return "hera %s: no stack warning at all: %r" % (how, err[:200])
    if "line %d " % want not in err:
        return "hera %s: the run-time warning for line %d says: %r" % (how, want, err.split("\n")[0][:200])
    if "incorrect return address" in err2 and "line %d " % (len(pre) + 2) not in err2:
        return "hera %s: the return-address warning of the RETURN on line %d says: %r" % (how, len(pre) + 2, err2.split("\n")[0][:200])
    return None


def correspondence(ctx, model_available=True):
    quick = ctx.tier == "quick"
    rng = ctx.rng
    texts = list(lc.SNIPPETS) + [lc.gen_text(rng) for _ in range(600 if quick else 10000)]
    lres = {"cases": 0, "agree": 0, "tokens": 0, "disagreements": [], "spec_failures": []}
    if model_available:
        lres = lc.compare("C17l", texts)
    spec_failures = [f for f in lres["spec_failures"] if "reported at" in f["what"]]
    cases = fc.ifdef_cases(rng, 100 if quick else 1500)
    ires = fc.compare_ifdefs("C17i", cases, model_available)
    spec_failures += ires["spec_failures"]
    # what each checker diagnostic is attached to (operand token / operation): Model/Preproc vs the real checker
    att = {"programs": 0, "messages": 0, "on_operand": 0, "on_operation": 0, "agree": 0}
    attach_dis = []
    if model_available:
        acases = []
        for k in range(150 if quick else 2500):
            lines = pc.mutate(rng, pc.gen_valid(rng))
            cfg = pc.settings_for(rng)
            text = "\n".join(lines) + "\n"
            ops, pm = pc.real_parse(text, cfg)
            if ops is None or pm.get("errors"):
                continue
            desc = [oc.describe_real_op(o) for o in ops]
            for dd in desc:
                dd["toks"] = [list(pc.fix_tok(t)) for t in dd["toks"]]
            acases.append((text, cfg, ops, desc))
        outs = coqrun.eval_cases("C17a", pc.HEADER, ["enc_check (check %s %s)" % (pc.cs_term(cfg), pc.ops_term(desc))
                                                      for _, cfg, _, desc in acases], shard=60)
        for (text, cfg, ops, _), o in zip(acases, outs):
            r = pc.real_check(ops, cfg)
            m = pc.decode_check(o)
            att["programs"] += 1
            if "raise" in r or "raise" in m:
                continue
            for key in ("error_locs", "warning_locs"):
                att["messages"] += len(r[key])
                att["on_operand"] += sum(1 for l in r[key] if l[0] == "tok")
                att["on_operation"] += sum(1 for l in r[key] if l[0] == "op")
            if (r["errors"], r["error_locs"], r["warnings"], r["warning_locs"]) == (m["errors"], m["error_locs"], m["warnings"], m["warning_locs"]):
                att["agree"] += 1
            else:
                attach_dis.append({"what": "checker diagnostics (text, attachment) vs Model/Preproc", "program": text, "settings": cfg,
                                   "impl": [r["errors"], r["error_locs"], r["warnings"], r["warning_locs"]],
                                   "model": [m["errors"], m["error_locs"], m["warnings"], m["warning_locs"]]})
    # the caret line: real align_caret vs Model/Caret.v, and the layout function of the theorem vs str.expandtabs
    caret = {"lines": 0, "agree": 0}
    if model_available:
        from hera.utils import align_caret
        chars = ["\t", "\t", " ", " ", "a", "S", "(", ",", "1", "/", "*", "\x0b", "~"]
        ccases = []
        for _ in range(200 if quick else 3000):
            line = "".join(rng.choice(chars) for _ in range(rng.choice([0, 1, 3, 8, 20, 40])))
            col = rng.choice([1, 1, 2, len(line), len(line) + 1, rng.randrange(1, len(line) + 2)])
            w = rng.choice([1, 2, 3, 4, 8])
            at = rng.choice([0, 2, 2, 5])
            ccases.append((line, max(1, col), w, at))
        zl = lambda t: "[%s]" % "; ".join(str(ord(c)) for c in t)
        header = "From Coq Require Import ZArith List.\nFrom Hera.Model Require Import Caret.\nImport ListNotations.\nOpen Scope Z_scope.\n"
        outs = coqrun.eval_cases("C17c", header, ["(layout %d %d %s) :: (layout %d %d (align_caret %s %d)) :: align_caret %s %d"
                                                  % (w, at, zl(line), w, at, zl(line), col, zl(line), col)
                                                  for line, col, w, at in ccases], shard=500)
        for (line, col, w, at), o in zip(ccases, outs):
            caret["lines"] += 1
            real = align_caret(line, col)
            want_layout = len((" " * at + line).expandtabs(w))
            want_caret_layout = len((" " * at + real).expandtabs(w))
            if o[2:] == [ord(c) for c in real] and o[0] == want_layout and o[1] == want_caret_layout:
                caret["agree"] += 1
            else:
                attach_dis.append({"what": "align_caret / display layout vs Model/Caret", "line": line, "col": col, "tab": w, "at": at,
                                   "impl": [want_layout, want_caret_layout, [ord(c) for c in real]], "model": o})
    st = {"planted": 0, "by_fault": {}, "included": 0, "runtime": 0, "attachment": att, "caret": caret}
    for _ in range(300 if quick else 5000):
        f = fc.planted_fault(rng)
        st["planted"] += 1
        st["by_fault"][f["token"]] = st["by_fault"].get(f["token"], 0) + 1
        p = fc.location_oracle(f)
        if p:
            spec_failures.append({"what": p, "text": f["text"]})
    root = tempfile.mkdtemp(prefix="hera_loc_")
    try:
        for _ in range(30 if quick else 400):
            st["included"] += 1
            p = include_fault(rng, root)
            if p:
                spec_failures.append({"what": p})
    finally:
        shutil.rmtree(root, ignore_errors=True)
    for _ in range(10 if quick else 100):
        st["runtime"] += 1
        p = runtime_warning(rng)
        if p:
            spec_failures.append({"what": p})
    return {
        "cases": lres["cases"] + ires["cases"] + st["planted"] + st["included"] + st["runtime"],
        "nontrivial": st["planted"] + lres["tokens"],
        "rule": "token locations: real lexer vs Model/Lexer.v (line, column and start offset of every token) and vs the "
                "mathematical location of the start offset; line preservation: evaluate_ifdefs vs Model/Ifdef.v; planted "
                "faults (unknown operation, operand range, arity, undefined/duplicate symbol, bad register, data after "
                "code, unclosed / over-long literal, octal warning, far branch) under random layout (comments, tabs, "
                "multi-line operations, discarded and kept conditional blocks, trailing lines): reported line exists, "
                "quoted line is that line, caret inside the line and on the offending token; the same inside an included "
                "file (attribution); a run-time warning names its operation's line",
        "distribution": {"lexer_cases": lres["cases"], "tokens_located": lres["tokens"], "ifdef_cases": ires["cases"], **st},
        "samples": [{"text": texts[len(lc.SNIPPETS)]}],
        "disagreements": [{"what": "lexer vs Model/Lexer", **d} for d in lres["disagreements"][:5]]
        + [{"what": "evaluate_ifdefs vs Model/Ifdef", **d} for d in ires["disagreements"][:5]] + attach_dis[:5],
        "spec_failures": spec_failures[:5],
        "model_vs_impl_agree": lres["agree"] + ires["agree"], "model_available": model_available,
    }


def search(ctx, breaks):
    r = correspondence(ctx, model_available=False)
    return r["spec_failures"][:3]


def replay(ctx, path):
    print(open(path).read()[:6000])
    return 0


if __name__ == "__main__":
    sys.exit(framework.run_check(sys.modules[__name__], sys.argv[1:]))
