"""C19 — the built-in Tiger standard library keeps its functional and calling contracts."""
import os
import sys

sys.path.insert(0, os.path.join(os.path.dirname(os.path.abspath(__file__)), "..", "lib"))
sys.path.insert(0, os.path.dirname(os.path.abspath(__file__)))
import framework  # noqa: E402
import coqrun  # noqa: E402
import stdlibcases as sc  # noqa: E402
import execcases as ec  # noqa: E402
from coqrun import z  # noqa: E402

PID = "C19"
TARGETS = ["Properties/C19.vo"]
MODEL_TARGETS = ["Model/Stdlib.vo", "Model/InstrOf.vo", "Proofs/C19_Routines.vo", "Proofs/C19_Not.vo", "Proofs/C19_Stack.vo",
                 "Proofs/C19_NotStack.vo", "Proofs/C19_Malloc.vo", "Proofs/C19_MallocStack.vo"]
ASSUMPTIONS = [
    "PARTIAL: theorems for div and mod only (signed division truncating towards zero, remainder with the sign of "
    "the dividend, zero divisor gives zero, results are 16-bit words, quotient*divisor+remainder recomposes the "
    "dividend); the library functions written in HERA assembly and the calling contract (returns to the caller, "
    "SP/FP restored, R1..R10 preserved in the stack convention) are decided by running them on the real interpreter",
    "getchar / getline / print functions need terminal input and output and are exercised with a few inputs only; "
    "finding D45 (getline) is listed in known_findings.json",
    "in the register convention only the result register, SP and FP are checked: that convention lets the callee use "
    "R9-R11 (malloc does)",
]
TRUSTED = ["coq/Model/Stdlib.v"]

HEADER = """From Coq Require Import ZArith List.
From Hera.Model Require Import Stdlib.
Import ListNotations.
Open Scope Z_scope.
"""

EDGE = [0, 1, 2, 3, 5, 7, 100, 255, 256, 32767, 32768, 32769, 65535, 65534, 65533, 65531, 40000, 65436]
STRINGS = ["", "a", "b", "ab", "abc", "abd", "hello", "hello world", "A", "Z", "az", "a\x01", "\x7f", "aa", "aaa", "ba"]


def expect(f, args):
    """Expected result as a 16-bit word, ('str', s), ('halts', msg fragment) or None (no functional claim)."""
    if f in ("div", "mod"):
        a, b = sc.s16(args[0]), sc.s16(args[1])
        if b == 0:
            return 0
        q = sc.trunc_div(a, b)
        return (q if f == "div" else a - b * q) & 0xFFFF
    if f == "not":
        return 1 if args[0] == 0 else 0
    if f == "ord":
        return ord(args[0][0])
    if f == "size":
        return len(args[0])
    if f == "chr":
        return ("str", chr(args[0]))
    if f == "concat":
        return ("str", args[0] + args[1])
    if f == "substring":
        s, first, n = args
        if 0 <= sc.s16(first) and 0 <= sc.s16(n) and sc.s16(first) + sc.s16(n) <= len(s):
            return ("str", s[sc.s16(first):sc.s16(first) + sc.s16(n)])
        return ("halts", "bad parameters to substring")
    if f == "tstrcmp":
        a, b = args
        return ("sign", (a > b) - (a < b))
    if f == "malloc":
        # the documented allocator: blocks from 0x4001 upwards, the request is refused when the block would not end
        # strictly below 0xBFFF (two calls are made)
        n, p = args[0], 0x4001
        for _ in range(2):
            if p + n >= 0xBFFF:
                return ("halts", "out of memory in malloc")
            p += n
        return None
    return None


def gen_call(rng):
    f = rng.choice(["div", "div", "mod", "mod", "not", "ord", "chr", "size", "concat", "substring", "tstrcmp", "malloc"])
    if f in ("div", "mod"):
        args = [rng.choice(EDGE) if rng.random() < 0.7 else rng.randrange(65536) for _ in range(2)]
    elif f == "not":
        args = [rng.choice([0, 0, 1, 2, 65535, 32768])]
    elif f == "ord":
        args = [rng.choice([s for s in STRINGS if s])]
    elif f == "chr":
        args = [rng.choice([0, 1, 65, 97, 127, 255])]
    elif f == "size":
        args = [rng.choice(STRINGS)]
    elif f in ("concat", "tstrcmp"):
        args = [rng.choice(STRINGS), rng.choice(STRINGS)]
        if f == "tstrcmp" and rng.random() < 0.4:
            # one string a (proper) prefix of the other, either way round, the empty string included
            long = rng.choice([s for s in STRINGS if s])
            short = long[:rng.randrange(len(long) + 1)]
            args = [short, long] if rng.random() < 0.5 else [long, short]
        elif rng.random() < 0.2:
            # the same string twice (the oracle then also passes one address twice: seed C19j took a short cut for
            # identical pointers and skipped the register saves its epilogue undoes)
            args = [args[0], args[0]]
    elif f == "substring":
        s = rng.choice(STRINGS)
        args = [s, rng.choice([0, 1, 2, len(s), len(s) + 1, 65535, 32767, 32766, 16384, 32768]),
                rng.choice([0, 1, 2, len(s), len(s) + 1, 65535, 32767, 32766, 16384, 32768])]
    else:
        # small requests, requests that exhaust the heap on the first or on the second call, requests that wrap
        args = [rng.choice([0, 1, 2, 5, 100, 0x3FFE, 0x3FFF, 0x4000, 0x7000, 0x7FFD, 0x7FFE, 0x7FFF, 0x8000, 0xBFFE, 0xBFFF,
                            0xC000, 0xFFFE, 0xFFFF])]
    return f, args


def oracle(rng, conv, f, args):
    if conv == "reg" and f in ("concat", "substring"):
        return None
    sent = {r: (rng.choice([0, 1, 0x1234, 0x8000, 0xFFFF, 0x4001]) + r) & 0xFFFF for r in range(1, 11)}
    calls = 2 if f == "malloc" else 1
    alias = f in ("concat", "tstrcmp") and args[0] == args[1] and rng.random() < 0.6
    text = sc.program(conv, f, args, sent, calls, alias=alias)
    sp0 = 0
    if conv == "stack" and f in ("div", "mod", "not", "size", "ord") and rng.random() < 0.25:
        # the caller's stack at the very top of memory: frame cells wrap around (D49; seed C19g made the Python
        # helpers refuse such a frame)
        sp0 = rng.choice([0xFFF0, 0xFFFB, 0xFFFC, 0xFFFD, 0xFFFE, 0xFFFF])
        text = text.replace("CBON()\n", "CBON()\nSET(R15, 0x%04x)\n" % sp0, 1)
    r = sc.run(text)
    what = "%s %s(%s)%s%s" % (conv, f, ", ".join(repr(a) for a in args), " with SP = 0x%04x" % sp0 if sp0 else "",
                            " (both arguments one address)" if alias else "")
    if "raise" in r:
        return "%s: %s" % (what, r["raise"])
    vm, sym = r["vm"], r["symbols"]
    base, res = int(sym["regsave"]), int(sym["results"])
    # whatever the function computes, it leaves 16-bit words behind (seed C02i: the register tstrcmp put the Python
    # integer -1 into R1 when one string is a proper prefix of the other)
    odd = [(k, v) for k, v in enumerate(vm.registers) if not 0 <= v <= 0xFFFF] + \
          [("M[%d]" % a, v) for a, v in enumerate(vm.memory) if not 0 <= v <= 0xFFFF][:3]
    if odd:
        return "%s leaves values that are not 16-bit words: %r" % (what, odd[:4])
    want = expect(f, args)
    if isinstance(want, tuple) and want[0] == "halts":
        if want[1] not in r["out"] + r["err"]:
            return "%s: expected the library to stop with %r; output %r" % (what, want[1], (r["out"] + r["err"])[:120])
        return None
    if vm.registers[11] != 0x7e57:
        return "%s does not return to its caller (the instruction after the call sequence was never reached)" % what
    if vm.load_memory(base + 14) != 0 or vm.load_memory(base + 15) != sp0:
        return "%s: FP/SP after the call sequence are %d/%d, they were 0/%d before" % (what, vm.load_memory(base + 14), vm.load_memory(base + 15), sp0)
    if conv == "stack":
        changed = [k for k in range(1, 11) if vm.load_memory(base + k) != sent[k] & 0xFFFF]
        if changed:
            return "%s changes the caller's registers %r" % (what, changed)
    got = vm.load_memory(res)
    if isinstance(want, int):
        if got != want:
            return "%s returns %d (%d as a signed number), expected %d (%d)" % (what, got, sc.s16(got), want, sc.s16(want))
    elif want and want[0] == "str":
        s = sc.read_string(vm, got)
        if s != want[1]:
            return "%s returns the string %r, expected %r" % (what, s, want[1])
        nxt = vm.load_memory(0x4000)
        if got > 0x4000 and nxt < got + 1 + len(want[1]):
            # seed C19h: chr asked malloc for one cell and wrote two
            return ("%s returns a string in cells %d..%d, but the allocator's next free cell is %d: the next block handed out "
                    "overlaps the string" % (what, got, got + len(want[1]), nxt))
    elif want and want[0] == "sign":
        g = sc.s16(got)
        if (g > 0) - (g < 0) != want[1]:
            return "%s returns %d, expected a value of sign %d" % (what, g, want[1])
    if f == "malloc":
        a, b = vm.load_memory(res), vm.load_memory(res + 1)
        if not (b >= a + args[0] and a != 0):
            return "%s twice returns blocks at %d and %d: they overlap" % (what, a, b)
    return None


# (convention, label) -> Coq term of the instruction list, given the address the routine is loaded at
ROUTINES = {("reg", "size"): lambda b: "size_reg_code", ("reg", "ord"): lambda b: "ord_reg_code",
            ("reg", "not"): lambda b: "(not_reg_code %d)" % b, ("reg", "malloc"): lambda b: "malloc_reg_code",
            ("stack", "size"): lambda b: "size_stack_code", ("stack", "ord"): lambda b: "ord_stack_code",
            ("stack", "not"): lambda b: "(not_stack_code %d)" % b,
            ("stack", "malloc"): lambda b: "(malloc_stack_code %d)" % b,
            ("stack", "tstdlib_label_local_memcpy_reg"): lambda b: "(memcpy_code %d)" % b,
            # chr calls malloc: its instruction list depends on where malloc is loaded
            ("reg", "chr"): lambda b, mb: "(chr_reg_code %d)" % mb,
            ("stack", "chr"): lambda b, mb: "(chr_stack_code %d)" % mb,
            ("stack", "tstrcmp"): lambda b: "(tstrcmp_stack_code %d)" % b}
RHEADER = """From Coq Require Import ZArith List.
From Hera.Lib Require Import Py Machine.
From Hera.Gen Require Import Ops.
From Hera.Spec Require Import ISA.
From Hera.Model Require Import InstrOf.
From Hera.Proofs Require Import C19_Routines C19_Not C19_Stack C19_NotStack C19_Malloc C19_MallocStack C19_Memcpy C19_Chr C19_ChrStack C19_StrcmpStack.
Import ListNotations.
Open Scope Z_scope.
Definition keyof (p : opname * list Z) : list Z := match instr_of (fst p) (snd p) with Some i => instr_key i | None => [] end.
Definition flat (l : list (list Z)) : list Z := concat (map (fun k => Z.of_nat (List.length k) :: k) l).
"""


def real_routine(conv, name, pad):
    """The operations the real parser + preprocessor produce for the library routine `name` of convention `conv`,
    loaded after `pad` user instructions: from its label to its RETURN.
    -> (address, [(class name, [int args])]) or a string saying why not."""
    from hera.data import Settings
    from hera.loader import load_program
    try:
        p = load_program("#include <Tiger-stdlib-%s-data.hera>\n%sHALT()\n#include <Tiger-stdlib-%s.hera>\n"
                         % (conv, "NOP()\n" * pad, conv), Settings())
    except SystemExit:
        return "the %s-convention library no longer loads" % conv
    if name not in p.symbol_table:
        return "no label %s in the library" % name
    base = int(p.symbol_table[name])
    i, ops = base, []
    while i < len(p.code) and len(ops) < 80:
        o = p.code[i]
        if not all(isinstance(a, int) for a in o.args):
            return "non-integer argument in %s" % name
        ops.append((type(o).__name__, [int(a) for a in o.args]))
        i += 1
        if type(o).__name__ == "RETURN":
            break
    return base, ops


def routine_correspondence(disagreements):
    """The instruction lists the routine theorems are about are the library's routines, wherever they are loaded."""
    import io, contextlib
    n = 0
    for (conv, name), const in ROUTINES.items():
        for pad in (0, 7, 300):
            with contextlib.redirect_stdout(io.StringIO()), contextlib.redirect_stderr(io.StringIO()):
                got = real_routine(conv, name, pad)
            if isinstance(got, str):
                disagreements.append({"what": "routine %s/%s: %s" % (conv, name, got)})
                break
            base, ops = got
            if const.__code__.co_argcount == 2:
                with contextlib.redirect_stdout(io.StringIO()), contextlib.redirect_stderr(io.StringIO()):
                    mgot = real_routine(conv, "malloc", pad)
                if isinstance(mgot, str):
                    disagreements.append({"what": "routine %s/malloc: %s" % (conv, mgot)})
                    break
                cterm = const(base, mgot[0])
            else:
                cterm = const(base)
            term = "[%s]" % "; ".join("(O_%s, [%s])" % (ec.cname_ident(c), "; ".join(z(a) for a in args)) for c, args in ops)
            outs = coqrun.eval_cases("C19r_%s_%s_%d" % (conv, name, pad), RHEADER,
                                     ["flat (map keyof %s)" % term, "flat (map instr_key %s)" % cterm], shard=10)
            n += 1
            if outs[0] != outs[1] or 0 in outs[0][:1] or not outs[0]:
                disagreements.append({"what": "the %s-convention library routine %s (loaded at %d) is no longer the instruction list %s "
                                              "of the C19 routine theorems" % (conv, name, base, cterm),
                                      "impl": ops, "impl_keys": outs[0], "model_keys": outs[1]})
                break
    return n


def getchar_program(conv, n):
    lines = ["DLABEL(results)", "DSKIP(%d)" % n, "#include <Tiger-stdlib-%s-data.hera>" % conv, "CBON()"]
    for k in range(n):
        lines.append("MOVE(R12, SP)")
        if conv == "stack":
            lines += ["INC(SP, 3)", "CALL(R12, getchar_ord)", "LOAD(R1, 3, R12)", "DEC(SP, 3)"]
        else:
            lines.append("CALL(R12, getchar_ord)")
        lines += ["SET(R11, results)", "STORE(R1, %d, R11)" % k]
    lines += ["SET(R11, 0x7e57)", "HALT()", "#include <Tiger-stdlib-%s.hera>" % conv]
    return "\n".join(lines) + "\n"


def getchar_oracle(conv, stdin, n):
    """getchar_ord called n times reads standard input character by character, line after line (line ends are not
    delivered; an empty line and the end of input read as 0).  D58: the read position was not restarted with a new line."""
    want = []
    for l in stdin.split("\n")[:-1] if stdin.endswith("\n") else stdin.split("\n"):
        want += [ord(c) & 0xFFFF for c in l] or [0]
    want = (want + [0] * n)[:n]
    r = sc.run(getchar_program(conv, n), stdin=stdin)
    what = "%s getchar_ord x %d on input %r" % (conv, n, stdin)
    if "raise" in r:
        return "%s: %s" % (what, r["raise"])
    if "rror" in r["err"] or r["vm"].registers[11] != 0x7e57:
        return "%s stops with %r" % (what, r["err"][:150])
    res = int(r["symbols"]["results"])
    got = [r["vm"].load_memory(res + k) for k in range(n)]
    if got != want:
        return "%s reads %r, expected %r" % (what, got, want)
    return None


def io_frame_oracle(conv, fn, fp=40, sp=60):
    """The input functions keep the calling contract too: back to the caller with FP and SP as they were (D66: the
    register-convention getchar / getline came back with FP pointing into their own frame)."""
    lines = ["#include <Tiger-stdlib-%s-data.hera>" % conv, "CBON()", "SET(FP, %d)" % fp, "SET(SP, %d)" % sp, "MOVE(R12, SP)"]
    if conv == "stack":
        lines += ["INC(SP, 3)", "CALL(R12, %s)" % fn, "DEC(SP, 3)"]
    else:
        lines.append("CALL(R12, %s)" % fn)
    lines += ["MOVE(R5, FP)", "MOVE(R6, SP)", "SET(R11, 0x7e57)", "HALT()", "#include <Tiger-stdlib-%s.hera>" % conv]
    r = sc.run("\n".join(lines) + "\n", stdin="hello\nworld\n")
    what = "%s %s with FP = %d, SP = %d" % (conv, fn, fp, sp)
    if "raise" in r:
        return "%s: %s" % (what, r["raise"])
    vm = r["vm"]
    if vm.registers[11] != 0x7e57:
        return "%s does not return to its caller" % what
    if (vm.registers[5], vm.registers[6]) != (fp, sp):
        return "%s: FP/SP after the call sequence are %d/%d" % (what, vm.registers[5], vm.registers[6])
    return None


SHEADER = """From Coq Require Import ZArith List.
From Hera.Lib Require Import Py Machine.
From Hera.Model Require Import Stdlib.
Import ListNotations.
Open Scope Z_scope.
"""


def strcmp_correspondence(rng, n, disagreements, spec_failures, model_available):
    import hera.stdlib as sl
    from hera.data import Settings
    from hera.vm import VirtualMachine
    f = getattr(sl, "tiger_tstrcmp_reg", None)
    if f is None:
        disagreements.append({"what": "hera/stdlib.py no longer has tiger_tstrcmp_reg: the model has nothing to be compared with"})
        return 0
    cases = []
    for _ in range(n):
        alphabet = rng.choice([[97, 98], [0, 1, 65535], [97, 98, 99, 32768, 65535, 0], [5]])
        def mk():
            return [rng.choice(alphabet) for _ in range(rng.choice([0, 0, 1, 2, 3, 5]))]
        a = mk()
        b = list(a[:rng.randrange(len(a) + 1)]) + (mk() if rng.random() < 0.5 else []) if rng.random() < 0.5 else mk()
        s1 = rng.choice([0, 3, 100, 0xC001, 65500])
        s2 = s1 + len(a) + 1 + rng.choice([0, 1, 7])
        cells = {}
        for base, st in ((s1, a), (s2, b)):
            cells[base] = len(st)
            for i, c in enumerate(st):
                cells[base + 1 + i] = c
        if rng.random() < 0.2:
            cells[s2 + len(b) + 1] = rng.choice(alphabet)         # something behind the second string
        if rng.random() < 0.1:
            s2 = s1                                                  # the same string twice
            b = a
        cases.append((s1, s2, a, b, cells))
    got = []
    for s1, s2, a, b, cells in cases:
        vm = VirtualMachine(Settings())
        vm.reset()
        for addr, v in cells.items():
            if addr < 65536:
                vm.store_memory(addr, v)
        vm.registers[1], vm.registers[2] = s1, s2
        try:
            f(vm)
            got.append(vm.registers[1])
        except BaseException as e:  # noqa
            got.append("raise %s" % type(e).__name__)
    for (s1, s2, a, b, cells), g in zip(cases, got):
        # the strings as the helper sees them (cells beyond 65535 read as 0)
        ra = [cells.get(s1 + 1 + i, 0) if s1 + 1 + i < 65536 else 0 for i in range(cells[s1])]
        rb = [cells.get(s2 + 1 + i, 0) if s2 + 1 + i < 65536 else 0 for i in range(cells[s2])]
        want = 65535 if ra < rb else 1 if ra > rb else 0
        if g != want:
            spec_failures.append({"what": "reg tstrcmp of %r and %r (cells at %d and %d) gives %r, the order of the two character lists is %d"
                                          % (ra, rb, s1, s2, g, want), "function": "tstrcmp"})
    agree = 0
    if model_available:
        terms = []
        for s1, s2, a, b, cells in cases:
            live = sorted((k, v) for k, v in cells.items() if k < 65536)
            mlen = (max(k for k, _ in live) + 1) if live else 0
            terms.append("[tstrcmp_reg (mem_read (mkmem %s [%s])) %s %s]" % (z(mlen), "; ".join("(%s, %s)" % (z(k), z(v)) for k, v in live), z(s1), z(s2)))
        outs = coqrun.eval_cases("C19s", SHEADER, terms, shard=500)
        for c, g, o in zip(cases, got, outs):
            if o == [g]:
                agree += 1
            else:
                disagreements.append({"what": "tiger_tstrcmp_reg vs Model/Stdlib.tstrcmp_reg", "strings": [c[2], c[3]], "at": [c[0], c[1]],
                                      "impl": g, "model": o})
    return agree


def known_replays(ctx, findings):
    """D45: the stack-convention getline does not return to its caller."""
    out = []
    for e in findings:
        if e["id"] == "D58":
            bad = None
            for conv in ("reg", "stack"):
                bad = bad or getchar_oracle(conv, e["stdin"], 6)
            out.append((e, bad is not None, bad))
            continue
        if e["id"] == "D66":
            bad = None
            for fn in e["functions"]:
                bad = bad or io_frame_oracle("reg", fn)
            out.append((e, bad is not None, bad))
            continue
        if e["id"] == "D62":
            conv, f, args = e["call"]
            bad = oracle(ctx.rng, conv, f, args)
            out.append((e, bad is not None, bad))
            continue
        if e["id"] != "D45":
            continue
        r = sc.run(sc.program("stack", "getline", [], {k: k for k in range(1, 11)}), stdin="abc\n")
        bad = "raise" in r or r["vm"].registers[11] != 0x7e57
        out.append((e, bad, None if not bad else "the instruction after the call sequence was never reached"))
    return out


def correspondence(ctx, model_available=True):
    quick = ctx.tier == "quick"
    rng = ctx.rng
    import hera.stdlib as sl
    spec_failures, disagreements = [], []
    # (1) the arithmetic of div/mod: real helpers vs Model/Stdlib.v, and vs signed division
    pairs = [(a, b) for a in EDGE for b in EDGE] + [(rng.randrange(65536), rng.randrange(65536)) for _ in range(300 if quick else 20000)]
    agree = 0
    fdiv, fmod = getattr(sl, "tiger_div", None), getattr(sl, "tiger_mod", None)
    if fdiv is not None and model_available:
        outs = coqrun.eval_cases("C19d", HEADER, ["[tiger_div %s %s; tiger_mod %s %s]" % (z(a), z(b), z(a), z(b)) for a, b in pairs], shard=2000)
        for (a, b), o in zip(pairs, outs):
            if o == [fdiv(a, b), fmod(a, b)]:
                agree += 1
            else:
                disagreements.append({"what": "tiger_div/tiger_mod vs Model/Stdlib", "args": [a, b], "impl": [fdiv(a, b), fmod(a, b)], "model": o})
    elif model_available:
        disagreements.append({"what": "hera/stdlib.py no longer has tiger_div / tiger_mod: the model has nothing to be compared with"})
    # (1b) the register-convention tstrcmp (a Python helper over memory) vs Model/Stdlib.tstrcmp_reg, and vs the
    #      lexicographic order of the two character lists computed here
    scmp = strcmp_correspondence(rng, 150 if quick else 5000, disagreements, spec_failures, model_available)
    routines = routine_correspondence(disagreements) if model_available else 0
    # (2) the library on the real interpreter
    st = {"calls": 0, "by_function": {}}
    # getline: the register version must return the line read; the stack version is finding D45
    r = sc.run(sc.program("reg", "getline", [], {k: k for k in range(1, 11)}), stdin="abc\n")
    if "raise" in r or r["vm"].registers[11] != 0x7e57 or sc.read_string(r["vm"], r["vm"].load_memory(int(r["symbols"]["results"]))) != "abc":
        spec_failures.append({"what": "reg getline does not return the line read to its caller", "function": "getline"})
    r = sc.run(sc.program("stack", "getline", [], {k: k for k in range(1, 11)}), stdin="abc\n")
    if "raise" in r or r["vm"].registers[11] != 0x7e57:
        spec_failures.append({"what": "stack getline does not return to its caller", "function": "getline", "known_id": "D45"})
    # the input functions and the frame
    for conv, fn in (("reg", "getchar"), ("reg", "getline"), ("reg", "getchar_ord"), ("stack", "getchar"), ("stack", "getchar_ord"),
                     ("reg", "ungetchar"), ("stack", "ungetchar"), ("reg", "flush"), ("stack", "flush")):
        p = io_frame_oracle(conv, fn, rng.choice([0, 40, 300]), rng.choice([0, 7]) + 310)
        st["calls"] += 1
        if p:
            spec_failures.append({"what": p, "function": fn, "convention": conv})
    # getchar_ord over several input lines
    for _ in range(12 if quick else 200):
        stdin = "".join(rng.choice(["", "a", "ab", "xyz", "hello", "\x01~"]) + "\n" for _ in range(rng.choice([1, 2, 3, 4])))
        if rng.random() < 0.2:
            stdin = stdin[:-1]
        for conv in ("stack", "reg"):
            p = getchar_oracle(conv, stdin, rng.choice([1, 3, 6, 9]))
            st["calls"] += 1
            st["by_function"]["getchar_ord"] = st["by_function"].get("getchar_ord", 0) + 1
            if p:
                spec_failures.append({"what": p, "function": "getchar_ord", "stdin": stdin, "convention": conv})
    for _ in range(250 if quick else 5000):
        f, args = gen_call(rng)
        for conv in ("stack", "reg"):
            p = oracle(rng, conv, f, args)
            st["calls"] += 1
            st["by_function"][f] = st["by_function"].get(f, 0) + 1
            if p:
                spec_failures.append({"what": p, "function": f, "args": args, "convention": conv})
    return {
        "cases": len(pairs) + st["calls"], "nontrivial": st["calls"],
        "rule": "the operations the real loader produces for `size`, `ord` and `not` of both conventions, loaded at three different "
                "addresses, vs the instruction lists of the routine theorems (through Model/InstrOf); div/mod helpers vs Model/Stdlib.v on the grid of edge values (0, +-1, +-2, +-32768, 32767, ...) and random "
                "words; every library function in both conventions called from a generated caller on the real interpreter "
                "with edge and random arguments (negative numbers, zero divisors, empty / equal / prefix / unequal strings, "
                "out-of-range substring bounds) under random register contents: result vs an independent computation, "
                "return to the caller, SP/FP restored, R1..R10 preserved (stack convention), malloc blocks disjoint, returned strings "
                "inside their block; getchar_ord over several lines of standard input",
        "distribution": {"divmod_pairs": len(pairs), "divmod_model_agree": agree, "tstrcmp_model_agree": scmp, "routines_compared": routines, **st},
        "samples": [{"function": "div", "args": [65530, 2]}],
        "disagreements": disagreements[:10], "spec_failures": spec_failures[:5],
        "model_vs_impl_agree": agree, "model_available": model_available,
    }


def search(ctx, breaks):
    r = correspondence(ctx, model_available=False)
    return r["spec_failures"][:3]


def replay(ctx, path):
    print(open(path).read()[:6000])
    return 0


if __name__ == "__main__":
    sys.exit(framework.run_check(sys.modules[__name__], sys.argv[1:]))
