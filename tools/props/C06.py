"""C06 — assembled machine code and data image run exactly like the interpreted source."""
import os
import sys
import tempfile

sys.path.insert(0, os.path.join(os.path.dirname(os.path.abspath(__file__)), "..", "lib"))
sys.path.insert(0, os.path.dirname(os.path.abspath(__file__)))
import framework  # noqa: E402
import coqrun  # noqa: E402
import progcases as pc  # noqa: E402
from coqrun import z, zlist  # noqa: E402
from vmstate import Reader, decode_vm, diff, run_real, snapshot_vm  # noqa: E402

PID = "C06"
TARGETS = ["Properties/C06.vo"]
MODEL_TARGETS = ["Spec/WordMachine.vo", "Lib/Enc.vo", "Model/Listing.vo"]
ASSUMPTIONS = [
    "the comparison is made on sources without debugging operations (with them the interpreted program has extra "
    "instruction slots, so code addresses held in registers legitimately differ); separately, deleting the "
    "debugging operations must leave the assembler output byte-identical",
    "MUL only in low-word mode and CALL/RETURN with distinct operand registers (points the ISA leaves open)",
    "the independent word machine is Spec/WordMachine.v (specification decoder + specification step)",
]
TRUSTED = ["coq/Spec/WordMachine.v, coq/Spec/EncTable.v (decode_word), coq/Spec/ISA.v",
           "coq/Model/Listing.v: hand model of the text assemble_and_print prints and a strict reader of the format "
           "(n*0 = n zero cells, any other line one hexadecimal number), compared with the real --stdout --code / --data "
           "output character by character and with int(line, 16)"]
NOTES = []

HEADER = """From Coq Require Import ZArith List Bool String.
From Hera.Lib Require Import Py Machine Enc.
From Hera.Spec Require Import ISA EncTable WordMachine.
Import ListNotations.
Open Scope Z_scope.
Definition enc_wrun (r : res vm) : list Z := enc_res enc_vm r.
"""

THROTTLE = 300


def gen_source(rng):
    """A program accepted in run and assemble mode, without debugging ops, MUL only after CBON."""
    for _ in range(50):
        lines = pc.gen_valid(rng, n_code=rng.choice([3, 8, 15, 30]))
        out = []
        for ln in lines:
            head = ln.split("(")[0]
            if head in ("print_reg", "print", "println", "SWI", "RTI", "OPCODE", "__eval"):
                continue
            if head == "MUL":
                out.append("CBON()")
            if head in ("CALL", "RETURN"):
                ln = ln.replace("R5", "R12").replace("R3", "R12").replace("R2", "R13")
            out.append(ln)
        if rng.random() < 0.3:
            # instruction words written as OPCODE, the same word more than once (inserted before the aliasing family below is appended:
            # between a RETURN(Ra, Ra) and its target they would expose the order of the two exchanges, which the ISA
            # leaves open - a false alarm of the first full pass; seed C06i: a cache in disassemble
            # handed every occurrence of a word the same operation object, and encoding it consumed its operands)
            for _ in range(rng.choice([1, 2])):
                rd, ra, rb = rng.randrange(1, 11), rng.randrange(11), rng.randrange(11)
                w = rng.choice([0xA000, 0xB000, 0x8000, 0x9000, 0xD000]) | rd << 8 | ra << 4 | rb
                if rng.random() < 0.4:
                    w = rng.choice([0xE000, 0xF000]) | rd << 8 | rng.randrange(256)
                for _ in range(rng.choice([2, 2, 3])):
                    first = max([i + 1 for i, l in enumerate(out) if l.split("(")[0] in ("DLABEL", "INTEGER", "LP_STRING", "DSKIP", "TIGER_STRING")] or [0])
                    out.insert(rng.randrange(first, len(out) + 1), "OPCODE(0x%04x)" % w)
        if rng.random() < 0.3:
            # calls and returns whose two operands are one register, or whose second operand is FP itself: the order of
            # the two exchanges shows (seed C06h read all three registers first and wrote them afterwards)
            k = rng.randrange(1000)
            a, b = rng.choice([("R12", "R12"), ("R12", "R14"), ("R13", "R13"), ("R14", "R14"), ("R5", "R14"), ("R14", "R13")])
            op = rng.choice(["CALL", "RETURN"])
            out += ["SET(%s, 0x%x)" % (a, rng.randrange(65536)), "SET(R14, 0x%x)" % rng.randrange(65536),
                    "SET(%s, alias%d)" % (b, k), "%s(%s, %s)" % (op, a, b), "LABEL(alias%d)" % k,
                    "MOVE(R6, R12)", "MOVE(R7, R13)", "MOVE(R8, R14)", "MOVE(R9, R5)"]
        if rng.random() < 0.7:
            out.append("HALT()")
        text = "\n".join(out) + "\n"
        ok = True
        for mode in ("", "assemble"):
            cfg = {"mode": mode, "allow_interrupts": mode == "assemble", "no_debug_ops": False, "data_start": 0xC001}
            ops, pm = pc.real_parse(text, cfg)
            if ops is None or pm.get("errors"):
                ok = False
                break
            r = pc.real_check(ops, cfg)
            if "raise" in r or r["errors"]:
                ok = False
                break
        if ok:
            return text
    return "SET(R1, 5)\nHALT()\n"


def add_debug_ops(rng, text):
    lines = text.splitlines()
    first_code = 0
    for i, ln in enumerate(lines):
        if ln.split("(")[0] in ("CONSTANT", "DLABEL", "INTEGER", "LP_STRING", "TIGER_STRING", "DSKIP"):
            first_code = i + 1
    for _ in range(rng.choice([1, 2, 4])):
        k = rng.randrange(first_code, len(lines) + 1)
        lines.insert(k, rng.choice(['print_reg(R1)', 'print("x")', 'println("y z")', '__eval("1")', '__eval("vm")']))
    return "\n".join(lines) + "\n"


def real_assemble(text, big):
    from hera.main import main
    with tempfile.TemporaryDirectory() as d:
        p = os.path.join(d, "p.hera")
        open(p, "w").write(text)
        argv = ["assemble", "--stdout"] + (["--big-stack"] if big else []) + [p]
        _, exc, out, err = run_real(lambda: main(argv))
    if exc:
        return {"raise": exc, "stderr": err[-300:]}
    sect, data, code = None, [], []
    for ln in out.splitlines():
        t = ln.strip()
        if t == "[DATA]":
            sect = "d"
        elif t == "[CODE]":
            sect = "c"
        elif t:
            (data if sect == "d" else code).append(t)
    zeros = int(data[0].split("*")[0])
    cells = [int(x, 16) for x in data[1:]]
    return {"text": out, "first_cell": zeros, "cells": cells, "words": [int(x, 16) for x in code]}


LISTING_HEADER = """From Coq Require Import ZArith List Bool.
From Hera.Model Require Import Listing.
Import ListNotations.
Open Scope Z_scope.
Definition enc_words (o : option (list Z)) : list Z := match o with Some ws => 1 :: ws | None => [0] end.
Definition enc_runs (o : option (list (Z * Z))) : list Z :=
  match o with Some rs => 1 :: flat_map (fun r => [fst r; snd r]) rs | None => [0] end.
Definition enc_opt (o : option Z) : list Z := match o with Some v => [1; v] | None => [0] end.
Definition enc_full (o : option (list (Z * Z) * list Z)) : list Z :=
  match o with Some (rs, ws) => 1 :: flat_map (fun r => [fst r; snd r]) rs ++ (-1) :: ws | None => [0] end.
"""


def real_listing(text, big, which):
    """The text `hera assemble --stdout --code|--data` prints, without the newline print() adds."""
    from hera.main import main
    with tempfile.TemporaryDirectory() as d:
        p = os.path.join(d, "p.hera")
        open(p, "w").write(text)
        argv = ["assemble", "--stdout", which] + (["--big-stack"] if big else []) + [p]
        _, exc, out, err = run_real(lambda: main(argv))
    if exc:
        return None
    return out[:-1] if out.endswith("\n") else out


def listing_correspondence(ctx, res, cases):
    """Model/Listing.v against the real printer: the model's rendering of the words and cells is the printed text,
    character by character; the strict reader applied to the REAL text gives back the words / the image; parse_hex
    is int(line, 16) on lines of hex digits."""
    rng = ctx.rng
    terms, metas = [], []
    dist = res["distribution"]
    dist.update({"listings": 0, "listing_cells_max": 0, "hex_lines": 0})
    for text, big, ds, words, cells, full_txt in cases:
        code_txt = real_listing(text, big, "--code")
        data_txt = real_listing(text, big, "--data")
        if code_txt is None or data_txt is None:
            res["spec_failures"].append({"what": "hera assemble --stdout --code/--data raised on an accepted program", "program": text})
            continue
        dist["listings"] += 1
        dist["listing_cells_max"] = max(dist["listing_cells_max"], len(cells))
        cz = zlist([ord(c) for c in code_txt])
        dz = zlist([ord(c) for c in data_txt])
        terms += ["code_listing %s" % zlist(words), "data_listing %s %s" % (z(ds), zlist(cells)),
                  "enc_words (read_code %s)" % cz, "enc_runs (read_image %s)" % dz,
                  "full_listing %s %s %s" % (z(ds), zlist(cells), zlist(words)),
                  "enc_full (read_full %s)" % zlist([ord(c) for c in full_txt])]
        metas.append((text, big, ds, words, cells, code_txt, data_txt, full_txt))
    hexlines = []
    for _ in range(300):
        n = rng.choice([1, 1, 2, 3, 4, 4, 4, 5, 6])
        hexlines.append("".join(rng.choice("0123456789abcdefABCDEF") for _ in range(n)))
    hexlines += ["0", "0000", "ffff", "FFFF", "10000", "c001", "g", "", "12 ", " 12", "0x12", "1_2", "+1", "-1", "zz"]
    for h in hexlines:
        terms.append("enc_opt (parse_hex %s)" % zlist([ord(c) for c in h]))
    dist["hex_lines"] = len(hexlines)
    outs = coqrun.eval_cases("C06l", LISTING_HEADER, terms, shard=200)
    agree = 0
    k = 0
    for text, big, ds, words, cells, code_txt, data_txt, full_txt in metas:
        mc, md, rc, ri, mf, rf = outs[k:k + 6]
        k += 6
        ok = True
        if mc != [ord(c) for c in code_txt] and words:
            ok = False
            res["disagreements"].append({"what": "code listing: Model/Listing.code_listing differs from the printed text",
                                         "program": text, "printed": code_txt[:200], "model": "".join(map(chr, mc))[:200]})
        if md != [ord(c) for c in data_txt]:
            ok = False
            res["disagreements"].append({"what": "data listing: Model/Listing.data_listing differs from the printed text",
                                         "program": text, "big_stack": big, "printed": data_txt[:200],
                                         "model": "".join(map(chr, md))[:200]})
        if words and rc != [1] + words:
            ok = False
            res["spec_failures"].append({"what": "the printed code listing does not read back (one 4-digit hexadecimal word per "
                                                 "line) as the assembled words", "program": text, "printed": code_txt[:200]})
        want = [1, ds - 1, 0, 1, ds + len(cells)]
        for c in cells:
            want += [1, c]
        if ri != want:
            ok = False
            res["spec_failures"].append({"what": "the printed data image does not read back (n*0 = n zero cells, then one "
                                                 "hexadecimal cell per line) as data_start-1 zeroes, the next free cell and the "
                                                 "data cells", "program": text, "big_stack": big, "printed": data_txt[:200]})
        if mf != [ord(c) for c in full_txt]:
            ok = False
            res["disagreements"].append({"what": "whole --stdout text: Model/Listing.full_listing differs from the printed text",
                                         "program": text, "big_stack": big, "printed": full_txt[:300],
                                         "model": "".join(map(chr, mf))[:300]})
        if words and rf != want + [-1] + words:
            ok = False
            res["spec_failures"].append({"what": "the text of `hera assemble --stdout` does not read back ([DATA] section as a Logisim "
                                                 "image, [CODE] section one word per line) as the data image and the assembled words",
                                         "program": text, "big_stack": big, "printed": full_txt[:300]})
        agree += ok
    for h, o in zip(hexlines, outs[k:]):
        strict = h != "" and all(c in "0123456789abcdefABCDEF" for c in h)
        want = [1, int(h, 16)] if strict else [0]
        if o != want:
            res["disagreements"].append({"what": "Model/Listing.parse_hex differs from int(line, 16) on a line of hex digits",
                                         "line": h, "model": o, "impl": want})
    res["listing_agree"] = agree
    dist["listing_agree"] = agree


def real_run(text, big):
    from hera.main import main
    with tempfile.TemporaryDirectory() as d:
        p = os.path.join(d, "p.hera")
        open(p, "w").write(text)
        argv = ["--quiet", "--throttle", str(THROTTLE)] + (["--big-stack"] if big else []) + [p]
        vm, exc, out, err = run_real(lambda: main(argv))
    if exc:
        return {"raise": exc, "stderr": err[-300:]}
    return snapshot_vm(vm, out, "")


def view(d, data_start, ncells):
    """What the property compares: registers, flags, memory, halt status, pc."""
    mem = dict(d["mem"])
    mem.pop(data_start - 1, None) if False else None
    return {"regs": d["regs"], "flags": d["flags"], "mem": {int(k): v for k, v in mem.items()},
            "halted": d["halted"], "pc": d["pc"]}


def redisassemble(words):
    """What `hera disassemble` prints for the emitted words (seed C06f: the command started to print
    OR(Rd, R0, Rb) as MOVE(Rd, Rb)); falls back on op.disassemble when the command refuses the file."""
    import hera.op as op
    from hera.main import main
    with tempfile.TemporaryDirectory() as d:
        p = os.path.join(d, "w.lcode")
        open(p, "w").write("".join("%04x\n" % w for w in words))
        _, exc, out, err = run_real(lambda: main(["disassemble", p]))
    if exc or not out.strip():
        return "\n".join(str(op.disassemble(w)) for w in words) + "\n"
    return out


def correspondence(ctx, model_available=True):
    quick = ctx.tier == "quick"
    rng = ctx.rng
    res = {"cases": 0, "disagreements": [], "spec_failures": [], "model_available": model_available,
           "distribution": {"programs": 0, "with_data": 0, "halting": 0, "cut_by_throttle": 0, "big_stack": 0,
                            "debug_variants": 0, "redisassembled": 0}}
    progs = []
    for k in range(150 if quick else 2000):
        text = gen_source(rng)
        big = rng.random() < 0.3
        progs.append((text, big))
    terms, metas = [], []
    listing_cases = []
    nontrivial = set()
    for text, big in progs:
        dist = res["distribution"]
        dist["programs"] += 1
        dist["big_stack"] += big
        asm = real_assemble(text, big)
        if "raise" in asm:
            res["spec_failures"].append({"what": "hera assemble raised %s on an accepted program" % asm["raise"],
                                         "program": text, "stderr": asm.get("stderr")})
            continue
        run = real_run(text, big)
        if "raise" in run:
            res["spec_failures"].append({"what": "hera raised %s on an accepted program" % run["raise"], "program": text})
            continue
        ds = 0xC167 if big else 0xC001
        # Hassem's "next free cell" sits at data_start-1 and is not part of the comparison
        if asm["first_cell"] != ds - 1 or not asm["cells"] or asm["cells"][0] != ds + len(asm["cells"]) - 1:
            res["spec_failures"].append({"what": "data image header is %r*0 / %r for data_start %d and %d cells"
                                         % (asm["first_cell"], asm["cells"][:1], ds, len(asm["cells"]) - 1),
                                         "program": text})
            continue
        cells = asm["cells"][1:]
        dist["with_data"] += bool(cells)
        dist["halting"] += run["halted"] == ["bool", True]
        dist["cut_by_throttle"] += run["op_count"] == THROTTLE
        # deleting / adding debugging operations must not change the assembler output
        dbg = real_assemble(add_debug_ops(rng, text), big)
        dist["debug_variants"] += 1
        if dbg.get("text") != asm["text"]:
            res["spec_failures"].append({"what": "adding debugging operations changes the assembler output",
                                         "program": text, "with_debug": dbg})
        # disassembly of the emitted code re-assembles to the same words
        try:
            again = real_assemble(redisassemble(asm["words"]), big)
            dist["redisassembled"] += 1
            if again.get("words") != asm["words"]:
                res["spec_failures"].append({"what": "disassembly of the emitted code does not re-assemble to the same words",
                                             "program": text})
        except Exception as e:  # noqa
            res["spec_failures"].append({"what": "disassembling the emitted code raised %s" % type(e).__name__, "program": text})
        cfg = "(mksettings %s true [] None)" % z(ds)
        terms.append("enc_wrun (wrun %d %s (image_state %s %s %s))" % (THROTTLE, zlist(asm["words"]), cfg, z(ds), zlist(cells)))
        metas.append((text, big, run, ds, len(cells)))
        if len(listing_cases) < (40 if quick else 400):
            listing_cases.append((text, big, ds, asm["words"], cells, asm["text"][:-1] if asm["text"].endswith("\n") else asm["text"]))
        if len(asm["words"]) > 2:
            nontrivial.add(text)
    res["cases"] = len(progs)
    if model_available and terms:
        outs = coqrun.eval_cases("C06", HEADER, terms, shard=40)
        agree = 0
        for (text, big, run, ds, n), o in zip(metas, outs):
            r = Reader(o)
            if r.int() == 1:
                res["spec_failures"].append({"what": "the word machine cannot execute the assembled words (exception code %d)" % r.int(),
                                             "program": text})
                continue
            w = decode_vm(r)
            d = diff(view(run, ds, n), view(w, ds, n))
            if d:
                res["spec_failures"].append({"what": "assembled code on the word machine differs from the interpreter: %s" % d,
                                             "program": text, "big_stack": big})
            else:
                agree += 1
        res["spec_vs_impl_agree"] = agree
    if model_available:
        listing_correspondence(ctx, res, listing_cases)
    res["spec_failures"] = res["spec_failures"][:5]
    res["nontrivial"] = len(nontrivial)
    res["rule"] = ("generated sources accepted in run and assemble mode (data statements of every kind, labels, "
                   "register/relative label branches, calls, pseudo-ops; no debugging ops; MUL in low-word mode): "
                   "`hera assemble --stdout` output is parsed into words + data image and executed for %d steps by "
                   "the independent word machine (Spec/WordMachine.v evaluated in Coq); `hera --throttle %d` runs the "
                   "source; registers, flags, memory, halt status and pc are compared. Also: adding debugging ops "
                   "leaves the assembler output byte-identical; disassembling the emitted words and re-assembling "
                   "gives the same words. The text of `--stdout --code` and `--stdout --data` is compared character by character "
                   "with Model/Listing.v and read back by its strict reader, and so is the whole two-section `--stdout` text. Non-trivial: more than two instructions; distinct by text."
                   % (THROTTLE, THROTTLE))
    res["samples"] = [{"program": progs[0][0], "big_stack": progs[0][1]}]
    return res


def search(ctx, breaks):
    old = ctx.tier
    ctx.tier = "thorough"
    try:
        r = correspondence(ctx, model_available=True)
    except Exception as e:  # noqa
        ctx.log("search without the model (%s)" % str(e)[-200:].replace("\n", " "))
        try:
            r = correspondence(ctx, model_available=False)
        except Exception as e2:  # noqa
            ctx.log("search failed: %s" % str(e2)[-300:])
            r = {"spec_failures": []}
    ctx.tier = old
    return r["spec_failures"][:3]


def replay(ctx, path):
    print(open(path).read()[:4000])
    return 0


if __name__ == "__main__":
    sys.exit(framework.run_check(sys.modules[__name__], sys.argv[1:]))
