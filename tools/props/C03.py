"""C03 — each pseudo-operation means what the manual says, clobbering only what it may."""
import os
import sys

sys.path.insert(0, os.path.join(os.path.dirname(os.path.abspath(__file__)), "..", "lib"))
sys.path.insert(0, os.path.dirname(os.path.abspath(__file__)))
import framework  # noqa: E402
import coqrun  # noqa: E402
import execcases as ec  # noqa: E402
import opcases as oc  # noqa: E402
from vmstate import Reader, decode_vm, diff, run_real, snapshot_vm  # noqa: E402

PID = "C03"
TARGETS = ["Properties/C03.vo"]
MODEL_TARGETS = ["Model/EncOp.vo"]
ASSUMPTIONS = [
    "theorems are about Gen/Convert.v (regenerated from the convert methods of hera/op.py) executed by Gen/Ops.v",
    "Spec/PseudoSpec.v is a faithful reading of the manual's pseudo-operation definitions",
    "label values are < 65536; NOT's source is not Rt; CALL's first operand is not R13/R14 for the full meaning (left open by C01); that the call arrives at the label is a theorem and an oracle for every register",
    "SET/SETRF to R15: equality up to hera-py's stack-overflow warning bookkeeping (the intermediate SETLO value "
    "may trigger the once-only warning), exact for every other destination",
]
TRUSTED = ["coq/Model/Bitvec.v convert_full (OPCODE.convert through the disassemble model)"]
NOTES = []

BRANCHES = ["BR", "BL", "BGE", "BLE", "BG", "BULE", "BUG", "BZ", "BNZ", "BC", "BNC", "BS", "BNS", "BV", "BNV"]


def gen_ops(rng, quick):
    n = 20 if quick else 120
    vals = [0, 1, 127, 128, 255, 256, 0x7FFF, 0x8000, 0xFFFF, -1, -128, -32768, 0xC001, 0x1080, 0x00FF, 65535]
    labels = [0, 1, 127, 128, 200, 255, 256, 300, 0x1234, 0x7FFF, 0x8000, 0xFF80, 65535]
    out = []
    for _ in range(n):
        out.append(("SET", [("REGISTER", ec.rand_reg(rng)), ("INT", rng.choice(vals) if rng.random() < 0.7 else rng.randrange(-32768, 65536))]))
        out.append(("SETRF", [("REGISTER", ec.rand_reg(rng)), ("INT", rng.choice(vals) if rng.random() < 0.7 else rng.randrange(-32768, 65536))]))
        for name in ("MOVE", "CMP", "NEG", "NOT"):
            out.append((name, [("REGISTER", ec.rand_reg(rng)), ("REGISTER", ec.rand_reg(rng))]))
        out.append(("FLAGS", [("REGISTER", ec.rand_reg(rng))]))
        for name in ("CON", "COFF", "CBON", "CCBOFF", "HALT", "NOP"):
            out.append((name, []))
        for b in rng.sample(BRANCHES, 4 if quick else 15):
            out.append((b, [("INT", rng.choice(labels) if rng.random() < 0.7 else rng.randrange(65536))]))
        out.append(("CALL", [("REGISTER", rng.choice([12, 12, 1, 0, 15, 11])), ("INT", rng.choice(labels))]))
    return out


def run_real_pseudo(name, toks, st):
    o = oc.real_op(name, toks)
    ops, exc, _, _ = run_real(lambda: o.convert())
    if exc:
        return {"raise": exc}, None
    vm = st.make_vm()

    def go():
        for x in ops:
            x.execute(vm)
    _, exc, out, err = run_real(go)
    conv = [oc.describe_real_op(x) for x in ops]
    if exc:
        return {"ok": conv}, {"raise": exc}
    return {"ok": conv}, snapshot_vm(vm, out, err)


def arch_view(d, ignore_sp):
    d = dict(d)
    if ignore_sp:
        for k in ("stderr", "warning_count", "warned_ovf"):
            d.pop(k, None)
    return d


def correspondence(ctx, model_available=True):
    quick = ctx.tier == "quick"
    rng = ctx.rng
    cases = [(n, t, ec.rand_state(rng)) for n, t in gen_ops(rng, quick)]
    for _, _, st_ in cases:
        # the whole expansion (up to four instructions) lies inside a program of at most 65535 instructions: from pc = 65534
        # a label-form CALL would save the "address" 65537, which no program can reach (on seed C03i the first reported
        # difference was the masking of that value, not the wrong jump)
        if st_.pc > 65530:
            st_.pc = 65530
    impl = [run_real_pseudo(n, t, st) for n, t, st in cases]
    res = {"cases": len(cases), "disagreements": [], "spec_failures": [], "model_available": model_available,
           "distribution": {}}
    for n, _, _ in cases:
        res["distribution"][n] = res["distribution"].get(n, 0) + 1
    if model_available:
        terms = ["enc_res_ops (convert_full %s)" % oc.op_term(n, t) for n, t, _ in cases]
        terms += ["enc_opt_vm (pseudo_spec %s %s)" % (oc.op_term(n, t), st.term()) for n, t, st in cases]
        outs = coqrun.eval_cases("C03", oc.HEADER, terms, shard=200)
        k = len(cases)
        agree = spec_ok = skipped = 0
        for i, ((n, t, st), (conv, fin)) in enumerate(zip(cases, impl)):
            m = oc.decode_res(outs[i], lambda r: r.list(lambda: oc.read_op(r)))
            if m != conv:
                res["disagreements"].append({"case": {"convert": [n, t]}, "impl": conv, "model": m})
            else:
                agree += 1
            r = Reader(outs[k + i])
            if r.int() == 1:
                skipped += 1
                continue
            spec = decode_vm(r)
            if fin is None or "raise" in fin:
                res["spec_failures"].append({"what": "%s%s raises %s" % (n, tuple(v for _, v in t), (fin or conv).get("raise")),
                                             "case": {"op": n, "toks": t, "state": st.to_json()}})
                continue
            sp = n in ("SET", "SETRF") and t[0][1] == 15
            va, vb = arch_view(fin, sp), arch_view(spec, sp)
            # Rt (R11) is the documented scratch register of NOT and of the label forms of the register branches:
            # the property lets it change, it does not say to what.  (Not so when R11 is an operand.)
            if (n == "NOT" and 11 not in (t[0][1], t[1][1])) or n in BRANCHES:
                va = dict(va)
                va["regs"] = list(va["regs"])
                va["regs"][11] = vb["regs"][11]
            d = diff(va, vb)
            if d:
                res["spec_failures"].append({"what": "%s%s departs from its documented meaning: %s"
                                             % (n, tuple(v for _, v in t), d),
                                             "case": {"op": n, "toks": t, "state": st.to_json()}})
            else:
                spec_ok += 1
        res.update({"model_vs_impl_agree": agree, "spec_vs_impl_agree": spec_ok, "skipped_unconstrained": skipped})
    for b in opcode_oracle(rng, quick) + program_level_oracle(rng, quick):
        res["spec_failures"].append({"what": b})
    res["spec_failures"] = res["spec_failures"][:5]
    res["nontrivial"] = len({(n, tuple(map(tuple, t))) for n, t, _ in cases})
    res["rule"] = ("every pseudo-op class x register operands biased to R0/R11-R15 x immediates and label values at "
                   "byte/sign boundaries, from random well-formed states with all flag settings; the real convert() "
                   "output is compared with the model's, the real execution of the expansion with the documented "
                   "meaning (Spec/PseudoSpec.v evaluated in Coq); distinct by (class, operands)")
    res["samples"] = [{"op": n, "toks": t} for n, t, _ in cases[:4]]
    return res


COND = {   # branch taken? as a function of the flags (sign, zero, overflow, carry), from the HERA manual
    "BR": lambda s, z, v, c: True, "BL": lambda s, z, v, c: s != v, "BGE": lambda s, z, v, c: s == v,
    "BLE": lambda s, z, v, c: (s != v) or z, "BG": lambda s, z, v, c: not ((s != v) or z),
    "BULE": lambda s, z, v, c: (not c) or z, "BUG": lambda s, z, v, c: c and not z,
    "BZ": lambda s, z, v, c: z, "BNZ": lambda s, z, v, c: not z, "BC": lambda s, z, v, c: c, "BNC": lambda s, z, v, c: not c,
    "BS": lambda s, z, v, c: s, "BNS": lambda s, z, v, c: not s, "BV": lambda s, z, v, c: v, "BNV": lambda s, z, v, c: not v,
}


def program_level_oracle(rng, quick):
    """The label forms inside whole programs, on the real loader and interpreter: `B(label)` continues at the label
    iff its condition holds, the labels that follow are still where their instructions are, CALL(label) reaches the
    function and comes back (seed C03e: one label branch was given the wrong length, so later labels moved)."""
    from hera.data import Settings
    from hera.loader import load_program
    from hera.vm import VirtualMachine
    problems = []
    masks = [0, 31] + ([rng.randrange(32)] if quick else list(range(1, 31)))
    for b in BRANCHES:
        for m in masks:
            text = ("FSET5(%d)\n%s(first)\nINC(R1, 1)\nLABEL(first)\nINC(R2, 1)\nBR(second)\nINC(R3, 1)\nLABEL(second)\n"
                    "INC(R4, 1)\nCALL(R12, fun)\nINC(R5, 1)\nHALT()\nLABEL(fun)\nINC(R6, 1)\nRETURN(R12, R13)\n" % (m, b))
            st = Settings()
            st.throttle = 200
            prog, exc, _, _ = run_real(lambda: load_program(text, st))
            if exc or prog is None:
                problems.append("loading a program with %s(label) failed: %s" % (b, exc))
                break
            vm = VirtualMachine(st)
            _, exc, _, _ = run_real(lambda: vm.run(prog))
            s_, z_, v_, c_ = bool(m & 1), bool(m & 2), bool(m & 4), bool(m & 8)
            taken = COND[b](s_, z_, v_, c_)
            want = [0 if taken else 1, 1, 0, 1, 1, 1]
            got = list(vm.registers[1:7])
            if exc or got != want or not vm.halted:
                problems.append("FSET5(%d); %s(first) ...: registers R1..R6 end as %r%s, expected %r (the branch is %staken; every "
                                "label names the instruction after it)" % (m, b, got, " (%s)" % exc if exc else "", want, "" if taken else "not "))
                break
    # CALL(Ra, label) reaches the label whatever register Ra is - R13 and FP themselves included, where the register
    # exchanges overlap (the theorems leave those two open; that the call arrives is not open: seed C03i exchanged FP
    # with Ra first and CALL(R13, label) then jumped to the old frame pointer)
    for a in range(16):
        m1, m2 = (7, 8) if a in (5, 6) else (5, 6)
        text = ("SET(FP, 0x1234)\nSET(R13, 0x0bad)\nCALL(R%d, target)\nSETLO(R%d, 1)\nHALT()\nNOP()\nNOP()\nLABEL(target)\n"
                "SETLO(R%d, 2)\nHALT()\n" % (a, m1, m2))
        st = Settings()
        st.throttle = 50
        prog, exc, _, _ = run_real(lambda: load_program(text, st))
        if exc or prog is None:
            problems.append("loading a program with CALL(R%d, label) failed: %s" % (a, exc))
            break
        vm = VirtualMachine(st)
        _, exc, _, _ = run_real(lambda: vm.run(prog))
        if exc or vm.registers[m2] != 2 or vm.registers[m1] != 0 or not vm.halted:
            problems.append("SET(FP, 0x1234); SET(R13, 0x0bad); CALL(R%d, target): control does not arrive at the label (marker "
                            "registers R%d = %d, R%d = %d, pc = %d, halted = %s%s)"
                            % (a, m1, vm.registers[m1], m2, vm.registers[m2], vm.pc, vm.halted, ", %s" % exc if exc else ""))
            break
    return problems


def opcode_oracle(rng, quick):
    """OPCODE(d) does what the instruction with encoding d does: for instructions of every class (both halves of the
    split LOAD/STORE offset and of the flag masks included), the real assembler gives d, and OPCODE(d) run on the
    real machine ends where the instruction itself does (seed C03f: words 0x5xxx / 0x7xxx stopped decoding)."""
    import hera.op as op
    problems = []
    R = lambda: ("REGISTER", rng.randrange(16))
    cases = []
    for name in ("LOAD", "STORE"):
        for off in ([0, 15, 16, 31] if quick else range(32)):
            cases.append((name, [R(), ("INT", off), R()]))
    for name in ("FON", "FOFF", "FSET5"):
        for m in ([0, 15, 16, 31] if quick else range(32)):
            cases.append((name, [("INT", m)]))
    for name in ("ADD", "SUB", "AND", "OR", "XOR", "MUL"):
        cases.append((name, [R(), R(), R()]))
    for name in ("LSL", "LSR", "ASL", "ASR", "LSL8", "LSR8"):
        cases.append((name, [R(), R()]))
    for name in ("INC", "DEC"):
        for v in (1, 32, 33, 64):
            cases.append((name, [R(), ("INT", v)]))
    for name in ("SETLO", "SETHI"):
        for v in (0, 127, 128, 255):
            cases.append((name, [R(), ("INT", v)]))
    cases += [("SAVEF", [R()]), ("RSTRF", [R()]), ("FSET4", [("INT", 9)]), ("BR", [R()]), ("BZ", [R()]), ("BRR", [("INT", 5)]),
              ("BNZR", [("INT", 250)]), ("CALL", [("REGISTER", 12), ("REGISTER", 5)]), ("RETURN", [("REGISTER", 12), ("REGISTER", 13)])]
    for name, toks in cases:
        st = ec.rand_state(rng)
        direct = oc.real_op(name, toks)
        b, exc, _, _ = run_real(lambda: direct.assemble())
        if exc:
            continue
        w = b[0] * 256 + b[1]
        conv, fin = run_real_pseudo("OPCODE", [("INT", w)], st)
        if fin is None or "raise" in fin or "raise" in conv:
            problems.append("OPCODE(0x%04x), the encoding of %s%s, is not carried out: %s"
                            % (w, name, tuple(v for _, v in toks), (fin or conv).get("raise")))
            break
        vm = st.make_vm()
        _, exc, out, err = run_real(lambda: direct.execute(vm))
        want = snapshot_vm(vm, out, err)
        d = diff(fin, want)
        if exc or d:
            problems.append("OPCODE(0x%04x) departs from %s%s, the instruction it encodes: %s"
                            % (w, name, tuple(v for _, v in toks), exc or d))
            break
    return problems


def search(ctx, breaks):
    bad = opcode_oracle(ctx.rng, False) + program_level_oracle(ctx.rng, False)
    if bad:
        return [{"what": b} for b in bad[:3]]
    old = ctx.tier
    ctx.tier = "thorough"
    try:
        r = correspondence(ctx, model_available=True)
    except Exception as e:  # noqa
        # the generated model may be the very thing that no longer builds: the oracle alone then
        ctx.log("search without the model (%s)" % str(e)[-200:].replace("\n", " "))
        try:
            r = correspondence(ctx, model_available=False)
        except Exception as e2:  # noqa
            ctx.log("search could not run: %s" % str(e2)[-300:])
            r = {"spec_failures": []}
    ctx.tier = old
    return r["spec_failures"][:3]


def replay(ctx, path):
    print(open(path).read()[:4000])
    return 0


if __name__ == "__main__":
    sys.exit(framework.run_check(sys.modules[__name__], sys.argv[1:]))
