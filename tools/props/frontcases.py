"""
frontcases — the front end (C07, C10, C16, C17): generators and oracles shared by the checks.

  * conditional compilation: random well-nested structures (and broken ones) rendered with random
    spacing; the real evaluate_ifdefs vs Model/Ifdef.v; an independent C-rule evaluation of the
    generating tree;
  * includes: file trees written to a scratch directory (nested directories, diamonds, direct and
    indirect cycles, missing files), the real parser vs the splice semantics computed here;
  * front-end survival: arbitrary / mutated / truncated texts through parse + check in every mode.
"""
import os
import shutil
import tempfile

import coqrun
import runcases as rc
from coqrun import zlist
from vmstate import Reader, captured

IFDEF_HEADER = """From Coq Require Import ZArith List Bool.
From Hera.Model Require Import Lexer Ifdef.
Import ListNotations.
Open Scope Z_scope.
"""

JUNK = ["R1 = 42;", "int main() {", "}", "@@@ ???", "\"unterminated", "/* open", "#define X 1", "# ifdef X", "#ifdefX",
        "#ifdef", "#ifdef A B", "#else x", "#endif // c", "cout << \"hi\";", "'", ""]
TEXTS = ["SET(R1, 1)", "NOP()", "INC(R2, 3)", "// comment", "", "  ", "LABEL(a)", "ADD(R1,R2,R3)  NOP()", "\tDEC(R3, 1)"]
SYMS = ["HERA_PY", "HERA_PY", "HERA_C", "X", "_y9", "HERA_PY2", "hera_py"]


def ws(rng, at_least=0):
    return "".join(rng.choice([" ", "\t", " "]) for _ in range(rng.choice([0, 0, 1, 2]) + at_least))


def gen_cond_tree(rng, depth=0):
    """A list of items: ('txt', line) | ('cond', neg, sym, then_items, else_items or None)"""
    items = []
    for _ in range(rng.choice([0, 1, 2, 3]) if depth else rng.choice([1, 2, 4])):
        if rng.random() < 0.55 or depth >= 4:
            items.append(("txt", rng.choice(TEXTS)))
        else:
            items.append(("cond", rng.random() < 0.4, rng.choice(SYMS), gen_cond_tree(rng, depth + 1),
                          gen_cond_tree(rng, depth + 1) if rng.random() < 0.5 else None))
    return items


def render_cond(rng, items, keep=True, junk_in_discarded=True):
    """(lines, expected lines) — expected per the C rules with only HERA_PY defined; discarded
    regions are filled with arbitrary non-HERA text."""
    lines, exp = [], []
    for it in items:
        if it[0] == "txt":
            t = it[1] if keep or not junk_in_discarded else rng.choice(JUNK[:9] + [it[1]])
            if not keep and t.lstrip().startswith("#"):
                t = "x " + t
            lines.append(t)
            exp.append(t if keep else "")
        else:
            _, neg, sym, th, el = it
            cond = (sym == "HERA_PY") != neg
            lines.append("%s%s%s%s%s" % (ws(rng), "#ifndef" if neg else "#ifdef", ws(rng, 1), sym, ws(rng)))
            exp.append("")
            a, b = render_cond(rng, th, keep and cond, junk_in_discarded)
            lines += a
            exp += b
            if el is not None:
                lines.append("%s#else%s" % (ws(rng), ws(rng)))
                exp.append("")
                a, b = render_cond(rng, el, keep and not cond, junk_in_discarded)
                lines += a
                exp += b
            lines.append("%s#endif%s" % (ws(rng), ws(rng)))
            exp.append("")
    return lines, exp


def blank(l):
    return "" if l.strip() == "" else l


def real_ifdefs(text):
    from hera.parser import evaluate_ifdefs
    try:
        return evaluate_ifdefs(text, keep_lines=True)
    except TypeError:
        return evaluate_ifdefs(text)          # a tree without keep_lines: compared as it is


def parse_through_oracle(rng, n):
    """Conditional compilation as the top-level parser applies it: parsing the text gives the operations, at the
    same lines, that parsing the kept text alone gives — whether the directives start in column 1 or are indented,
    all of them or some (seed C16e: parse() skipped conditional compilation unless a line began with #if)."""
    from hera.data import Settings
    from hera.parser import parse
    problems = []

    def ops_of(t):
        st = Settings()
        with captured():
            try:
                ops, msgs = parse(t, settings=st)
            except BaseException as e:  # noqa
                return ("raise", type(e).__name__)
        return ([(type(o).__name__, [str(a) for a in o.args], o.loc.line if getattr(o, "loc", None) else None) for o in ops],
                sorted(m for m, _ in msgs.errors))
    for k in range(n):
        tree = gen_cond_tree(rng)
        lines, exp = render_cond(rng, tree)
        if not any(l.lstrip().startswith("#") for l in lines):
            continue
        style = k % 3
        if style == 0:          # every directive indented
            lines = [("  " if i % 2 else "\t") + l.lstrip() if l.lstrip().startswith("#") else l for i, l in enumerate(lines)]
        elif style == 1:        # every directive flush left
            lines = [l.lstrip() if l.lstrip().startswith("#") else l for l in lines]
        text, kept = "\n".join(lines) + "\n", "\n".join(exp) + "\n"
        a, b = ops_of(text), ops_of(kept)
        if a != b:
            problems.append({"what": "parsing a text with conditional compilation gives %r; the kept lines alone give %r"
                                     % (str(a)[:200], str(b)[:200]), "text": text})
            if len(problems) >= 3:
                break
    return problems


def ifdef_cases(rng, n):
    """[(text, expected lines or None)]: well-nested renderings with known expectation, and broken ones."""
    cases = []
    for k in range(n):
        lines, exp = render_cond(rng, gen_cond_tree(rng))
        if k % 4 == 3:
            # unbalanced / stray directives: no expectation, model comparison only
            i = rng.randrange(len(lines) + 1)
            lines.insert(i, rng.choice(["#else", "#endif", "#ifdef HERA_PY", "#ifndef X", " #endif ", "#ifdef A B"]))
            exp = None
        if rng.random() < 0.8:
            text = "\n".join(lines) + "\n"
            exp = exp + [""] if exp is not None else None
        else:
            text = "\n".join(lines)
        cases.append((text, exp))
    return cases


def compare_ifdefs(tag, cases, model_available=True):
    res = {"cases": len(cases), "agree": 0, "with_expectation": 0, "nested": 0, "disagreements": [], "spec_failures": []}
    outs = None
    if model_available:
        terms = ["enc_lines (ifdef_lines (split_lines [] %s))" % zlist([ord(c) for c in t]) for t, _ in cases]
        outs = coqrun.eval_cases(tag, IFDEF_HEADER, terms, shard=200)
    for i, (text, exp) in enumerate(cases):
        got = real_ifdefs(text)
        glines = got.split("\n")
        if exp is not None:
            res["with_expectation"] += 1
            want = exp
            if [blank(x) for x in glines] != [blank(x) for x in want]:
                k = next((j for j, (a, b) in enumerate(zip(glines, want)) if blank(a) != blank(b)), min(len(glines), len(want)))
                res["spec_failures"].append({
                    "what": "conditional compilation: line %d of the result is %r, the C rules (HERA_PY defined) give %r; "
                            "%d lines out, %d lines in" % (k + 1, glines[k:k + 1], want[k:k + 1], len(glines), len(want)),
                    "text": text})
        if outs is not None:
            r = Reader(outs[i])
            mlines = ["".join(chr(r.int()) for _ in range(r.int())) for _ in range(r.int())]
            if [blank(x) for x in mlines] != [blank(x) for x in glines]:
                res["disagreements"].append({"text": text, "impl": glines[:40], "model": mlines[:40]})
            else:
                res["agree"] += 1
    return res


# ---- includes ---------------------------------------------------------------------------------------------------

def gen_file_tree(rng):
    """{relative path: [items]} with items ('op', text) | ('inc', relative path as written, target key or None);
    returns (files, main key).  Include paths are relative to the including file's directory."""
    dirs = ["", "lib", "lib/sub", "other"]
    n = rng.choice([1, 2, 3, 4, 5])
    if rng.random() < 0.15:
        # distinct files whose paths differ only in the case of letters (the file system is case-sensitive), and a
        # file and a directory of the same spelling elsewhere (seed C16d: the cycle check folded case)
        keys = ["main.hera"] + rng.sample(["lib/Util.hera", "lib/util.hera", "LIB/util.hera", "Lib/UTIL.hera", "util.hera",
                                           "Util.hera", "lib/sub/util.hera"], min(n + 1, 5))
    else:
        keys = ["main.hera"] + ["%s%sf%d.hera" % (d, "/" if d else "", i) for i, d in
                                enumerate(rng.choice(dirs) for _ in range(n))]
    files = {}
    opn = [0]

    def op():
        opn[0] += 1
        if rng.random() < 0.15:
            # the line also carries a debugging op whose string has a bad escape: a warning of the *lexer* of whichever
            # file the line stands in (seed C16h dropped the lexer warnings of included files)
            return ("op", "SET(R%d, %d)" % (rng.randrange(1, 11), opn[0]), "w")
        return ("op", "SET(R%d, %d)" % (rng.randrange(1, 11), opn[0]))
    for idx, k in enumerate(keys):
        items = [op() for _ in range(rng.choice([0, 1, 2]))]
        for _ in range(rng.choice([0, 1, 1, 2])):
            r = rng.random()
            if r < 0.70:
                cand = keys[idx + 1:] or keys          # mostly forward: acyclic
            elif r < 0.85:
                cand = keys                             # anything: cycles, self-includes
            else:
                cand = None                             # missing file
            if cand is None:
                items.append(("inc", "nosuch%d.hera" % rng.randrange(3), None))
            else:
                tgt = rng.choice(cand)
                here = os.path.dirname(k)
                rel = os.path.relpath(tgt, here or ".")
                if rng.random() < 0.2:
                    rel = "./" + rel
                if rng.random() < 0.1 and here:
                    rel = "../" + os.path.basename(here) + "/" + rel
                items.append(("inc", rel, tgt))
            if rng.random() < 0.6:
                items.append(op())
        files[k] = items
    return files, "main.hera"


def write_tree(root, files):
    for k, items in files.items():
        p = os.path.join(root, k)
        os.makedirs(os.path.dirname(p), exist_ok=True)
        with open(p, "w") as f:
            for it in items:
                if it[0] == "op":
                    f.write(it[1] + (' print("\\q")' if len(it) == 3 else "") + "\n")
                else:
                    f.write('#include "%s"\n' % it[1])


def splice(files, key, stack=()):
    """Expected result: (ops, errors) where errors = [(kind, file in which the #include stands)]"""
    ops, errs = [], []
    for it in files[key]:
        if it[0] == "op":
            ops.append(it[1])
        elif it[2] is None:
            errs.append(("missing", key))
        elif it[2] in stack + (key,):
            errs.append(("recursive", key))
        else:
            o, e = splice(files, it[2], stack + (key,))
            ops += o
            errs += e
    return ops, errs


def splice_warnings(files, key, stack=()):
    """Expected lexer warnings [(file, line)] of the spliced program, in order."""
    out = []
    for ln, it in enumerate(files[key], start=1):
        if it[0] == "op":
            if len(it) == 3:
                out.append((key, ln))
        elif it[2] is not None and it[2] not in stack + (key,):
            out += splice_warnings(files, it[2], stack + (key,))
    return out


INCLUDE_HEADER = """From Coq Require Import ZArith List Bool.
From Hera.Model Require Import Include.
Import ListNotations.
Open Scope Z_scope.
"""


def include_term(files, main):
    """The file tree as a Gallina `list (list iitem)` (file 0 = main) and the op numbering."""
    keys = [main] + [k for k in files if k != main]
    idx = {k: i for i, k in enumerate(keys)}

    def item(it):
        if it[0] == "op":
            return "IOp %d" % int(it[1].split(",")[1].strip(" )"))
        return "IInc None" if it[2] is None else "IInc (Some %d%%nat)" % idx[it[2]]
    return "enc_expand (expand_main [%s])" % "; ".join("[%s]" % "; ".join(item(it) for it in files[k]) for k in keys), keys


def model_expected(files, main):
    """What the model must output, from the splice semantics computed here: list of ints."""
    keys = [main] + [k for k in files if k != main]
    idx = {k: i for i, k in enumerate(keys)}
    out = [0]

    def go(key, stack):
        for it in files[key]:
            if it[0] == "op":
                out.extend([0, int(it[1].split(",")[1].strip(" )"))])
            elif it[2] is None:
                out.extend([2, idx[key]])
            elif it[2] in stack + (key,):
                out.extend([1, idx[key]])
            else:
                go(it[2], stack + (key,))
    go(main, ())
    return out


def include_oracle(rng):
    """One generated tree through the real parser.  Returns (problem or None, stats, files)."""
    from hera.data import Settings
    from hera.parser import parse
    files, main = gen_file_tree(rng)
    want_ops, want_errs = splice(files, main)
    stats = {"files": len(files), "includes": sum(1 for v in files.values() for it in v if it[0] == "inc"),
             "cyclic": any(k == "recursive" for k, _ in want_errs), "missing": any(k == "missing" for k, _ in want_errs)}
    root = tempfile.mkdtemp(prefix="hera_inc_")
    try:
        write_tree(root, files)
        mp = os.path.join(root, main)
        text = open(mp).read()
        if rng.random() < 0.25:
            # the HERA-C wrapper around the top-level program (its text is pasted in between the braces just the same):
            # seed C16g lost track of the open brace while an included file was being parsed
            text = "#include <HERA.h>\nvoid HERA_main()\n{\n" + text + "}\n"
            open(mp, "w").write(text)
            stats["wrapped"] = 1

        if rng.random() < 0.35 and len(files) > 1:
            # one of the files is first loaded on its own, as a program of its own: what is "being included" is a matter of
            # one parse, not of the process (seed C16i: every parser shared one set of visited files)
            kp = os.path.join(root, rng.choice([k for k in files if k != main]))
            stats["preloaded"] = 1
            try:
                with captured():
                    rc.with_budget(lambda: parse(open(kp).read(), path=kp, settings=Settings()), 5.0)
            except BaseException:  # noqa
                pass

        def go():
            with captured():
                return parse(text, path=mp, settings=Settings())
        try:
            ops, msgs = rc.with_budget(go, 5.0)
        except rc.Budget:
            return "include processing did not terminate", stats, files
        except BaseException as e:  # noqa
            return "include processing raised %s: %s" % (type(e).__name__, e), stats, files
        got_ops = [str(o).replace(" ", "") for o in ops if type(o).__name__ != "PRINT"]
        shift = 3 if stats.get("wrapped") else 0
        want_warns = [(k, ln + (shift if k == main else 0)) for k, ln in splice_warnings(files, main)]
        got_warns = [(os.path.relpath(loc.path, root) if loc is not None and loc.path else None, loc.line if loc is not None else None)
                     for m, loc in msgs.warnings if "backslash" in m]
        got_errs = []
        for m, loc in msgs.errors:
            kind = "recursive" if "recursive include" in m else "missing" if ("file" in m and "not" in m) or "does not exist" in m else "other:" + m
            where = os.path.relpath(loc.path, root) if loc is not None and loc.path else None
            got_errs.append((kind, where))
        if [o.replace(" ", "") for o in want_ops] != got_ops:
            return "included text is not spliced in place: operations %r, expected %r" % (got_ops, want_ops), stats, files
        if sorted(got_errs) != sorted(want_errs):
            return "include diagnostics %r, expected %r (kind, file the #include stands in)" % (got_errs, want_errs), stats, files
        if sorted(got_warns) != sorted(want_warns):
            return "warnings of the spliced text %r, expected %r (file, line of each bad escape)" % (got_warns, want_warns), stats, files
    finally:
        shutil.rmtree(root, ignore_errors=True)
    return None, stats, files


# ---- front-end survival (C07) -----------------------------------------------------------------------------------

MODES = ["", "debug", "assemble", "preprocess"]


def settings_for_mode(mode):
    from hera.data import Settings
    st = Settings(color=False, mode=mode)
    st.allow_interrupts = mode in ("assemble", "preprocess")
    return st


def front_end(text, mode, budget=4.0, path=None):
    """parse + check.  -> ("ok", n_errors, n_warnings) | ("raise", name) | ("hang",)"""
    from hera.checker import check
    from hera.parser import parse

    def go():
        st = settings_for_mode(mode)
        with captured():
            ops, pm = parse(text, settings=st) if path is None else parse(text, path=path, settings=st)
            prog, cm = check(ops, st)
        return ("ok", len(pm.errors) + len(cm.errors), len(pm.warnings) + len(cm.warnings))
    try:
        return rc.with_budget(go, budget)
    except rc.Budget:
        return ("hang",)
    except SystemExit:
        return ("ok", 1, 0)
    except BaseException as e:  # noqa
        return ("raise", "%s: %s" % (type(e).__name__, str(e)[:120]))


def all_op_names():
    import hera.op as op
    return sorted(op.name_to_class)


OPERANDS = ["R1", "r15", "R16", "FP_alt", "0", "1", "-1", "255", "256", "65535", "65536", "-32769", "0x10", "0b11", "017",
            "'a'", "'\\n'", "''", "\"s\"", "\"\"", "lbl", "nosuch", "N", "1 2", "(", ")", "", "R1 R2", "-", "@", "0x",
            "99999999999999999999", "\"\\x41\"", "\"\\0\"", "<x>", "#", "\x00", "'ab'", "R" + "9" * 5000, "1" * 5000,
            "0x" + "f" * 3000]


def repetition_probes(rng, n):
    """Long runs of one character next to directives, literals and operations: the inputs on which
    backtracking regular expressions and quadratic scans blow up."""
    heads = ["#ifdef X", "#endif", "#else", "#ifndef HERA_PY", "#include", "SET(R1, ", "LP_STRING(\"", "//", "/*", "0x", "R",
             "'", "", "LABEL(", "print(\"", "#ifdef"]
    runs = [" ", "\t", "\r", " \t", "(", ")", "/", "*", "\\", "0", "9", "a", "_", "\"", "'", ",", "#", "\n", " \n", "\x0b"]
    tails = ["", "X", "HERA_PY", "// c", "/* c */", ")", "\"", "junk junk", "\n#endif\n", "1"]
    out = []
    # always: every directive x every kind of blank run x a tail that is not a directive's
    for h in ["#ifdef X", "#ifndef HERA_PY", "#else", "#endif", "#include"]:
        for r in [" ", "\t", " \t", "\r"]:
            for t in ["X", "junk (", ""]:
                out.append(h + r * 60 + t + "\n")
    for _ in range(n):
        out.append(rng.choice(heads) + rng.choice(runs) * rng.choice([40, 60, 200, 2000]) + rng.choice(tails) + rng.choice(["", "\n"]))
    return out


# symbols defined through one another, in a ring, then used where a size or a value is needed (seed C07g: a constant
# was resolved by following names until a number turned up)
RING_TEXTS = ["CONSTANT(A, A)\nDSKIP(A)\n", "CONSTANT(A, B)\nCONSTANT(B, A)\nDSKIP(B)\nSET(R1, A)\n", "CONSTANT(A, B)\nCONSTANT(B, C)\nCONSTANT(C, A)\nDSKIP(C)\nINTEGER(A)\n", "CONSTANT(A, A)\nSET(R1, A)\nINC(R1, A)\nLABEL(A)\n", "DLABEL(D)\nDSKIP(D)\nCONSTANT(K, D)\nDSKIP(K)\n", "CONSTANT(K, L)\nLABEL(L)\nDSKIP(K)\n", "DSKIP(Q)\nCONSTANT(Q, Q)\nDSKIP(Q)\n"]


def survival_texts(rng, n):
    import lexcases as lc
    import progcases as pc
    names = all_op_names()
    out = repetition_probes(rng, max(12, n // 25)) + list(RING_TEXTS)
    for k in range(n):
        r = rng.random()
        if r < 0.25:
            out.append(lc.gen_text(rng))
        elif r < 0.55:
            nm = rng.choice(names)
            args = [rng.choice(OPERANDS) for _ in range(rng.choice([0, 1, 2, 3, 4]))]
            pre = rng.choice(["", "CONSTANT(N, 5)\n", "LABEL(lbl)\n", "DLABEL(lbl)\n", "SET(R1, 1)\n", "#ifdef X\n"])
            out.append(pre + "%s(%s)%s" % (nm, ", ".join(args), rng.choice(["", "\n", " ", "\nNOP()\n"])))
        elif r < 0.8:
            lines = pc.mutate(rng, pc.gen_valid(rng))
            t = "\n".join(lines) + "\n"
            if rng.random() < 0.4:
                i = rng.randrange(len(t) + 1)
                t = t[:i] + rng.choice(["\x00", "\"", "'", "/*", "(", ")", "#include", "#else", "\\", "\x7f", ","]) + t[i + rng.choice([0, 1, 3]):]
            if rng.random() < 0.2:
                t = t[:rng.randrange(len(t) + 1)]
            out.append(t)
        elif r < 0.9:
            out.append(rng.choice(['#include "no\x00such"', '#include', '#include <', '#include <HERA.h>', '#include "."',
                                   '#include ""', '#include "/"', '#include <Tiger-stdlib-stack.hera>\nNOP()',
                                   "#ifdef\n", "#else\n#endif\n#endif\n", "void HERA_main() { SET(R1, 1) }",
                                   "void HERA_main() {", "}", "OPCODE()", "OPCODE(\"x\")", "OPCODE(R1)", "OPCODE(-1)",
                                   "OPCODE(70000)", "__eval(\"1/0\")", "__eval()", "__eval(5)", "print_reg()", "print(5)",
                                   "CONSTANT(X)", "CONSTANT(X, Y)", "CONSTANT(X, X)", "DSKIP(-1)", "DSKIP(X)",
                                   "LP_STRING(5)", "INTEGER(\"s\")", "LABEL(5)", "LABEL()", "DLABEL(R1)", "SET(R1, R2)",
                                   "SWI(16)", "RTI(1)", "BR()", "BRR(lbl)", "CALL(R12)", "RETURN()"]))
        else:
            out.append("".join(chr(rng.choice([0, 9, 10, 13, 32, 34, 39, 40, 41, 44, 47, 42, 35, 60, 62, 92, 65, 82, 49, 127]))
                               for _ in range(rng.choice([1, 3, 10, 40]))))
    return out


# ---- diagnostics point at the real place (C17) ---------------------------------------------------------------------

def layout_prefix(rng):
    """Lines that precede the faulty line: comments, blank lines, tabs, a multi-line operation, a
    discarded conditional block with junk, a kept block."""
    pre = []
    for _ in range(rng.choice([0, 1, 2, 4])):
        k = rng.random()
        if k < 0.1:
            pre.append("// a comment")
        elif k < 0.2:
            # characters str.splitlines() treats as line breaks but the line counter does not
            pre.append("// a comment with %s in it" % rng.choice(["\x0c", "\x1c", "\x0b", "\x1e"]))
        elif k < 0.3:
            pre += ["/* a comment", "   over two lines */"]
        elif k < 0.4:
            pre.append("")
        elif k < 0.55:
            pre += ["ADD(R1,", "\tR2,", "  R3)"]
        elif k < 0.7:
            pre += ["#ifdef HERA_C", "junk junk ( \" '", "more junk", "#endif"]
        elif k < 0.8:
            pre += ["#ifndef HERA_C", "\tINC(R1, 1)", "#else", "x = 1;", "#endif"]
        else:
            pre.append("\tSET(R2, 5)   NOP()")
    return pre


FAULTS = [
    # (line template with {} for indentation, offending token text, kind, message fragment, extra lines before)
    ("{}FOO(R1)", "FOO", "name", "unknown", []),
    ("{}SETLO(R1, 300)", "300", "operand", "range", []),
    ("{}ADD(R1, R2)", "ADD", "name", "too few", []),
    ("{}ADD(R1, R2, R3, R4)", "ADD", "name", "too many", []),
    ("{}SET(R1, nosuch)", "nosuch", "operand", "undefined", []),
    ("{}INC(R17, 1)", "R17", "operand", "register", []),
    ("{}LABEL(dup)", "dup", "either", "already", ["LABEL(dup)", "NOP()"]),
    ("{}INTEGER(5)", "INTEGER", "name", "data", ["NOP()"]),
    ('{}LP_STRING("abc', '"abc', "operand", "unclosed", []),
    ("{}SET(R1, 'ab')", "'ab'", "operand", "character", []),
    ("{}SETLO(R2, 'a)", "'a)", "operand", "unclosed", []),
    ("{}SETLO(R2, ')", "')", "operand", "unclosed", []),
    ('{}print("abc)', '"abc)', "operand", "unclosed", []),
    ("{}SET(R1, 017)", "017", "operand", "octal", []),
    ("{}INC(R1, 65)", "65", "operand", "range", []),
    # a negative operand whose sign stands apart from its digits: the report may stand on the sign or on the digits,
    # never on the blanks or the comment between them (seed C17h moved the column one to the left of the digits)
    ("{}SETLO(R1, -300)", "-300", "operand", "range", []),
    ("{}SETLO(R1, - 300)", "- 300", "operand", "range", []),
    ("{}SETLO(R1, -\t300)", "-\t300", "operand", "range", []),
    ("{}SETLO(R1, -  /* c */ 300)", "-  /* c */ 300", "operand", "range", []),
    ("{}BRR(toofar)", "toofar", "either", "far", []),
    ("{}NOP() : NOP()", ":", "operand", "expected", []),
    ("{}NOP() :fmt NOP()", ":fmt", "operand", "expected", []),
]


def planted_fault(rng):
    """-> dict(text, line, col, token, kind, frag, path_is_included)"""
    pre = layout_prefix(rng)
    tmpl, token, kind, frag, before = rng.choice(FAULTS)
    indent = rng.choice(["", "  ", "\t", "\t\t ", "/* c */ ", "    ", "NOP()  /* a comment\n   that ends here */ ", "  /* x\n*/",
                         "SET(R2, 1)\t", "NOP()\t\t", "x\t"[1:] + "NOP() \t "])
    line = tmpl.format(indent)          # may span two lines when the indentation holds a block comment
    if rng.random() < 0.3 and ", " in line and token not in ('"abc',):
        line = line.replace(", ", ",\t", 1) if rng.random() < 0.5 else line.replace(", ", ", \t ")   # tabs between operands
    lines = pre + before
    first = len(pre) + len(before) + 1   # the line number on which `line` starts
    if token == "toofar":
        lines = lines + [line] + ["NOP()"] * 130 + ["LABEL(toofar)"]
    else:
        lines = lines + [line]
        for _ in range(rng.choice([0, 1, 3])):
            lines.append(rng.choice(["NOP()", "// trailing", "", "\tSET(R3, 1)"]))

    def where(idx):
        before_tok = line[:idx]
        return first + before_tok.count("\n"), idx - (before_tok.rfind("\n") + 1) + 1
    name = tmpl.format("").split("(")[0]
    lineno, col = where(line.index(token, len(indent)))
    _, name_col = where(line.index(name, len(indent)))
    return {"text": "\n".join(lines) + "\n", "line": lineno, "col": col, "token": token, "kind": kind, "frag": frag,
            "name_col": name_col}


PRINTED_PROBLEMS = []          # filled by diagnostics(): what is wrong with a diagnostic as printed


def diagnostics(text, mode="", path=None):
    """[(severity, message, line, col, path, quoted line)] from parse + check, or ("raise", ...)"""
    from hera.checker import check
    from hera.parser import parse
    st = settings_for_mode(mode)
    out = []
    try:
        with captured():
            ops, pm = parse(text, settings=st) if path is None else parse(text, path=path, settings=st)
            prog, cm = check(ops, st)
    except BaseException as e:  # noqa
        return ("raise", "%s: %s" % (type(e).__name__, e))
    for sev, lst in (("error", pm.errors + cm.errors), ("warning", pm.warnings + cm.warnings)):
        for m, loc in lst:
            if loc is not None and not hasattr(loc, "line") and hasattr(loc, "location"):
                loc = loc.location          # a Token: print_message uses its location
            if loc is None or not hasattr(loc, "line"):
                out.append((sev, m, None, None, None, None))
            else:
                q = loc.file_lines[loc.line - 1] if 0 < loc.line <= len(loc.file_lines) else None
                out.append((sev, m, loc.line, loc.column, loc.path, q))
                if q is not None and 1 <= loc.column <= len(q) + 1:
                    bad = printed_caret_problem(m, loc)
                    if bad:
                        PRINTED_PROBLEMS.append(bad)
    return out


def printed_caret_problem(m, loc):
    """What the user sees: `print_message` quotes the line and puts a caret line under it.  Whatever the width of
    a tab stop, the caret must stand under the reported column."""
    import contextlib
    import io
    from hera.utils import print_message
    err = io.StringIO()
    try:
        with contextlib.redirect_stderr(err):
            print_message(m, loc=loc)
    except BaseException as e:  # noqa
        return "printing the diagnostic %r raised %s: %s" % (m, type(e).__name__, e)
    lines = err.getvalue().split("\n")
    carets = [i for i, l in enumerate(lines) if l.strip() == "^"]
    if not carets:
        return "the diagnostic %r is printed without a caret line: %r" % (m, err.getvalue()[-200:])
    ci = carets[-1]
    quoted, caret = lines[ci - 1], lines[ci]
    src = loc.file_lines[loc.line - 1]
    if quoted != "  " + src:
        return "the diagnostic %r quotes %r, line %d is %r" % (m, quoted, loc.line, src)
    for w in (8, 4, 3):
        want = len(("  " + src[:loc.column - 1]).expandtabs(w))
        got = caret.expandtabs(w).index("^")
        if got != want:
            return ("the caret printed for %r at line %d col %d stands at display column %d, the token starts at display "
                    "column %d (tab stops every %d): line %r, caret line %r" % (m, loc.line, loc.column, got, want, w, quoted, caret))
    return None


def location_oracle(f, text_lines_of=None):
    """The planted fault must be reported at its token (or operation name), and every located
    diagnostic must name a line that exists, quote that very line and put the caret inside it."""
    del PRINTED_PROBLEMS[:]
    d = diagnostics(f["text"])
    if isinstance(d, tuple):
        return "front end raised %s" % d[1]
    if PRINTED_PROBLEMS:
        return PRINTED_PROBLEMS[0]
    user_lines = f["text"].split("\n")
    hit = False
    for sev, m, line, col, path, q in d:
        if line is None:
            continue
        if not 1 <= line <= len(user_lines):
            return "%s %r is reported on line %d; the file has %d lines" % (sev, m, line, len(user_lines))
        if q != user_lines[line - 1]:
            return "%s %r on line %d quotes %r; that line is %r" % (sev, m, line, q, user_lines[line - 1])
        if not 1 <= col <= len(user_lines[line - 1]) + 1:
            return "%s %r: column %d lies outside line %d (%r)" % (sev, m, col, line, user_lines[line - 1])
        if line == f["line"]:
            ok_cols = []
            if f["kind"] in ("operand", "either"):
                tok = f["token"]
                if "/*" in tok:
                    tok = tok[:tok.index("/*")] + " " * (tok.index("*/") + 2 - tok.index("/*")) + tok[tok.index("*/") + 2:]
                ok_cols += [f["col"] + i for i, ch in enumerate(tok) if not ch.isspace()]
            if f["kind"] in ("name", "either"):
                name_len = len(user_lines[line - 1][f["name_col"] - 1:].split("(")[0])
                ok_cols += list(range(f["name_col"], f["name_col"] + name_len))
            if col in ok_cols:
                hit = True
    if not hit:
        return "the planted fault (%s at line %d col %d) is not reported at its token: diagnostics %r" % (
            f["token"], f["line"], f["col"], [(s, m, l, c) for s, m, l, c, _, _ in d])
    return None


# ---- preprocess round trip (C10) ---------------------------------------------------------------------------------------

def run_main(argv, budget=6.0):
    from hera.main import main
    from vmstate import run_real
    try:
        _, exc, out, err = rc.with_budget(lambda: run_real(lambda: main(argv)), budget)
    except rc.Budget:
        return "Budget", "", ""
    return exc, out, err


def listing_to_source(listing):
    """Remove the section headers and the index column of `hera preprocess` output."""
    out = []
    for l in listing.splitlines():
        s = l.strip()
        if s in ("[DATA]", "[CODE]") or not s:
            continue
        parts = s.split(None, 1)
        if len(parts) == 2 and len(parts[0]) >= 4 and parts[0].isdigit():
            s = parts[1]
        out.append(s)
    return "\n".join(out) + "\n"


STRING_CHARS = [chr(c) for c in (0, 1, 7, 8, 9, 10, 11, 12, 13, 27, 31, 32, 33, 34, 39, 47, 48, 65, 92, 97, 120, 126, 127,
                                 128, 200, 255)]


def gen_roundtrip_program(rng):
    import progcases as pc
    lines = pc.gen_valid(rng, n_code=rng.choice([3, 8, 15]))
    lines = [l for l in lines if not l.startswith(("SWI", "RTI"))]
    # debugging operations stay (they are dropped by preprocess and assemble alike), and some are planted in front
    # of label branches (seed C10e: in preprocess mode they were counted when relative label offsets were computed)
    for i in range(len(lines) - 1, -1, -1):
        if lines[i].split("(")[0].endswith("R") and rng.random() < 0.3:
            lines.insert(rng.randrange(0, i + 1) if not any(l.split("(")[0] in ("DLABEL", "INTEGER", "LP_STRING", "TIGER_STRING", "DSKIP", "CONSTANT") for l in lines[:i + 1]) else i,
                         rng.choice(['print_reg(R1)', 'print("x")', 'println("y")', '__eval("1")']))
    extra = []
    for _ in range(rng.choice([0, 1, 2])):
        s = "".join(rng.choice(STRING_CHARS) for _ in range(rng.choice([0, 1, 3, 6])))
        lit = "".join("\\x%02x" % ord(c) if (ord(c) < 32 or ord(c) > 126 or c in '"\\') else c for c in s)
        extra.append('%s("%s")' % (rng.choice(["LP_STRING", "TIGER_STRING"]), lit))
    if rng.random() < 0.4:
        # string data that looks like program syntax (comment brackets, directives), spelled raw or with escapes: it is
        # data, in the original and in the printed form alike (seed C10h blanked /* ... */ regions inside strings)
        for _ in range(rng.choice([1, 2])):
            s = " ".join(rng.choice(["/*", "*/", "//", "/* x */", "*", "#", "#endif", "#ifdef X", "(", ")", ",", "a"])
                         for _ in range(rng.choice([1, 2, 4])))
            lit = "".join(rng.choice(["\\x%02x" % ord(c), "\\%03o" % ord(c)]) if rng.random() < 0.4 else c for c in s)
            extra.append('%s("%s")' % (rng.choice(["LP_STRING", "TIGER_STRING"]), lit))
            if rng.random() < 0.5:
                extra.append("INTEGER(%d)" % rng.randrange(100))
    return "\n".join(extra + lines) + "\n"


def roundtrip_oracle(text, workdir):
    """-> (problem or None, accepted: bool)"""
    p = os.path.join(workdir, "p.hera")
    q = os.path.join(workdir, "q.hera")
    o = os.path.join(workdir, "o.hera")
    open(p, "w").write(text)
    exc, listing, err = run_main(["preprocess", p])
    if exc == "SystemExit":
        return None, False
    if exc:
        return "hera preprocess raised %s" % exc, True
    exc, asm1, err1 = run_main(["assemble", "--stdout", p])
    if exc:
        return None, False
    open(q, "w").write(listing_to_source(listing))
    exc, listing2, err2 = run_main(["preprocess", q])
    if exc:
        return "the listing printed by `hera preprocess` is not accepted when fed back (%s): %s" % (exc, err2.strip()[:300]), True
    if listing2 != listing:
        a, b = listing.splitlines(), listing2.splitlines()
        k = next((i for i, (x, y) in enumerate(zip(a, b)) if x != y), min(len(a), len(b)))
        return "preprocess is not a fixed point on its own output: line %d %r became %r" % (k + 1, a[k:k + 1], b[k:k + 1]), True
    exc, asm2, err2 = run_main(["assemble", "--stdout", q])
    if exc or asm2 != asm1:
        return "the listing assembles to different words than the original program (%s)" % (exc or "output differs"), True
    exc, obf, err3 = run_main(["preprocess", "--obfuscate", p])
    if exc:
        return "hera preprocess --obfuscate raised %s: %s" % (exc, err3.strip()[:200]), True
    open(o, "w").write(obf)
    exc, asm3, err3 = run_main(["assemble", "--stdout", o])
    if exc or asm3 != asm1:
        return "the --obfuscate form does not encode the same program (%s): %s" % (exc or "words differ", err3.strip()[:200]), True
    # ... and it is itself a program the tool accepts outside assemble mode (the words were compared above)
    # (seed C10f: OPCODE words of LOAD/STORE with offsets >= 16 were refused as "not a HERA instruction")
    exc, listing3, err4 = run_main(["preprocess", o])
    if exc:
        return "the --obfuscate form is not accepted when fed back to `hera preprocess` (%s): %s" % (exc, err4.strip()[:300]), True
    return None, True
