"""C13 — debugger undo and restart restore state faithfully."""
import os
import sys

sys.path.insert(0, os.path.join(os.path.dirname(os.path.abspath(__file__)), "..", "lib"))
sys.path.insert(0, os.path.dirname(os.path.abspath(__file__)))
import framework  # noqa: E402
import dbgcases as dc  # noqa: E402
import dbgprops as dp  # noqa: E402

PID = "C13"
TARGETS = ["Properties/C13.vo"]
MODEL_TARGETS = ["Model/Session.vo", "Model/ExprEnc.vo", "Proofs/C11_Hyps.vo", "Lib/Enc.vo"]
ASSUMPTIONS = [
    "the model's values are immutable; that the Python objects are really duplicated is the object-level theorem "
    "on tables regenerated from vm.copy / Debugger.save / @mutates, which sees attribute-level copies only "
    "(a container nested inside a container would escape it; registers, memory and expected_returns hold ints "
    "and tuples)",
    "settings.warning_count lives in the shared Settings object and is not debugger state",
]
TRUSTED = ["coq/Model/Debugger.v", "coq/Model/Session.v"]


def correspondence(ctx, model_available=True):
    quick = ctx.tier == "quick"
    rng = ctx.rng
    n = 60 if quick else 700
    sessions = dp.make_sessions(rng, n, lambda k: dc.HISTORY_KINDS, sizes=(4, 10, 18))
    res = dp.correspondence("C13s", sessions, model_available)
    spec_failures = []
    stats = {"undo_pairs": 0, "walked_back": 0, "restarts": 0}
    kinds = {}
    # long histories, on the real shell alone: undo walks back through every one of them, however many there are
    # (seed C13h kept only the 48 newest snapshots)
    long_sessions = dp.make_sessions(rng, 2 if quick else 30, lambda k: dc.HISTORY_KINDS, sizes=(70, 125) if quick else (55, 90, 140, 210))
    for s in sessions + long_sessions:
        for _, t in s["cmds"]:
            k = t.strip("()").split()[0]
            kinds[k] = kinds.get(k, 0) + 1
        p, st = dp.undo_oracle(s)
        for k in stats:
            stats[k] += st[k]
        if p:
            spec_failures.append({"what": p, "session": dp.session_json(s)})
    dist = dict(stats)
    dist.update({k: res[k] for k in ("sessions", "steps", "out_of_fuel")})
    dist["command_kinds"] = kinds
    return {
        "cases": len(sessions) + len(long_sessions), "nontrivial": stats["undo_pairs"],
        "rule": "histories over next/step/continue/assign/execute/goto/break/clear/on/off/restart interleaved with "
                "undo on programs with data, calls and loops: real Shell vs Model/Session after every command and the "
                "whole chain of saved snapshots at the end; on the real shell alone: command+undo compared with the "
                "state before (machine, breakpoints, call depth, every saved snapshot, `info` text), undo down to "
                "'Nothing to undo' compared with the initial state (also after histories of 55..210 commands), restart compared with a fresh session",
        "distribution": dist, "samples": [dp.session_json(sessions[0])] if sessions else [],
        "disagreements": res["disagreements"], "spec_failures": spec_failures[:5],
        "model_vs_impl_agree": res["agree"], "model_available": model_available,
    }


def search(ctx, breaks):
    out = []
    for s in (dp.make_sessions(ctx.rng, 150, lambda k: dc.HISTORY_KINDS, sizes=(4, 10, 18)) +
              dp.make_sessions(ctx.rng, 6, lambda k: dc.HISTORY_KINDS, sizes=(55, 70, 90))):
        p, _ = dp.undo_oracle(s)
        if p:
            out.append({"what": p, "session": dp.session_json(s)})
            break
    return out


def replay(ctx, path):
    print(open(path).read()[:6000])
    return 0


if __name__ == "__main__":
    sys.exit(framework.run_check(sys.modules[__name__], sys.argv[1:]))
