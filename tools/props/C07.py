"""C07 — the front end is total: any text yields diagnostics, never a crash or hang."""
import os
import sys

sys.path.insert(0, os.path.join(os.path.dirname(os.path.abspath(__file__)), "..", "lib"))
sys.path.insert(0, os.path.dirname(os.path.abspath(__file__)))
import framework  # noqa: E402
import frontcases as fc  # noqa: E402
import lexcases as lc  # noqa: E402

PID = "C07"
TARGETS = ["Properties/C07.vo"]
MODEL_TARGETS = ["Model/Lexer.vo", "Model/Ifdef.vo", "Model/Include.vo"]
ASSUMPTIONS = [
    "PARTIAL: theorems cover the lexer (no read past the end, progress, EOF after at most n+1 tokens), conditional "
    "compilation (total, line-preserving) and include processing (terminates on every graph) on hand models; the "
    "parser's error recovery, type checking and preprocessing are decided by the survival oracle (no uncaught "
    "exception, no timeout) over generated, mutated and truncated texts in all four modes",
    "texts are ASCII (codes 0..127) in the lexer correspondence; str.isalpha/isdigit/isspace on non-ASCII "
    "characters are not modelled",
]
TRUSTED = ["coq/Model/Lexer.v", "coq/Model/Ifdef.v", "coq/Model/Include.v"]


def include_chain_oracle(lengths):
    """A chain of files each including the next (no cycle), of any length, is parsed or refused with a diagnostic: never
    an internal error (D56: about 400 files ended in a RecursionError traceback)."""
    import shutil
    import tempfile
    out = []
    for n in lengths:
        root = tempfile.mkdtemp(prefix="hera_chain_")
        try:
            for i in range(n):
                open(os.path.join(root, "f%d.hera" % i), "w").write('SET(R1, %d)\n#include "f%d.hera"\n' % (i % 100, i + 1))
            open(os.path.join(root, "f%d.hera" % n), "w").write("SET(R2, 2)\n")
            mp = os.path.join(root, "f0.hera")
            r = fc.front_end(open(mp).read(), "", budget=60.0, path=mp)
            if r[0] != "ok":
                out.append({"what": "front end %s on a chain of %d files each including the next"
                                    % ("did not terminate" if r[0] == "hang" else "raised " + r[1][:120], n), "chain_length": n})
            elif n <= 50 and r[1]:
                out.append({"what": "a chain of %d includes is refused: %r" % (n, r[1]), "chain_length": n})
        finally:
            shutil.rmtree(root, ignore_errors=True)
    return out


def known_replays(ctx, findings):
    out = []
    for e in findings:
        if e["id"] == "D56":
            p = include_chain_oracle([e["chain_length"]])
            out.append((e, bool(p), p[0]["what"] if p else None))
    return out


def correspondence(ctx, model_available=True):
    quick = ctx.tier == "quick"
    rng = ctx.rng
    texts = list(lc.SNIPPETS) + [lc.gen_text(rng) for _ in range(1200 if quick else 20000)]
    lres = {"cases": 0, "agree": 0, "tokens": 0, "errors": 0, "warnings": 0, "kinds": {}, "disagreements": [], "spec_failures": []}
    if model_available:
        lres = lc.compare("C07l", texts)
    spec_failures = [f for f in lres["spec_failures"] if "raised" in f["what"]]
    surv = {"texts": 0, "runs": 0, "with_errors": 0, "clean": 0}
    for t in fc.survival_texts(rng, 500 if quick else 8000):
        if len(spec_failures) >= 3:
            break                   # enough to report; hanging inputs cost a time budget each
        surv["texts"] += 1
        for mode in fc.MODES:
            # texts with includes are parsed as a file in a directory, so that paths are resolved
            r = fc.front_end(t, mode, path=os.path.join(framework.WORK, "survival.hera") if "#include" in t else None)
            surv["runs"] += 1
            if r[0] == "ok":
                surv["with_errors" if r[1] else "clean"] += 1
            else:
                spec_failures.append({"what": "front end (mode %r) %s" % (mode, "did not terminate" if r[0] == "hang" else "raised " + r[1]),
                                      "text": t})
                break
    spec_failures += include_chain_oracle([20, 400, 1500] if quick else [5, 50, 200, 400, 900, 1500, 5000])
    surv["include_chains"] = 3 if quick else 7
    # programs that fill the 16-bit address space exactly (or miss by one), with the label after the last instruction
    # in use: slow to parse, so one size in the quick tier (seed C07c)
    for total in ([65536] if quick else [65535, 65536, 65537]):
        t = "SET(R1, far)\nCALL(R12, far)\n" + "NOP()\n" * (total - 5) + "LABEL(far)\n"
        mode = rng.choice(fc.MODES)
        r = fc.front_end(t, mode, budget=60.0)
        surv["runs"] += 1
        surv["long_programs"] = surv.get("long_programs", 0) + 1
        if r[0] != "ok":
            spec_failures.append({"what": "front end (mode %r) %s on a program of exactly %d instructions whose end label is used"
                                          % (mode, "did not terminate" if r[0] == "hang" else "raised " + r[1], total),
                                  "text": "SET(R1, far) CALL(R12, far) NOP() x %d LABEL(far)" % (total - 5)})
    return {
        "cases": lres["cases"] + surv["runs"], "nontrivial": surv["with_errors"] + lres["errors"],
        "rule": "lexer: real token stream (type, value, line, column, warnings, final position) vs Model/Lexer.v on ASCII "
                "texts built from snippets, random characters (controls and NUL included) and truncations; survival: "
                "random / snippet / operation-name x operand-kind x arity texts, mutated and truncated programs, stray "
                "directives and includes through parse + check in run, debug, assemble and preprocess mode under a time "
                "budget; symbols defined through one another in a ring; chains of 20..5000 files each including the next",
        "distribution": {"lexer": {k: v for k, v in lres.items() if k not in ("disagreements", "spec_failures")},
                         "survival": surv},
        "samples": [{"text": texts[len(lc.SNIPPETS)]}],
        "disagreements": [{"what": "lexer vs Model/Lexer", **d} for d in lres["disagreements"][:10]],
        "spec_failures": spec_failures[:5],
        "model_vs_impl_agree": lres["agree"], "model_available": model_available,
    }


def search(ctx, breaks):
    out = []
    for t in fc.survival_texts(ctx.rng, 3000):
        for mode in fc.MODES:
            r = fc.front_end(t, mode)
            if r[0] != "ok":
                out.append({"what": "front end (mode %r) %s" % (mode, r[0] if r[0] == "hang" else "raised " + r[1]), "text": t})
                return out
    for t in [lc.gen_text(ctx.rng) for _ in range(5000)]:
        r = lc.real_lex(t)
        if "raise" in r:
            return [{"what": "the lexer raised %s" % r["raise"], "text": t}]
    return out


def replay(ctx, path):
    print(open(path).read()[:6000])
    return 0


if __name__ == "__main__":
    sys.exit(framework.run_check(sys.modules[__name__], sys.argv[1:]))
