"""C18 — the command line honours its contract for every argument vector."""
import os
import shutil
import sys
import tempfile

sys.path.insert(0, os.path.join(os.path.dirname(os.path.abspath(__file__)), "..", "lib"))
sys.path.insert(0, os.path.dirname(os.path.abspath(__file__)))
import framework  # noqa: E402
import coqrun  # noqa: E402
import runcases as rc  # noqa: E402
from vmstate import Reader, run_real  # noqa: E402

PID = "C18"
TARGETS = ["Properties/C18.vo"]
MODEL_TARGETS = ["Model/Cli.vo"]
ASSUMPTIONS = [
    "PARTIAL: the theorems are decision rules of the argument parser (Model/Cli.v: accepted vectors are well-formed; "
    "unknown flags and malformed --throttle values are usage errors; an accepted throttle is a natural number); the "
    "exit statuses 0/1/3, absence of tracebacks, stdout/stderr separation and the assemble files are decided by the "
    "oracle on hera.main.main",
    "whether an --init string is well-formed is a parameter of the model (the real parse_init_string; C02 checks "
    "what it accepts); int()'s 4300-digit limit is outside the model",
]
TRUSTED = ["coq/Model/Cli.v", "tools/translate (FLAGS, PICKY_FLAGS tables)"]

HEADER = """From Coq Require Import ZArith List Bool String.
From Hera.Model Require Import Cli.
Import ListNotations.
Open Scope string_scope.
"""

FLAGS = ["--big-stack", "--code", "--credits", "--data", "--help", "--init", "--no-color", "--no-debug-ops", "--obfuscate",
         "--quiet", "--stdout", "--throttle", "--verbose", "--version", "--warn-octal-off", "--warn-return-off", "assemble",
         "debug", "disassemble", "preprocess", "-h", "-v", "-q"]
ODD = ["0", "000", "--throttle=0", "--throttle=00", "--", "-", "--throttle=5", "--throttle=", "--throttle=abc", "--throttle=-1", "--throttle5", "--init=r1=5", "--init=",
       "--init=zz", "--initx", "--initialize", "--init5", "--throttle5", "--quietly", "-qq", "--init=r0=zzz", "--init=R0=70000", "--init=r2=7, r0=", "--init=r00=-40000", "--init=r0=1", "--init==5", "--init=r1=1, =2", "--init=r=5", "--init=R=", "--init=,", "--initx", "--bogus", "-x", "-hq", "--HELP", "5", "abc", "r1=5", "r1=5,r2=0x10", "R0=1", "r1=70000", "",
       " ", "--throttle=007", "--init=r1=5 r2=6", "p.hera", "q.hera", "--no-color=1", "assemble=1"]


def coq_str(s):
    return '"%s"' % s.replace('"', '""')


def gen_argv(rng):
    n = rng.choice([0, 1, 2, 3, 4, 5])
    argv = []
    for _ in range(n):
        r = rng.random()
        if r < 0.55:
            f = rng.choice(FLAGS)
            argv.append(f)
            if f in ("--throttle", "--init") and rng.random() < 0.7:
                argv.append(rng.choice(["0", "5", "000", "", "r1=5", "abc", "r0=zzz", "R0=70000", "r1=1 r0=x", "r0=5", "=5", "r1=1, =2", "r=5", "=", ",", "r1=5,", "r" + "1" * 4400 + "=1"]))
        elif r < 0.8:
            argv.append(rng.choice(ODD))
        else:
            argv.append("p.hera")
    if rng.random() < 0.5 and "p.hera" not in argv:
        argv.insert(rng.randrange(len(argv) + 1), "p.hera")
    return argv


def real_parse(argv):
    from hera.main import parse_args
    st, exc, out, err = run_real(lambda: parse_args(list(argv)))
    if exc == "SystemExit":
        # run_real does not keep the code: run again to read it
        try:
            import contextlib
            import io
            with contextlib.redirect_stdout(io.StringIO()), contextlib.redirect_stderr(io.StringIO()):
                parse_args(list(argv))
        except SystemExit as e:
            code = e.code
        return {"kind": "usage" if code == 1 else "info" if code in (0, None) else "exit%r" % code, "out": out, "err": err}
    if exc:
        return {"kind": "raise", "exc": exc}
    flags = {"--big-stack": st.data_start == 0xC167, "--code": st.code, "--data": st.data, "--no-color": not st.color,
             "--no-debug-ops": st.no_debug_ops, "--obfuscate": st.obfuscate, "--stdout": st.stdout,
             "--warn-octal-off": not st.warn_octal_on, "--warn-return-off": not st.warn_return_on,
             "--quiet": st.volume == "quiet", "--verbose": st.volume == "verbose"}
    return {"kind": "run", "mode": st.mode, "path": st.path, "flags": {k for k, v in flags.items() if v},
            "throttle": None if st.throttle is False else st.throttle, "init": list(st.init)}


def decode(l):
    r = Reader(l)
    k = r.int()
    if k == 0:
        return {"kind": "usage"}
    if k == 1:
        return {"kind": "info", "what": r.string()}
    mode, path = r.string(), r.string()
    flags, thr, init = set(), None, None
    for _ in range(r.int()):
        name = r.string()
        t = r.int()
        if t == 0:
            flags.add(name)
        elif t == 1:
            thr = r.int()
        else:
            init = r.string()
    return {"kind": "run", "mode": mode, "path": path, "flags": flags, "throttle": thr, "init": init}


FIXED_MAIN = [("good", ["assemble", "P"]), ("data", ["assemble", "--big-stack", "P"]), ("good", ["assemble", "--big-stack", "P"]),
              ("data", ["assemble", "P"]), ("data", ["--big-stack", "assemble", "P"]), ("good", ["P"]), ("good", ["--quiet", "P"]),
              ("good", ["preprocess", "P"]), ("data", ["preprocess", "--obfuscate", "P"]), ("hex", ["disassemble", "P"]),
              ("unwritable", ["assemble", "P"]), ("bad", ["assemble", "P"]), ("missing", ["preprocess", "P"]),
              ("notdir", ["P"]), ("toolong", ["assemble", "P"]), ("badinclude", ["P"]), ("notdir", ["disassemble", "P"]),
              ("dir", ["debug", "P"]), ("nonascii", ["preprocess", "P"]), ("hexwide", ["disassemble", "P"]), ("hex", ["disassemble", "-"])]


INIT_ALIASES = {"rt", "fp", "sp", "pc_ret", "fp_alt"}


def init_ok(s):
    """The documented form of an --init value, written independently of parse_init_string: assignments separated by
    commas and/or white space, each `<register>=<integer>`, the register one of R0..R15 (any case, leading zeros) or
    an alias, the integer a Python-style literal in [-32768, 65536) — for every assignment, R0 included."""
    for tok in s.replace(",", " ").split():
        if "=" not in tok:
            return False
        lhs, rhs = tok.split("=", 1)
        l = lhs.lower()
        if l not in INIT_ALIASES:
            if not l.startswith("r"):
                return False
            try:
                v = int(l[1:])
            except ValueError:
                return False
            if not 0 <= v < 16:
                return False
        try:
            val = int(rhs, 0)
        except ValueError:
            return False
        if not -32768 <= val < 65536:
            return False
    return True


SHORT = {"-h": "--help", "-v": "--version", "-q": "--quiet"}


def unknown_flag(argv):
    """The first argument that looks like a flag (starts with `-`, more than one character, before a bare `--`) and is
    none of the documented flags, sub-commands or `--throttle=` / `--init=` forms; None if there is none.  Written
    from the documentation, not from parse_args."""
    i = 0
    while i < len(argv):
        a = argv[i]
        l = SHORT.get(a, a)
        if l == "--":
            return None
        if l in FLAGS:
            i += 2 if l in ("--throttle", "--init") else 1
            continue
        if l.startswith("--throttle=") or l.startswith("--init="):
            i += 1
            continue
        if l.startswith("-") and len(l) > 1:
            return a
        i += 1
    return None


DEBUG_LINES = ["next", "step", "continue", "info", "list", "ll", "print R1", "R1 = 5", "undo", "restart", "break 1", "help asm",
               "asm ADD(R1, R2, R3)", "asm print_reg(R1)", "asm println(\"x\")", "asm SET(R1, 5) print(\"a\")", "asm __eval(\"1\")",
               "asm INTEGER(5)", "asm LP_STRING(\"ab\")", "asm SWI(1)", "asm NOSUCH(1)", "asm", "dis 0x20cd", "dis -1", "doc ADD",
               "execute print_reg(R1)", "execute SET(R2, 7)", "execute __eval(\"1/0\")", "goto 1", "xyzzy", "", "print ((((", "next 3"]


def stdin_bytes_oracle():
    """`hera [mode] -` as a process of its own, standard input decoded strictly (what every non-C UTF-8 locale does;
    forced here with PYTHONIOENCODING), fed bytes that are not text: an input error (status 3, a message, no traceback),
    as for a file with such bytes (D67); and the same program in plain ASCII runs with status 0."""
    import subprocess
    code = "import sys; sys.path.insert(0, %r); from hera.main import external_main; external_main()" % framework.REPO
    env = dict(os.environ, PYTHONIOENCODING="utf-8:strict", PYTHONPATH=framework.REPO)
    n = 0
    for mode in ([], ["preprocess"], ["assemble", "--stdout"], ["disassemble"]):
        for data, want in ((b"SET(R1, 1)\n// \xff\xfe\n", 3), (b"\x80", 3), (b"SET(R1, 1)\n" if mode != ["disassemble"] else b"0000\n", 0)):
            try:
                p = subprocess.run([sys.executable, "-c", code] + mode + ["-"], input=data, stdout=subprocess.PIPE,
                                   stderr=subprocess.PIPE, env=env, timeout=20)
            except subprocess.TimeoutExpired:
                return "hera %s - with %r on standard input does not end within 20 s" % (" ".join(mode), data), n
            n += 1
            err = p.stderr.decode("utf-8", "replace")
            if "Traceback" in err or p.returncode != want:
                return ("hera %s - with the bytes %r on strictly decoded standard input ends with status %d%s; documented: %d, no traceback"
                        % (" ".join(mode), data, p.returncode, " and a Python traceback (%s)" % err.strip().splitlines()[-1][:80]
                           if "Traceback" in err else "", want)), n
    return None, n


def known_replays(ctx, findings):
    """Findings recorded with an argument vector that must be a usage error."""
    out = []
    for e in findings:
        if e["id"] == "D64":
            import random, tempfile, shutil
            root = tempfile.mkdtemp(prefix="hera_cli_")
            try:
                bad = None
                for fx in (("data", ["assemble", "P"]), ("good", ["assemble", "P"])):
                    bad = bad or main_oracle(random.Random(0), root, fx)[0]
            finally:
                shutil.rmtree(root, ignore_errors=True)
            out.append((e, bad is not None, bad))
            continue
        if e["id"] == "D67":
            bad, _ = stdin_bytes_oracle()
            out.append((e, bad is not None, bad))
            continue
        if e["id"] == "D57":
            r = real_parse(e["argv"])
            bad = None if r.get("path") == e["path"] else "hera %s: the file argument is taken to be %r, it is written %r" % (
                " ".join(e["argv"]), r.get("path"), e["path"])
            out.append((e, bad is not None, bad))
            continue
        if "argv" not in e or e["id"] not in ("D42", "D54"):
            continue
        r = real_parse(e["argv"])
        bad = None if r["kind"] == "usage" else "hera %s is %s, a usage error is documented" % (" ".join(e["argv"]), r["kind"])
        out.append((e, bad is not None, bad))
    return out


def init_values(argv):
    """the --init values an argument vector carries (both spellings), up to a bare --"""
    out = []
    i = 0
    while i < len(argv):
        a = argv[i]
        if a == "--":
            break
        if a == "--init" and i + 1 < len(argv):
            out.append(argv[i + 1])
            i += 2
            continue
        if a == "--throttle":
            i += 2
            continue
        if a.startswith("--init=") or (a.startswith("--init") and a != "--init" and not a.startswith("--init=")):
            out.append(a[len("--init="):])
        i += 1
    return out


def main_oracle(rng, root, fixed=None):
    """hera.main.main on an argument vector with a real file: exit status, streams, no traceback."""
    files = {"good": "SET(R1, 5)\nprint_reg(R1)\nHALT()\n", "bad": "SET(R1, 5\nFOO(2)\n", "warn": "SET(R1, 017)\n",
             "data": "DLABEL(x)\nINTEGER(5)\nLP_STRING(\"hi\")\nSET(R1, x)\n", "empty": "", "hex": "e1ff\nzz\n1234\n",
             # lines int(..., 16) accepts that are no 16-bit words (seed C18g: `disassemble` let the range error through)
             "hexwide": "e1ff\n10000\n-1\n0x12\n+7\n 3180 \n1_0\nfffff\n"}
    kind = fixed[0] if fixed else rng.choice(sorted(files) + ["missing", "dir", "nonascii", "unwritable", "notdir", "toolong", "badinclude"])
    p = os.path.join(root, kind + ".hera")
    if kind == "notdir":
        # a path that goes through a regular file (ENOTDIR, not ENOENT)
        open(os.path.join(root, "plainfile.hera"), "w").write(files["good"])
        p = os.path.join(root, "plainfile.hera", "prog.hera")
    elif kind == "toolong":
        p = os.path.join(root, "n" * 300 + ".hera")            # ENAMETOOLONG
    elif kind == "badinclude":
        open(os.path.join(root, "plainfile.hera"), "w").write(files["good"])
        open(p, "w").write('#include "plainfile.hera/lib.hera"\nSET(R1, 1)\n')
    elif kind in files:
        open(p, "w").write(files[kind])
    elif kind == "unwritable":
        # a valid program whose assemble output file cannot be created (its name is taken by a directory)
        open(p, "w").write(files["good"])
        os.makedirs(p + ".lcode", exist_ok=True)
    elif kind == "dir":
        os.makedirs(p, exist_ok=True)
    elif kind == "nonascii":
        open(p, "wb").write(b"SET(R1, 1)\n// \xff\xfe\n")
    if fixed:
        argv = [p if a == "P" else a for a in fixed[1]]
    else:
        argv = [a if a != "p.hera" else p for a in gen_argv(rng)]
        if rng.random() < 0.7 and p not in argv:
            argv.append(p)
    from hera.main import main, parse_args
    import contextlib
    import io
    out, err = io.StringIO(), io.StringIO()
    code, exc = 0, None
    for f in (p + ".lcode", p + ".ldata"):
        if os.path.isfile(f):
            os.remove(f)
    if kind == "unwritable" and not any(a == "assemble" for a in argv):
        argv = ["assemble"] + [a for a in argv if a not in ("debug", "preprocess", "disassemble")]
    oldin = sys.stdin
    script = ""
    if "debug" in argv and p in argv and "-" not in argv:
        # a debugging session typed on standard input: whatever the commands, no traceback and a documented status
        # (seed C18h: `asm print_reg(R1)` ended `hera debug` with a TypeError)
        script = "".join(rng.choice(DEBUG_LINES) + "\n" for _ in range(rng.choice([0, 1, 3, 6, 10]))) + rng.choice(["", "quit\n"])
    sys.stdin = io.StringIO(script)
    try:
        with contextlib.redirect_stdout(out), contextlib.redirect_stderr(err):
            try:
                rc.with_budget(lambda: main(list(argv)), 6.0)
            except SystemExit as e:
                code = 0 if e.code is None else e.code
            except rc.Budget:
                exc = "timeout"
            except BaseException as e:  # noqa
                exc = "%s: %s" % (type(e).__name__, e)
    finally:
        sys.stdin = oldin
    out, err = out.getvalue(), err.getvalue()
    what = "hera %s" % " ".join(a if a != p else "<%s file>" % kind for a in argv)
    if script:
        what += " with standard input %r" % script
    if exc:
        return "%s: %s (a traceback for the user)" % (what, exc), kind
    if code not in (0, 1, 3):
        return "%s: exit status %r" % (what, code), kind
    pr = real_parse(argv)
    if pr["kind"] == "usage":
        if code != 1 or out or not err:
            return "%s is a usage error: exit status %r, stdout %r, stderr %r" % (what, code, out[:80], err[:80]), kind
    elif pr["kind"] == "run":
        debug = pr["mode"] == "debug"
        broken = kind in ("bad", "missing", "dir", "nonascii", "hex", "hexwide", "notdir", "toolong", "badinclude") and pr["mode"] != "disassemble"
        if pr["path"] == "-":
            broken, kind = False, "empty"      # standard input, which is empty here
        elif pr["path"] != p:
            broken = True           # the positional argument is some other (non-existent) path
            kind = "missing"
        if "--no-debug-ops" in pr["flags"] and kind in ("good", "unwritable") and pr["mode"] != "disassemble":
            broken = True           # the program uses print_reg
        if broken and not (kind == "bad" and False):
            if code != 3 or not err:
                return "%s: an error in the input must give status 3 and a message; got %r, stderr %r" % (what, code, err[:120]), kind
        if kind == "unwritable" and not broken and pr["mode"] == "assemble" and "--stdout" not in pr["flags"] and (code != 3 or not err):
            return "%s: the output file cannot be written: status 3 and a message expected, got %r, stderr %r" % (what, code, err[:120]), kind
        if pr["mode"] == "disassemble" and kind in ("missing", "dir", "nonascii", "notdir", "toolong") and code != 3:
            return "%s: unreadable input must give status 3; got %r" % (what, code), kind
        if not broken and pr["mode"] != "disassemble" and kind in files and code != 0 and not debug:
            return "%s: a valid program gives exit status %r, stderr %r" % (what, code, err[:160]), kind
        if pr["mode"] == "" and kind == "good" and code == 0 and (pr["throttle"] is None or pr["throttle"] >= 3):
            if "R1 = " not in out:
                return "%s: the program's output is not on stdout: %r" % (what, out[:100]), kind
            if "--quiet" not in pr["flags"] and "R1" not in err:
                return "%s: the state dump is not on stderr: %r" % (what, err[:100]), kind
        if pr["mode"] == "assemble" and kind in ("good", "data", "warn") and code == 0 and "--stdout" not in pr["flags"]:
            # the files must hold what --stdout --code / --data print
            o2, e2 = io.StringIO(), io.StringIO()
            parts = {}
            for sel in ("--code", "--data"):
                o2 = io.StringIO()
                with contextlib.redirect_stdout(o2), contextlib.redirect_stderr(e2):
                    try:
                        main(["assemble", "--stdout", sel] + (["--big-stack"] if "--big-stack" in pr["flags"] else []) + [p])
                    except SystemExit:
                        pass
                parts[sel] = o2.getvalue()
            try:
                lcode, ldata = open(p + ".lcode").read(), open(p + ".ldata").read()
            except OSError as e:
                return "%s: output files missing (%s)" % (what, e), kind
            # the same content, to the byte (D64: the .ldata file lacked the final newline)
            if lcode != parts["--code"] or ldata != parts["--data"]:
                return "%s: the .lcode/.ldata files differ from the --stdout output (%r... vs %r... / %r... vs %r...)" % (
                    what, lcode[-12:], parts["--code"][-12:], ldata[-12:], parts["--data"][-12:]), kind
    return None, kind


DOCUMENTED_MODES = {"--big-stack": ["", "debug", "assemble"], "--obfuscate": ["preprocess"], "--throttle": [""],
                    "--warn-return-off": ["", "debug"], "--code": ["assemble"], "--data": ["assemble"], "--stdout": ["assemble"],
                    "--init": ["", "debug"]}


def documented_incompatibility(argv):
    """The documented rule, re-implemented: a mode-specific option given (in either syntax, with any value)
    together with a sub-command it does not belong to.  Returns the option or None."""
    given, mode = set(), ""
    subs = []
    skip = False
    for a in argv:
        if skip:
            skip = False          # the value of --throttle / --init
            continue
        if a == "--":
            break
        if a in ("--throttle", "--init"):
            skip = True
        for f in DOCUMENTED_MODES:
            if a == f or (f in ("--throttle", "--init") and a.startswith(f)):
                given.add(f)
        if a in ("debug", "assemble", "preprocess", "disassemble"):
            subs.append(a)
    for m in ("debug", "assemble", "preprocess", "disassemble"):
        if m in subs:
            mode = m
            break
    for f in sorted(given):
        if mode not in DOCUMENTED_MODES[f]:
            return f
    return None


def correspondence(ctx, model_available=True):
    quick = ctx.tier == "quick"
    rng = ctx.rng
    from hera.main import parse_init_string
    argvs = [[], ["p.hera"], ["--help"], ["-h", "p.hera"], ["--throttle", "5", "p.hera"], ["--throttle=abc", "p.hera"],
             ["--throttle", "p.hera"], ["--init", "r1=5", "p.hera"], ["--init"], ["--", "--help"], ["p.hera", "q.hera"],
             ["debug", "--stdout", "p.hera"], ["preprocess", "--throttle", "0", "p.hera"], ["assemble", "--init=", "p.hera"],
             ["assemble", "--throttle=0", "p.hera"], ["preprocess", "--init", "", "p.hera"], ["debug", "--throttle", "000", "p.hera"], ["--quiet", "--verbose", "p.hera"], ["assemble", "--code", "--data", "--stdout", "p.hera"],
             # after a bare --, arguments are file names as written (D57: -q became --quiet)
             ["--", "-q"], ["--", "-h"], ["-q", "--", "-v"], ["--", "--", "-q"], ["debug", "--", "-h"], ["--", "-x"], ["--", "--init=r1=5"]]
    argvs += [gen_argv(rng) for _ in range(800 if quick else 15000)]
    impl = [real_parse(a) for a in argvs]
    spec_failures, disagreements = [], []
    dist = {"usage": 0, "info": 0, "run": 0, "raise": 0}
    for a, r in zip(argvs, impl):
        dist[r["kind"] if r["kind"] in dist else "raise"] += 1
        if r["kind"] == "raise":
            spec_failures.append({"what": "parse_args(%r) raised %s" % (a, r["exc"]), "argv": a})
        elif r["kind"] == "run" and documented_incompatibility(a):
            spec_failures.append({"what": "hera %s is accepted (mode %r) although %s does not belong to that mode: a usage error "
                                          "(status 1) is documented" % (" ".join(a), r["mode"], documented_incompatibility(a)), "argv": a})
        elif r["kind"] != "usage" and unknown_flag(a) is not None:
            spec_failures.append({"what": "hera %s is %s although %r is not a flag of the tool: a usage error (status 1) is documented"
                                          % (" ".join(x[:40] for x in a), "accepted" if r["kind"] == "run" else r["kind"], unknown_flag(a)[:40]),
                                  "argv": [x[:60] for x in a]})
        elif r["kind"] == "run" and init_values(a) and not init_ok(init_values(a)[-1]):
            # (a later --init replaces an earlier one: the value in force is the last)
            spec_failures.append({"what": "hera %s is accepted although its --init value %r is ill-formed or out of range: a usage "
                                          "error (status 1) is documented" % (" ".join(x[:40] for x in a), init_values(a)[-1][:60]),
                                  "argv": [x[:60] for x in a]})
        elif r["kind"] == "usage" and (r["out"] or not r["err"]):
            spec_failures.append({"what": "usage error for %r: stdout %r stderr %r" % (a, r["out"][:60], r["err"][:60]), "argv": a})
    # the two value syntaxes of --throttle (and of --init) name the same run
    syn = 0
    for a, r in zip(argvs, impl):
        if "--" in a or r["kind"] == "raise":
            continue
        # an argument that is itself the value of a preceding --throttle / --init is not in flag position (false alarm of
        # thorough run 5: `--init --throttle =5` has --throttle as the value of --init)
        value_pos, j = set(), 0
        while j < len(a):
            if a[j] in ("--throttle", "--init") and j + 1 < len(a):
                value_pos.add(j + 1)
                j += 2
            else:
                j += 1
        for i, x in enumerate(a):
            if i in value_pos:
                continue
            for f in ("--throttle", "--init"):
                b = None
                if x.startswith(f + "=") and len(x) > len(f) + 1:
                    b = a[:i] + [f, x[len(f) + 1:]] + a[i + 1:]
                elif x == f and i + 1 < len(a) and a[i + 1] != "":
                    b = a[:i] + [f + "=" + a[i + 1]] + a[i + 2:]
                if b is None:
                    continue
                r2 = real_parse(b)
                syn += 1
                k1 = {k: v for k, v in r.items() if k not in ("out", "err")}
                k2 = {k: v for k, v in r2.items() if k not in ("out", "err")}
                if k1 != k2 and len(spec_failures) < 8:
                    spec_failures.append({"what": "hera %s and hera %s are two spellings of the same command line but are treated "
                                                  "differently: %r vs %r" % (" ".join(a), " ".join(b), k1, k2), "argv": a})
    agree = 0
    if model_available:
        terms = []
        for a in argvs:
            inits = set()
            for i, x in enumerate(a):
                if x == "--init" and i + 1 < len(a):
                    inits.add(a[i + 1])
                if x.startswith("--init"):
                    inits.add(x[len("--init="):])
            valid = []
            for s_ in inits:
                try:
                    if parse_init_string(s_) is not None:
                        valid.append(s_)
                except SystemExit:
                    pass
                except Exception as e:  # noqa
                    if len(spec_failures) < 8:
                        spec_failures.append({"what": "the --init value %r makes parse_init_string raise %s: %s (a traceback for the user)"
                                                      % (s_[:60], type(e).__name__, str(e)[:80]), "argv": [x[:60] for x in a]})
            terms.append("enc_outcome (parse_args (fun s => existsb (String.eqb s) [%s]) [%s])" % (
                "; ".join(coq_str(s) for s in valid), "; ".join(coq_str(x) for x in a)))
        outs = coqrun.eval_cases("C18a", HEADER, terms, shard=300)
        for a, r, o in zip(argvs, impl, outs):
            m = decode(o)
            same = m["kind"] == r["kind"]
            if same and m["kind"] == "run":
                same = (m["mode"] == r["mode"] and m["path"] == r["path"] and m["throttle"] == r["throttle"]
                        and {f for f in m["flags"] if f.startswith("--")} - {"--init", "--throttle"} == r["flags"]
                        and (m["init"] is None) == (not r["init"] and m["init"] is None or False or m["init"] is None))
            if same:
                agree += 1
            elif r["kind"] != "raise":
                disagreements.append({"what": "parse_args vs Model/Cli", "argv": a, "impl": repr(r)[:300], "model": repr(m)[:300]})
    # the whole program
    st = {"main_runs": 0, "by_input": {}}
    root = tempfile.mkdtemp(prefix="hera_cli_")
    try:
        for k in range(250 if quick else 4000):
            fixed = FIXED_MAIN[k] if k < len(FIXED_MAIN) else None
            if fixed is None and k % 6 == 0:
                # a debugging session on a valid program, driven from standard input
                fixed = (rng.choice(["good", "data", "warn"]), rng.choice([["debug", "P"], ["debug", "--big-stack", "P"], ["debug", "-q", "P"]]))
            p, kind = main_oracle(rng, root, fixed)
            st["main_runs"] += 1
            st["by_input"][kind] = st["by_input"].get(kind, 0) + 1
            if p:
                spec_failures.append({"what": p})
    finally:
        shutil.rmtree(root, ignore_errors=True)
    return {
        "cases": len(argvs) + st["main_runs"], "nontrivial": dist["run"],
        "rule": "argument vectors of 0..6 items over every flag and sub-command, both value syntaxes of --throttle/--init, "
                "malformed values, unknown flags, `--`, extra paths: real parse_args vs Model/Cli.v (kind, mode, path, "
                "flags, throttle); hera.main.main on such vectors with valid, invalid, warning-only, data, empty, hex, "
                "missing, directory and non-ASCII inputs: exit status in {0,1,3}, no exception, usage errors print "
                "nothing on stdout, program output on stdout and the state dump on stderr, .lcode/.ldata equal to "
                "--stdout --code/--data",
        "distribution": {"syntax_pairs": syn, "parse_outcomes": dist, **st},
        "samples": [{"argv": argvs[20]}],
        "disagreements": disagreements[:10], "spec_failures": spec_failures[:5],
        "model_vs_impl_agree": agree, "model_available": model_available,
    }


def search(ctx, breaks):
    r = correspondence(ctx, model_available=False)
    return r["spec_failures"][:3]


def replay(ctx, path):
    print(open(path).read()[:6000])
    return 0


if __name__ == "__main__":
    sys.exit(framework.run_check(sys.modules[__name__], sys.argv[1:]))
