"""C15 — runs are repeatable, isolated from earlier runs, and throttling cuts cleanly."""
import copy
import os
import sys
import tempfile

sys.path.insert(0, os.path.join(os.path.dirname(os.path.abspath(__file__)), "..", "lib"))
sys.path.insert(0, os.path.dirname(os.path.abspath(__file__)))
import framework  # noqa: E402
import execcases as ec  # noqa: E402
import runcases as rc  # noqa: E402
from vmstate import St, diff, run_real, snapshot_vm  # noqa: E402

PID = "C15"
TARGETS = ["Properties/C15.vo"]
MODEL_TARGETS = ["Model/InstrOf.vo", "Model/Run.vo", "Lib/Enc.vo", "Spec/Wf.vo"]
ASSUMPTIONS = [
    "process-level state outside the VirtualMachine attributes (module globals, default-argument objects) is "
    "invisible to the theorems; the in-process repeat / interleave runs of this check are the only guard there",
    "the throttled-vs-unthrottled comparison is a theorem (nothing executed touches op_count: Gen/Indep.v is "
    "regenerated with the code model, one lemma per generated definition); the real machine is also compared "
    "for every n against a snapshot of the unthrottled run",
]
TRUSTED = ["coq/Model/Run.v", "coq/Lib/Indep.v", "tools/translate/genindep.py"]
NOTES = ["PARTIAL only for process-level isolation: see level text"]


class Snapshotter(list):
    """program.code that snapshots the machine when the (n+1)-th instruction is fetched."""

    def __init__(self, items, vm, n):
        super().__init__(items)
        self.vm, self.n, self.count, self.snap = vm, n, 0, None

    def __getitem__(self, i):
        if self.count == self.n and self.snap is None:
            self.snap = snapshot_vm(self.vm)
            raise Reached()
        self.count += 1
        return super().__getitem__(i)


class Reached(Exception):
    pass


def strip(d):
    d = dict(d)
    for k in ("op_count", "swarning_count", "stdout", "stderr"):
        d.pop(k, None)
    return d


def throttle_oracle(prog, st, n):
    """None if `throttle n` ends in the state the unthrottled run has after n instructions."""
    from hera.data import Program
    st_t = copy.deepcopy(st)
    st_t.throttle = n
    a = rc.run_impl(prog, st_t)
    st_u = copy.deepcopy(st)
    st_u.throttle = None
    vm = st_u.make_vm()
    program = rc.build_real(prog)
    code = Snapshotter(program.code, vm, n)
    program = Program(program.data, code, {}, None)
    try:
        _, exc, out, err = rc.with_budget(lambda: run_real(lambda: vm.run(program)), 0.4)
    except rc.Budget:
        exc = "Budget"
    b = code.snap
    if b is None:
        if exc:
            return None     # the unthrottled run did not finish and never reached n
        b = snapshot_vm(vm)
    elif exc not in (None, "Reached"):
        return None
    if "raise" in a:
        return "throttle %d raised %s" % (n, a["raise"])
    if a["op_count"] != min(n, code.count if code.snap is None else n):
        return "throttle %d executed %d instructions (run length %s)" % (n, a["op_count"], code.count)
    d = diff(strip(a), strip(b))
    return None if d is None else "throttle %d differs from the unthrottled run at that point: %s" % (n, d)


def repeat_oracle(prog, other, st):
    """Run prog; run it again; run `other`, then prog again — all on one machine."""
    vm = st.make_vm()
    p = rc.build_real(prog)
    q = rc.build_real(other)

    def go(x):
        try:
            _, exc, out, err = rc.with_budget(lambda: run_real(lambda: vm.run(x)), 0.2)
        except rc.Budget:
            return None
        if exc:
            return {"raise": exc}
        d = snapshot_vm(vm, out, err)
        d.pop("swarning_count")
        return d
    a = go(p)
    if a is None:
        return None
    b = go(p)
    go(q)
    c = go(p)
    if b is not None and diff(a, b):
        return "second run differs from the first: %s" % diff(a, b)
    if c is not None and diff(a, c):
        return "run after a different program differs: %s" % diff(a, c)
    return None


def main_repeat_oracle(rng):
    """hera.main.main in one process: same file twice, another file in between."""
    from hera.main import main
    texts = ['SET(R1, 5) INC(R1, 3) DLABEL(x) INTEGER(7) SET(R2, x) LOAD(R3, 0, R2) println("hi")\n'.replace(" DLABEL", "\nDLABEL"),
             "SET(R4, 40000) SET(R5, 40000) ADD(R6, R4, R5) FON(16)\n"]
    texts[0] = 'DLABEL(x) INTEGER(7) SET(R1, 5) INC(R1, 3) SET(R2, x) LOAD(R3, 0, R2) println("hi")\n'
    outs = []
    with tempfile.TemporaryDirectory() as d:
        paths = []
        for i, t in enumerate(texts):
            p = os.path.join(d, "p%d.hera" % i)
            open(p, "w").write(t)
            paths.append(p)
        for seq in ([0, 0], [0, 1, 0], [1, 0], [0]):
            res = []
            for k in seq:
                flags = rng.choice([[], ["--big-stack"], ["--init", "r7=9"]])
                vm, exc, out, err = run_real(lambda: main(["--quiet"] + [paths[k]]))
                res.append((k, {"raise": exc} if exc else snapshot_vm(vm, out, "")))
            outs.append(res)
        # the same path, with another program written into it in the meantime (seed C15f: file texts were cached per
        # path for the life of the process)
        open(paths[0], "w").write(texts[1])
        vm, exc, out, err = run_real(lambda: main(["--quiet"] + [paths[0]]))
        outs.append([(1, {"raise": exc} if exc else snapshot_vm(vm, out, ""))])
        inc = os.path.join(d, "inc.hera")
        top = os.path.join(d, "top.hera")
        open(top, "w").write('#include "inc.hera"\nINC(R2, 1)\n')
        # the included file is first run on its own: having been a program must not matter when it is included later
        # (seed C15g: the set of files being parsed had become shared by all parsers of the process)
        open(inc, "w").write("SET(R5, 1)\n")
        run_real(lambda: main(["--quiet", inc]))
        seen = []
        for val in (100, 200):
            open(inc, "w").write("SET(R5, %d)\n" % val)
            vm, exc, out, err = run_real(lambda: main(["--quiet", top]))
            seen.append(None if exc or vm is None else vm.registers[5])
        if seen != [100, 200]:
            return "a program whose included file was edited between two runs in one process ends with R5 = %r, %r (the file said 100, then 200)" % tuple(seen)
    ref = {}
    for res in outs:
        for k, d in res:
            if "raise" not in d:
                d.pop("swarning_count", None)
            if k in ref and diff(ref[k], d):
                return "main() on the same file gives different results in one process: %s" % diff(ref[k], d)
            ref.setdefault(k, d)
    return None


def cli_throttle_oracle():
    """`hera --throttle n file` (both spellings) ends where the machine is after n instructions of the plain run:
    n = 0 executes nothing (seed C15d: the command line turned --throttle 0 into "no throttle")."""
    from hera.main import main
    # long enough for the zero-padded spellings 08, 09, 010 ... to differ from an octal reading (seed C15h)
    text = "SET(R1, 5)\nINC(R1, 3)\nINC(R2, 1)\nADD(R3, R1, R2)\nINC(R4, 7)\n" + "".join("INC(R%d, %d)\n" % (5 + k % 5, k + 1) for k in range(8))
    with tempfile.TemporaryDirectory() as d:
        p = os.path.join(d, "t.hera")
        open(p, "w").write(text)
        vm, exc, out, err = run_real(lambda: main(["--quiet", p]))
        if exc or vm is None:
            return None
        full = list(vm.registers)
        # the state after n instructions, by single-stepping a fresh machine through the loaded program
        from hera.data import Settings
        from hera.loader import load_program
        from hera.vm import VirtualMachine
        st = Settings()
        with open(os.devnull, "w") as devnull:
            pass
        prog, exc2, _, _ = run_real(lambda: load_program(text, st))
        if exc2:
            return None
        ref = VirtualMachine(st)
        ref.reset()
        states = [list(ref.registers)]
        for op in prog.code:
            op.execute(ref)
            states.append(list(ref.registers))
        for n in range(0, len(prog.code) + 2):
            want = states[min(n, len(prog.code))]
            for argv in (["--quiet", "--throttle", str(n), p], ["--quiet", "--throttle=%d" % n, p], ["--throttle", "%02d" % n, "-q", p],
                         ["--throttle=%03d" % n, "-q", p]):
                vm, exc, out, err = run_real(lambda: main(list(argv)))
                if exc not in (None, "SystemExit") or vm is None:
                    return "hera %s: %s" % (" ".join(argv[:-1]), exc)
                if list(vm.registers) != want:
                    return "hera %s <14-instruction program> ends with registers %r; after %d instructions the machine holds %r" % (
                        " ".join(argv[:-1]), list(vm.registers)[:6], n, want[:6])
    return None


def stdin_repeat_oracle():
    """Input an earlier run read but did not consume must not reach the next run on the same machine."""
    import io
    from hera.data import Settings
    from hera.loader import load_program
    from hera.vm import VirtualMachine
    from vmstate import captured
    text = ("#include <Tiger-stdlib-reg-data.hera>\nCBON()\nMOVE(R12, SP)\nCALL(R12, getchar_ord)\nMOVE(R5, R1)\n"
            "HALT()\n#include <Tiger-stdlib-reg.hera>\n")

    def run(vm, prog, stdin):
        old = sys.stdin
        sys.stdin = io.StringIO(stdin)
        try:
            with captured():
                vm.run(prog)
        finally:
            sys.stdin = old
        return vm.registers[5]
    try:
        st = Settings(color=False)
        with captured():
            prog = load_program(text, st)
        fresh = run(VirtualMachine(st), prog, "abc\n")
        vm = VirtualMachine(st)
        first = run(vm, prog, "xyz\n")
        second = run(vm, prog, "abc\n")
    except BaseException as e:  # noqa
        return "the stdin program could not be run: %s" % type(e).__name__
    if second != fresh:
        return ("a program that reads one character, run after a run that left input unread on the same machine, reads "
                "%r; on a fresh machine it reads %r (first run read %r)" % (chr(second) if 0 < second < 128 else second,
                                                                          chr(fresh) if 0 < fresh < 128 else fresh, chr(first) if 0 < first < 128 else first))
    return None


def warning_repeat_oracle():
    """Warnings are part of a run's output: a program whose stack pointer enters the data segment warns once per run,
    also on a machine that ran such a program before (seed C15j kept the warn-once bookkeeping across reset())."""
    from hera.data import Settings
    from hera.loader import load_program
    from hera.vm import VirtualMachine
    progs = {"deep": "SET(SP, 0xD000)\nSET(R1, 1)\nHALT()\n", "inc": "SET(SP, 0xC000)\nINC(SP, 5)\nHALT()\n",
             "plain": "SET(R1, 2)\nHALT()\n", "ret": "SET(R13, 7)\nSET(R12, 9)\nSET(SP, 0xE000)\nHALT()\n"}

    def run_on(vm, st, name):
        prog, exc0, _, _ = run_real(lambda: load_program(progs[name], st))
        if exc0 or prog is None:
            return ("rejected", exc0)
        before = st.warning_count
        _, exc, out, err = run_real(lambda: vm.run(prog))
        return (exc, out, err, vm.warning_count, st.warning_count - before, vm.registers[:], vm.halted)
    for order in (("deep", "deep"), ("deep", "plain", "deep"), ("inc", "deep"), ("deep", "inc"), ("ret", "plain", "inc"),
                  ("plain", "deep", "deep")):
        st = Settings(color=False)
        st.throttle = 50
        vm = VirtualMachine(st)
        last = None
        for name in order:
            last = run_on(vm, st, name)
        st2 = Settings(color=False)
        st2.throttle = 50
        fresh = run_on(VirtualMachine(st2), st2, order[-1])
        if last != fresh:
            return ("programs run in the order %s on one machine: the last run gives (exception, stdout, stderr, warnings, "
                    "registers, halted) = %r, on a fresh machine %r" % (" -> ".join(order), last, fresh))
    return None


def correspondence(ctx, model_available=True):
    quick = ctx.tier == "quick"
    rng = ctx.rng
    spec_failures = []
    dist = {"programs": 0, "throttle_points": 0, "repeat_triples": 0, "throttled_model_cases": 0}
    # model vs implementation, throttled and from dirty states
    pcases = []
    for k in range(80 if quick else 1500):
        prog = rc.gen_program(rng, wild=(k % 3 == 0))
        st = ec.rand_state(rng)
        if k % 2 == 0:
            st.throttle = rng.choice([0, 1, 2, 3, 5, 10, 30, 100])
            dist["throttled_model_cases"] += 1
        pcases.append({"prog": prog, "st": st})
    pres, pimpl = rc.run_cases("C15r", pcases, model_available=model_available)
    dist["programs"] = len(pcases)
    # oracle on the real machine
    nontrivial = set()
    for k in range(25 if quick else 400):
        prog = rc.gen_program(rng, n=rng.choice([3, 6, 12]), wild=(k % 4 == 0))
        st = ec.rand_state(rng)
        for n in range(0, len(prog["code"]) + 3):
            bad = throttle_oracle(prog, st, n)
            dist["throttle_points"] += 1
            if bad:
                spec_failures.append({"what": bad, "case": rc.case_json({"prog": prog, "st": st}), "throttle": n})
                break
        other = rc.gen_program(rng, n=5)
        bad = repeat_oracle(prog, other, st)
        dist["repeat_triples"] += 1
        if bad:
            spec_failures.append({"what": bad, "case": rc.case_json({"prog": prog, "st": st}), "other": other})
        nontrivial.add(repr(prog))
    bad = main_repeat_oracle(rng)
    if bad:
        spec_failures.append({"what": bad})
    bad = stdin_repeat_oracle()
    if bad:
        spec_failures.append({"what": bad})
    bad = warning_repeat_oracle()
    if bad:
        spec_failures.append({"what": bad})
    bad = cli_throttle_oracle()
    if bad:
        spec_failures.append({"what": bad})
    return {
        "cases": len(pcases) + dist["throttle_points"] + dist["repeat_triples"],
        "nontrivial": len(nontrivial) + pres["agree"],
        "rule": "whole programs run by the model and the real VirtualMachine from dirty machine states with and "
                "without throttling; on the real machine: `throttle n` for every n in 0..len+2 against a snapshot of "
                "the unthrottled run taken when its (n+1)-th instruction is fetched; run / run again / run another "
                "program / run again on one machine; hera.main.main repeated in one process; `hera --throttle n` (both "
                "spellings, n = 0..len+1) against single-stepping",
        "distribution": dist,
        "samples": [rc.case_json(pcases[0])],
        "disagreements": pres["disagreements"],
        "spec_failures": spec_failures[:5],
        "model_vs_impl_agree": pres["agree"],
        "model_available": model_available,
    }


def replay(ctx, path):
    print(open(path).read()[:4000])
    return 0


if __name__ == "__main__":
    sys.exit(framework.run_check(sys.modules[__name__], sys.argv[1:]))
