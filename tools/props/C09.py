"""C09 — the checker accepts exactly the programs that obey the documented operand rules."""
import os
import sys

sys.path.insert(0, os.path.join(os.path.dirname(os.path.abspath(__file__)), "..", "lib"))
sys.path.insert(0, os.path.dirname(os.path.abspath(__file__)))
import framework  # noqa: E402
import coqrun  # noqa: E402
import opcases as oc  # noqa: E402
import progcases as pc  # noqa: E402

PID = "C09"
TARGETS = ["Properties/C09.vo"]
MODEL_TARGETS = ["Model/Preproc.vo", "Model/EncOp.vo"]
ASSUMPTIONS = [
    "operation- and step-level exactness are theorems over Model/Preproc.v + the regenerated P table against "
    "Spec/Signature.v; the whole-program verdict is compared on an enumerated grid with an oracle that "
    "re-implements the documented rules in this file (SIG below), independent of hera-py and of the model",
    "register spellings / literal syntax are the parser's business (C07/C17 models), not covered here",
]
TRUSTED = ["coq/Model/Preproc.v, coq/Spec/Signature.v", "the documented-rules oracle in tools/props/C09.py"]
NOTES = ["PARTIAL: see level text"]

R, RL, LN, STR = "reg", "reg_or_label", "label_name", "str"
B15 = ["BR", "BL", "BGE", "BLE", "BG", "BULE", "BUG", "BZ", "BNZ", "BC", "BNC", "BS", "BNS", "BV", "BNV"]
SIG = {}
for n in ("SETLO", "SETHI"):
    SIG[n] = [R, ("int", -128, 256)]
for n in ("SET", "SETRF"):
    SIG[n] = [R, ("int_or_label", -32768, 65536)]
for n in ("ADD", "SUB", "MUL", "AND", "OR", "XOR"):
    SIG[n] = [R, R, R]
for n in ("INC", "DEC"):
    SIG[n] = [R, ("int", 1, 65)]
for n in ("LSL", "LSR", "LSL8", "LSR8", "ASL", "ASR", "MOVE", "CMP", "NEG", "NOT", "RETURN"):
    SIG[n] = [R, R]
for n in ("SAVEF", "RSTRF", "FLAGS", "print_reg"):
    SIG[n] = [R]
for n in ("FON", "FOFF", "FSET5"):
    SIG[n] = [("int", 0, 32)]
for n in ("FSET4", "SWI"):
    SIG[n] = [("int", 0, 16)]
for n in ("LOAD", "STORE"):
    SIG[n] = [R, ("int", 0, 32), R]
for n in B15:
    SIG[n] = [RL]
    SIG[n + "R"] = [("int_or_label", -128, 256)]
SIG["CALL"] = [R, RL]
for n in ("RTI", "CON", "COFF", "CBON", "CCBOFF", "HALT", "NOP"):
    SIG[n] = []
SIG["OPCODE"] = [("int", 0, 65536)]
SIG["DSKIP"] = [("int", 0, 65536)]
SIG["INTEGER"] = [("int", -32768, 65536)]
for n in ("LP_STRING", "TIGER_STRING", "print", "println", "__eval"):
    SIG[n] = [STR]
SIG["CONSTANT"] = [LN, ("int", -32768, 65536)]
SIG["LABEL"] = [LN]
SIG["DLABEL"] = [LN]
DATA_OPS = {"INTEGER", "DSKIP", "LP_STRING", "TIGER_STRING", "CONSTANT", "DLABEL"}
DEBUG_OPS = {"print", "println", "print_reg", "__eval"}


def arg_ok(kind, tok, sym):
    ttype, v = tok
    if kind == R:
        return ttype == "REGISTER"
    if kind == RL:
        return ttype == "REGISTER" or (ttype == "SYMBOL" and sym.get(v, (None,))[0] == "label")
    if kind == LN:
        return ttype == "SYMBOL"
    if kind == STR:
        return ttype == "STRING"
    k, lo, hi = kind
    if ttype == "INT":
        return lo <= v < hi
    if ttype == "SYMBOL" and v in sym:
        sk, sv = sym[v]
        if sk == "const":
            return lo <= sv < hi
        if k == "int_or_label":
            return sk == "label" or lo <= sv < hi
    return False


def is_instruction_word(w):
    n3, n2, n1, n0, low = w >> 12, (w >> 8) & 15, (w >> 4) & 15, w & 15, w & 255
    if n3 in (8, 9, 10, 11, 12, 13, 14, 15, 4, 5, 6, 7):
        return True
    if n3 == 3:
        if low >= 128 or n1 <= 5:
            return True
        if n1 == 7:
            return n0 in (0, 8)
        return n2 in (0, 1, 4, 5, 8, 9, 12)
    if n3 == 1:
        return n1 == 0 and n2 != 1
    if n3 == 0:
        return n2 != 1
    return n2 in (0, 1) or (n2 == 2 and n1 == 0) or (n2 == 3 and low == 0)


def expected_accept(ops, cfg):
    """The documented rules, applied to (name, [(ttype, value)]) operations. True = accepted."""
    declared = set()
    labels, dlabels = {}, {}
    # symbols of the whole program (labels are visible everywhere); no duplicates
    dc = cfg["data_start"]
    consts_dc = {}
    for name, toks in ops:
        if name in ("LABEL", "DLABEL", "CONSTANT") and toks and toks[0][0] in ("SYMBOL", "STRING", "INT", "REGISTER"):
            key = toks[0][1]
            if key in declared:
                return False
            declared.add(key)
        if name == "LABEL" and len(toks) == 1:
            labels[toks[0][1]] = ("label", 0)
        elif name == "DLABEL" and len(toks) == 1:
            dlabels[toks[0][1]] = ("dlabel", dc if -32768 <= dc < 65536 else 0)
        elif name == "CONSTANT" and len(toks) == 2 and toks[1][0] == "INT":
            consts_dc[toks[0][1]] = toks[1][1]
        elif name == "INTEGER":
            dc += 1
        elif name in ("LP_STRING", "TIGER_STRING") and len(toks) == 1 and isinstance(toks[0][1], str):
            dc += len(toks[0][1]) + 1
        elif name == "DSKIP" and len(toks) == 1:
            v = toks[0][1]
            dc += v if isinstance(v, int) else consts_dc.get(v, 0)
        if dc >= 65536 or dc < -32768:
            return False
    sym = dict(labels)
    sym.update(dlabels)
    seen_code = False
    for name, toks in ops:
        sig = SIG[name]
        if len(sig) != len(toks):
            return False
        if not all(arg_ok(k, t, sym) for k, t in zip(sig, toks)):
            return False
        isdata = name in DATA_OPS
        if isdata and seen_code:
            return False
        seen_code = seen_code or not isdata
        word = None
        if name == "OPCODE":
            t = toks[0]
            word = t[1] if t[0] == "INT" else sym[t[1]][1]
            if cfg["mode"] != "assemble" and not is_instruction_word(word):
                return False
        if not cfg["allow_interrupts"]:
            if name in ("SWI", "RTI"):
                return False
            if word is not None and (word >> 4 == 0x220 or word == 0x2300):
                return False
        if cfg["no_debug_ops"] and name in DEBUG_OPS:
            return False
        if name == "CONSTANT":
            v = toks[1]
            sym[toks[0][1]] = ("const", v[1] if v[0] == "INT" else sym[v[1]][1])
    return True


def variants(kind, rng):
    """operand variants around a documented kind: (token, is it the baseline valid one)"""
    out = [("REGISTER", 1), ("REGISTER", 0), ("REGISTER", 15), ("STRING", "s"), ("SYMBOL", "lb"), ("SYMBOL", "dl"),
           ("SYMBOL", "c5"), ("SYMBOL", "cbig"), ("SYMBOL", "cneg"), ("SYMBOL", "undefined_"), ("SYMBOL", "pc"),
           ("SYMBOL", "cswi"), ("SYMBOL", "crti"), ("SYMBOL", "cadd")]
    rngs = [(-128, 256), (-32768, 65536), (1, 65), (0, 32), (0, 16), (0, 65536)]
    for lo, hi in rngs if not isinstance(kind, tuple) else [(kind[1], kind[2])]:
        out += [("INT", lo - 1), ("INT", lo), ("INT", hi - 1), ("INT", hi)]
    out += [("INT", 0), ("INT", 5), ("INT", 0x2200), ("INT", 0x220F), ("INT", 0x2300), ("INT", 0x2210), ("INT", 0xA123)]
    return out


def baseline(kind):
    if kind == R:
        return ("REGISTER", 3)
    if kind == RL:
        return ("REGISTER", 4)
    if kind == LN:
        return ("SYMBOL", "fresh_")
    if kind == STR:
        return ("STRING", "txt")
    return ("INT", max(kind[1], min(5, kind[2] - 1)))


PREFIX = [("CONSTANT", [("SYMBOL", "c5"), ("INT", 5)]), ("CONSTANT", [("SYMBOL", "cbig"), ("INT", 40000)]),
          ("CONSTANT", [("SYMBOL", "cneg"), ("INT", -7)]),
          # constants whose values are the words of SWI(5), RTI() and of an ordinary instruction (seed C09f / C08e:
          # interrupts hidden behind a named constant were no longer recognised)
          ("CONSTANT", [("SYMBOL", "cswi"), ("INT", 0x2205)]), ("CONSTANT", [("SYMBOL", "crti"), ("INT", 0x2300)]),
          ("CONSTANT", [("SYMBOL", "cadd"), ("INT", 0xA123)]),
          ("DLABEL", [("SYMBOL", "dl")]), ("INTEGER", [("INT", 1)])]
SUFFIX = [("LABEL", [("SYMBOL", "lb")]), ("NOP", [])]


def grid(rng, quick):
    cases = []
    for name, sig in sorted(SIG.items()):
        base = [baseline(k) for k in sig]
        forms = [list(base), base[:-1] if base else [("INT", 1)], base + [("REGISTER", 2)], []]
        for i, k in enumerate(sig):
            for v in variants(k, rng):
                f = list(base)
                f[i] = v
                forms.append(f)
        if quick and name != "OPCODE":
            forms = forms[:4] + rng.sample(forms[4:], min(len(forms) - 4, 6))
        for f in forms:
            for mode in (["", "assemble"] if quick else ["", "debug", "assemble", "preprocess"]):
                for nd in ([False] if quick and name not in DEBUG_OPS else [False, True]):
                    cfg = {"mode": mode, "allow_interrupts": mode in ("assemble", "preprocess"),
                           "no_debug_ops": nd, "data_start": 0xC001}
                    pre = PREFIX if name in DATA_OPS else PREFIX + [("NOP", [])]
                    cases.append((pre + [(name, f)] + SUFFIX, cfg, name))
    # ordering: a data statement after each kind of non-data operation (seed C09c: after a debugging operation only)
    before = [("NOP", []), ("LABEL", [("SYMBOL", "ahead_")]), ("print", [("STRING", "x")]), ("println", [("STRING", "y")]),
              ("print_reg", [("REGISTER", 1)]), ("__eval", [("STRING", "1")]), ("HALT", [])]
    for b in before:
        for name in sorted(DATA_OPS):
            f = [baseline(k) for k in SIG[name]]
            for mode in ["", "debug", "assemble", "preprocess"]:
                for nd in ([False, True] if b[0] in DEBUG_OPS else [False]):
                    cfg = {"mode": mode, "allow_interrupts": mode in ("assemble", "preprocess"),
                           "no_debug_ops": nd, "data_start": 0xC001}
                    for pre in (PREFIX, []):
                        cases.append((pre + [b, (name, f)] + SUFFIX, cfg, name))
    return cases


def correspondence(ctx, model_available=True):
    quick = ctx.tier == "quick"
    rng = ctx.rng
    cases = grid(rng, quick)
    res = {"cases": len(cases), "disagreements": [], "spec_failures": [], "model_available": model_available,
           "exhaustive": not quick,
           "distribution": {"accepted": 0, "rejected": 0, "operations": len(SIG)}}
    impl = []
    descs = []
    for ops, cfg, name in cases:
        real = [oc.real_op("TIGER_STRING" if False else _cls(n), t) for n, t in ops]
        desc = [oc.describe_real_op(o) for o in real]
        for d in desc:
            d["toks"] = [list(pc.fix_tok(t)) for t in d["toks"]]
        descs.append(desc)
        r = pc.real_check(real, cfg)
        impl.append(r)
        if "raise" in r:
            res["spec_failures"].append({"what": "check raised %s on %s%s" % (r["raise"], name, ops[len(ops) - 3][1]),
                                         "ops": ops, "settings": cfg})
            continue
        got = not r["errors"]
        want = expected_accept(ops, cfg)
        res["distribution"]["accepted" if got else "rejected"] += 1
        if got != want:
            res["spec_failures"].append({"what": "%s%s in mode %r (no_debug_ops=%s) is %s, the documented rules say %s; errors=%r"
                                         % (name, [t for t in ops[-3][1]], cfg["mode"], cfg["no_debug_ops"],
                                            "accepted" if got else "rejected", "accept" if want else "reject", r["errors"][:2]),
                                         "ops": ops, "settings": cfg})
    if model_available:
        terms = ["enc_check (check %s %s)" % (pc.cs_term(cfg), pc.ops_term(desc)) for (_, cfg, _), desc in zip(cases, descs)]
        outs = coqrun.eval_cases("C09", pc.HEADER, terms, shard=250)
        agree = 0
        for (ops, cfg, name), r, o in zip(cases, impl, outs):
            m = pc.decode_check(o)
            if m != r:
                diffk = [k for k in set(list(r) + list(m)) if r.get(k) != m.get(k)]
                res["disagreements"].append({"case": {"ops": ops, "settings": cfg}, "fields": diffk,
                                             "impl": {k: r.get(k) for k in diffk}, "model": {k: m.get(k) for k in diffk}})
            else:
                agree += 1
        res["model_vs_impl_agree"] = agree
    res["spec_failures"] = res["spec_failures"][:5]
    res["disagreements"] = res["disagreements"][:10]
    res["nontrivial"] = len({(n, repr(ops[-3][1])) for ops, _, n in cases})
    res["rule"] = ("every operation name x {documented operands, one too few, one too many, none} x each operand "
                   "replaced in turn by registers, strings, symbols bound to a label / data label / in-range constant "
                   "/ out-of-range constant / nothing, `pc`, and integers at both ends and just outside every "
                   "documented range x modes x --no-debug-ops, inside a fixed valid context; verdict of the real "
                   "check() vs the documented rules (oracle in this file) and vs the model. %s"
                   % ("complete grid" if not quick else "stratified sample of the grid"))
    res["samples"] = [{"ops": cases[0][0], "settings": cases[0][1]}]
    return res


def _cls(n):
    import hera.op as op
    return op.name_to_class[n].__name__


def search(ctx, breaks):
    old = ctx.tier
    ctx.tier = "thorough"
    try:
        r = correspondence(ctx, model_available=False)
    except Exception as e:  # noqa
        ctx.log("search failed: %s" % str(e)[-300:])
        r = {"spec_failures": []}
    ctx.tier = old
    return r["spec_failures"][:3]


def replay(ctx, path):
    print(open(path).read()[:4000])
    return 0


if __name__ == "__main__":
    sys.exit(framework.run_check(sys.modules[__name__], sys.argv[1:]))
