"""C14 — the debugger shell survives any input and evaluates expressions correctly."""
import os
import sys

sys.path.insert(0, os.path.join(os.path.dirname(os.path.abspath(__file__)), "..", "lib"))
sys.path.insert(0, os.path.dirname(os.path.abspath(__file__)))
import framework  # noqa: E402
import coqrun  # noqa: E402
import dbgcases as dc  # noqa: E402
import dbgprops as dp  # noqa: E402
from coqrun import z, zlist, pairs  # noqa: E402

PID = "C14"
TARGETS = ["Properties/C14.vo"]
MODEL_TARGETS = ["Model/Session.vo", "Model/ExprEnc.vo", "Proofs/C11_Hyps.vo", "Lib/Enc.vo", "Model/Format.vo"]
ASSUMPTIONS = [
    "PARTIAL: 'no command line makes the shell raise or hang' is decided by the survival oracle (all commands, "
    "abbreviations, wrong operand counts and arbitrary text in start / middle / finished / pc-outside states) and "
    "by the session correspondence; the theorems cover the expression language (parser soundness against the "
    "stratified grammar, evaluator = specified meaning, errors exactly when the meaning is undefined)",
    "lexing of expression text is the real lexer's (tokens are handed to the model parser); completeness of the "
    "parser (every grammatical text is accepted) is tested by the rendering oracle, not proved",
]
TRUSTED = ["coq/Model/MiniParser.v", "coq/Spec/ExprGrammar.v", "coq/Spec/ExprSpec.v"]

COMMANDS = (["assign", "break", "continue", "clear", "execute", "goto", "help", "info", "list", "next", "print",
             "step", "undo", "asm", "dis", "doc", "ll", "off", "on", "restart"]
            + ["a", "b", "c", "cl", "e", "g", "h", "i", "l", "n", "p", "s", "u", "N", "CONT", "Break", "x", "zz", "="])
ARGS = ["", "1", "2", "R1", "abc", "1 2", ".", "*", "f0", "l1", "s1", "d0", "N", ":d", ":d R1", "9999", "-1", "@", "(",
        "0x", "R1 R2", "R1, R2", "@R1", "pc", "<string>:3", "x:1", ":", "5:5", "ADD(R1,R2,R3)", "BR(l1)", "SET(R1", "c",
        "cb z", "carry-block", "stack", "symbols", "all", "next", "R99", "1/0", "65536", "-32769", "0x10", "ffff",
        "LABEL(q)", "INTEGER(1)", "#", "\"", "'", "R1 = 2", "= 3", "stack extra",
        # every kind of operation as the argument of asm / execute / doc (seed C18h: `asm print_reg(R1)` ended the session)
        "print_reg(R1)", "print(\"x\")", "println(\"x\")", "__eval(\"1\")", "INTEGER(1) LP_STRING(\"ab\")", "DSKIP(3)", "SWI(1)",
        "OPCODE(0x20CD)", "OPCODE(0)", "SET(R1, 5) print_reg(R1)", "NOP() HALT()", "CONSTANT(K, 3) SET(R1, K)", "DLABEL(d) INTEGER(d)"]


def wild_line(rng, info):
    k = rng.random()
    if k < 0.35:
        if rng.random() < 0.15:
            return rng.choice(["asm", "execute", "doc", "e", "as"]) + " " + rng.choice(ARGS[-13:])
        return rng.choice(COMMANDS) + " " + rng.choice(ARGS)
    if k < 0.5:
        return rng.choice(dc.GARBAGE)
    if k < 0.6:
        return rng.choice(["pc = 9999", "pc = -5", "pc = 0", "R15 = 0xD000", "@(65535) = 1", "@(0-1) = 1", "pc = %d" % info.n,
                           "R1 = 70000", "R1 = R2 / R0", "R0 = 5", "goto 1", "next 100000", "n 50", "7 = 3", "5 = R1",
                           "next 1000000000000", "n 99999999999999999999", "step 1000000000000", "next 4294967296",
                           "R13 = 9999", "R13 = 65535", "execute CALL(R12, R13)", "execute RETURN(R12, R13)", "info", "i stack",
                           "info stack", "print :l R13", "print :l -1", "p :l 9999", "print :c -1", "print :xdsc 65535",
                           "print :b @(0-1)", "execute SWI(1)", "execute RTI()", "execute HALT()", "execute NOP() NOP()"])
    line, _ = dc.gen_command(rng, info, {"big_stack": False, "init": [], "warn_return_on": True},
                             dc.HISTORY_KINDS + ["readonly", "refused"])
    return line


def survival_oracle(rng, s, n):
    """No exception escapes handle_command; only a stepping command on a non-terminating program may
    run out of time."""
    stats = {"lines": 0, "finished_state_lines": 0, "outside_state_lines": 0, "timeouts": 0}
    rs = dc.RealSession(s["text"], s["opts"])
    if not rs.ok:
        return "front end rejected the generated program", stats
    lines = []
    for i in range(n):
        line = wild_line(rng, s["info"])
        if line.strip().lower().split(" ")[0] in ("q", "qu", "qui", "quit"):
            continue
        lines.append(line)
        dbg = rs.shell.debugger
        was_finished = dbg.finished()
        if dbg.finished():
            stats["finished_state_lines"] += 1
            if not 0 <= dbg.vm.pc < len(dbg.program.code):
                stats["outside_state_lines"] += 1
        r = rs.command(line, budget=3.0)
        stats["lines"] += 1
        if r["exc"] == "Budget":
            stats["timeouts"] += 1
            first = line.strip().lower().split(" ")[0]
            if first and any(c.startswith(first) for c in ("continue", "next", "step", "execute")):
                if was_finished and not first.startswith("e"):
                    return ("the program had finished, yet the shell did not return from %r within 3 s (after %r)"
                            % (line, lines[-6:-1])), stats
                return None, stats          # a program that loops: not the shell's doing
            return "the shell did not return from %r within 3 s (after %r)" % (line, lines[-6:-1]), stats
        if r["exc"]:
            return "the shell raised %s on %r (after %r)" % (r["exc"], line, lines[-6:-1]), stats
    return None, stats


def deep_undo_oracle(rng, s, n):
    """n state-changing commands of the cheap kinds (flag switches, assignments, breakpoints, goto), then n + 2 undo
    lines: nothing escapes handle_command, however long the history (seed C14j capped the list of command names at 100
    while the chain of snapshots stayed unbounded: the 101st consecutive undo raised IndexError)."""
    rs = dc.RealSession(s["text"], s["opts"])
    if not rs.ok:
        return None, 0
    lines = []
    for i in range(n):
        lines.append(rng.choice(["on c", "off c", "on z", "off v", "r4 = %d" % (i % 7), "r%d = r4 + 1" % rng.randrange(1, 11),
                                 "@0x4000 = %d" % i, "goto 0", "break 1", "clear *", "execute NOP()", "assign"]))
    lines += ["undo"] * (n + 2)
    for k, line in enumerate(lines):
        r = rs.command(line, budget=3.0)
        if r["exc"]:
            return ("the shell raised %s on line %d (%r) of a session of %d state-changing commands followed by %d undo lines"
                    % (r["exc"], k + 1, line, n, n + 2)), k
    return None, len(lines)


def finished_counts_oracle():
    """Once the program has finished, a stepping command returns at once, whatever count it is given (seed C14e:
    `next <n>` kept looping n times)."""
    out = []
    for text in ("SET(R1, 1)\nHALT()\n", "INC(R1, 1)\nINC(R2, 1)\n"):
        for cmd in ("next 1000000000000", "n 99999999999999999999", "next 4294967296", "step 1000000000000", "s 9999999999",
                    "continue", "c"):
            rs = dc.RealSession(text, {"big_stack": False, "init": [], "warn_return_on": True})
            if not rs.ok:
                continue
            # from the start of a two-instruction program, and again once it has finished
            r = rs.command(cmd, budget=3.0)
            if r["exc"] == "Budget":
                out.append("on a program of two instructions the shell did not return from %r within 3 s" % cmd)
                break
            if not r["exc"]:
                rs.command("continue", budget=3.0)
                r = rs.command(cmd, budget=3.0)
            if r["exc"] == "Budget":
                out.append("the program had finished, yet the shell did not return from %r within 3 s" % cmd)
                break
            if r["exc"]:
                out.append("the shell raised %s on %r after the program had finished" % (r["exc"], cmd))
                break
    # a program counter set outside the program (in front of it, behind it, far away): every command still returns
    # (seed C14f: finished() forgot negative program counters, the listing and stepping commands then indexed the
    # program with them)
    for pcv in ("-100", "-1", "-2", "65535", "3", "2"):
        for cmd in ("list", "ll", "next", "step", "n 3", "continue", "break .", "info", "i stack", "print R1", "print pc",
                    "dis", "doc", "undo", "restart"):
            rs = dc.RealSession("INC(R1, 1)\nINC(R2, 1)\n", {"big_stack": False, "init": [], "warn_return_on": True})
            if not rs.ok:
                continue
            r = rs.command("pc = " + pcv, budget=3.0)
            if r["exc"]:
                out.append("the shell raised %s on %r" % (r["exc"], "pc = " + pcv))
                break
            r = rs.command(cmd, budget=3.0)
            if r["exc"]:
                out.append("after `pc = %s` the shell %s on %r" % (pcv, "did not return from" if r["exc"] == "Budget" else "raised " + r["exc"], cmd))
                break
        if out:
            break
    # expressions nested thousands of levels deep, and an `execute` whose operation fails while running: a message,
    # and the prompt comes back (defects D52, D53)
    rs = dc.RealSession("SET(R1, 1)\nHALT()\n", {"big_stack": False, "init": [], "warn_return_on": True})
    if rs.ok and not out:
        deep = ["print " + "-" * 3000 + "1", "print " + "(" * 2500 + "1" + ")" * 2500, "print " + "1+" * 3000 + "1",
                "print " + "@" * 3000 + "1", "R1 = " + "-" * 3000 + "1", "@" + "(" * 2500 + "1" + ")" * 2500 + " = 1",
                'execute __eval("1/0")', 'execute __eval("nosuch")  SET(R2, 3)', "print R1, R2", "next"]
        # ... and the undo history still matches what was saved before each of them (seed C14h recorded the command's
        # name only after the handler had returned, so a failing command left the two stacks out of step)
        deep += ["undo"] * 8
        for cmd in deep:
            r = rs.command(cmd, budget=20.0)
            if r["exc"]:
                out.append("the shell %s on %r" % ("did not return from" if r["exc"] == "Budget" else "raised " + r["exc"][:60],
                                                   cmd if len(cmd) < 60 else cmd[:20] + "... (%d characters)" % len(cmd)))
                break
    return out


def eval_oracle(rng, s, n):
    """`print :d <expr>` against independent evaluation, on the state the session has reached; the
    text is the standard minimal rendering of a random tree (plus optional redundant parentheses), so
    the tree the parser must find is known."""
    stats = {"values": 0, "errors": 0, "parse_checked": 0}
    rs = dc.RealSession(s["text"], s["opts"])
    if not rs.ok:
        return "front end rejected the generated program", stats, []
    for line, _ in s["cmds"]:
        r = rs.command(line)
        if r["exc"]:
            return None, stats, []
    vm = rs.shell.debugger.vm
    regs = list(vm.registers)
    mem = {a: v for a, v in enumerate(vm.memory) if v}
    symbols = s["info"].symbols
    model_cases = []
    for _ in range(n):
        t = dc.gen_tree(rng, symbols, maxdepth=rng.choice([1, 2, 3, 4]))
        text = dc.render_tree(t, rng if rng.random() < 0.5 else None)
        got = dc.real_parse(text)
        if got != ("ok", "", [t]):
            return "parse of %r: got %r, the tree is %r" % (text, got, t), stats, []
        stats["parse_checked"] += 1
        try:
            want = str(dc.py_eval(t, regs, mem, vm.pc, symbols))
            stats["values"] += 1
        except dc.EvalError:
            want = None
            stats["errors"] += 1
        r = rs.command("print :d " + text)
        if r["exc"]:
            return "print :d %s raised %s" % (text, r["exc"]), stats, []
        shown = r["shell"].strip()
        if want is not None and " [" in shown:
            shown = shown.split(" [")[0]       # labels and the pc are shown with their source location
        if want is None:
            if not shown.startswith("Eval error"):
                return "print :d %s shows %r; the expression has no value (range / zero divisor / undefined)" % (
                    text, shown), stats, []
        elif shown != want:
            return "print :d %s shows %r, ordinary arithmetic gives %s" % (text, shown, want), stats, []
        model_cases.append((t, want))
    term_env = "(mkvm %s %s 0 PNone PNone PNone PNone PNone (mkmem %d %s) PNone [] 0 PNone PNone PNone 0 0 PNone [] 0 [] %s)" % (
        zlist([int(x) for x in regs]), z(int(vm.pc)), len(vm.memory), pairs(sorted((a, int(v)) for a, v in mem.items())),
        dc.settings_of(s["opts"]).settings_term())
    st = "[%s]" % "; ".join("(%s, %s)" % (zlist([ord(c) for c in k]), z(v)) for k, v in symbols.items())
    return None, stats, [("enc_eval (eval %s %s %s)" % (term_env, st, dc.tree_term(t)), want) for t, want in model_cases]


def known_replays(ctx, findings):
    """Findings recorded with a session: the commands are replayed on the real shell; an exception is the finding."""
    out = []
    for e in findings:
        ses = e.get("session")
        if not ses:
            continue
        rs = dc.RealSession(ses["program"], {"big_stack": False, "init": [], "warn_return_on": True})
        bad = None
        if rs.ok:
            for line in ses["commands"]:
                r = rs.command(line)
                if r["exc"]:
                    bad = "the shell raised %s on %r" % (r["exc"], line)
                    break
        out.append((e, bad is not None, bad))
    return out


FORMAT_HEADER = """From Coq Require Import ZArith List.
From Hera.Model Require Import Format.
Import ListNotations.
Open Scope Z_scope.
Definition enc_fmt (o : option (list Z)) : list Z := match o with Some t => 1 :: t | None => [0] end.
"""


def format_correspondence(rng, n, disagreements, spec_failures, model_available):
    """hera.utils.format_int (what print, info, print_reg and the end-of-run register dump show) against Model/Format.v
    on sampled 16-bit values x specifier strings, and, on the real function alone, every numeric form read back with
    Python's int(text, 0)."""
    from hera.utils import format_int
    st = {"format_cases": 0, "format_agree": 0, "format_values_read_back": 0}
    edge = [0, 1, 9, 10, 13, 31, 32, 39, 65, 92, 126, 127, 128, 255, 256, 4095, 4096, 32767, 32768, 32769, 65535, 9999, 10000]
    specs = ["xdsc", "d", "x", "o", "b", "c", "C", "s", "S", "dxobcCsS", "sd", "cs", "", "q", "dq", "xX"]
    cases = []
    for _ in range(n):
        v = rng.choice(edge) if rng.random() < 0.4 else rng.randrange(65536)
        spec = rng.choice(specs) if rng.random() < 0.7 else "".join(rng.choice("dxobcCsS") for _ in range(rng.randrange(1, 6)))
        try:
            want = [1] + [ord(c) for c in format_int(v, spec=spec)]
        except RuntimeError:
            want = [0]
        except Exception as e:  # noqa
            spec_failures.append({"what": "format_int(%d, spec=%r) raised %s" % (v, spec, type(e).__name__)})
            continue
        cases.append((v, spec, want))
    for v in edge + [rng.randrange(65536) for _ in range(n)]:
        # the implementation alone: what is shown denotes the value
        try:
            forms = {c: format_int(v, spec=c) for c in "dxob"}
            signed = format_int(v, spec="s")
            bad = [c for c, t in forms.items() if int(t, 0) != v]
            if (signed != "") != (v >= 32768) or (signed and int(signed, 0) != v - 65536):
                bad.append("s")
            if format_int(v, spec="xdsc").split(" = ")[:2] != [forms["x"], forms["d"]]:
                bad.append("xdsc")
        except Exception as e:  # noqa
            bad = [type(e).__name__]
        if bad:
            spec_failures.append({"what": "the value %d is shown as %r (specifier(s) %s): that does not read back to the value"
                                          % (v, format_int(v, spec="dxobsc") if not bad[0][0].isupper() else "?", ",".join(bad))})
            break
        st["format_values_read_back"] += 1
    st["format_cases"] = len(cases)
    if model_available and cases:
        outs = coqrun.eval_cases("C14f", FORMAT_HEADER, ["enc_fmt (format_int %d %s)" % (v, coqrun.zlist([ord(c) for c in spec]))
                                                       for v, spec, _ in cases], shard=300)
        for (v, spec, want), o in zip(cases, outs):
            if o == want:
                st["format_agree"] += 1
            else:
                disagreements.append({"what": "format_int vs Model/Format", "value": v, "spec": spec,
                                      "impl": "".join(map(chr, want[1:])) if want[0] else "RuntimeError",
                                      "model": "".join(map(chr, o[1:])) if o and o[0] else "None"})
    return st


def correspondence(ctx, model_available=True):
    quick = ctx.tier == "quick"
    rng = ctx.rng
    spec_failures, disagreements = [], []
    # (1) sessions: model vs implementation (every command kind, undo included)
    sessions = dp.make_sessions(rng, 30 if quick else 300, lambda k: dc.HISTORY_KINDS + ["readonly", "refused"],
                                sizes=(4, 10, 18))
    res = dp.correspondence("C14s", sessions, model_available, check_history=False)
    disagreements += res["disagreements"]
    # (2) survival
    sv = {"lines": 0, "finished_state_lines": 0, "outside_state_lines": 0, "timeouts": 0, "sessions": 0}
    for s in dp.make_sessions(rng, 40 if quick else 500, lambda k: dc.RUN_KINDS, sizes=(0, 2, 5)):
        if rng.random() < 0.3:
            # the program ends by calling an address outside itself: finished, with a non-empty call stack
            wild = s["text"].replace("HALT()", "SET(R5, %d)\nCALL(R12, R5)" % rng.choice([9999, 65535, 40000]), 1)
            if dc.load(wild, s["opts"], "debug") is not None:
                s = dict(s, text=wild, info=dc.Info(dc.load(wild, s["opts"], "debug")[0]))
        p, st = survival_oracle(rng, s, 40 if quick else 80)
        sv["sessions"] += 1
        for k in st:
            sv[k] += st[k]
        if p:
            spec_failures.append({"what": p, "session": dp.session_json(s)})
    for s in dp.make_sessions(rng, 1 if quick else 4, lambda k: dc.RUN_KINDS, sizes=(0, 2)):
        p, k = deep_undo_oracle(rng, s, rng.choice([105, 130]) if quick else rng.choice([101, 130, 260, 520]))
        sv["deep_undo_lines"] = sv.get("deep_undo_lines", 0) + k
        if p:
            spec_failures.append({"what": p, "session": dp.session_json(s)})
    for b in finished_counts_oracle():
        spec_failures.append({"what": b})
    # (3) parser: model vs implementation on well-formed, damaged and arbitrary texts
    pres = {"cases": 0, "agree": 0}
    if model_available:
        pres = dc.compare_parser("C14p", dc.parser_cases(rng, 600 if quick else 8000, {"N": 7, "f0": 12, "d0": 0xC001}))
        disagreements += [{"what": "miniparser: %r" % d} for d in pres["disagreements"][:5]]
    # (4) evaluation: print :d vs independent arithmetic, and the model evaluator on the same trees
    ev = {"values": 0, "errors": 0, "parse_checked": 0}
    mterms = []
    for s in dp.make_sessions(rng, 15 if quick else 150, lambda k: dc.HISTORY_KINDS, sizes=(0, 4, 10)):
        p, st, mt = eval_oracle(rng, s, 25 if quick else 60)
        for k in st:
            ev[k] += st[k]
        if p:
            spec_failures.append({"what": p, "session": dp.session_json(s)})
        mterms += mt
    model_eval_agree = 0
    if model_available and mterms:
        outs = coqrun.eval_cases("C14e", dc.EXPR_HEADER, [t for t, _ in mterms], shard=200)
        for (t, want), o in zip(mterms, outs):
            got = str(o[1]) if o[0] == 0 else None
            if got == want:
                model_eval_agree += 1
            else:
                disagreements.append({"what": "model eval gives %r, implementation %r" % (got, want), "term": t[:300]})
    # (5) what is shown: format_int vs Model/Format, and the shown forms read back on the real function
    fm = format_correspondence(rng, 400 if quick else 6000, disagreements, spec_failures, model_available)
    return {
        "cases": res["sessions"] + sv["lines"] + pres["cases"] + ev["parse_checked"] + fm["format_cases"],
        "nontrivial": sv["finished_state_lines"] + ev["values"] + ev["errors"],
        "rule": "(1) sessions over every command kind: real Shell vs Model/Session; (2) survival: random command lines "
                "(every command and abbreviation x argument pool, garbage text, pc assignments outside the program) in "
                "start/middle/finished/outside states, each under a time budget; (3) Model/MiniParser on the real "
                "lexer's tokens vs miniparser.parse on well-formed, damaged and arbitrary texts; (4) `print :d` of the "
                "standard rendering of random trees vs independent integer arithmetic (values and errors), the parsed "
                "tree vs the generating tree, and the model evaluator on the same trees and state; (5) format_int vs Model/Format "
                "on sampled values x specifier strings, and every numeric form the real function shows read back with int(text, 0)",
        "distribution": {"sessions": res["sessions"], "session_steps": res["steps"], "survival": sv,
                         "parser": {k: v for k, v in pres.items() if k != "disagreements"}, "evaluation": ev,
                         "model_eval_agree": model_eval_agree, "format": fm},
        "samples": [dp.session_json(sessions[0])] if sessions else [],
        "disagreements": disagreements, "spec_failures": spec_failures[:5],
        "model_vs_impl_agree": res["agree"], "model_available": model_available,
    }


def search(ctx, breaks):
    out = []
    rng = ctx.rng
    for s in dp.make_sessions(rng, 100, lambda k: dc.HISTORY_KINDS, sizes=(0, 4, 10)):
        p, _ = survival_oracle(rng, s, 60)
        if not p:
            p, _, _ = eval_oracle(rng, s, 30)
        if p:
            out.append({"what": p, "session": dp.session_json(s)})
            break
    return out


def replay(ctx, path):
    print(open(path).read()[:6000])
    return 0


if __name__ == "__main__":
    sys.exit(framework.run_check(sys.modules[__name__], sys.argv[1:]))
