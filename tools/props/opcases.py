"""
opcases — operation objects for the correspondence harnesses of C03/C05/C08/C09: building
real hera.op instances from (class name, [(kind, value)]) descriptions, their Gallina terms,
and decoding of the model's encodings.
"""
import coqrun
from coqrun import pv, z
from vmstate import Reader

HEADER = """From Coq Require Import ZArith List Bool String.
From Hera.Lib Require Import Py Machine Enc.
From Hera.Gen Require Import Ops Tables Convert.
From Hera.Spec Require Import ISA EncTable.
From Hera.Model Require Import OpRep InstrOf Bitvec EncOp.
Import ListNotations.
Open Scope Z_scope.
"""

TT = {1: "INT", 2: "REGISTER", 3: "SYMBOL", 4: "STRING", 5: "CHAR", 6: "OTHER"}
TTC = {"INT": "T_INT", "REGISTER": "T_REGISTER", "SYMBOL": "T_SYMBOL", "STRING": "T_STRING", "CHAR": "T_CHAR"}


def cname_ident(c):
    return "uu" + c[2:] if c.startswith("__") else c


def tok_term(kind, value):
    return "(mktok %s %s)" % (TTC[kind], pv(value))


def op_term(name, toks):
    return "(mkop O_%s [%s])" % (cname_ident(name), "; ".join(tok_term(k, v) for k, v in toks))


def real_op(name, toks):
    import hera.op as op
    from hera.data import Token
    tmap = {"INT": Token.INT, "REGISTER": Token.REGISTER, "SYMBOL": Token.SYMBOL, "STRING": Token.STRING,
            "CHAR": Token.CHAR}
    cls = getattr(op, name)
    from hera.data import Location
    # the parser always gives an operation the location of its name: debug mode relies on it
    return cls(*[Token(tmap[k], v) for k, v in toks], loc=Location(1, 1, "<grid>", [""]))


def describe_real_op(o):
    from hera.data import Token
    inv = {Token.INT: "INT", Token.REGISTER: "REGISTER", Token.SYMBOL: "SYMBOL", Token.STRING: "STRING",
           Token.CHAR: "CHAR"}
    return {"cls": o.__class__.__name__,
            "toks": [[inv.get(t.type, "OTHER"), canon(t.value)] for t in o.tokens]}


def canon(v):
    if isinstance(v, bool):
        return ["bool", v]
    if isinstance(v, int):
        return int(v)
    return v


def read_op(r):
    cls = r.string()
    toks = r.list(lambda: [TT[r.int()], canon(r.pv())])
    return {"cls": cls, "toks": toks}


def decode_res(l, f):
    from vmstate import EXN_NAMES
    r = Reader(l)
    if r.int() == 1:
        return {"raise": EXN_NAMES.get(r.int(), "?")}
    v = f(r)
    return {"ok": v}


def real_classes_with_bitv():
    import hera.op as op
    seen, out = set(), []
    for key, cls in op.name_to_class.items():
        if cls.__name__ not in seen and cls.BITV != "":
            seen.add(cls.__name__)
            out.append(cls)
    return out


def valid_instances(cls, rng=None, limit=None):
    """All (or a sample of) valid operand tuples of a real instruction class, as token lists."""
    import itertools
    import hera.op as op
    doms = []
    for kind in cls.P:
        if kind in (op.REGISTER, op.REGISTER_OR_LABEL):
            doms.append([("REGISTER", i) for i in range(16)])
        elif kind == op.I8_OR_LABEL:
            doms.append([("INT", i) for i in range(-128, 256)])
        elif isinstance(kind, range):
            doms.append([("INT", i) for i in kind])
        else:
            raise ValueError(kind)
    total = 1
    for d in doms:
        total *= len(d)
    if limit is None or total <= limit:
        return [list(t) for t in itertools.product(*doms)]
    out = []
    for _ in range(limit):
        out.append([rng.choice([d[0], d[-1], rng.choice(d)]) for d in doms])
    return out
