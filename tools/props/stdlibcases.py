"""
stdlibcases — calling the built-in Tiger standard library through the real interpreter, in both
calling conventions, with arbitrary argument values and register contexts (C19).
"""
import io
import sys

import runcases as rc
from vmstate import captured


def lit(s):
    return '"' + "".join("\\x%02x" % ord(c) if (ord(c) < 32 or ord(c) > 126 or c in '"\\') else c for c in s) + '"'


def program(conv, f, args, sentinels, calls=1, alias=False):
    """HERA text calling f(args) `calls` times (alias: equal string arguments are one and the same string in memory).  Strings are data; results are left in R1 (last call) and the
    earlier results in memory cells res0.."""
    data, setup = [], []

    def argname(i, a):
        if alias and i > 0 and isinstance(args[0], str) and a == args[0]:
            return "arg0"
        return "arg%d" % i
    for i, a in enumerate(args):
        if isinstance(a, str):
            # a cell that is not zero right behind every string: a function that reads one cell too far sees it
            # (seed C19i: tstrcmp compared the cell behind an empty string)
            data += ["DLABEL(arg%d)" % i, "LP_STRING(%s)" % lit(a), "INTEGER(%d)" % (1000, 7, 30000)[i % 3]]
    data += ["DLABEL(results)", "DSKIP(%d)" % (calls + 1), "DLABEL(regsave)", "DSKIP(16)"]
    lines = list(data)
    lines.append("#include <Tiger-stdlib-%s-data.hera>" % conv)
    lines.append("CBON()")
    for k in range(calls):
        for r, v in sentinels.items():
            lines.append("SET(R%d, %d)" % (r, v))
        lines.append("MOVE(R12, SP)")
        if conv == "stack":
            lines.append("INC(SP, %d)" % (len(args) + 3))
            for i, a in enumerate(args):
                # R11 (Rt) is the scratch register here, so that the sentinels survive the set-up
                lines += ["SET(R11, %s)" % (argname(i, a) if isinstance(a, str) else a), "STORE(R11, %d, R12)" % (i + 3)]
            lines.append("CALL(R12, %s)" % f)
            # save every register right after the return, before anything else touches them
            lines.append("SET(R11, regsave)")
            for r in range(1, 11):
                lines.append("STORE(R%d, %d, R11)" % (r, r))
            lines.append("STORE(R14, 14, R11)")
            lines += ["LOAD(R1, 3, R12)", "DEC(SP, %d)" % (len(args) + 3)]
            lines.append("STORE(R15, 15, R11)")
        else:
            for i, a in enumerate(args):
                lines.append("SET(R%d, %s)" % (i + 1, argname(i, a) if isinstance(a, str) else a))
            lines.append("CALL(R12, %s)" % f)
            lines.append("SET(R11, regsave)")
            lines.append("STORE(R14, 14, R11)")
            lines.append("STORE(R15, 15, R11)")
        lines += ["SET(R11, results)", "STORE(R1, %d, R11)" % k]
    lines += ["SET(R11, 0x7e57)", "HALT()", "#include <Tiger-stdlib-%s.hera>" % conv]
    return "\n".join(lines) + "\n"


def run(text, stdin="", budget=5.0):
    """-> dict(vm=..., out=..., err=..., symbols=...) or {"raise": ...}"""
    from hera.data import Settings
    from hera.loader import load_program
    from hera.vm import VirtualMachine
    st = Settings(color=False)
    old = sys.stdin
    sys.stdin = io.StringIO(stdin)
    try:
        with captured() as (out, err):
            try:
                prog = load_program(text, st)
            except SystemExit:
                return {"raise": "rejected: " + err.getvalue()[:300]}
            vm = VirtualMachine(st)
            try:
                rc.with_budget(lambda: vm.run(prog), budget)
            except rc.Budget:
                return {"raise": "did not terminate"}
            except BaseException as e:  # noqa
                return {"raise": "%s: %s" % (type(e).__name__, e)}
    finally:
        sys.stdin = old
    return {"vm": vm, "out": out.getvalue(), "err": err.getvalue(), "symbols": prog.symbol_table}


def read_string(vm, addr):
    n = vm.load_memory(addr)
    if n > 2000:
        return None
    return "".join(chr(vm.load_memory(addr + 1 + i)) for i in range(n))


def s16(v):
    return v - 65536 if v >= 32768 else v


def trunc_div(a, b):
    q = abs(a) // abs(b)
    return -q if (a < 0) != (b < 0) else q
