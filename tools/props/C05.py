"""C05 — instruction encoding and decoding are exact inverses and follow the HERA table."""
import os
import sys

sys.path.insert(0, os.path.join(os.path.dirname(os.path.abspath(__file__)), "..", "lib"))
sys.path.insert(0, os.path.dirname(os.path.abspath(__file__)))
import framework  # noqa: E402
import coqrun  # noqa: E402
import opcases as oc  # noqa: E402
from vmstate import run_real  # noqa: E402

PID = "C05"
TARGETS = ["Properties/C05.vo"]
MODEL_TARGETS = ["Model/EncOp.vo"]
ASSUMPTIONS = [
    "theorems are about Model/Bitvec.v (hand model of substitute_bitvector, match_bitvector, assemble and "
    "disassemble) over BITV / name_to_class order / override lists regenerated from hera/op.py",
    "Spec/EncTable.v is a faithful transcription of the HERA 2.4 encoding table",
]
TRUSTED = ["coq/Model/Bitvec.v tied to hera/op.py by this check's correspondence (every word and every valid "
           "instruction instance in the thorough tier; boundary-biased sample in quick)",
           "coq/Model/InstrOf.v (op_of_instr / instr_of_op)"]
NOTES = ["finite spaces closed exhaustively inside the kernel: 65536 words, all valid instruction instances"]


def real_disassemble(v):
    import hera.op as op
    o, exc, _, _ = run_real(lambda: op.disassemble(v))
    if exc:
        return {"raise": exc}
    return {"ok": oc.describe_real_op(o)}


REPEAT_FAILURES = []


def real_assemble(o):
    b, exc, _, _ = run_real(lambda: o.assemble())
    if exc:
        return {"raise": exc}
    # encoding an operation does not wear it out: the same object encodes to the same word again (seed C05j: the
    # rewritten substitute_bitvector shifted the operation's own operand list down to zero)
    for k in (2, 3):
        b2, exc2, _, _ = run_real(lambda: o.assemble())
        if (exc2 or b2 != b) and len(REPEAT_FAILURES) < 3:
            REPEAT_FAILURES.append({"what": "%s: assemble() call #%d on the same operation object gives %s, the first call gave %s"
                                            % (o, k, exc2 or (b2.hex() if b2 is not None else None), b.hex() if b is not None else None)})
            break
    return {"ok": None if b is None else list(b)}


def decode_asm(l):
    def f(r):
        if r.int() == 0:
            return None
        return r.list(r.int)
    return oc.decode_res(l, f)


def correspondence(ctx, model_available=True):
    quick = ctx.tier == "quick"
    rng = ctx.rng
    import hera.op as op
    # words to decode
    if quick:
        words = sorted(set([0, 1, 0xFF, 0x100, 0x2200, 0x2300, 0x2301, 0x3D60, 0x3D6F, 0x3C6F, 0x317F, 0x31BF,
                            0x30BF, 0x30FF, 0x3070, 0x3078, 0x3071, 0x3079, 0xFFFF, 0x8000, 0x7FFF]
                           + [rng.randrange(65536) for _ in range(2500)]))
    else:
        words = list(range(65536))
    outside = [-1, -2, 65536, 65537, 70000, -32768, 1 << 20, -(1 << 20)]
    # instruction instances to encode
    insts = []
    for cls in oc.real_classes_with_bitv():
        for toks in oc.valid_instances(cls, rng, limit=40 if quick else None):
            insts.append((cls.__name__, toks))
    # neighbouring immediates of the byte fields, in one process (seed C05f: a cache of assembled words keyed by a
    # hash, and hash(-1) == hash(-2) in CPython)
    for name in ("SETLO", "SETHI"):
        for imm in (-1, -2, -3, 255, 254, 253, -128, -127, 127, 128):
            insts.append((name, [("REGISTER", 1), ("INT", imm)]))
    for name in ("BRR", "BZR", "BNVR"):
        for imm in (-1, -2, -3, 255, 254, -128, 127):
            insts.append((name, [("INT", imm)]))
    for name in ("INC", "DEC"):
        for imm in (1, 2, 63, 64):
            insts.append((name, [("REGISTER", 2), ("INT", imm)]))
    # other assemble forms: data, debugging, OPCODE
    other = [("INTEGER", [("INT", v)]) for v in (0, 1, -1, 255, 256, 300, -32768, 65535, 32767)]
    other += [("DSKIP", [("INT", n)]) for n in (0, 1, 3, 100)]
    other += [("LP_STRING", [("STRING", s)]) for s in ("", "a", "hello", "\x00\xff", "x" * 300, chr(300) + chr(511))]
    other += [("OPCODE", [("INT", v)]) for v in (0, 0x1234, 0xFFFF, 0x2200)]
    other += [("PRINT_REG", [("REGISTER", 3)]), ("PRINT", [("STRING", "hi")]), ("PRINTLN", [("STRING", "")])]

    impl_dis = [real_disassemble(w) for w in words + outside]
    # decoded operations kept alive side by side: what an operation looks like must not depend on what was decoded
    # after it (seed C05g: operand tokens cached per class and shared between the operations decoded from them)
    keep = (words[:100] + words[len(words) // 2:len(words) // 2 + 300]) if quick else words[::16]
    objs = []
    for w in keep:
        o = run_real(lambda w=w: op.disassemble(w))[0]
        if o is not None:
            objs.append((w, o, oc.describe_real_op(o), str(o)))
    stale = None
    for w, o, desc, text in objs:
        now = oc.describe_real_op(o)
        if now != desc or str(o) != text:
            stale = {"what": "word %s was decoded to %s; after other words were decoded the same object reads %s"
                             % (hex(w), text, str(o)), "case": {"disassemble": w}}
            break
    impl_asm = [real_assemble(oc.real_op(n, t)) for n, t in insts + other]

    res = {"cases": len(impl_dis) + len(impl_asm), "disagreements": [], "spec_failures": list(REPEAT_FAILURES),
           "model_available": model_available, "exhaustive": not quick,
           "distribution": {"words_decoded": len(words), "out_of_range_ints": len(outside),
                            "instruction_instances_encoded": len(insts), "other_assemble_forms": len(other),
                            "decoded_objects_kept_alive": len(objs),
                            "words_that_are_instructions": sum(1 for r in impl_dis if "ok" in r)}}
    if stale:
        res["spec_failures"].append(stale)
    if model_available:
        terms = ["enc_res_op (disassemble %s false)" % coqrun.z(w) for w in words + outside]
        terms += ["enc_asm (assemble %s)" % oc.op_term(n, t) for n, t in insts + other]
        terms += ["spec_word %s" % oc.op_term(n, t) for n, t in insts]
        terms += ["spec_all_words"]
        outs = coqrun.eval_cases("C05", oc.HEADER, terms, shard=4000)
        k = 0
        agree = 0
        for w, r in zip(words + outside, impl_dis):
            m = oc.decode_res(outs[k], oc.read_op)
            k += 1
            if m != r:
                res["disagreements"].append({"case": {"disassemble": w}, "impl": r, "model": m})
            else:
                agree += 1
        for (n, t), r in zip(insts + other, impl_asm):
            m = decode_asm(outs[k])
            k += 1
            if m != r:
                res["disagreements"].append({"case": {"assemble": [n, t]}, "impl": r, "model": m})
            else:
                agree += 1
        # the implementation against the hand-written table
        spec_words = set(outs[-1])
        for (n, t), r in zip(insts, impl_asm[:len(insts)]):
            s = outs[k]
            k += 1
            want = s[1] if s and s[0] == 1 else None
            got = (r["ok"][0] * 256 + r["ok"][1]) if r.get("ok") and len(r["ok"]) == 2 else None
            if want is None or got != want:
                res["spec_failures"].append({"what": "%s%s assembles to %s, the HERA table says %s"
                                             % (n, tuple(v for _, v in t), None if got is None else hex(got),
                                                None if want is None else hex(want)),
                                             "case": {"assemble": [n, t]}})
        for w, r in zip(words, impl_dis[:len(words)]):
            if "ok" in r:
                o = oc.real_op(r["ok"]["cls"], [tuple(x) for x in r["ok"]["toks"]])
                b = real_assemble(o)
                back = (b["ok"][0] * 256 + b["ok"][1]) if b.get("ok") and len(b["ok"]) == 2 else None
                if back != w:
                    res["spec_failures"].append({"what": "word %s disassembles to %s%s which re-assembles to %s"
                                                 % (hex(w), r["ok"]["cls"], r["ok"]["toks"], back),
                                                 "case": {"disassemble": w}})
                elif w not in spec_words:
                    res["spec_failures"].append({"what": "word %s disassembles to %s%s but is not an instruction of the HERA table"
                                                 % (hex(w), r["ok"]["cls"], r["ok"]["toks"]), "case": {"disassemble": w}})
            elif r.get("raise") == "HERAError":
                if w in spec_words:
                    res["spec_failures"].append({"what": "word %s is an instruction of the HERA table but is reported as unknown" % hex(w),
                                                 "case": {"disassemble": w}})
            else:
                res["spec_failures"].append({"what": "disassemble(%s) raised %s" % (hex(w), r.get("raise")),
                                             "case": {"disassemble": w}})
        for v, r in zip(outside, impl_dis[len(words):]):
            if r.get("raise") != "HERAError":
                res["spec_failures"].append({"what": "disassemble(%d) is not rejected: %r" % (v, r), "case": {"disassemble": v}})
        res["model_vs_impl_agree"] = agree
    res["spec_failures"] += dis_command_oracle(rng, words if quick else rng.sample(words, 3000), outside)
    res["spec_failures"] += cli_disassemble_oracle(rng, rng.sample(words, min(len(words), 400)) if quick else words)
    res["spec_failures"] = res["spec_failures"][:5]
    res["nontrivial"] = res["distribution"]["words_that_are_instructions"] + len(insts)
    res["rule"] = ("decode: %s; encode: %s valid operand tuples of every real instruction class; plus data / "
                   "debugging / OPCODE assemble forms and out-of-range integers. Non-trivial: a word that is an "
                   "instruction, or an instruction instance."
                   % ("all 65536 words" if not quick else "2500 random words + known boundary words",
                      "all" if not quick else "40 boundary-biased"))
    res["samples"] = [{"disassemble": hex(words[0])}, {"assemble": insts[0]}, {"assemble": other[5]}]
    return res


def dis_command_oracle(rng, words, outside):
    """The debugger's `dis <n>` is the same decoder with the same domain: a word prints what disassemble(word) prints,
    an integer outside 0..0xFFFF is refused, never decoded (seed C05h reduced the argument to 16 bits first)."""
    import dbgcases as dc
    rs = dc.RealSession("SET(R1, 1)\nHALT()\n", {"big_stack": False, "init": [], "warn_return_on": True})
    if not rs.ok:
        return [{"what": "the debugger no longer loads a two-line program"}]
    out = []
    vals = [(w, rng.choice(["%d", "0x%x", "0b%s", "0o%o"])) for w in rng.sample(words, min(len(words), 60))]
    vals += [(v, "%d") for v in outside] + [(v, "%d") for v in (-1, -2, -0x7FFF, -0x8000, -0x8001, -0xFFFF, -0x10000, 0x10000, 0x1FFFF, 1 << 40)]
    vals += [(-(rng.randrange(1, 0x8001)), rng.choice(["%d", "-0x%x"])) for _ in range(20)]
    for v, fmt in vals:
        if fmt == "-0x%x":
            lit = "-0x%x" % -v
        elif fmt == "0b%s":
            lit = "0b" + bin(v)[2:]
        else:
            lit = fmt % v
        r = rs.command("dis " + lit)
        shown = r["shell"].strip()
        d = real_disassemble(v)
        if r["exc"]:
            out.append({"what": "debugger `dis %s` raised %s" % (lit, r["exc"]), "case": {"dis": lit}})
        elif 0 <= v <= 0xFFFF and "ok" in d:
            from hera.op import disassemble
            with dc.captured():
                want = str(disassemble(v))
            if shown != want:
                out.append({"what": "debugger `dis %s` prints %r, disassemble(%d) is %s" % (lit, shown, v, want), "case": {"dis": lit}})
        elif not shown.startswith("Error"):
            out.append({"what": "debugger `dis %s` prints %r: %d is %s and must be refused" %
                                (lit, shown, v, "outside 0..0xFFFF" if not 0 <= v <= 0xFFFF else "not an instruction"), "case": {"dis": lit}})
    return out


def cli_disassemble_oracle(rng, words):
    """`hera disassemble <file of hex words>` prints, line for line, what disassemble(word) gives (or that the word is
    no instruction): the command line and the decoder agree on every word, the zero word included (seed C05i stripped
    the characters `0` and `x` from the left of each line, so that 0000 became empty)."""
    import tempfile
    from hera.main import main
    from vmstate import run_real
    out = []
    vals = sorted(set(list(words) + [0, 1, 0x10, 0x100, 0x1000, 0xFFFF, 0x00FF, 0x0F0F, 0x2000, 0x3000]))
    for fmt in ("%04x", "%x", "%04X"):
        with tempfile.TemporaryDirectory() as d:
            p = os.path.join(d, "w.hex")
            open(p, "w").write("".join((fmt % v) + "\n" for v in vals))
            _, exc, so, se = run_real(lambda: main(["disassemble", p]))
        if exc:
            out.append({"what": "hera disassemble on a file of hex words: %s" % exc, "case": {"cli_disassemble": fmt}})
            continue
        lines = so.splitlines()
        if len(lines) != len(vals):
            out.append({"what": "hera disassemble prints %d lines for %d words (format %s)" % (len(lines), len(vals), fmt),
                        "case": {"cli_disassemble": fmt}})
            continue
        for v, ln in zip(vals, lines):
            d = real_disassemble(v)
            if "ok" in d:
                from hera.op import disassemble
                want = str(disassemble(v))
                if ln.strip() != want:
                    out.append({"what": "hera disassemble prints %r for the line %r; disassemble(%d) is %s" % (ln, fmt % v, v, want),
                                "case": {"cli_disassemble": fmt % v}})
                    break
            elif not ln.startswith("// Unknown instruction"):
                out.append({"what": "hera disassemble prints %r for the line %r, which is no instruction" % (ln, fmt % v),
                            "case": {"cli_disassemble": fmt % v}})
                break
    return out


def search(ctx, breaks):
    # the thorough enumeration is the search (pointless if the model itself cannot be evaluated)
    if any(b["kind"] == "correspondence-run" for b in breaks):
        return []
    old = ctx.tier
    ctx.tier = "thorough"
    try:
        r = correspondence(ctx, model_available=True)
    except Exception as e:  # noqa
        ctx.log("search without the model (%s)" % str(e)[-200:].replace("\n", " "))
        try:
            r = correspondence(ctx, model_available=False)
        except Exception as e2:  # noqa
            ctx.log("search could not run: %s" % str(e2)[-300:])
            r = {"spec_failures": []}
    ctx.tier = old
    return r["spec_failures"][:3]


def replay(ctx, path):
    print(open(path).read()[:4000])
    return 0


if __name__ == "__main__":
    sys.exit(framework.run_check(sys.modules[__name__], sys.argv[1:]))
