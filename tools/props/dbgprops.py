"""
dbgprops — what C11..C14 share: session correspondence (model vs real shell) and the
implementation-level oracles (interpreter comparison, source-level trace, undo/restart
comparison, shell survival, expression evaluation).
"""
import copy

import coqrun
import dbgcases as dc
import runcases as rc
from vmstate import diff

HYP_HEADER = dc.HEADER + "From Hera.Proofs Require Import C11_Hyps.\n"


# programs whose run ends by leaving the program: backwards past instruction 0 (pc = -1, -2, ... within and beyond
# the program's length), past the end by a register branch, off the end without HALT
LEAVING = [
    "INC(R1, 1)\nBRR(-3)\nINC(R2, 1)\nINC(R3, 1)\n",
    "INC(R1, 1)\nBRR(-2)\nINC(R2, 1)\n",
    "SET(R1, 5)\nINC(R2, 1)\nBRR(-5)\nINC(R3, 1)\nINC(R4, 1)\nINC(R5, 1)\n",
    "LABEL(top)\nINC(R1, 1)\nCMP(R1, R0)\nBZR(top)\nBRR(-9)\nINC(R2, 1)\nINC(R3, 1)\nINC(R4, 1)\nINC(R5, 1)\nINC(R6, 1)\n",
    "SET(R1, 50)\nBR(R1)\nINC(R2, 1)\n",
    "INC(R1, 1)\nBRR(-100)\nINC(R2, 1)\n",
    "INC(R1, 1)\nINC(R2, 1)\n",
    "BRR(-2)\nINC(R2, 1)\nINC(R3, 1)\nHALT()\n",
]


# the same operand-less pseudo-operation at several places of one program (seed C12d: their expansions were shared
# objects, so every occurrence carried the last one's source line)
REPEATED = [
    "NOP()\nINC(R1, 1)\nNOP()\nINC(R2, 1)\nNOP()\nNOP()\nCON()\nINC(R3, 1)\nCON()\nCBON()\nCOFF()\nCBON()\nHALT()\nNOP()\n",
    "CCBOFF()\nCOFF()\nCCBOFF()\nINC(R1, 2)\nCOFF()\nNOP()\nHALT()\nHALT()\n",
]


def make_sessions(rng, n, kinds_of, sizes=(3, 8, 15), finish_of=lambda k: False, inner_calls=0.0, fixed_texts=()):
    out = []
    tries = 0
    fixed = list(fixed_texts)
    while len(out) < n and tries < 5 * n:
        tries += 1
        text = fixed.pop(0) if fixed else dc.gen_source(rng)
        opts = dc.gen_opts(rng)
        got = dc.load(text, opts, "debug")
        if got is None or not got[0].code:
            continue
        info = dc.Info(got[0])
        k = len(out)
        cmds = dc.gen_session(rng, info, opts, kinds_of(k), rng.choice(sizes), finish=finish_of(k))
        if rng.random() < inner_calls:
            cmds = inner_call_prefix(rng, info) + cmds
        out.append({"text": text, "opts": opts, "cmds": cmds, "info": info})
    return out


def inner_call_prefix(rng, info):
    """Commands that stop on a CALL inside a function (recursive calls included) and step over it:
    `break <its line>`, `continue`, `clear *`, `next`, `next`.  [] if the program has no such CALL."""
    code = info.program.code
    halt = next((i for i, o in enumerate(code) if o.original.__class__.__name__ == "HALT"), len(code))
    lines = sorted({o.loc.line for i, o in enumerate(code) if i > halt and o.original.__class__.__name__ == "CALL"})
    if not lines:
        return []
    line = rng.choice(lines)
    b = info.resolve(str(line))
    return [("break %d" % line, "(CBreak %d)" % b), ("continue", "CContinue"), ("clear *", "CClearAll"),
            ("next", "(CNext 1)"), ("next", "(CNext 1)")]


def session_json(s):
    return {"program": s["text"], "options": s["opts"], "commands": [c for c, _ in s["cmds"]]}


def correspondence(tag, sessions, model_available=True, check_history=True):
    res = {"sessions": len(sessions), "steps": 0, "agree": 0, "out_of_fuel": 0, "disagreements": [],
           "hypothesis_checked": 0, "hypothesis_false": []}
    if not model_available:
        return res
    models = dc.eval_sessions(tag, [(s["info"], s["opts"], s["cmds"]) for s in sessions])
    for s, m in zip(sessions, models):
        p, st = dc.compare_session(s["text"], s["opts"], s["cmds"], m, check_history)
        res["steps"] += st["steps"]
        res["out_of_fuel"] += st["out_of_fuel"]
        if p:
            res["disagreements"].append({"what": p, "session": session_json(s)})
        else:
            res["agree"] += 1
    # the structural hypothesis of the theorems, evaluated on every program
    terms = ["[Z.b2z (only_last_branches_b %s)]" % dc.code_term(s["info"]) for s in sessions]
    outs = coqrun.eval_cases(tag + "h", HYP_HEADER, terms, shard=100)
    for s, o in zip(sessions, outs):
        res["hypothesis_checked"] += 1
        if o != [1]:
            res["hypothesis_false"].append(session_json(s))
    return res


STEPPING = ("(CNext", "CStep", "CContinue", "(CBreak", "(CClear", "CClearAll", "CMutNop", "CNop")


REG_BRANCHES = {"BR", "BL", "BGE", "BLE", "BG", "BULE", "BUG", "BZ", "BNZ", "BC", "BNC", "BS", "BNS", "BV", "BNV"}
NO_CODE = {"LABEL", "DLABEL", "CONSTANT", "INTEGER", "LP_STRING", "TIGER_STRING", "DSKIP"}


def source_line_map(text):
    """Which source line every instruction of the loaded program must carry, worked out from the text alone
    (one operation per line, as the generators write them; expansion lengths from the HERA manual) — independent
    of the bookkeeping (`original`, `loc`) the preprocessor attaches.  None when the text is not of that shape."""
    import re
    lines = []
    # a string literal may run over several physical lines: the operation stands on the line where it begins, and every
    # line break inside the literal still counts for what follows (seed C12i skipped the characters of a literal in one
    # piece, line breaks included)
    phys, logical, i = text.split("\n"), [], 0
    while i < len(phys):
        no, raw = i + 1, phys[i]
        while raw.count('"') % 2 == 1 and i + 1 < len(phys):
            i += 1
            raw += "\n" + phys[i]
        logical.append((no, raw))
        i += 1
    for no, raw in logical:
        t = raw.strip()
        if not t or t.startswith("//") or t.startswith("#"):
            continue
        m = re.match(r"^([A-Za-z_]+)\((.*)\)$", t, re.S)
        if not m or t.count("(") != 1:
            return None
        name, args = m.group(1), [a.strip() for a in m.group(2).split(",")] if m.group(2).strip() else []
        up = name.upper()
        if up in NO_CODE:
            continue
        is_reg = lambda a: re.match(r"^(R\d+|FP|SP|RT|PC_RET|FP_ALT)$", a.upper()) is not None
        if up in REG_BRANCHES:
            k = 1 if (args and is_reg(args[0])) else 3
        elif up == "CALL":
            k = 1 if (len(args) == 2 and is_reg(args[1])) else 3
        else:
            k = {"SET": 2, "CMP": 2, "SETRF": 4, "FLAGS": 2, "NEG": 2, "NOT": 3}.get(up, 1)
        lines += [no] * k
    return lines


def run_oracle(s, budget_ops=200000):
    """C11 + C12 on the implementation alone.  Returns (problem or None, stats)."""
    stats = {"commands": 0, "finished": 0, "warnings": 0}
    rs = dc.RealSession(s["text"], s["opts"])
    if not rs.ok:
        return "front end rejected the generated program", stats
    want_lines = source_line_map(s["text"])
    if want_lines is not None:
        got_lines = [o.loc.line if getattr(o, "loc", None) is not None else None for o in rs.program.code]
        if got_lines != want_lines:
            k = next((i for i, (a, b) in enumerate(zip(got_lines, want_lines)) if a != b), min(len(got_lines), len(want_lines)))
            return ("instruction %d of the loaded program is attributed to source line %r; it comes from line %r (the debugger "
                    "shows, breaks on and steps by these lines)" % (k, got_lines[k] if k < len(got_lines) else None,
                                                                   want_lines[k] if k < len(want_lines) else None)), stats
    tr = dc.Tracer(s["text"], s["opts"])
    limit = [budget_ops]
    out, err = rs.init_out, rs.init_err
    for i, (line, term) in enumerate(s["cmds"]):
        if not term.startswith(STEPPING):
            raise ValueError("run_oracle: not a stepping session: %r" % term)
        r = rs.command(line)
        if r["exc"] == "Budget":
            return None, stats          # the generated program does not terminate: nothing to compare
        if r["exc"]:
            return "command %d (%s): the debugger raised %s" % (i, line, r["exc"]), stats
        if term != "CNop":
            out += r["out"]         # asm / dis print their result on stdout: not the program's output
            err += r["err"]
        try:
            tr.apply(line, term, limit)
        except rc.Budget:
            return None, stats
        stats["commands"] += 1
        a = dc.snap_debugger(rs.shell.debugger)
        b = tr.snapshot()
        b.pop("swarning_count", None)
        a.pop("calls", None)          # internal bookkeeping: what counts here is where the machine stopped
        b.pop("calls", None)
        d = diff(a, b)
        if d:
            return "after command %d (%s): debugger vs source-level trace %s" % (i, line, d), stats
        if (out, err) != (tr.out.getvalue(), tr.err.getvalue()):
            return "after command %d (%s): output differs from the source-level trace: %r vs %r" % (
                i, line, (out, err), (tr.out.getvalue(), tr.err.getvalue())), stats
        # the line the shell shows is that of the next instruction to execute
        if term.startswith(("(CNext", "CContinue")) or (term == "CStep" and "->" in r["shell"]):
            shown = dc.shown_line(r["shell"])
            if tr.finished():
                if "Program has finished executing." not in r["shell"]:
                    return "after command %d (%s): program finished but the shell shows %r" % (i, line, r["shell"]), stats
            else:
                want = rs.program.code[tr.vm.pc].loc.line
                if shown != want:
                    return "after command %d (%s): shell shows line %r, next instruction is on line %d" % (
                        i, line, shown, want), stats
    stats["warnings"] = err.count("Warning")
    if tr.finished():
        stats["finished"] = 1
        ref = dc.interpreter_run(s["text"], s["opts"])
        if ref is None:
            return "the interpreter rejects a program the debugger accepted", stats
        if "raise" in ref:
            # the debugger has driven the same program to its end within the operation budget
            if ref["raise"] == "Budget":
                return "the debugger run finished, the interpreter does not terminate on the same program", stats
            if ref["raise"] != "SystemExit":
                return "the debugger run finished, the interpreter raised %s" % ref["raise"], stats
            return None, stats
        a = dc.snap_debugger(rs.shell.debugger)
        a.pop("bps"); a.pop("calls")
        a["stdout"], a["stderr"] = out, err
        ref.pop("swarning_count", None)
        d = diff(a, ref)
        if d:
            return "final state: debugger vs interpreter %s" % d, stats
    return None, stats


def undo_oracle(s):
    """C13 on the implementation alone: command+undo is the identity on everything observable,
    repeated undo walks back to the start, restart equals a fresh session (breakpoints kept)."""
    stats = {"undo_pairs": 0, "walked_back": 0, "restarts": 0}
    rs = dc.RealSession(s["text"], s["opts"])
    if not rs.ok:
        return "front end rejected the generated program", stats

    def full():
        d = rs.snapshot()
        d["chain"] = rs.history()
        d["info"] = rs.command("info")["shell"] + rs.command("break")["shell"] if False else None
        return d

    def observable():
        d = rs.snapshot()
        d["chain"] = rs.history()
        return d
    start = observable()
    n_mut = 0
    for i, (line, term) in enumerate(s["cmds"]):
        if term in ("CNop",):
            r = rs.command(line)
            if r["exc"] and r["exc"] != "Budget":
                return "command %d (%s): raised %s" % (i, line, r["exc"]), stats
            continue
        before = observable()
        info_before = rs.command("info")["shell"]
        r = rs.command(line)
        if r["exc"] == "Budget":
            return None, stats
        if r["exc"]:
            return "command %d (%s): raised %s" % (i, line, r["exc"]), stats
        if term == "CUndo":
            n_mut = max(0, n_mut - 1)
            continue
        u = rs.command("undo")
        if u["exc"]:
            return "undo after command %d (%s): raised %s" % (i, line, u["exc"]), stats
        after = observable()
        d = diff(before, after)
        if d:
            return "command %d (%s) then undo: state differs from before the command: %s" % (i, line, d), stats
        info_after = rs.command("info")["shell"]
        if info_before != info_after:
            return "command %d (%s) then undo: `info` differs: %r vs %r" % (i, line, info_before, info_after), stats
        stats["undo_pairs"] += 1
        r = rs.command(line)            # redo, to move on
        if r["exc"] == "Budget":
            return None, stats
        n_mut += 1
    # restart against a fresh session
    bps = list(rs.shell.debugger.breakpoints.keys())
    r = rs.command("restart")
    if r["exc"]:
        return "restart raised %s" % r["exc"], stats
    fresh = dc.RealSession(s["text"], s["opts"])
    a, b = dc.snap_debugger(rs.shell.debugger), dc.snap_debugger(fresh.shell.debugger)
    if a["bps"] != bps:
        return "restart changed the breakpoints: %r -> %r" % (bps, a["bps"]), stats
    a.pop("bps"); b.pop("bps")
    d = diff(a, b)
    if d:
        return "restart vs fresh session: %s" % d, stats
    stats["restarts"] += 1
    rs.command("undo")
    # walk back to the start
    for _ in range(len(s["cmds"]) + 3):
        u = rs.command("undo")
        if u["exc"]:
            return "undo raised %s" % u["exc"], stats
        if "Nothing to undo" in u["shell"]:
            break
    else:
        return "undo never ran out of history", stats
    d = diff(start, observable())
    if d:
        return "after undoing everything the session is not in its initial state: %s" % d, stats
    stats["walked_back"] += 1
    return None, stats
