"""C12 — stepping and breakpoints follow source operations exactly."""
import os
import sys

sys.path.insert(0, os.path.join(os.path.dirname(os.path.abspath(__file__)), "..", "lib"))
sys.path.insert(0, os.path.dirname(os.path.abspath(__file__)))
import framework  # noqa: E402
import dbgcases as dc  # noqa: E402
import dbgprops as dp  # noqa: E402

PID = "C12"
TARGETS = ["Properties/C12.vo"]
MODEL_TARGETS = ["Model/Session.vo", "Model/ExprEnc.vo", "Proofs/C11_Hyps.vo", "Lib/Enc.vo"]
ASSUMPTIONS = [
    "`op.original` identity is modelled by an index (dp_orig): two real operations belong to the same source "
    "operation iff they carry the same index; the harness derives the indices from id(op.original)",
    "the line shown after a command (print_current_op) is checked by the implementation-level oracle only",
    "location resolution (line number / label -> instruction number) is done by the harness's own resolver and "
    "cross-checked through the state comparison, not modelled in Coq",
]
TRUSTED = ["coq/Model/Debugger.v", "coq/Model/Session.v"]

KINDS = dc.RUN_KINDS + ["goto", "refused", "readonly"]


def known_replays(ctx, findings):
    """D60: a breakpoint named with its file, `break <path>:<n>`, is set on that line and stops `continue` there."""
    out = []
    for e in findings:
        if e["id"] != "D60":
            continue
        ses = e["session"]
        rs = dc.RealSession(ses["program"], {"big_stack": False, "init": [], "warn_return_on": True})
        bad = None
        if not rs.ok:
            bad = "the program of the finding no longer loads"
        else:
            shown = ""
            for line in ses["commands"]:
                r = rs.command(line)
                shown += r["shell"]
                if r["exc"]:
                    bad = "the shell raised %s on %r" % (r["exc"], line)
                    break
            if not bad and rs.shell.debugger.vm.pc != ses["stops_at_pc"]:
                bad = "after %r the debugger stands at instruction %d, the breakpoint is on instruction %d; output %r" % (
                    ses["commands"], rs.shell.debugger.vm.pc, ses["stops_at_pc"], shown[-160:])
        out.append((e, bad is not None, bad))
    return out


def correspondence(ctx, model_available=True):
    quick = ctx.tier == "quick"
    rng = ctx.rng
    n = 60 if quick else 700
    sessions = dp.make_sessions(rng, n, lambda k: dc.RUN_KINDS if k % 3 else KINDS, sizes=(5, 10, 20), inner_calls=0.4,
                                fixed_texts=dp.REPEATED + dp.REPEATED + dp.LEAVING[:3])
    res = dp.correspondence("C12s", sessions, model_available, check_history=False)
    spec_failures = []
    stats = {"oracle_sessions": 0, "commands": 0, "finished": 0, "warnings": 0}
    kinds = {}
    for s in sessions:
        for _, t in s["cmds"]:
            k = t.strip("()").split()[0]
            kinds[k] = kinds.get(k, 0) + 1
        if any(t.startswith("(CGoto") for _, t in s["cmds"]):
            continue
        p, st = dp.run_oracle(s)
        stats["oracle_sessions"] += 1
        stats["commands"] += st["commands"]
        stats["finished"] += st["finished"]
        stats["warnings"] += st["warnings"]
        if p:
            spec_failures.append({"what": p, "session": dp.session_json(s)})
    dist = dict(stats)
    dist.update({k: res[k] for k in ("sessions", "steps", "out_of_fuel", "hypothesis_checked")})
    dist["command_kinds"] = kinds
    return {
        "cases": len(sessions), "nontrivial": res["agree"],
        "rule": "generated programs x interleavings of next/next n/step/continue/break/clear(/goto): real Shell vs "
                "Model/Session after every command (machine, breakpoints, call depth, history); real debugger vs an "
                "independent source-level trace built from the interpreter's fetch/execute primitives, including "
                "the line shown by the shell",
        "distribution": dist, "samples": [dp.session_json(sessions[0])] if sessions else [],
        "disagreements": res["disagreements"], "spec_failures": spec_failures[:5],
        "model_vs_impl_agree": res["agree"], "model_available": model_available,
    }


def search(ctx, breaks):
    out = []
    for s in dp.make_sessions(ctx.rng, 200, lambda k: dc.RUN_KINDS, sizes=(5, 10, 20), inner_calls=0.6,
                              fixed_texts=dp.REPEATED * 3):
        p, _ = dp.run_oracle(s)
        if p:
            out.append({"what": p, "session": dp.session_json(s)})
            break
    return out


def replay(ctx, path):
    print(open(path).read()[:6000])
    return 0


if __name__ == "__main__":
    sys.exit(framework.run_check(sys.modules[__name__], sys.argv[1:]))
