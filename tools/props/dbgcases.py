"""
dbgcases — debugging sessions for C11..C14 (and the debugger part of C02):

  * a generator of structured source programs (data, constants, pseudo-operations of every
    expansion length, repeated identical lines, loops, nested and recursive calls, prints);
  * a generator of command lines together with the model command (`Session.cmd`) each one means,
    locations resolved by this module's own resolver;
  * RealSession: the real hera.debugger.shell.Shell driven through handle_command, the shell's own
    chatter separated from the program's output, every command run under a time budget;
  * Tracer: an independent source-level trace built from the interpreter's primitives
    (fetch at pc, op.execute), used as the oracle for stop points;
  * the model side: `Session.start_session` evaluated in Coq on the same program and commands.
"""
import builtins
import copy
import io
import sys

import coqrun
import runcases as rc
from coqrun import pv, pvlist, z, zlist
from execcases import cname_ident
from vmstate import EXN_NAMES, Reader, St, captured, decode_event, decode_vm, diff, render_arg, snapshot_vm

HEADER = """From Coq Require Import ZArith List Bool String.
From Hera.Lib Require Import Py Machine Enc.
From Hera.Gen Require Import Ops.
From Hera.Model Require Import Run Debugger MiniParser Session.
Import ListNotations.
Open Scope Z_scope.
"""

FUEL = 3000
PATH = "<string>"


# ---- source programs -------------------------------------------------------------------------------------

def gen_source(rng, size=None):
    """Return the text of a terminating, accepted program (a list of lines, one operation each
    for most lines)."""
    L = []
    dlabels, consts = [], []
    if rng.random() < 0.7:
        for i in range(rng.choice([1, 2, 3])):
            name = "d%d" % i
            L.append("DLABEL(%s)" % name)
            dlabels.append(name)
            k = rng.random()
            if k < 0.45:
                L.append("INTEGER(%d)" % rng.choice([0, 1, -1, 300, -32768, 65535, 42]))
            elif k < 0.7:
                # ... some with a literal that runs over two or three source lines
                L.append('LP_STRING("%s")' % rng.choice(["hi", "x y", "", "abc", "two\nlines", "a\n\nb", "hi"]))
            else:
                L.append("DSKIP(%d)" % rng.choice([1, 3]))
    if rng.random() < 0.5:
        L.append("CONSTANT(N, %d)" % rng.choice([2, 3, 7, 100]))
        consts.append("N")
    nfun = rng.choice([0, 1, 1, 2, 3])
    funs = ["f%d" % i for i in range(nfun)]
    counter = [0]

    def fresh(prefix):
        counter[0] += 1
        return "%s%d" % (prefix, counter[0])

    def reg():
        return "R%d" % rng.randrange(1, 6)

    def simple():
        k = rng.random()
        if k < 0.15:
            return ["SET(%s, %s)" % (reg(), rng.choice(["0", "1", "5", "255", "256", "0x7fff", "0xffff", "-1", "-300"]
                                                         + consts + dlabels))]
        if k < 0.30:
            # repeated identical lines
            o = rng.choice(["INC(%s, %d)" % (reg(), rng.randrange(1, 5)), "DEC(%s, 1)" % reg(),
                            "ADD(R1, R1, R1)", "LSL(R2, R2)", "NOP()", "NOP()", "CON()", "CBON()", "COFF()", "CCBOFF()"])
            return [o] * rng.choice([2, 3])
        if k < 0.45:
            return ["%s(%s, %s, %s)" % (rng.choice(["ADD", "SUB", "MUL", "AND", "OR", "XOR"]), reg(), reg(), reg())]
        if k < 0.55:
            return [rng.choice(["MOVE(%s, %s)" % (reg(), reg()), "CMP(%s, %s)" % (reg(), reg()),
                                "NEG(%s, %s)" % (reg(), reg()), "NOT(%s, %s)" % (reg(), reg()),
                                "FLAGS(%s)" % reg(), "CON()", "COFF()", "CBON()", "CCBOFF()",
                                "LSR(%s, %s)" % (reg(), reg()), "ASR(%s, %s)" % (reg(), reg()),
                                "SETLO(%s, %d)" % (reg(), rng.randrange(-128, 256)),
                                "SETHI(%s, %d)" % (reg(), rng.randrange(0, 256)),
                                "FON(%d)" % rng.randrange(32), "FOFF(%d)" % rng.randrange(32),
                                "SAVEF(%s)" % reg(), "RSTRF(%s)" % reg()])]
        if k < 0.65 and dlabels:
            d = rng.choice(dlabels)
            return ["SET(R6, %s)" % d, rng.choice(["LOAD(%s, %d, R6)" % (reg(), rng.randrange(0, 3)),
                                                    "STORE(%s, %d, R6)" % (reg(), rng.randrange(0, 3))])]
        if k < 0.75:
            return [rng.choice(["print_reg(%s)" % reg(), 'print("v=")', 'println("ok")', 'println("")'])]
        if k < 0.80:
            return ["SETRF(%s, %s)" % (reg(), rng.choice(["0", "-1", "40000"] + consts))]
        if k < 0.85:
            return ["INC(SP, 1)", "DEC(SP, 1)"]
        if k < 0.89:
            # the stack pointer lands in the data segment: one run-time warning
            return ["SET(R7, %s)" % rng.choice(["0xC001", "0xC167", "0xD000"]), "MOVE(SP, R7)"]
        return ["%s(%s, %s)" % (rng.choice(["LSL8", "LSR8", "ASL"]), reg(), reg())]

    def call(i_from):
        cands = [f for j, f in enumerate(funs) if j > i_from]
        if not cands:
            return simple()
        f = rng.choice(cands)
        pre = []
        if rng.random() < 0.6:
            pre.append("SET(R10, %d)" % rng.choice([0, 1, 2, 3]))
        return pre + ["MOVE(R12, SP)", "CALL(R12, %s)" % f]

    def block(n, i_from, loopreg):
        out = []
        for _ in range(n):
            k = rng.random()
            if k < 0.55:
                out += simple()
            elif k < 0.70:
                skip = fresh("s")
                br = rng.choice(["BR", "BZ", "BNZ", "BC", "BNC", "BS", "BGE", "BL", "BRR", "BZR", "BNZR", "BULE", "BUGR"])
                out += ["CMP(%s, %s)" % (reg(), reg()), "%s(%s)" % (br, skip)] + simple() + ["LABEL(%s)" % skip]
            elif k < 0.82 and loopreg is not None:
                lp = fresh("l")
                body = []
                for _ in range(rng.choice([1, 2])):
                    body += simple() if rng.random() < 0.7 else call(i_from)
                out += ["SET(%s, %d)" % (loopreg, rng.choice([1, 2, 3])), "LABEL(%s)" % lp] + body + \
                       ["DEC(%s, 1)" % loopreg, "%s(%s)" % (rng.choice(["BNZ", "BNZR"]), lp)]
            else:
                out += call(i_from)
        return out

    size = size or rng.choice([2, 4, 6, 9])
    L += block(size, -1, "R9")
    L.append("HALT()")
    for i, f in enumerate(funs):
        L.append("LABEL(%s)" % f)
        L += ["INC(SP, 3)", "STORE(R13, 0, FP)", "STORE(R12, 1, FP)"]
        recursive = rng.random() < 0.4
        L += block(rng.choice([1, 2, 3]), i, "R8" if (not recursive and i == 0) else None)
        if recursive:
            end = fresh("e")
            L += ["CMP(R10, R0)", "%s(%s)" % (rng.choice(["BZ", "BZR"]), end), "DEC(R10, 1)", "MOVE(R12, SP)",
                  "CALL(R12, %s)" % f, "LABEL(%s)" % end]
        L += ["LOAD(R13, 0, FP)", "LOAD(R12, 1, FP)", "DEC(SP, 3)"]
        if rng.random() < 0.08:
            L.append("INC(R13, 1)")         # returns one instruction late: a run-time warning
        L.append("RETURN(R12, R13)")
    if rng.random() < 0.12:
        L.append("LABEL(%s)" % fresh("tail"))     # a label after the last instruction: it names no instruction
    if rng.random() < 0.15:
        # occasional blank lines / comments / two operations on one line
        k = rng.randrange(len(L))
        L.insert(k, "// a comment")
    if rng.random() < 0.15:
        k = rng.randrange(len(L))
        if not L[k].startswith(("LABEL", "DLABEL", "CONSTANT", "//")):
            L[k] = L[k] + "  NOP()"
    return "\n".join(L) + "\n"


def gen_opts(rng):
    return {"big_stack": rng.random() < 0.3,
            "init": [(rng.randrange(1, 11), rng.choice([1, 5, 300, 65535]))
                     for _ in range(rng.choice([0, 0, 1, 2]))],
            "warn_return_on": rng.random() < 0.8}


def make_settings(opts, mode):
    from hera.data import Settings
    s = Settings(color=False, mode=mode)
    if opts["big_stack"]:
        s.data_start = 0xC167
    s.init = [tuple(p) for p in opts["init"]]
    s.warn_return_on = opts["warn_return_on"]
    return s


def canonical_print_message(msg, *, loc=None):
    sys.stderr.write("%s @%s\n" % (msg, loc.line if loc is not None and hasattr(loc, "line") else None))


class patched:
    """Shell chatter to its own buffer; diagnostics printed as `message @line`."""

    def __init__(self):
        self.shellbuf = io.StringIO()

    def __enter__(self):
        import hera.debugger.shell as sh
        import hera.utils as ut
        self.sh, self.ut = sh, ut
        self.old_pm = ut.print_message
        ut.print_message = canonical_print_message
        buf = self.shellbuf

        def shell_print(*a, **k):
            k.pop("file", None)
            k.pop("flush", None)
            builtins.print(*a, file=buf, **k)
        sh.print = shell_print
        return self

    def __exit__(self, *exc):
        self.ut.print_message = self.old_pm
        try:
            del self.sh.print
        except AttributeError:
            pass


def load(text, opts, mode):
    """(program, settings) or None if the front end rejects the text."""
    from hera.loader import load_program
    st = make_settings(opts, mode)
    with captured():
        try:
            p = load_program(text, st)
        except SystemExit:
            return None
    return p, st


# ---- static information about a loaded program -----------------------------------------------------------

class Info:
    def __init__(self, program):
        self.program = program
        code = program.code
        self.n = len(code)
        ids, self.orig = {}, []
        for o in code:
            k = id(o.original)
            if k not in ids:
                ids[k] = len(ids)
            self.orig.append(ids[k])
        self.lines = [o.loc.line for o in code]
        self.line_to_pc = {}
        for pc, o in enumerate(code):
            self.line_to_pc.setdefault(o.loc.line, pc)
        from hera.data import Label
        self.labels = {k: int(v) for k, v in program.symbol_table.items() if type(v) is Label}
        self.symbols = {k: int(v) for k, v in program.symbol_table.items()}

    def extent(self, pc):
        end = pc
        while end < self.n and self.orig[end] == self.orig[pc]:
            end += 1
        return end - pc

    def resolve(self, loc):
        """instruction number for a line number or label, or None."""
        try:
            line = int(loc)
        except ValueError:
            return self.labels.get(loc)
        return self.line_to_pc.get(line)


def arg_pv(a):
    if isinstance(a, bool):
        return pv(a)
    if isinstance(a, int):
        return pv(int(a))
    return pv(a)


def rop_term(o):
    return "(mkrop O_%s [%s] %s)" % (cname_ident(o.__class__.__name__), "; ".join(arg_pv(a) for a in o.args),
                                    pv(o.loc.line) if o.loc is not None and hasattr(o.loc, "line") else "PNone")


def code_term(info):
    return "[%s]" % "; ".join(
        "(mkdop %s %d%%nat O_%s)" % (rop_term(o), info.orig[i], cname_ident(o.original.__class__.__name__))
        for i, o in enumerate(info.program.code))


def data_term(program):
    return "[%s]" % "; ".join(rop_term(o) for o in program.data)


def symtab_term(info):
    return "[%s]" % "; ".join("(%s, %s)" % (zlist([ord(c) for c in k]), z(v)) for k, v in info.symbols.items())


# ---- expressions ---------------------------------------------------------------------------------------------

def gen_expr(rng, info, depth=0):
    """(text, Gallina term, python evaluator(env) -> int or None)"""
    k = rng.random()
    if depth >= 3 or k < 0.35:
        j = rng.random()
        if j < 0.35:
            v = rng.choice([0, 1, 2, 7, 255, 1000, 32767, 32768, 65535, 65536, 70000, 40000])
            txt = rng.choice([str(v), hex(v)]) if v else "0"
            return txt, "(EInt %s)" % z(v)
        if j < 0.65:
            r = rng.randrange(16)
            return "R%d" % r, "(EReg %d)" % r
        if j < 0.75:
            return rng.choice(["pc", "PC"]), "(ESym %s)" % zlist([ord(c) for c in "pc"])
        if j < 0.9 and info.symbols:
            s = rng.choice(sorted(info.symbols))
            return s, "(ESym %s)" % zlist([ord(c) for c in s])
        return "nosuch", "(ESym %s)" % zlist([ord(c) for c in "nosuch"])
    if k < 0.5:
        t, g = gen_expr(rng, info, depth + 1)
        return "-(%s)" % t, "(ENeg %s)" % g
    if k < 0.6:
        t, g = gen_expr(rng, info, depth + 1)
        return "@(%s)" % t, "(EMem %s)" % g
    o, oc = rng.choice([("+", "OpAdd"), ("-", "OpSub"), ("*", "OpMul"), ("/", "OpDiv")])
    lt, lg = gen_expr(rng, info, depth + 1)
    rt, rg = gen_expr(rng, info, depth + 1)
    sp = rng.choice(["", " "])
    return "(%s)%s%s%s(%s)" % (lt, sp, o, sp, rt), "(EBin %s %s %s)" % (oc, lg, rg)


# ---- commands ------------------------------------------------------------------------------------------------

FLAG_WORDS = {"s": "FlagS", "sign": "FlagS", "z": "FlagZ", "zero": "FlagZ", "v": "FlagV", "overflow": "FlagV",
              "c": "FlagC", "carry": "FlagC", "cb": "FlagCB", "carry-block": "FlagCB", "carry_block": "FlagCB"}

EXEC_OPS = ["ADD(R1, R2, R3)", "SET(R4, 300)", "INC(R1, 5) INC(R1, 5)", "NOT(R2, R3)", "STORE(R1, 0, R2)",
            "SETLO(R15, 5)", "MUL(R3, R3, R3)", "CON()", "LSL(R7, R1)", 'print("x")', "print_reg(R1)", "NOP()"]


def gen_command(rng, info, text_opts, kinds):
    """One command: (line, model term or None when the line is outside the modelled language)."""
    kind = rng.choice(kinds)
    some_lines = sorted(info.line_to_pc)
    labels = sorted(info.labels)
    if kind == "next":
        if rng.random() < 0.7:
            return rng.choice(["next", "n"]), "(CNext 1)"
        n = rng.choice([0, 1, 2, 3, 5, 10, -1])
        return "%s %d" % (rng.choice(["next", "n"]), n), "(CNext %s)" % z(n)
    if kind == "step":
        return rng.choice(["step", "s"]), "CStep"
    if kind == "continue":
        return rng.choice(["continue", "c", "cont"]), "CContinue"
    if kind in ("break", "clear", "goto"):
        if labels and rng.random() < 0.4:
            loc = rng.choice(labels)
        elif rng.random() < 0.9:
            loc = str(rng.choice(some_lines))
        else:
            loc = rng.choice(["9999", "nolabel", "0"])
        b = info.resolve(loc)
        if loc.isdigit() and rng.random() < 0.25:
            # the same line named with its file (D60: `break <path>:<n>` never found its line), or with another file
            if rng.random() < 0.8:
                loc = "<string>:" + loc
            else:
                loc, b = "nosuch.hera:" + loc, None
        if kind == "break":
            # a label after the last instruction names no instruction: `break` refuses it (fix D50)
            return "%s %s" % (rng.choice(["break", "b"]), loc), ("(CBreak %d)" % b if b is not None and b < info.n else "CMutNop")
        if kind == "goto":
            return "%s %s" % (rng.choice(["goto", "g"]), loc), ("(CGoto %d)" % b if b is not None else "CMutNop")
        if rng.random() < 0.2:
            return "clear *", "CClearAll"
        return "%s %s" % (rng.choice(["clear", "cl"]), loc), ("(CClear [%d])" % b if b is not None else "(CClear [])")
    if kind == "flags":
        ws = [rng.choice(sorted(FLAG_WORDS)) for _ in range(rng.choice([1, 1, 2, 3]))]
        on = rng.random() < 0.5
        return "%s %s" % ("on" if on else "off", " ".join(ws)), \
            "(CFlags [%s] %s)" % ("; ".join(FLAG_WORDS[w] for w in ws), "true" if on else "false")
    if kind == "restart":
        return "restart", "CRestart"
    if kind == "undo":
        return rng.choice(["undo", "u"]), "CUndo"
    if kind == "assign":
        rt, rg = gen_expr(rng, info)
        k = rng.random()
        if k < 0.5:
            r = rng.randrange(16)
            lt, lg = "R%d" % r, "(LReg %d)" % r
        elif k < 0.75:
            at, ag = gen_expr(rng, info, 2)
            lt, lg = "@(%s)" % at, "(LMem %s)" % ag
        elif k < 0.9:
            lt, lg = "pc", "LPc"
        else:
            lt, lg = rng.choice(["7", "R1+R2", "N", "nosuch"]), "LOther"
        return "%s = %s" % (lt, rt), "(CAssign %s %s)" % (lg, rg)
    if kind == "execute":
        txt = rng.choice(EXEC_OPS)
        if rng.random() < 0.15:
            return "execute %s" % rng.choice(["BR(R1)", "INTEGER(4)", "LABEL(x)", "BRR(2)"]), "CMutNop"
        got = load(txt, text_opts, "debug")
        assert got is not None, txt
        return "%s %s" % (rng.choice(["execute", "e"]), txt), "(CExecute [%s])" % "; ".join(rop_term(o) for o in got[0].code)
    if kind == "readonly":
        return rng.choice(["info", "print R1", "print :d @R2", "list", "ll", "help", "help next", "doc", "asm ADD(R1,R2,R3)",
                           "dis 0x1234", "i stack", "p pc", "frobnicate", "print R1 +", "info symbols",
                           "info flags", "undo now"]), "CNop"
    if kind == "refused":
        return rng.choice(["next 1 2", "next abc", "continue 3", "step 1", "goto", "goto 1 2", "restart now", "break 1 2", "break", "b",
                           "clear", "on", "off", "on q", "assign R1", "R1 = ", "R1 = )", "execute", "R1, R2 = 4",
                           "R1 = 3, 4"]), "CMutNop"
    raise ValueError(kind)


RUN_KINDS = ["next"] * 5 + ["step"] * 2 + ["continue"] * 2 + ["break"] * 2 + ["clear"]
HISTORY_KINDS = (["next"] * 4 + ["step", "continue", "break", "break", "clear", "goto", "flags", "restart", "assign",
                                 "assign", "execute", "refused", "readonly"] + ["undo"] * 5)


def gen_session(rng, info, opts, kinds, n, finish=False):
    cmds = [gen_command(rng, info, opts, kinds) for _ in range(n)]
    if finish:
        cmds += [("continue", "CContinue")] * 1 + [("clear *", "CClearAll"), ("continue", "CContinue")]
    return cmds


# ---- the real debugger -----------------------------------------------------------------------------------------

def snap_debugger(dbg):
    d = snapshot_vm(dbg.vm)
    d.pop("stdout")
    d.pop("stderr")
    # `goto label` / `R1 = label` store Label objects (int subclasses): compare them as ints
    def plain(v):
        return int(v) if isinstance(v, int) and not isinstance(v, bool) else v
    d["pc"] = plain(d["pc"])
    d["regs"] = [plain(v) for v in d["regs"]]
    d["mem"] = {k: plain(v) for k, v in d["mem"].items()}
    # settings.warning_count belongs to the shared Settings object, not to the debugger state
    d.pop("swarning_count")
    d["bps"] = [int(k) for k in dbg.breakpoints.keys()]
    d["calls"] = getattr(dbg, "calls", None)
    return d


class RealSession:
    def __init__(self, text, opts):
        self.text, self.opts = text, opts
        got = load(text, opts, "debug")
        self.ok = got is not None
        if not self.ok:
            return
        self.program, self.settings = got
        from hera.debugger.debugger import Debugger
        from hera.debugger.shell import Shell
        with patched(), captured() as (out, err):
            self.shell = Shell(Debugger(self.program, self.settings), self.settings)
        self.init_out, self.init_err = out.getvalue(), err.getvalue()

    def command(self, line, budget=5.0):
        """Run one command line.  Returns dict(exc, shell, out, err)."""
        p = patched()
        exc = None
        with p, captured() as (out, err):
            try:
                rc.with_budget(lambda: self.shell.handle_command(line), budget)
            except rc.Budget:
                exc = "Budget"
            except SystemExit:
                exc = "SystemExit"
            except BaseException as e:  # noqa
                exc = "%s: %s" % (type(e).__name__, e)
        return {"exc": exc, "shell": p.shellbuf.getvalue(), "out": out.getvalue(), "err": err.getvalue()}

    def snapshot(self):
        d = snap_debugger(self.shell.debugger)
        d["hist"] = len(self.shell.command_history)
        return d

    def history(self):
        out, d = [], self.shell.debugger.old
        while d is not None:
            out.append(snap_debugger(d))
            d = d.old
        return out


def interpreter_run(text, opts, budget=5.0):
    """The plain interpreter (hera.vm.VirtualMachine.run) on the same text and options."""
    got = load(text, opts, "")
    if got is None:
        return None
    program, st = got
    from hera.vm import VirtualMachine
    ut = __import__("hera.utils").utils
    old = ut.print_message
    ut.print_message = canonical_print_message
    try:
        with captured() as (out, err):
            vm = VirtualMachine(st)
            try:
                rc.with_budget(lambda: vm.run(program), budget)
            except rc.Budget:
                return {"raise": "Budget"}
            except SystemExit:
                return {"raise": "SystemExit"}
            except Exception as e:  # noqa
                return {"raise": "%s: %s" % (type(e).__name__, e)}
    finally:
        ut.print_message = old
    d = snapshot_vm(vm, out.getvalue(), err.getvalue())
    return d


class Tracer:
    """Independent source-level trace: the interpreter's own primitives (fetch the operation at
    pc, execute it) grouped by the source operation each real operation came from."""

    def __init__(self, text, opts):
        self.program, self.settings = load(text, opts, "debug")
        self.info = Info(self.program)
        from hera.vm import VirtualMachine
        self.vm = VirtualMachine(self.settings)
        self.out, self.err = io.StringIO(), io.StringIO()
        with self._cap():
            for o in self.program.data:
                o.execute(self.vm)
        self.depth = 0
        self.bps = []

    def _cap(self):
        tr = self

        class C:
            def __enter__(s):
                import hera.utils as ut
                s.o, s.e, s.pm = sys.stdout, sys.stderr, ut.print_message
                sys.stdout, sys.stderr = tr.out, tr.err
                ut.print_message = canonical_print_message

            def __exit__(s, *a):
                import hera.utils as ut
                sys.stdout, sys.stderr = s.o, s.e
                ut.print_message = s.pm
        return C()

    def finished(self):
        return bool(self.vm.halted) or not 0 <= self.vm.pc < self.info.n

    def source_op(self):
        """Execute the source operation at pc: as many real operations as it still has."""
        k = self.info.extent(self.vm.pc)
        with self._cap():
            for _ in range(k):
                if self.finished():
                    break
                o = self.program.code[self.vm.pc]
                name = o.__class__.__name__
                self.vm.location = o.loc
                o.execute(self.vm)
                if name == "CALL":
                    self.depth += 1
                elif name == "RETURN":
                    self.depth -= 1

    def at_call(self):
        return self.program.code[self.vm.pc].original.__class__.__name__ == "CALL"

    def next(self, limit):
        if self.finished():
            return
        if self.at_call():
            d0 = self.depth
            self.source_op()
            while not self.finished() and self.vm.pc not in self.bps and self.depth > d0:
                limit[0] -= 1
                if limit[0] < 0:
                    raise rc.Budget()
                self.source_op()
        else:
            self.source_op()

    def apply(self, line, term, limit):
        """Advance the trace by a stepping/breakpoint command (given with its model term)."""
        if term.startswith("(CNext"):
            n = int(term[len("(CNext"):-1].strip(" ()"))
            for _ in range(max(n, 0)):
                if self.finished():
                    break
                self.next(limit)
        elif term == "CStep":
            if not self.finished() and self.at_call():
                self.source_op()
        elif term == "CContinue":
            if not self.finished():
                self.source_op()
            while not self.finished() and self.vm.pc not in self.bps:
                limit[0] -= 1
                if limit[0] < 0:
                    raise rc.Budget()
                self.source_op()
        elif term.startswith("(CBreak"):
            b = int(term[len("(CBreak"):-1])
            if b not in self.bps:
                self.bps.append(b)
        elif term.startswith("(CClear ["):
            inner = term[len("(CClear ["):-2]
            for b in [int(x) for x in inner.split(";") if x.strip()]:
                if b in self.bps:
                    self.bps.remove(b)
        elif term == "CClearAll":
            self.bps = []
        elif term in ("CMutNop", "CNop"):
            pass
        else:
            raise ValueError("Tracer cannot apply %r" % term)

    def snapshot(self):
        d = snapshot_vm(self.vm)
        d.pop("stdout")
        d.pop("stderr")
        d["bps"] = list(self.bps)
        d["calls"] = self.depth
        return d


def shown_line(shell_text):
    """The line number the '->' marker points at in the shell's output, or None."""
    for l in shell_text.splitlines():
        if l.startswith("->"):
            try:
                return int(l[2:].split()[0])
            except (ValueError, IndexError):
                return -1
    return None


# ---- the model ---------------------------------------------------------------------------------------------------

def settings_of(opts):
    return St(data_start=0xC167 if opts["big_stack"] else 0xC001, init=opts["init"],
              warn_return_on=opts["warn_return_on"])


def session_term(info, opts, cmds):
    return "start_session %d %s %s %s [%s] %s" % (
        FUEL, code_term(info), data_term(info.program), symtab_term(info),
        "; ".join(t for _, t in cmds), settings_of(opts).term())


def decode_dstate(r):
    d = decode_vm_events(r)
    d["bps"] = r.list(r.int)
    d["calls"] = r.int()
    return d


def decode_vm_events(r):
    """decode_vm, but keeping the raw event list (rendered with @line)."""
    start = r.i
    d = decode_vm(r)
    # re-read the events: they are the last component
    d.pop("stdout")
    d.pop("stderr")
    end = r.i
    # find the event list by decoding again up to the events
    r2 = Reader(r.l)
    r2.i = start
    r2.list(r2.int); r2.int(); r2.int()
    for _ in range(5):
        r2.pv()
    r2.int(); r2.list(lambda: (r2.int(), r2.int()))
    r2.pv(); r2.list(lambda: (r2.int(), r2.int())); r2.int()
    r2.pv(); r2.pv(); r2.pv(); r2.int(); r2.int(); r2.pv()
    r2.list(r2.int); r2.int()
    d["_events"] = r2.list(lambda: decode_event(r2))
    assert r2.i == end
    d.pop("swarning_count")
    return d


def render(events):
    out, err = [], []
    for kind, fmt, args, extra in events:
        text = fmt.format(*[render_arg(a) for a in args])
        if kind == "out":
            out.append(text + ("\n" if extra else ""))
        elif kind == "warn":
            err.append("Warning: %s @%s\n" % (text, extra))
        else:
            err.append("Error: %s @%s\n" % (text, extra))
    return "".join(out), "".join(err)


def decode_session(l, ncmds):
    """-> dict(init=state|None, steps=[state...], hist=[state...]|None, raise=name|None)"""
    r = Reader(l)
    res = {"init": None, "steps": [], "hist": None, "raise": None}
    if r.int() == 1:
        res["raise"] = EXN_NAMES.get(r.int(), "?")
        return res
    res["init"] = decode_vm_events(r)
    while True:
        tag = r.int()
        if tag == 0:
            d = decode_dstate(r)
            d["hist"] = r.int()
            res["steps"].append(d)
        elif tag == 1:
            res["raise"] = EXN_NAMES.get(r.int(), "?")
            return res
        else:
            res["hist"] = r.list(lambda: decode_dstate(r))
            assert r.done()
            return res


def eval_sessions(tag, sessions, jobs=None):
    """sessions: list of (info, opts, cmds).  Returns decoded model results."""
    terms = [session_term(i, o, c) for i, o, c in sessions]
    outs = coqrun.eval_cases(tag, HEADER, terms, shard=25, jobs=jobs)
    return [decode_session(o, len(s[2])) for o, s in zip(outs, sessions)]


def compare_session(text, opts, cmds, model, check_history=True):
    """Run the real session and compare with the decoded model result.  Returns (problem or None,
    stats dict)."""
    rs = RealSession(text, opts)
    stats = {"steps": 0, "out_of_fuel": 0}
    if not rs.ok:
        return "front end rejected the generated program", stats
    if model["raise"] and model["init"] is None:
        return "model raised %s during start-up" % model["raise"], stats
    init = dict(model["init"])
    ev_prev = init.pop("_events")
    real0 = snap_debugger(rs.shell.debugger)
    real0.pop("bps"); real0.pop("calls")
    d = diff(real0, init)
    if d:
        return "initial state: impl vs model %s" % d, stats
    if (rs.init_out, rs.init_err) != render(ev_prev):
        return "start-up output: %r vs %r" % ((rs.init_out, rs.init_err), render(ev_prev)), stats
    stack = []          # events of the saved states, mirrors the undo history
    for i, (line, term) in enumerate(cmds):
        if i >= len(model["steps"]):
            if model["raise"] == "OutOfFuel":
                stats["out_of_fuel"] += 1
                return None, stats
            return "model raised %s at command %d (%s)" % (model["raise"], i, line), stats
        r = rs.command(line)
        if r["exc"]:
            return "command %d (%s): implementation raised %s" % (i, line, r["exc"]), stats
        m = dict(model["steps"][i])
        ev = m.pop("_events")
        d = diff(rs.snapshot(), m)
        if d:
            return "after command %d (%s): impl vs model %s" % (i, line, d), stats
        if term == "CUndo":
            new = []
        elif ev[:len(ev_prev)] != ev_prev:
            return "after command %d (%s): model output is not an extension" % (i, line), stats
        else:
            new = ev[len(ev_prev):]
        if (r["out"], r["err"]) != render(new) and term != "CNop":
            return "command %d (%s): output %r vs model %r" % (i, line, (r["out"], r["err"]), render(new)), stats
        ev_prev = ev
        stats["steps"] += 1
    if model["hist"] is not None and check_history:
        real_h = rs.history()
        mh = []
        for h in model["hist"]:
            h = dict(h)
            h.pop("_events")
            mh.append(h)
        d = diff(real_h, mh)
        if d:
            return "saved history at the end: impl vs model %s" % d, stats
    return None, stats


# ---- expressions: trees, renderings, tokens, independent evaluation (C14) ----------------------------------------

OPS = {"+": "OpAdd", "-": "OpSub", "*": "OpMul", "/": "OpDiv"}
OPCODE = {0: "+", 1: "-", 2: "*", 3: "/"}


def gen_tree(rng, symbols, depth=0, maxdepth=4):
    """('int', v) | ('reg', i) | ('sym', name) | ('mem', t) | ('neg', t) | ('bin', op, l, r)"""
    k = rng.random()
    if depth >= maxdepth or k < 0.3:
        j = rng.random()
        if j < 0.45:
            return ("int", rng.choice([0, 1, 2, 3, 7, 10, 255, 256, 1000, 32767, 32768, 65535, 65536, 99999]))
        if j < 0.75:
            return ("reg", rng.randrange(16))
        if j < 0.85:
            return ("sym", rng.choice(["pc", "PC", "Pc"]))
        return ("sym", rng.choice(sorted(symbols) + ["nosuch"]) if symbols else "nosuch")
    if k < 0.42:
        return ("neg", gen_tree(rng, symbols, depth + 1, maxdepth))
    if k < 0.5:
        if rng.random() < 0.4:
            # addresses at the edges of memory: negative (wrap to the top), the last cell, around the data start
            return ("mem", rng.choice([("neg", ("int", 1)), ("neg", ("int", 2)), ("neg", ("int", 17)), ("neg", ("int", 32768)),
                                       ("int", 65535), ("bin", "-", ("int", 0), ("int", 1)), ("int", 0xC001), ("int", 0xC000),
                                       ("bin", "-", ("reg", 0), ("int", 3))]))
        return ("mem", gen_tree(rng, symbols, depth + 1, maxdepth))
    if rng.random() < 0.06:
        # the one quotient that leaves the range: a dividend above 32768 by -1 (seed C14i dropped the range check of
        # division, "a quotient is never larger than its dividend")
        big = rng.choice([("int", 32769), ("int", 40000), ("int", 65535), ("bin", "+", ("int", 32768), ("int", 1)),
                          ("bin", "*", ("int", 256), ("int", 255)), ("int", 32768)])
        return ("bin", "/", big, rng.choice([("neg", ("int", 1)), ("neg", ("int", 1)), ("bin", "-", ("int", 0), ("int", 1)), ("neg", ("int", 2))]))
    if rng.random() < 0.2:
        # operands chosen at the edges of -32768..65535
        edge = lambda: rng.choice([("int", 65535), ("int", 32768), ("int", 32769), ("int", 40000), ("neg", ("int", 32768)),
                                   ("neg", ("int", 1)), ("int", 1), ("int", 0), ("neg", ("int", 2)), ("int", 2),
                                   ("neg", ("int", 32767)), ("reg", rng.randrange(16))])
        return ("bin", rng.choice("+-*/"), edge(), edge())
    return ("bin", rng.choice("+-*/"), gen_tree(rng, symbols, depth + 1, maxdepth),
            gen_tree(rng, symbols, depth + 1, maxdepth))


def tree_level(t):
    if t[0] == "bin":
        return 0 if t[1] in "+-" else 1
    return 2


def render_tree(t, rng=None):
    """Minimal parentheses (the standard convention); with rng, random extra parentheses/spaces."""
    def sp():
        return rng.choice(["", " ", "  "]) if rng else ""

    def par(s, need):
        if need or (rng and rng.random() < 0.15):
            return "(" + sp() + s + sp() + ")"
        return s
    k = t[0]
    if k == "int":
        v = t[1]
        return rng.choice([str(v), hex(v), "0o%o" % v, "0b" + bin(v)[2:]]) if rng and rng.random() < 0.3 else str(v)
    if k == "reg":
        return (rng.choice(["R%d", "r%d"]) if rng else "R%d") % t[1]
    if k == "sym":
        return t[1]
    if k in ("mem", "neg"):
        return ("@" if k == "mem" else "-") + sp() + par(render_tree(t[1], rng), tree_level(t[1]) < 2)
    lv = 0 if t[1] in "+-" else 1
    return (par(render_tree(t[2], rng), tree_level(t[2]) < lv) + sp() + t[1] + sp()
            + par(render_tree(t[3], rng), tree_level(t[3]) <= lv))


def tree_term(t):
    k = t[0]
    if k == "int":
        return "(EInt %s)" % z(t[1])
    if k == "reg":
        return "(EReg %d)" % t[1]
    if k == "sym":
        return "(ESym %s)" % zlist([ord(c) for c in t[1]])
    if k == "mem":
        return "(EMem %s)" % tree_term(t[1])
    if k == "neg":
        return "(ENeg %s)" % tree_term(t[1])
    return "(EBin %s %s %s)" % (OPS[t[1]], tree_term(t[2]), tree_term(t[3]))


class EvalError(Exception):
    pass


def py_eval(t, regs, mem, pc, symbols):
    """Independent evaluation: ordinary integer arithmetic; EvalError when a literal or an
    intermediate result leaves -32768..65535, on division by zero, on an undefined symbol."""
    def chk(v):
        if not -32768 <= v <= 65535:
            raise EvalError()
        return v
    k = t[0]
    if k == "int":
        return chk(t[1])
    if k == "reg":
        return regs[t[1]]
    if k == "sym":
        if t[1].lower() == "pc":
            return pc
        if t[1] not in symbols:
            raise EvalError()
        return symbols[t[1]]
    if k == "mem":
        return mem.get(py_eval(t[1], regs, mem, pc, symbols) % 65536, 0)
    if k == "neg":
        return chk(-py_eval(t[1], regs, mem, pc, symbols))
    a = py_eval(t[2], regs, mem, pc, symbols)
    b = py_eval(t[3], regs, mem, pc, symbols)
    if t[1] == "+":
        return chk(a + b)
    if t[1] == "-":
        return chk(a - b)
    if t[1] == "*":
        return chk(a * b)
    if b == 0:
        raise EvalError()
    return chk(a // b)


def real_tree(node):
    """hera.debugger.miniparser node -> the tuple form above."""
    from hera.debugger import miniparser as mp
    if isinstance(node, mp.IntNode):
        return ("int", node.value)
    if isinstance(node, mp.RegisterNode):
        return ("reg", node.value)
    if isinstance(node, mp.SymbolNode):
        return ("sym", node.value)
    if isinstance(node, mp.MemoryNode):
        return ("mem", real_tree(node.address))
    if isinstance(node, mp.PrefixNode):
        return ("neg" if node.op == "-" else "prefix" + node.op, real_tree(node.arg))
    if isinstance(node, mp.InfixNode):
        return ("bin", node.op, real_tree(node.left), real_tree(node.right))
    return ("unknown", type(node).__name__)


def real_parse(text):
    """('ok', fmt, [trees]) | ('syntax',) | ('raise', name)"""
    from hera.debugger import miniparser as mp
    try:
        t = rc.with_budget(lambda: mp.parse(text), 2.0)
    except SyntaxError:
        return ("syntax",)
    except rc.Budget:
        return ("raise", "Budget")
    except BaseException as e:  # noqa
        return ("raise", type(e).__name__)
    return ("ok", t.fmt, [real_tree(x) for x in t.seq])


def lex_etoks(text):
    """Tokens of the real lexer as a Gallina `list etok`, or None if the lexer itself raises."""
    from hera.data import HERAError, Token
    from hera.lexer import Lexer
    from hera.utils import register_to_index
    simple = {Token.AT: "E_AT", Token.LPAREN: "E_LP", Token.RPAREN: "E_RP", Token.COMMA: "E_COMMA",
              Token.PLUS: "(E_OP OpAdd)", Token.MINUS: "(E_OP OpSub)", Token.ASTERISK: "(E_OP OpMul)",
              Token.SLASH: "(E_OP OpDiv)"}
    out = []
    try:
        lx = Lexer(text)
        for _ in range(len(text) + 2):
            t = lx.tkn
            if t.type == Token.EOF:
                out.append("E_EOF")
                break
            if t.type in simple:
                out.append(simple[t.type])
            elif t.type == Token.INT:
                try:
                    out.append("(E_INT (Some %s))" % z(int(t.value, base=0)))
                except ValueError:
                    out.append("(E_INT None)")
            elif t.type == Token.REGISTER:
                try:
                    out.append("(E_REG (Some %d))" % register_to_index(t.value))
                except HERAError:
                    out.append("(E_REG None)")
            elif t.type == Token.SYMBOL:
                out.append("(E_SYM %s)" % zlist([ord(c) for c in t.value]))
            elif t.type == Token.FMT:
                out.append("(E_FMT %s)" % zlist([ord(c) for c in t.value]))
            else:
                out.append("E_OTHER")
            lx.next_token()
    except BaseException:  # noqa
        return None
    return "[%s]" % "; ".join(out)


def decode_expr(r):
    k = r.int()
    if k == 0:
        return ("int", r.int())
    if k == 1:
        return ("reg", r.int())
    if k == 2:
        return ("sym", r.string())
    if k == 3:
        return ("mem", decode_expr(r))
    if k == 4:
        return ("neg", decode_expr(r))
    o = OPCODE[r.int()]
    l = decode_expr(r)
    return ("bin", o, l, decode_expr(r))


def decode_plres(l):
    r = Reader(l)
    k = r.int()
    if k == 1:
        return ("syntax",)
    if k == 2:
        return ("fuel",)
    fmt = r.string()
    n = r.int()
    return ("ok", fmt, [decode_expr(r) for _ in range(n)])


EXPR_HEADER = HEADER + "From Hera.Model Require Import ExprEnc.\n"

GARBAGE = ["", " ", "(", ")", "()", "1 +", "+ 1", "1 2", "R1 R2", "@", "--1", "- - 1", "1 ** 2", "1 // 2", "(1", "1)",
           "((1)", "1,,2", ",", "1,", ":", ":d", ":d 1", ":xd R1, R2", ":q 1", "R16", "R99 + 1", "0x", "0b2", "09", "1e5",
           "a.b", "\"s\"", "'c'", "#", "1 # 2", "$", "@@1", "-@-1", "1 - - 1", "1 -1", "1/0", "R1*", "*R1", "pc pc",
           "1 , 2 , 3", ":xds 1, 2", "0x10000", "65536", "-32769", "1 + 2 * 3 - 4 / 5", "((((((1))))))", "@(@(@(1)))"]


def parser_cases(rng, n, symbols):
    texts = list(GARBAGE)
    for _ in range(n):
        t = gen_tree(rng, symbols, maxdepth=rng.choice([2, 3, 5]))
        s = render_tree(t, rng if rng.random() < 0.7 else None)
        k = rng.random()
        if k < 0.15:
            # damage it
            i = rng.randrange(len(s) + 1)
            s = s[:i] + rng.choice(["(", ")", "+", "*", " ", "@", ",", "-", "1", "R", ":d"]) + s[i + rng.choice([0, 1]):]
        elif k < 0.25:
            s = ", ".join([s] + [render_tree(gen_tree(rng, symbols, maxdepth=2)) for _ in range(rng.choice([1, 2]))])
        if rng.random() < 0.15:
            s = rng.choice([":d ", ":xd ", ":b", ": "]) + s
        texts.append(s)
    return texts


def compare_parser(tag, texts):
    """Model parse_line on the real lexer's tokens vs the real miniparser.parse."""
    res = {"cases": 0, "agree": 0, "accepted": 0, "rejected": 0, "disagreements": [], "lexer_raised": 0}
    terms, keep = [], []
    for s in texts:
        tk = lex_etoks(s)
        if tk is None:
            res["lexer_raised"] += 1
            res["disagreements"].append({"text": s, "what": "the lexer raised on this text"})
            continue
        terms.append("enc_plres (parse_line %d %s)" % (4 * len(s) + 20, tk))
        keep.append(s)
    outs = coqrun.eval_cases(tag, EXPR_HEADER, terms, shard=400)
    for s, o in zip(keep, outs):
        m = decode_plres(o)
        r = real_parse(s)
        res["cases"] += 1
        if m == r:
            res["agree"] += 1
            res["accepted" if r[0] == "ok" else "rejected"] += 1
        else:
            res["disagreements"].append({"text": s, "impl": repr(r), "model": repr(m)})
    return res
