"""C01 — every machine instruction has exactly its architected effect."""
import os
import sys

sys.path.insert(0, os.path.join(os.path.dirname(os.path.abspath(__file__)), "..", "lib"))
sys.path.insert(0, os.path.dirname(os.path.abspath(__file__)))
import framework  # noqa: E402
import execcases as ec  # noqa: E402

PID = "C01"
TARGETS = ["Properties/C01.vo"]
ASSUMPTIONS = [
    "theorems are about Gen/Ops.v, Gen/Vm.v, Gen/Utils.v, regenerated from hera/op.py, hera/vm.py, "
    "hera/utils.py on this run by tools/translate (fail-closed)",
    "Spec/ISA.v is a faithful reading of the HERA 2.4 instruction set and hera-py's doc strings",
    "register and memory values are ints (the model's regs/mem hold Z); flags may hold any Python value",
    "MUL carry/overflow in high-word mode and CALL/RETURN with aliased operand registers are unconstrained",
]
TRUSTED = ["coq/Model/InstrOf.v: which Spec instruction each hera-py class denotes"]
NOTES = []


def gen_cases(ctx, per_op):
    cases = []
    for name, P in ec.real_ops():
        for _ in range(per_op):
            cases.append(ec.make_case(ctx.rng, name, P))
    return cases


def correspondence(ctx, model_available=True):
    per_op = 12 if ctx.tier == "quick" else 150
    cases = gen_cases(ctx, per_op)
    res, impl = ec.run_cases("C01", cases, model_available=model_available)
    dist = {}
    nontrivial = set()
    for c, r in zip(cases, impl):
        dist[c["op"]] = dist.get(c["op"], 0) + 1
        st = c["st"]
        # non-trivial: the case changes something beyond pc (a register, flag, memory, halt)
        if "raise" not in r:
            pre = ec.snapshot_vm(st.make_vm())
            changed = [k for k in ("regs", "flags", "mem", "halted", "ers", "stderr") if pre[k] != r[k]]
            if changed:
                nontrivial.add((c["op"], tuple(c["args"]), tuple(st.regs), tuple(sorted(st.flags.items()))))
    res.update({
        "nontrivial": len(nontrivial),
        "rule": "for each real opcode class: random operand registers (biased to R0, R11-R15 and aliasing), "
                "immediates biased to both ends of the accepted range, register contents biased to 16-bit "
                "boundary values, all 32 flag settings equally likely; a case is non-trivial when it changes "
                "a register, flag, memory cell, the call stack, the halt latch or emits a warning; distinct by "
                "(op, args, registers, flags)",
        "distribution": dist,
        "samples": [ec.case_json(c) for c in cases[:3]],
    })
    return res


def ops_named_in(breaks):
    """Operation classes a broken obligation or disagreement points at."""
    import re
    names = {n for n, _ in ec.real_ops()}
    hit = []
    for b in breaks:
        text = repr(b)
        for m in re.findall(r"(?:exec|calculate|should)_([A-Za-z0-9]+)", text):
            m = m.split("_")[0]
            if m in names and m not in hit:
                hit.append(m)
        d = b.get("detail")
        if isinstance(d, dict) and isinstance(d.get("case"), dict) and d["case"].get("op") in names:
            if d["case"]["op"] not in hit:
                hit.append(d["case"]["op"])
    return hit


def search(ctx, breaks):
    """Look harder for an input on which the implementation departs from Spec.ISA:
    first the operations the broken obligation names (many cases each), then all."""
    found = []
    table = dict(ec.real_ops())
    focus = ops_named_in(breaks)
    rounds = []
    if focus:
        rounds.append([(n, table[n]) for n in focus for _ in range(1500 // max(1, len(focus)))])
    rounds.append([(n, P) for n, P in ec.real_ops() for _ in range(60)])
    for k, plan in enumerate(rounds):
        cases = [ec.make_case(ctx.rng, n, P) for n, P in plan]
        try:
            res, _ = ec.run_cases("C01s%d" % k, cases, model_available=True)
        except Exception as e:  # the generated model may not build: the specification alone then
            ctx.log("search without the generated model (%s)" % str(e)[-200:].replace("\n", " "))
            try:
                res, _ = ec.run_cases("C01s%d" % k, cases, model_available=False)
            except Exception as e2:  # noqa
                ctx.log("search could not evaluate the specification: %s" % str(e2)[-300:])
                break
        found += res["spec_failures"][:3]
        if found:
            break
    return found


def known_replays(ctx, findings):
    out = []
    for e in findings:
        if "case" not in e:
            continue
        c = e["case"]
        case = {"op": c["op"], "args": c["args"], "st": ec.St(**c.get("state", {}))}
        try:
            res, _ = ec.run_cases("C01k", [case], model_available=True)
            bad = bool(res["spec_failures"])
            out.append((e, bad, res["spec_failures"][:1]))
        except Exception as ex:
            ctx.log("replay of %s could not run: %s" % (e["id"], str(ex)[-200:]))
    return out


def replay(ctx, path):
    import json
    with open(path) as f:
        d = json.load(f)
    print(json.dumps(d, indent=1)[:4000])
    return 0


if __name__ == "__main__":
    sys.exit(framework.run_check(sys.modules[__name__], sys.argv[1:]))
