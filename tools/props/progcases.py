"""
progcases — source-level HERA programs for the checker / preprocessor correspondence
(C04, C08, C09, later C06, C10): generation of program texts (mostly valid plus a malformed
stream), the real pipeline parse -> check, and the model's check on the same parsed operations.
"""
import coqrun
import opcases as oc
from coqrun import pv, z
from vmstate import Reader, run_real, EXN_NAMES

HEADER = oc.HEADER + """From Hera.Model Require Import Preproc.
Definition enc_symval (s : symval) : list Z :=
  match s with SLabel v => [1; v] | SDataLabel v => [2; v] | SConstant v => [3; v] end.
Definition enc_mloc (l : mloc) : list Z :=
  match l with LocOp => [0] | LocTok i => [1; Z.of_nat i] | LocNone => [2] end.
Definition enc_msg (m : msg) : list Z :=
  Z.b2z (m_err m) :: enc_string (m_fmt m) ++ enc_list enc_pv (m_args m) ++ enc_mloc (m_loc m).
Definition enc_cop (c : cop) : list Z := Z.of_nat (c_orig c) :: enc_op (c_op c).
Definition enc_check (r : res (cprogram * list msg)) : list Z :=
  enc_res (fun pm => enc_list enc_cop (cp_data (fst pm)) ++ enc_list enc_cop (cp_code (fst pm))
                     ++ enc_list (fun kv => enc_pv (fst kv) ++ enc_symval (snd kv)) (cp_symtab (fst pm))
                     ++ enc_list enc_msg (snd pm)) r.
"""

REGS = ["R0", "R1", "R2", "R3", "R7", "R10", "R11", "R12", "R13", "R14", "R15", "r4", "Rt", "FP", "SP",
        "PC_ret", "FP_alt", "fp_alt", "R05"]
NAMES = ["a", "b", "loop", "end_", "X", "N", "data1", "s", "foo", "L1", "top", "pc", "PC"]
BRANCHES = ["BR", "BL", "BGE", "BLE", "BG", "BULE", "BUG", "BZ", "BNZ", "BC", "BNC", "BS", "BNS", "BV", "BNV"]
ALU3 = ["ADD", "SUB", "MUL", "AND", "OR", "XOR"]
ALU2 = ["LSL", "LSR", "LSL8", "LSR8", "ASL", "ASR", "MOVE", "CMP", "NEG", "NOT"]


def r(rng):
    return rng.choice(REGS)


def ival(rng, lo, hi, bad=0.0):
    if rng.random() < bad:
        return rng.choice([lo - 1, hi, hi + 1, lo - 2, 70000, -40000])
    return rng.choice([lo, hi - 1, rng.randrange(lo, hi)])


def lit(rng, v):
    k = rng.random()
    if k < 0.15 and v >= 0:
        return hex(v)
    if k < 0.2 and v >= 0:
        return "0b" + bin(v)[2:]
    if k < 0.25 and 32 < v < 127 and chr(v) not in "'\\":
        return "'%s'" % chr(v)
    return str(v)


FILLERS = [("NOP()", 1), ("INC(R1, 1)", 1), ("SET(R2, 5)", 2), ("CMP(R1, R2)", 2), ("NEG(R3, R1)", 2),
           ("ADD(R1, R2, R3)", 1), ("FLAGS(R1)", 2)]


def filler(rng, n):
    """Source lines that expand to exactly n instructions."""
    out = []
    while n > 0:
        t, k = rng.choice(FILLERS)
        if k <= n:
            out.append(t)
            n -= k
    return out


def gen_far(rng):
    """A relative branch to a label at a boundary distance (in instructions after expansion)."""
    d = rng.choice([-130, -129, -128, -127, -126, -2, -1, 1, 2, 126, 127, 128, 129, 130])
    b = "%sR(far)" % rng.choice(BRANCHES)
    pre = filler(rng, rng.choice([0, 1, 3]))
    if d > 0:
        return pre + [b] + filler(rng, d - 1) + ["LABEL(far)", "NOP()"]
    return pre + ["LABEL(far)"] + filler(rng, -d) + [b, "NOP()"]


def gen_chain(rng):
    """Constants defined through earlier constants, used to size the data segment in front of data labels
    that the code then goes through (seed C04c: such a constant was dropped from label resolution)."""
    v = rng.choice([1, 2, 3, 7, 40, 300])
    lines = ["CONSTANT(ca, %d)" % v, "CONSTANT(cb, ca)"]
    last = "cb"
    if rng.random() < 0.5:
        lines.append("CONSTANT(cc, cb)")
        last = "cc"
    if rng.random() < 0.5:
        lines += ["DLABEL(dx)", "INTEGER(%s)" % rng.choice(["ca", last, "7"])]
    lines += ["DSKIP(%s)" % rng.choice([last, last, "cb"]), "DLABEL(dy)", "INTEGER(42)"]
    if rng.random() < 0.5:
        lines += ['LP_STRING("ab")', "DSKIP(%s)" % last, "DLABEL(dz)", "INTEGER(%s)" % last]
        lines += ["SET(R3, dz)", "LOAD(R4, 0, R3)"]
    lines += ["SET(R1, dy)", "LOAD(R2, 0, R1)", "SET(R5, %s)" % last, "INC(R6, %s)" % ("ca" if v <= 64 else "1")]
    return lines + filler(rng, rng.choice([0, 2]))


def gen_fill(rng):
    """A data segment that ends exactly at the top of memory, or one or two cells before / after it, for either data
    start, followed by a data label that the code uses (seed C08c: a data counter of exactly 0x10000 was let
    through and the label there silently became 0)."""
    start = rng.choice([0xC001, 0xC167])
    d = rng.choice([-2, -1, 0, 0, 1, 2])
    n = 0x10000 - start + d
    lines = []
    if rng.random() < 0.5:
        lines += ["DLABEL(first)", "INTEGER(7)"]
        n -= 1
    if rng.random() < 0.3:
        lines += ["CONSTANT(fill, %d)" % n, "DSKIP(fill)"]
    else:
        lines += ["DSKIP(%d)" % n]
    lines += ["DLABEL(top)"]
    if rng.random() < 0.3:
        lines += ["INTEGER(9)"]
    lines += ["SET(R1, top)", rng.choice(["LOAD(R2, 0, R1)", "STORE(R2, 0, R1)", "NOP()"]), "HALT()"]
    return lines


def gen_neg(rng):
    """Negative constants as direct operands of operations that are not expanded: byte fields (SETLO, relative
    branches), data cells, increments of the data counter (seed C04f: the preprocessor substituted their unsigned reading)."""
    a, b = rng.choice([-1, -2, -3, -100, -128]), rng.choice([-1, -2, -5])
    lines = ["CONSTANT(neg, %d)" % a, "CONSTANT(back, %d)" % b, "CONSTANT(big, %d)" % rng.choice([-32768, -300, 65535]),
             "DLABEL(cell)", "INTEGER(neg)", "INTEGER(big)",
             "SETLO(R1, neg)", "SET(R2, big)", "INC(R3, 1)", "NOP()", "NOP()", "NOP()", "NOP()", "NOP()",
             "%sR(back)" % rng.choice(BRANCHES), "SETLO(R4, back)", "SETRF(R5, neg)", "HALT()"]
    return lines


def gen_valid(rng, n_code=None):
    """A mostly valid program as a list of source lines."""
    if n_code is None and rng.random() < 0.08:
        return gen_far(rng)
    if n_code is None and rng.random() < 0.05:
        return gen_neg(rng)
    if n_code is None and rng.random() < 0.05:
        return gen_fill(rng)
    if n_code is None and rng.random() < 0.06:
        return gen_chain(rng)
    consts, dlabels, labels = [], [], []
    lines = []
    names = list(NAMES[:10])
    rng.shuffle(names)
    # data section
    for _ in range(rng.choice([0, 0, 1, 2, 4])):
        k = rng.random()
        if k < 0.3 and names:
            nm = names.pop()
            consts.append(nm)
            v = rng.choice([0, 1, 5, 40, 100, 255, -1, 1000, 65535, -32768])
            if consts[:-1] and rng.random() < 0.2:
                lines.append("CONSTANT(%s, %s)" % (nm, rng.choice(consts[:-1])))
            else:
                lines.append("CONSTANT(%s, %s)" % (nm, lit(rng, v)))
        elif k < 0.5 and names:
            nm = names.pop()
            dlabels.append(nm)
            lines.append("DLABEL(%s)" % nm)
        elif k < 0.7:
            lines.append("INTEGER(%s)" % lit(rng, rng.choice([0, 1, -1, 300, 65535, -32768, 42])))
        elif k < 0.85:
            s = "".join(rng.choice(["a", "B", " ", "\\n", "\\t", "\\\\", '\\"', "\\x41", "\\101", "z", "\\377", "\\400", "\\777", "\\x7f"]) for _ in range(rng.choice([0, 1, 3, 6])))
            lines.append('%s("%s")' % (rng.choice(["LP_STRING", "TIGER_STRING"]), s))
        else:
            lines.append("DSKIP(%s)" % (rng.choice(consts) if consts and rng.random() < 0.4 else str(rng.choice([0, 1, 5, 100]))))
    n_code = n_code or rng.choice([2, 5, 10, 20])
    # choose label positions in advance so that forward references exist
    nlab = rng.choice([0, 1, 2, 3])
    for _ in range(nlab):
        if names:
            labels.append(names.pop())
    pending = list(labels)
    code = []
    for i in range(n_code):
        if pending and rng.random() < (len(pending) / max(1, n_code - i)):
            code.append("LABEL(%s)" % pending.pop())
        k = rng.random()
        if k < 0.10 and labels:
            code.append("%s(%s)" % (rng.choice(BRANCHES), rng.choice(labels)))
        elif k < 0.18 and labels:
            code.append("%sR(%s)" % (rng.choice(BRANCHES), rng.choice(labels)))
        elif k < 0.22:
            code.append("%sR(%s)" % (rng.choice(BRANCHES), lit(rng, ival(rng, -128, 256))) if rng.random() < 0.7
                        else "%sR(%s)" % (rng.choice(BRANCHES), rng.choice(consts)) if consts else "NOP()")
        elif k < 0.26:
            code.append("%s(%s)" % (rng.choice(BRANCHES), r(rng)))
        elif k < 0.30 and labels:
            code.append("CALL(%s, %s)" % (rng.choice(["FP_alt", "R12", "R12", "R5"]), rng.choice(labels)))
        elif k < 0.33:
            code.append("RETURN(%s, %s)" % (rng.choice(["FP_alt", "R12", "R3"]), rng.choice(["PC_ret", "R13", "R2"])))
        elif k < 0.43:
            sym = rng.choice(labels + dlabels + consts) if (labels + dlabels + consts) and rng.random() < 0.5 else None
            code.append("%s(%s, %s)" % (rng.choice(["SET", "SET", "SETRF"]), r(rng),
                                        sym if sym else lit(rng, ival(rng, -32768, 65536))))
        elif k < 0.50:
            code.append("%s(%s, %s)" % (rng.choice(["SETLO", "SETHI"]), r(rng),
                                        rng.choice(consts) if consts and rng.random() < 0.2 else lit(rng, ival(rng, -128, 256))))
        elif k < 0.60:
            code.append("%s(%s, %s, %s)" % (rng.choice(ALU3), r(rng), r(rng), r(rng)))
        elif k < 0.68:
            code.append("%s(%s, %s)" % (rng.choice(ALU2), r(rng), r(rng)))
        elif k < 0.74:
            code.append("%s(%s, %s)" % (rng.choice(["INC", "DEC"]), r(rng),
                                        rng.choice(consts) if consts and rng.random() < 0.2 else lit(rng, ival(rng, 1, 65))))
        elif k < 0.79:
            code.append("%s(%s, %s, %s)" % (rng.choice(["LOAD", "STORE"]), r(rng), lit(rng, ival(rng, 0, 32)), r(rng)))
        elif k < 0.84:
            code.append(rng.choice(["CON()", "COFF()", "CBON()", "CCBOFF()", "NOP()", "HALT()", "FLAGS(%s)" % r(rng),
                                    "SAVEF(%s)" % r(rng), "RSTRF(%s)" % r(rng)]))
        elif k < 0.88:
            code.append("%s(%s)" % (rng.choice(["FON", "FOFF", "FSET5"]), lit(rng, ival(rng, 0, 32))))
        elif k < 0.90:
            code.append("FSET4(%s)" % lit(rng, ival(rng, 0, 16)))
        elif k < 0.95:
            code.append(rng.choice(['print_reg(%s)' % r(rng), 'print("hi")', 'println("a b")', '__eval("1")']))
        elif k < 0.98:
            if rng.random() < 0.35:
                # the word behind a named constant (seed C08e: SWI/RTI words so disguised were let through in run mode)
                nm = "w%d" % len(lines)
                lines.append("CONSTANT(%s, %s)" % (nm, rng.choice(["0x2205", "0x2300", "0x220f", "0xA123", "0x5f0e", "0x7123"])))
                code.append("OPCODE(%s)" % nm)
            else:
                code.append("OPCODE(%s)" % rng.choice(["0", "0x1234", "0xA123", "0x2200", "0x2300", "0x3D61", "0xFFFF", "65535",
                                                        "0x5f0e", "0x7123"]))
        else:
            code.append(rng.choice(["SWI(3)", "RTI()"]))
    for p in pending:
        code.append("LABEL(%s)" % p)
    return lines + code


def mutate(rng, lines):
    """Plant one or two faults in a valid program."""
    lines = list(lines)
    for _ in range(rng.choice([1, 1, 2])):
        k = rng.random()
        i = rng.randrange(len(lines)) if lines else 0
        if k < 0.15 and lines:                                       # drop an operand
            ln = lines[i]
            if "," in ln:
                lines[i] = ln[:ln.rindex(",")] + ")"
            else:
                lines[i] = ln[:ln.index("(") + 1] + ")"
        elif k < 0.30 and lines:                                     # extra operand
            lines[i] = lines[i][:-1] + (", " if not lines[i].endswith("()") else "") + rng.choice(["R1", "5", "x", '"s"']) + ")"
        elif k < 0.45 and lines:                                     # wrong kind / out of range
            ln = lines[i]
            inner = ln[ln.index("(") + 1:-1]
            parts = [p.strip() for p in inner.split(",")] if inner.strip() else []
            if parts:
                j = rng.randrange(len(parts))
                parts[j] = rng.choice(["R1", "70000", "-40000", "256", "-129", "65", "0", "32", "16", '"str"', "undefined_sym",
                                       "pc", "PC", "R16", "'c'", "-5"])
                lines[i] = ln[:ln.index("(") + 1] + ", ".join(parts) + ")"
        elif k < 0.55:                                               # duplicate symbol
            lines.insert(i, rng.choice(["LABEL(a)", "DLABEL(a)", "CONSTANT(a, 1)", "LABEL(loop)", "LABEL(5)"]))
        elif k < 0.60:                                               # data after code
            lines.append(rng.choice(["INTEGER(1)", "DLABEL(late)", "CONSTANT(late, 2)", 'LP_STRING("x")', "DSKIP(3)"]))
        elif k < 0.65:                                               # data after a debugging operation only
            lines[:0] = [rng.choice(['print("x")', 'println("y")', "print_reg(R1)", '__eval("1")']),
                         rng.choice(["INTEGER(1)", "DLABEL(early)", "CONSTANT(early, 2)", 'LP_STRING("x")', "DSKIP(3)"])]
        elif k < 0.75:                                               # huge data
            lines.insert(0, "DSKIP(%d)" % rng.choice([16000, 16382, 16383, 16384, 65535]))
        elif k < 0.85:                                               # use before declaration / label as constant
            lines.insert(0, rng.choice(["INTEGER(N)", "DSKIP(loop)", "SETLO(R1, loop)", "INC(R1, a)", "BRR(data1)", "BR(N)", "BR(data1)"]))
        elif k < 0.92:
            # an operand that is a named constant holding the signed spelling of a word / a boundary value: what the
            # checker lets through, substitution must be able to carry (seed C08g: OPCODE accepted a negative constant
            # that the later stages then could not disassemble)
            nm = "cst%d" % len(lines)
            v = rng.choice(["-7931", "-24285", "-1", "-32768", "-32769", "65535", "65536", "-8698", "0xE105", "-0x1EFB"])
            lines.insert(0, "CONSTANT(%s, %s)" % (nm, v))
            lines.append(rng.choice(["OPCODE(%s)", "OPCODE(%s)", "SET(R1, %s)", "SETLO(R1, %s)", "INC(R1, %s)", "LOAD(R1, %s, R2)",
                                     "FON(%s)", "SWI(%s)", "BRR(%s)"]) % nm)
        else:                                                        # far relative branch
            lines.insert(i, "LABEL(far_)")
            lines += ["NOP()"] * rng.choice([126, 127, 128, 129, 130])
            lines.append(rng.choice(["BRR(far_)", "BZR(far_)"]))
    return lines


def settings_for(rng):
    mode = rng.choice(["", "", "debug", "assemble", "preprocess"])
    return {"mode": mode, "allow_interrupts": mode in ("assemble", "preprocess"),
            "no_debug_ops": rng.random() < 0.15, "data_start": rng.choice([0xC001, 0xC001, 0xC167])}


def make_settings(cfg):
    from hera.data import Settings
    s = Settings(mode=cfg["mode"])
    s.color = False
    s.allow_interrupts = cfg["allow_interrupts"]
    s.no_debug_ops = cfg["no_debug_ops"]
    s.data_start = cfg["data_start"]
    return s


def cs_term(cfg):
    return '(mkcs "%s"%%string %s %s %s)' % (cfg["mode"], "true" if cfg["allow_interrupts"] else "false",
                                            "true" if cfg["no_debug_ops"] else "false", z(cfg["data_start"]))


def real_parse(text, cfg):
    from hera.parser import parse
    res, exc, _, _ = run_real(lambda: parse(text, settings=make_settings(cfg)))
    if exc:
        return None, {"raise": exc}
    ops, msgs = res
    return ops, {"errors": [m for m, _ in msgs.errors], "warnings": [m for m, _ in msgs.warnings]}


def describe_program(prog, oplist):
    from hera.data import Constant, DataLabel, Label
    ids = {id(o): i for i, o in enumerate(oplist)}

    def cop(o):
        d = oc.describe_real_op(o)
        d["orig"] = ids.get(id(o.original), -1)
        return d
    st = []
    for k, v in prog.symbol_table.items():
        kind = "const" if isinstance(v, Constant) else "dlabel" if isinstance(v, DataLabel) else "label" if isinstance(v, Label) else "int"
        st.append([oc.canon(k), kind, int(v)])
    return {"data": [cop(o) for o in prog.data], "code": [cop(o) for o in prog.code], "symtab": st}


def real_check(oplist, cfg):
    import copy
    from hera.checker import check
    ops = copy.deepcopy(oplist)      # convert_ops mutates operations in place
    (res, exc, _, _) = run_real(lambda: check(ops, make_settings(cfg)))
    if exc:
        return {"raise": exc}
    prog, msgs = res
    d = describe_program(prog, ops)
    d["errors"] = [m for m, _ in msgs.errors]
    d["warnings"] = [m for m, _ in msgs.warnings]
    d["error_locs"] = [loc_kind(l, ops) for _, l in msgs.errors]
    d["warning_locs"] = [loc_kind(l, ops) for _, l in msgs.warnings]
    return d


def loc_kind(loc, ops):
    """What a diagnostic is attached to: ["tok", i] = the i-th operand token of its operation,
    ["op"] = the operation (its name), ["none"]."""
    from hera.data import Location, Token
    if loc is None:
        return ["none"]
    if isinstance(loc, Token):
        for o in ops:
            for j, t in enumerate(o.tokens):
                if t is loc:
                    return ["tok", j]
        return ["tok", -1]
    if isinstance(loc, Location):
        return ["op"]
    return ["other", type(loc).__name__]


def ops_term(oplist):
    return "[%s]" % "; ".join(oc.op_term(d["cls"], [tuple(t) for t in d["toks"]]) for d in oplist)


def fix_tok(t):
    k, v = t
    if isinstance(v, list) and v and v[0] == "bool":
        v = v[1]
    return (k, v)


def decode_check(l):
    r = Reader(l)
    if r.int() == 1:
        return {"raise": EXN_NAMES.get(r.int(), "?")}

    def cop():
        orig = r.int()
        d = oc.read_op(r)
        d["orig"] = orig
        return d
    data = r.list(cop)
    code = r.list(cop)

    def sv():
        k = oc.canon(r.pv())
        kind = {1: "label", 2: "dlabel", 3: "const"}[r.int()]
        return [k, kind, r.int()]
    st = r.list(sv)

    def msg():
        is_err = bool(r.int())
        fmt = r.string()
        args = r.list(r.pv)
        loc = r.int()
        if loc == 1:
            loc = ("tok", r.int())
        return (is_err, fmt.format(*args), loc)
    msgs = r.list(msg)
    def lk(l):
        return ["op"] if l == 0 else ["none"] if l == 2 else ["tok", l[1]]
    return {"data": data, "code": code, "symtab": st,
            "errors": [m for e, m, _ in msgs if e], "warnings": [m for e, m, _ in msgs if not e],
            "error_locs": [lk(l) for e, _, l in msgs if e], "warning_locs": [lk(l) for e, _, l in msgs if not e]}
