"""C16 — includes splice text faithfully, cycles are caught, conditionals follow C rules."""
import os
import sys

sys.path.insert(0, os.path.join(os.path.dirname(os.path.abspath(__file__)), "..", "lib"))
sys.path.insert(0, os.path.dirname(os.path.abspath(__file__)))
import framework  # noqa: E402
import coqrun  # noqa: E402
import frontcases as fc  # noqa: E402

PID = "C16"
TARGETS = ["Properties/C16.vo"]
MODEL_TARGETS = ["Model/Ifdef.vo", "Model/Include.vo"]
ASSUMPTIONS = [
    "PARTIAL: conditional compilation is modelled line by line (Model/Ifdef.v); whitespace-only lines next to a "
    "directive may lose their blanks in the real function and are compared as empty lines",
    "include processing is modelled abstractly (files numbered, `visited` = stack of files being parsed); "
    "os.path.join/dirname/realpath, read errors and <...> system libraries are exercised by the include oracle on "
    "real directory trees, not modelled",
    "diagnostics attributed to the included file: checked by the oracle (the file named in each include error)",
]
TRUSTED = ["coq/Model/Ifdef.v", "coq/Model/Include.v", "coq/Spec/CondSpec.v"]


def library_oracle(rng):
    """Libraries found on disk through HERA_PY_DIR (`#include <name>`) are files like any other (D55): conditional
    compilation applies to them, their own quoted includes are relative to them, diagnostics name them, and a library
    that includes itself - directly or through a quoted include - is a reported cycle, not a crash."""
    import os, shutil, tempfile
    from hera.data import Settings
    from hera.parser import parse
    import runcases as rc
    problems = []
    root = tempfile.mkdtemp(prefix="hera_lib_")
    saved = os.environ.get("HERA_PY_DIR")
    a, b, c = (rng.randrange(1, 200) for _ in range(3))
    sym = rng.choice(["HERA_PY", "HERA_C", "FOO"])
    kept = sym == "HERA_PY"
    lib = os.path.join(root, "lib")
    files = {
        "cond.hera": "#ifdef %s\nSET(R1, %d)\n#else\nSET(R1, %d)\n#endif\n#ifndef HERA_PY\nthis is (( not HERA\n#endif\n"
                     "#include \"sub/inner.hera\"\nSET(R3, %d)\n" % (sym, a, a + 1, c),
        "sub/inner.hera": "SET(R2, %d)\n" % b,
        "selfinc.hera": "SET(R4, 1)\n#include <selfinc.hera>\nSET(R5, 2)\n",
        "loop1.hera": "#include \"loop2.hera\"\n",
        "loop2.hera": "SET(R6, 3)\n#include <loop1.hera>\n",
        "bad.hera": "SET(R1, 1)\nSET(R2, 2\n",
    }
    try:
        for k, t in files.items():
            os.makedirs(os.path.dirname(os.path.join(lib, k)), exist_ok=True)
            open(os.path.join(lib, k), "w").write(t)
        os.environ["HERA_PY_DIR"] = lib
        mp = os.path.join(root, "main.hera")
        scenarios = [
            ("cond", "#include <cond.hera>\nSET(R7, 9)\n", ["SET(R1,%d)" % (a if kept else a + 1), "SET(R2,%d)" % b, "SET(R3,%d)" % c, "SET(R7,9)"], []),
            ("self", "#include <selfinc.hera>\n", ["SET(R4,1)", "SET(R5,2)"], [("recursive", "lib/selfinc.hera")]),
            ("loop", "#include <loop1.hera>\n", ["SET(R6,3)"], [("recursive", "lib/loop2.hera")]),
            ("twice", "#include <cond.hera>\n#include <cond.hera>\n", None, []),
            ("bad", "#include <bad.hera>\n", None, [("other", "lib/bad.hera")]),
        ]
        for name, text, want_ops, want_errs in scenarios:
            open(mp, "w").write(text)

            def go():
                with fc.captured():
                    return parse(text, path=mp, settings=Settings())
            try:
                ops, msgs = rc.with_budget(go, 5.0)
            except rc.Budget:
                problems.append({"what": "library scenario %s: include processing did not terminate" % name, "files": files, "main": text})
                continue
            except BaseException as e:  # noqa
                problems.append({"what": "library scenario %s: include processing raised %s: %s" % (name, type(e).__name__, str(e)[:100]),
                                 "files": files, "main": text})
                continue
            got_ops = [str(o).replace(" ", "") for o in ops]
            got_errs = [("recursive" if "recursive include" in m else "other",
                         os.path.relpath(os.path.realpath(loc.path), os.path.realpath(root)) if loc is not None and loc.path else None)
                        for m, loc in msgs.errors]
            if want_ops is not None and got_ops != want_ops:
                problems.append({"what": "library scenario %s: operations %r, expected %r" % (name, got_ops, want_ops), "files": files, "main": text})
            elif name == "bad" and (not got_errs or any(e != want_errs[0] for e in got_errs)):
                problems.append({"what": "library scenario bad: diagnostics %r, expected errors located in lib/bad.hera" % (got_errs,),
                                 "files": files, "main": text})
            elif name != "bad" and got_errs != want_errs:
                problems.append({"what": "library scenario %s: diagnostics %r, expected %r" % (name, got_errs, want_errs), "files": files, "main": text})
    finally:
        if saved is None:
            os.environ.pop("HERA_PY_DIR", None)
        else:
            os.environ["HERA_PY_DIR"] = saved
        shutil.rmtree(root, ignore_errors=True)
    return problems


def builtin_name_oracle():
    """A user's file that merely has the name of a built-in library can be included after that library (D65: the
    library's name lingered in the set of files being included)."""
    import os, shutil, tempfile
    from hera.data import Settings
    from hera.parser import parse
    root = tempfile.mkdtemp(prefix="hera_bi_")
    cwd = os.getcwd()
    try:
        os.chdir(root)
        open("Tiger-stdlib-stack-data.hera", "w").write("SET(R1, 1)\n")
        text = '#include <Tiger-stdlib-stack-data.hera>\n#include "Tiger-stdlib-stack-data.hera"\nSET(R2, 2)\n'
        open("m.hera", "w").write(text)
        with fc.captured():
            ops, msgs = parse(text, path="m.hera", settings=Settings())
        tail = [str(o).replace(" ", "") for o in ops][-2:]
        errs = [m for m, _ in msgs.errors]
        if errs or tail != ["SET(R1,1)", "SET(R2,2)"]:
            return [{"what": "a file called Tiger-stdlib-stack-data.hera included after the built-in library of that name: "
                             "errors %r, last operations %r" % (errs, tail), "main": text}]
    except BaseException as e:  # noqa
        return [{"what": "built-in name scenario raised %s: %s" % (type(e).__name__, str(e)[:100])}]
    finally:
        os.chdir(cwd)
        shutil.rmtree(root, ignore_errors=True)
    return []


def known_replays(ctx, findings):
    """D55: the library scenarios are the replay of the finding."""
    import random
    out = []
    for e in findings:
        if e["id"] == "D65":
            p = builtin_name_oracle()
            out.append((e, bool(p), p[0]["what"] if p else None))
        if e["id"] == "D55":
            p = library_oracle(random.Random(0))
            out.append((e, bool(p), p[0]["what"] if p else None))
    return out


def correspondence(ctx, model_available=True):
    quick = ctx.tier == "quick"
    rng = ctx.rng
    cases = fc.ifdef_cases(rng, 300 if quick else 4000)
    res = fc.compare_ifdefs("C16i", cases, model_available)
    spec_failures = list(res["spec_failures"])
    spec_failures += fc.parse_through_oracle(rng, 120 if quick else 2000)
    for _ in range(3 if quick else 40):
        spec_failures += library_oracle(rng)
    spec_failures += builtin_name_oracle()
    disagreements = [{"what": "evaluate_ifdefs vs Model/Ifdef", **d} for d in res["disagreements"]]
    st = {"trees": 0, "files": 0, "includes": 0, "cyclic": 0, "missing": 0, "model_agree": 0}
    terms, wants, trees = [], [], []
    for _ in range(150 if quick else 2500):
        p, s, files = fc.include_oracle(rng)
        st["trees"] += 1
        for k in ("files", "includes"):
            st[k] += s[k]
        st["cyclic"] += bool(s["cyclic"])
        st["missing"] += bool(s["missing"])
        if p:
            spec_failures.append({"what": p, "files": {k: ["%s %s" % (it[0], it[1]) for it in v] for k, v in files.items()}})
        t, _ = fc.include_term(files, "main.hera")
        terms.append(t)
        wants.append(fc.model_expected(files, "main.hera"))
        trees.append(files)
    if model_available:
        outs = coqrun.eval_cases("C16n", fc.INCLUDE_HEADER, terms, shard=300)
        for o, w, files in zip(outs, wants, trees):
            if o == w:
                st["model_agree"] += 1
            else:
                disagreements.append({"what": "Model/Include vs the splice semantics the real parser was checked against",
                                      "model": o[:60], "expected": w[:60],
                                      "files": {k: ["%s %s" % (it[0], it[1]) for it in v] for k, v in files.items()}})
    return {
        "cases": len(cases) + st["trees"], "nontrivial": res["with_expectation"] + st["cyclic"],
        "rule": "conditional compilation: random well-nested structures (depth <= 5, #ifdef/#ifndef over several symbols, "
                "with and without #else, random spacing, arbitrary non-HERA text in discarded regions) and texts with "
                "stray directives: real evaluate_ifdefs vs Model/Ifdef.v, and vs the C rules evaluated on the generating "
                "tree; the top-level parser on such texts (directives indented / flush left / mixed) vs on the kept lines alone; "
                "tree; includes: generated file trees in nested directories (forward includes, diamonds, self-includes, "
                "cycles of any length, ./ and ../ spellings, missing files) through the real parser vs the splice "
                "semantics, the file named in every include diagnostic, the lexer warnings of every spliced file, and "
                "Model/Include.v on the same trees; libraries found through HERA_PY_DIR (conditionals, nested quoted includes, "
                "self-inclusion, cycles through a quoted include, diagnostics naming the library file)",
        "distribution": {"ifdef_cases": res["cases"], "ifdef_with_expectation": res["with_expectation"],
                         "ifdef_model_agree": res["agree"], "include": st},
        "samples": [{"text": cases[0][0]}],
        "disagreements": disagreements[:10], "spec_failures": spec_failures[:5],
        "model_vs_impl_agree": res["agree"] + st["model_agree"], "model_available": model_available,
    }


def search(ctx, breaks):
    r = correspondence(ctx, model_available=False)
    return r["spec_failures"][:3]


def replay(ctx, path):
    print(open(path).read()[:6000])
    return 0


if __name__ == "__main__":
    sys.exit(framework.run_check(sys.modules[__name__], sys.argv[1:]))
