"""C16 — includes splice text faithfully, cycles are caught, conditionals follow C rules."""
import os
import sys

sys.path.insert(0, os.path.join(os.path.dirname(os.path.abspath(__file__)), "..", "lib"))
sys.path.insert(0, os.path.dirname(os.path.abspath(__file__)))
import framework  # noqa: E402
import coqrun  # noqa: E402
import frontcases as fc  # noqa: E402

PID = "C16"
TARGETS = ["Properties/C16.vo"]
MODEL_TARGETS = ["Model/Ifdef.vo", "Model/Include.vo"]
ASSUMPTIONS = [
    "PARTIAL: conditional compilation is modelled line by line (Model/Ifdef.v); whitespace-only lines next to a "
    "directive may lose their blanks in the real function and are compared as empty lines",
    "include processing is modelled abstractly (files numbered, `visited` = stack of files being parsed); "
    "os.path.join/dirname/realpath, read errors and <...> system libraries are exercised by the include oracle on "
    "real directory trees, not modelled",
    "diagnostics attributed to the included file: checked by the oracle (the file named in each include error)",
]
TRUSTED = ["coq/Model/Ifdef.v", "coq/Model/Include.v", "coq/Spec/CondSpec.v"]


def correspondence(ctx, model_available=True):
    quick = ctx.tier == "quick"
    rng = ctx.rng
    cases = fc.ifdef_cases(rng, 300 if quick else 4000)
    res = fc.compare_ifdefs("C16i", cases, model_available)
    spec_failures = list(res["spec_failures"])
    spec_failures += fc.parse_through_oracle(rng, 120 if quick else 2000)
    disagreements = [{"what": "evaluate_ifdefs vs Model/Ifdef", **d} for d in res["disagreements"]]
    st = {"trees": 0, "files": 0, "includes": 0, "cyclic": 0, "missing": 0, "model_agree": 0}
    terms, wants, trees = [], [], []
    for _ in range(150 if quick else 2500):
        p, s, files = fc.include_oracle(rng)
        st["trees"] += 1
        for k in ("files", "includes"):
            st[k] += s[k]
        st["cyclic"] += bool(s["cyclic"])
        st["missing"] += bool(s["missing"])
        if p:
            spec_failures.append({"what": p, "files": {k: ["%s %s" % (it[0], it[1]) for it in v] for k, v in files.items()}})
        t, _ = fc.include_term(files, "main.hera")
        terms.append(t)
        wants.append(fc.model_expected(files, "main.hera"))
        trees.append(files)
    if model_available:
        outs = coqrun.eval_cases("C16n", fc.INCLUDE_HEADER, terms, shard=300)
        for o, w, files in zip(outs, wants, trees):
            if o == w:
                st["model_agree"] += 1
            else:
                disagreements.append({"what": "Model/Include vs the splice semantics the real parser was checked against",
                                      "model": o[:60], "expected": w[:60],
                                      "files": {k: ["%s %s" % (it[0], it[1]) for it in v] for k, v in files.items()}})
    return {
        "cases": len(cases) + st["trees"], "nontrivial": res["with_expectation"] + st["cyclic"],
        "rule": "conditional compilation: random well-nested structures (depth <= 5, #ifdef/#ifndef over several symbols, "
                "with and without #else, random spacing, arbitrary non-HERA text in discarded regions) and texts with "
                "stray directives: real evaluate_ifdefs vs Model/Ifdef.v, and vs the C rules evaluated on the generating "
                "tree; the top-level parser on such texts (directives indented / flush left / mixed) vs on the kept lines alone; "
                "tree; includes: generated file trees in nested directories (forward includes, diamonds, self-includes, "
                "cycles of any length, ./ and ../ spellings, missing files) through the real parser vs the splice "
                "semantics, the file named in every include diagnostic, and Model/Include.v on the same trees",
        "distribution": {"ifdef_cases": res["cases"], "ifdef_with_expectation": res["with_expectation"],
                         "ifdef_model_agree": res["agree"], "include": st},
        "samples": [{"text": cases[0][0]}],
        "disagreements": disagreements[:10], "spec_failures": spec_failures[:5],
        "model_vs_impl_agree": res["agree"] + st["model_agree"], "model_available": model_available,
    }


def search(ctx, breaks):
    r = correspondence(ctx, model_available=False)
    return r["spec_failures"][:3]


def replay(ctx, path):
    print(open(path).read()[:6000])
    return 0


if __name__ == "__main__":
    sys.exit(framework.run_check(sys.modules[__name__], sys.argv[1:]))
