"""
runcases — whole-program cases for the interpreter loop (C02, C15, later C06/C11):
a list of preprocessed operations is run by the real VirtualMachine.run and by the model
Run.run, and the final states are compared.
"""
import signal

import coqrun
import execcases as ec
from coqrun import pv, pvlist, z
from vmstate import St, decode_result, diff, run_real, snapshot_vm

HEADER = """From Coq Require Import ZArith List Bool String.
From Hera.Lib Require Import Py Machine Enc.
From Hera.Gen Require Import Ops.
From Hera.Model Require Import InstrOf Run.
From Hera.Spec Require Import Wf.
Import ListNotations.
Open Scope Z_scope.
Definition enc_run (r : res vm) : list Z := enc_res enc_vm r.
Definition enc_run_wf (r : res vm) : list Z :=
  match r with Ok s => [0; Z.b2z (wf_vmb s)] | Raise e => 1 :: enc_exn e end.
"""

FUEL = 400


class Budget(Exception):
    pass


def _alarm(signum, frame):
    raise Budget()


def with_budget(fn, seconds=2.0):
    old = signal.signal(signal.SIGALRM, _alarm)
    signal.setitimer(signal.ITIMER_REAL, seconds)
    try:
        return fn()
    finally:
        signal.setitimer(signal.ITIMER_REAL, 0)
        signal.signal(signal.SIGALRM, old)


BRANCH_R = ["BR", "BL", "BGE", "BLE", "BG", "BULE", "BUG", "BZ", "BNZ", "BC", "BNC", "BS", "BNS", "BV", "BNV"]


def gen_program(rng, n=None, wild=False):
    """A list of (class name, args) for code, and one for data."""
    table = dict(ec.real_ops())
    names = [k for k in table if k not in ("CALL", "RETURN")]
    n = n or rng.choice([3, 6, 12, 25, 40])
    code = []
    for i in range(n):
        r = rng.random()
        if r < 0.10:
            # relative branch with a small (sometimes escaping) offset
            name = rng.choice(BRANCH_R + ["BR", "BR"]) + "R"
            if name == "BRR" and rng.random() < 0.4:
                off = 0          # the HALT idiom
            else:
                off = rng.choice([1, 2, 3, -1, -2, 5, n - i, -(i + 1), -(i + 3), 255, 254, 130]) if wild and rng.random() < 0.5 \
                    else rng.choice([1, 2, 3])
            if not -128 <= off < 256 or (off == 0 and name != "BRR"):
                off = 2
            code.append((name, [off]))
        elif r < 0.16:
            # register branch: load the target first
            tgt = rng.choice([0, 1, i + 2, n, n + 5, 65535, 40000]) if wild or rng.random() < 0.3 else min(n, i + rng.choice([2, 3]))
            code.append(("SETLO", [1, tgt & 0xFF if (tgt & 0xFF) < 128 else (tgt & 0xFF)]))
            code.append(("SETHI", [1, (tgt >> 8) & 0xFF]))
            code.append((rng.choice(BRANCH_R), [1]))
        elif r < 0.22:
            tgt = min(n + 2, i + rng.choice([2, 4]))
            code.append(("SETLO", [13, tgt & 0xFF]))
            code.append(("SETHI", [13, (tgt >> 8) & 0xFF]))
            code.append(("CALL", [12, 13]))
        elif r < 0.26:
            code.append(("RETURN", [12, 13]))
        elif r < 0.32:
            code.append((rng.choice(["PRINT_REG", "PRINT", "PRINTLN"]), None))
        elif r < 0.40:
            code.append(("SETLO", [rng.randrange(1, 16), rng.randrange(-128, 256)]))
        elif r < 0.46:
            code.append(("SETHI", [rng.randrange(1, 16), rng.randrange(-128, 256)]))
        else:
            name = rng.choice(names)
            code.append((name, [ec.rand_arg(rng, k, name) for k in table[name]]))
    fixed = []
    for name, args in code:
        if args is None:
            if name == "PRINT_REG":
                args = [rng.randrange(16)]
            else:
                args = ["".join(rng.choice("ab \n%{}") for _ in range(rng.choice([0, 1, 3])))]
        fixed.append((name, args))
    data = []
    for _ in range(rng.choice([0, 0, 1, 3])):
        k = rng.random()
        if k < 0.4:
            data.append(("INTEGER", [rng.choice([0, 1, -1, 300, -32768, 65535, 42])]))
        elif k < 0.7:
            data.append(("LP_STRING", ["".join(chr(rng.choice([65, 0, 255, 300, 10])) for _ in range(rng.choice([0, 2, 4])))]))
        else:
            data.append(("DSKIP", [rng.choice([0, 1, 5, 100])]))
    return {"code": fixed, "data": data}


def build_real(prog):
    import hera.op as op
    from hera.data import Program, Token

    def mk(name, args):
        cls = getattr(op, name)
        toks = []
        for kind, a in zip(cls.P, args):
            if kind in (op.REGISTER, op.REGISTER_OR_LABEL):
                toks.append(Token.R(a))
            elif kind == op.STRING:
                toks.append(Token(Token.STRING, a))
            else:
                toks.append(Token.Int(a))
        return cls(*toks)
    return Program([mk(*d) for d in prog["data"]], [mk(*c) for c in prog["code"]], {}, None)


def rop_term(name, args):
    return "(mkrop O_%s %s PNone)" % (ec.cname_ident(name), pvlist(args))


def program_term(prog):
    return "(mkprogram [%s] [%s])" % ("; ".join(rop_term(*d) for d in prog["data"]),
                                      "; ".join(rop_term(*c) for c in prog["code"]))


class WatchedCode(list):
    """program.code that records every index it is asked for that lies outside the program."""

    def __init__(self, items):
        super().__init__(items)
        self.bad = []

    def __getitem__(self, i):
        if isinstance(i, int) and not 0 <= i < len(self):
            self.bad.append(i)
        return super().__getitem__(i)


def run_impl(prog, st, budget=0.4):
    """Run on the real VirtualMachine. Returns a snapshot dict (or {"raise": kind}); the key
    "bad_fetch" lists indices outside the program that were fetched."""
    from hera.data import Program
    vm = st.make_vm()
    program = build_real(prog)
    code = WatchedCode(program.code)
    program = Program(program.data, code, {}, None)
    try:
        _, exc, out, err = with_budget(lambda: run_real(lambda: vm.run(program)), budget)
    except Budget:
        exc = "Budget"
    if exc == "Budget":
        r = {"raise": "OutOfFuel"}
    elif exc:
        r = {"raise": exc}
    else:
        r = snapshot_vm(vm, out, err)
    if code.bad:
        r["bad_fetch"] = code.bad[:3]
    return r


def run_cases(tag, cases, model_available=True, jobs=None):
    """cases: list of dict(prog=..., st=St).  Returns (result dict, impl results)."""
    impl = [run_impl(c["prog"], c["st"]) for c in cases]
    res = {"cases": len(cases), "disagreements": [], "agree": 0, "out_of_fuel": 0,
           "model_available": model_available}
    if not model_available:
        return res, impl
    terms = ["enc_run (run %d %s %s)" % (FUEL, program_term(c["prog"]), c["st"].term()) for c in cases]
    outs = coqrun.eval_cases(tag, HEADER, terms, shard=150, jobs=jobs)
    for i, c in enumerate(cases):
        m = decode_result(outs[i])
        if m.get("raise") == "OutOfFuel" or impl[i].get("raise") == "OutOfFuel":
            # the model ran out of fuel or the implementation out of time: both must be long runs
            res["out_of_fuel"] += 1
            if m.get("raise") != impl[i].get("raise") and not (
                    m.get("raise") == "OutOfFuel" and "raise" not in impl[i] and
                    (impl[i]["op_count"] >= FUEL or c["st"].throttle is None)):
                pass
            continue
        if "raise" in m or "raise" in impl[i]:
            d = None if m == impl[i] else "%r vs %r" % (impl[i].get("raise", "ok"), m.get("raise", "ok"))
        else:
            d = diff(impl[i], m)
        if d:
            res["disagreements"].append({"case": case_json(c), "diff_impl_vs_model": d})
        else:
            res["agree"] += 1
    return res, impl


def case_json(c):
    return {"program": c["prog"], "state": c["st"].to_json()}
