"""C02 — the machine always stays a well-formed 16-bit HERA machine."""
import os
import sys

sys.path.insert(0, os.path.join(os.path.dirname(os.path.abspath(__file__)), "..", "lib"))
sys.path.insert(0, os.path.dirname(os.path.abspath(__file__)))
import framework  # noqa: E402
import execcases as ec  # noqa: E402
import runcases as rc  # noqa: E402
from vmstate import St, snapshot_vm, run_real  # noqa: E402

PID = "C02"
TARGETS = ["Properties/C02.vo"]
MODEL_TARGETS = ["Model/InstrOf.vo", "Model/Run.vo", "Lib/Enc.vo", "Spec/Wf.vo"]
ASSUMPTIONS = [
    "programs shorter than 65536 instructions (so pc+1 is a word), data segment within 2**16 cells "
    "(the checker's 'past the end of available memory' error), no user __eval",
    "registers/memory hold ints in the model (a bool or str stored there would be a ModelError "
    "disagreement in the correspondence, not a theorem violation)",
    "debugger command histories (assign/execute/on/off/goto) are covered by C13/C14's model, not here yet",
]
TRUSTED = ["coq/Model/Run.v (interpreter loop; skeleton shape-checked by the translator, behaviour by "
           "whole-program differential runs)", "coq/Spec/Wf.v (the well-formedness predicate)"]
NOTES = []


def wf_snapshot(d):
    """The executable oracle on a snapshot of the real machine: None if well-formed."""
    if "raise" in d:
        return "raised %s" % d["raise"]
    if len(d["regs"]) != 16:
        return "register file has %d entries" % len(d["regs"])
    for i, r in enumerate(d["regs"]):
        if isinstance(r, bool) or not isinstance(r, int) or not 0 <= r < 65536:
            return "R%d = %r" % (i, r)
    if d["regs"][0] != 0:
        return "R0 = %r" % d["regs"][0]
    for k, v in d["flags"].items():
        if not (isinstance(v, list) and v[0] == "bool"):
            return "flag %s holds %r" % (k, v)
    if not (isinstance(d["halted"], list) and d["halted"][0] == "bool"):
        return "halted holds %r" % (d["halted"],)
    if d["mlen"] > 65536:
        return "memory has %d cells" % d["mlen"]
    for a, v in d["mem"].items():
        if isinstance(v, bool) or not isinstance(v, int) or not 0 <= v < 65536:
            return "memory[%d] = %r" % (a, v)
    return None


def run_verdict(prog, r):
    """Oracle on the result of running a program on the real machine."""
    if r.get("bad_fetch"):
        return "fetched code[%r] outside a program of %d instructions" % (r["bad_fetch"][0], len(prog["code"]))
    if r.get("raise") == "OutOfFuel":
        return None      # the program's own non-termination
    if "raise" in r:
        return "interpreter raised %s" % r["raise"]
    return wf_snapshot(r)


def init_strings(rng, n):
    regs = ["r0", "R0", "r1", "R15", "sp", "FP", "pc_ret", "rt", "fp_alt", "r16", "r-1", "x", "r01"]
    vals = ["0", "5", "-1", "-32768", "-32769", "65535", "65536", "70000", "0x10", "0xFFFF", "0x10000",
            "0b11", "0o17", "abc", "", "1e3", "--1", "99999999999999999999"]
    out = []
    for _ in range(n):
        parts = []
        for _ in range(rng.choice([1, 1, 2, 3])):
            parts.append(rng.choice(regs) + rng.choice(["=", "=", "==", ""]) + rng.choice(vals))
        out.append(rng.choice([",", ", ", " "]).join(parts))
    return out


def correspondence(ctx, model_available=True):
    quick = ctx.tier == "quick"
    rng = ctx.rng
    spec_failures = []
    dist = {"exec_cases": 0, "programs": 0, "programs_leaving_at_front": 0, "programs_halting": 0,
            "throttled": 0, "init_strings": 0, "init_strings_accepted": 0}

    # (a) single instructions from well-formed states: the post-state must be well-formed
    cases = []
    for name, P in ec.real_ops():
        for _ in range(6 if quick else 80):
            cases.append(ec.make_case(rng, name, P))
    res, impl = ec.run_cases("C02e", cases, model_available=model_available, with_spec=False)
    dist["exec_cases"] = len(cases)
    for c, r in zip(cases, impl):
        bad = wf_snapshot(r)
        if bad:
            spec_failures.append({"what": "%s%s leaves an ill-formed machine: %s" % (c["op"], tuple(c["args"]), bad),
                                  "case": ec.case_json(c)})
    disagreements = list(res["disagreements"])

    # (b) whole programs, including ones that leave the program at either end
    pcases = []
    for k in range(160 if quick else 2000):
        prog = rc.gen_program(rng, wild=(k % 2 == 0))
        st = ec.rand_state(rng)
        st.pc = rng.choice([0, 5, -3])
        if k % 5 == 0:
            st.throttle = rng.choice([0, 1, 3, 10, 50])
            dist["throttled"] += 1
        if k % 3 == 0:
            st.init = [(rng.randrange(1, 16), ec.rand_word(rng)) for _ in range(rng.choice([1, 2]))]
        pcases.append({"prog": prog, "st": st})
    pres, pimpl = rc.run_cases("C02r", pcases, model_available=model_available)
    disagreements += pres["disagreements"]
    dist["programs"] = len(pcases)
    nontrivial = set()
    for c, r in zip(pcases, pimpl):
        bad = run_verdict(c["prog"], r)
        if bad:
            spec_failures.append({"what": "running a program: %s" % bad, "case": rc.case_json(c)})
        if "raise" not in r:
            if r["pc"] < 0:
                dist["programs_leaving_at_front"] += 1
            if r["halted"] == ["bool", True]:
                dist["programs_halting"] += 1
            if r["op_count"] > 0 or r["regs"] != [0] * 16 or r["mem"]:
                nontrivial.add(repr(c["prog"]))

    # (c) --init strings: whatever parse_init_string accepts must be admissible
    from hera.main import parse_init_string
    strs = init_strings(rng, 200 if quick else 3000)
    dist["init_strings"] = len(strs)
    for t in strs:
        try:
            v = parse_init_string(t)
        except Exception as e:  # noqa
            spec_failures.append({"what": "parse_init_string(%r) raised %s" % (t, type(e).__name__), "init": t})
            continue
        if v is None:
            continue
        dist["init_strings_accepted"] += 1
        for dest, val in v:
            if not (isinstance(dest, int) and 0 < dest < 16 and isinstance(val, int)
                    and not isinstance(val, bool) and 0 <= val < 65536):
                spec_failures.append({"what": "--init %r is accepted and yields (R%r, %r)" % (t, dest, val),
                                      "init": t})
                break

    return {
        "cases": len(cases) + len(pcases) + len(strs),
        "nontrivial": len(nontrivial) + sum(1 for r in impl if "raise" not in r),
        "rule": "single instructions from random well-formed states (all real opcodes), whole programs of "
                "3..40 operations with relative/register branches that may leave the program at either end, "
                "CALL/RETURN, data statements, --init lists and throttling, run from dirty machine states; "
                "--init strings over register spellings x value syntaxes. Oracle on the real machine: "
                "well-formedness predicate after each case, every code[...] index inside the program, no "
                "exception. A program is non-trivial when it executes at least one instruction.",
        "distribution": dist,
        "samples": [rc.case_json(pcases[0]), ec.case_json(cases[0]), {"init": strs[0]}],
        "disagreements": disagreements,
        "spec_failures": spec_failures[:5],
        "model_vs_impl_agree": res["model_vs_impl_agree"] + pres["agree"],
        "model_available": model_available,
    }


def search(ctx, breaks):
    """Oracle-only search on the real machine: many single-instruction cases (focused on the
    operation classes a broken obligation names) and whole programs."""
    import re
    found = []
    table = dict(ec.real_ops())
    focus = []
    for b in breaks:
        for m in re.findall(r"\b([A-Z][A-Z0-9_]{1,12})\b", repr(b)):
            if m in table and m not in focus:
                focus.append(m)
    plan = [(n, table[n]) for n in focus for _ in range(3000 // max(1, len(focus)))] if focus else []
    plan += [(n, P) for n, P in ec.real_ops() for _ in range(150)]
    for name, P in plan:
        c = ec.make_case(ctx.rng, name, P)
        bad = wf_snapshot(ec.run_impl(c))
        if bad:
            found.append({"what": "%s%s leaves an ill-formed machine: %s" % (c["op"], tuple(c["args"]), bad),
                          "case": ec.case_json(c)})
            if len(found) >= 3:
                return found
    for k in range(600):
        prog = rc.gen_program(ctx.rng, wild=(k % 2 == 0))
        st = ec.rand_state(ctx.rng)
        r = rc.run_impl(prog, st)
        bad = run_verdict(prog, r)
        if bad:
            found.append({"what": "running a program: %s" % bad, "case": rc.case_json({"prog": prog, "st": st})})
            if len(found) >= 3:
                break
    return found


def replay(ctx, path):
    import json
    print(open(path).read()[:4000])
    return 0


if __name__ == "__main__":
    sys.exit(framework.run_check(sys.modules[__name__], sys.argv[1:]))
