"""C02 — the machine always stays a well-formed 16-bit HERA machine."""
import os
import sys

sys.path.insert(0, os.path.join(os.path.dirname(os.path.abspath(__file__)), "..", "lib"))
sys.path.insert(0, os.path.dirname(os.path.abspath(__file__)))
import framework  # noqa: E402
import execcases as ec  # noqa: E402
import runcases as rc  # noqa: E402
from vmstate import St, snapshot_vm, run_real  # noqa: E402

PID = "C02"
TARGETS = ["Properties/C02.vo"]
MODEL_TARGETS = ["Model/InstrOf.vo", "Model/Run.vo", "Lib/Enc.vo", "Spec/Wf.vo", "Model/Session.vo", "Model/ExprEnc.vo",
                 "Proofs/C11_Hyps.vo"]
ASSUMPTIONS = [
    "programs shorter than 65536 instructions (so pc+1 is a word), data segment within 2**16 cells "
    "(the checker's 'past the end of available memory' error), no user __eval",
    "registers/memory hold ints in the model (a bool or str stored there would be a ModelError "
    "disagreement in the correspondence, not a theorem violation)",
    "debugger command histories: the state-writing commands are proved to preserve well-formedness on "
    "Model/Session.v (tied to the real shell by the session correspondence of C11-C14 and here), register "
    "assignment only for values that are 16-bit words (finding D9: negative values are stored unreduced)",
]
TRUSTED = ["coq/Model/Run.v (interpreter loop; skeleton shape-checked by the translator, behaviour by "
           "whole-program differential runs)", "coq/Spec/Wf.v (the well-formedness predicate)"]
NOTES = []


def wf_snapshot(d):
    """The executable oracle on a snapshot of the real machine: None if well-formed."""
    if "raise" in d:
        return "raised %s" % d["raise"]
    if len(d["regs"]) != 16:
        return "register file has %d entries" % len(d["regs"])
    for i, r in enumerate(d["regs"]):
        if isinstance(r, bool) or not isinstance(r, int) or not 0 <= r < 65536:
            return "R%d = %r" % (i, r)
    if d["regs"][0] != 0:
        return "R0 = %r" % d["regs"][0]
    for k, v in d["flags"].items():
        if not (isinstance(v, list) and v[0] == "bool"):
            return "flag %s holds %r" % (k, v)
    if not (isinstance(d["halted"], list) and d["halted"][0] == "bool"):
        return "halted holds %r" % (d["halted"],)
    if d["mlen"] > 65536:
        return "memory has %d cells" % d["mlen"]
    for a, v in d["mem"].items():
        if isinstance(v, bool) or not isinstance(v, int) or not 0 <= v < 65536:
            return "memory[%d] = %r" % (a, v)
    return None


def run_verdict(prog, r):
    """Oracle on the result of running a program on the real machine."""
    if r.get("bad_fetch"):
        return "fetched code[%r] outside a program of %d instructions" % (r["bad_fetch"][0], len(prog["code"]))
    if r.get("raise") == "OutOfFuel":
        return None      # the program's own non-termination
    if "raise" in r:
        return "interpreter raised %s" % r["raise"]
    return wf_snapshot(r)


def debugger_histories(rng, n, spec_failures, dist):
    """State-writing command histories on the real shell; the well-formedness oracle after every
    command.  A negative value assigned to a register is finding D9: it is reported as such and the
    register is then put right so that anything else the history shows is still seen."""
    import dbgcases as dc
    import dbgprops as dp
    kinds = ["assign"] * 5 + ["execute"] * 2 + ["flags"] * 2 + ["goto"] * 2 + ["next"] * 3 + ["continue", "step", "undo",
                                                                                              "restart", "refused"]
    sessions = dp.make_sessions(rng, n, lambda k: kinds, sizes=(6, 12, 20))
    for s in sessions:
        rs = dc.RealSession(s["text"], s["opts"])
        dist["debugger_sessions"] += 1
        for i, (line, term) in enumerate(s["cmds"]):
            r = rs.command(line)
            if r["exc"] == "Budget":
                break
            dist["debugger_commands"] += 1
            vm = rs.shell.debugger.vm
            if r["exc"]:
                spec_failures.append({"what": "debugger command %r raised %s" % (line, r["exc"]),
                                      "session": dp.session_json(s), "at": i})
                break
            bad = wf_snapshot(snapshot_vm(vm))
            if bad:
                neg = [k for k, v in enumerate(vm.registers) if isinstance(v, int) and not isinstance(v, bool) and v < 0]
                if term.startswith("(CAssign (LReg") and neg and all(
                        0 <= v < 65536 for k, v in enumerate(vm.registers) if k not in neg):
                    dist["debugger_negative_register_assignments"] += 1
                    spec_failures.append({"what": "after debugger command %r: %s" % (line, bad), "known_id": "D9",
                                          "session": dp.session_json(s), "at": i})
                    for k in neg:
                        vm.registers[k] &= 0xFFFF
                    if wf_snapshot(snapshot_vm(vm)) is None:
                        continue
                spec_failures.append({"what": "after debugger command %d %r the machine is ill-formed: %s" % (i, line, bad),
                                      "session": dp.session_json(s), "at": i})
                break
    return sessions


AFTER_END = [
    ("INC(R1, 1)\nINC(R2, 1)\n", ["c", "c", "n", "s", "continue", "next 3"]),                    # runs off the end
    ("INC(R1, 1)\nBRR(-3)\nINC(R2, 1)\nINC(R3, 1)\n", ["n", "n", "c", "c", "s", "n"]),          # leaves at the front (pc = -2)
    ("INC(R1, 1)\nBRR(-2)\nINC(R2, 1)\n", ["c", "c", "n"]),                                      # pc = -1
    ("SET(R1, 1)\nLABEL(end)\n", ["goto end", "c", "n", "s"]),                                    # goto the label after the last op
    ("SET(R1, 100)\nBR(R1)\nNOP()\nNOP()\n", ["c", "c", "s", "n"]),                              # register branch past the end
    ("SET(R1, 0xFFF0)\nBR(R1)\nNOP()\n", ["n", "n", "n", "c", "c"]),
    ("NOP()\nNOP()\nNOP()\n", ["pc = 7", "c", "pc = -2", "c", "n", "pc = 65535", "s"]),
    ("NOP()\nHALT()\nNOP()\n", ["c", "c", "n", "s", "restart", "c", "c"]),
]


def full_address_space(spec_failures, dist, quick):
    """Programs that fill the instruction space exactly (or miss by one) and execute a CALL in their last cell: if the
    tool accepts them, the return address it saves must still be a 16-bit word (seed C02e: a 65536-instruction
    program was let through and CALL saved 65536)."""
    from hera.data import Settings
    from hera.loader import load_program
    from hera.vm import VirtualMachine
    for total in ([65536] if quick else [65535, 65536, 65537]):
        text = "SET(R5, %d)\nBR(R5)\n" % (total - 1) + "NOP()\n" * (total - 4) + "CALL(R12, R1)\n"
        st = Settings()
        st.throttle = 12
        prog, exc, _, _ = run_real(lambda: load_program(text, st))
        dist["address_space_programs"] = dist.get("address_space_programs", 0) + 1
        if exc == "SystemExit" or prog is None:
            continue                    # rejected with a diagnostic: fine
        if exc:
            spec_failures.append({"what": "loading a program of %d instructions raised %s" % (total, exc)})
            continue
        vm = VirtualMachine(st)
        _, exc, _, _ = run_real(lambda: vm.run(prog))
        bad = ("raised %s" % exc) if exc else wf_snapshot(snapshot_vm(vm))
        if bad:
            spec_failures.append({"what": "a program of %d instructions is accepted; running it (CALL in the last cell): %s" % (total, bad),
                                  "program": "SET(R5, %d) BR(R5) NOP() x %d CALL(R12, R1)" % (total - 1, total - 4)})


def wraparound_oracle(spec_failures, dist, quick):
    """Programs that nearly fill the instruction space and take a relative branch out of the program at either end: the
    run ends there; it does not continue at the instruction the target would name modulo 2^16 (seed C02j reduced the
    target of relative branches mod 2^16: BRR(-5) at instruction 0 of a 65535-instruction program went on at 65531)."""
    from hera.data import Settings
    from hera.loader import load_program
    from hera.vm import VirtualMachine
    back = ["BRR(-5)"] + ["NOP()"] * 65530 + ["SETLO(R1, 42)", "HALT()", "NOP()", "NOP()"]
    fwd = (["SET(R5, 65500)", "BR(R5)"] + ["NOP()"] * 61 + ["SETLO(R2, 43)", "HALT()"] + ["NOP()"] * (65500 - 66) + ["BRR(100)"]
           + ["NOP()"] * 34)
    cond = ["FON(8)", "BZR(-128)"] + ["NOP()"] * 65407 + ["SETLO(R3, 44)", "HALT()"] + ["NOP()"] * 124
    for name, lines, reg, target in ([("BRR(-5) at instruction 0", back, 1, 65531)] if quick else
                                     [("BRR(-5) at instruction 0", back, 1, 65531), ("BRR(100) at instruction 65500", fwd, 2, 64),
                                      ("BZR(-128) at instruction 1", cond, 3, 65409)]):
        st = Settings()
        st.throttle = 40
        prog, exc, _, _ = run_real(lambda: load_program("\n".join(lines) + "\n", st))
        dist["wraparound_programs"] = dist.get("wraparound_programs", 0) + 1
        if exc or prog is None:
            spec_failures.append({"what": "a program of %d instructions is not loaded (%s)" % (len(lines), exc)})
            continue
        vm = VirtualMachine(st)
        _, exc, _, _ = run_real(lambda: vm.run(prog))
        if exc:
            spec_failures.append({"what": "%s in a program of %d instructions: the run raised %s" % (name, len(prog.code), exc)})
        elif vm.registers[reg] != 0 or vm.halted:
            spec_failures.append({"what": "%s in a program of %d instructions leaves the program, yet the machine goes on at instruction "
                                          "%d (R%d = %d, halted = %s): it wrapped around to other code"
                                          % (name, len(prog.code), target, reg, vm.registers[reg], vm.halted)})


def full_data_space(spec_failures, dist):
    """Data segments sized through chained constants, literal and repeated DSKIPs, that end around the top of memory:
    if the tool accepts the program, the machine it loads still has at most 2^16 cells, each a word (seed C02g: the
    label pass stopped counting `DSKIP(B)` when B was defined through another constant)."""
    from hera.data import Settings
    from hera.loader import load_program
    from hera.vm import VirtualMachine
    texts = ["CONSTANT(A, 8000)\nCONSTANT(B, A)\nDSKIP(B)\nDSKIP(B)\nDSKIP(B)\nINTEGER(7)\nSET(R1, 1)\n",
             "CONSTANT(A, 8000)\nCONSTANT(B, A)\nDSKIP(B)\nDSKIP(B)\nINTEGER(7)\nSET(R1, 1)\n",
             "CONSTANT(A, 16383)\nCONSTANT(B, A)\nCONSTANT(C, B)\nDSKIP(C)\nDLABEL(top)\nINTEGER(9)\nSET(R1, top)\nLOAD(R2, 0, R1)\n",
             "CONSTANT(A, 16382)\nCONSTANT(B, A)\nDSKIP(B)\nDLABEL(top)\nINTEGER(9)\nSET(R1, top)\nSTORE(R2, 0, R1)\n",
             "DSKIP(16000)\nCONSTANT(K, 400)\nCONSTANT(L, K)\nDSKIP(L)\nLP_STRING(\"abc\")\nSET(R1, 1)\n"]
    for text in texts:
        st = Settings()
        st.throttle = 50
        prog, exc, _, _ = run_real(lambda: load_program(text, st))
        dist["data_space_programs"] = dist.get("data_space_programs", 0) + 1
        if exc == "SystemExit" or prog is None:
            continue
        if exc:
            spec_failures.append({"what": "loading %r raised %s" % (text[:60], exc)})
            continue
        vm = VirtualMachine(st)
        _, exc, _, _ = run_real(lambda: vm.run(prog))
        bad = ("raised %s" % exc) if exc else wf_snapshot(snapshot_vm(vm))
        if bad:
            spec_failures.append({"what": "accepted program with a large data segment: %s" % bad, "program": text})


def after_the_end(spec_failures, dist):
    """Commands that keep going once control has left the program: no exception, nothing fetched outside the
    program, machine still well-formed (seed C02d: `continue` lost its finished() guard)."""
    import dbgcases as dc
    from runcases import WatchedCode
    for text, cmds in AFTER_END:
        for opts in ({"big_stack": False, "init": [], "warn_return_on": True},
                     {"big_stack": True, "init": [], "warn_return_on": False}):
            rs = dc.RealSession(text, opts)
            if not rs.ok:
                continue
            dbg = rs.shell.debugger
            watched = WatchedCode(dbg.program.code)
            try:
                dbg.program = dbg.program._replace(code=watched)
            except Exception:  # noqa
                pass
            dist["debugger_sessions"] += 1
            for i, line in enumerate(cmds):
                r = rs.command(line)
                dist["debugger_commands"] += 1
                sess = {"program": text, "options": opts, "commands": cmds}
                if r["exc"] and r["exc"] != "Budget":
                    spec_failures.append({"what": "debugger command %r, given after control left the program, raised %s"
                                                  % (line, r["exc"]), "session": sess, "at": i})
                    break
                if watched.bad:
                    spec_failures.append({"what": "debugger command %r fetched program.code[%d]: outside the program of %d instructions"
                                                  % (line, watched.bad[0], len(watched)), "session": sess, "at": i})
                    break
                bad = wf_snapshot(snapshot_vm(rs.shell.debugger.vm))
                if bad:
                    spec_failures.append({"what": "after debugger command %d %r the machine is ill-formed: %s" % (i, line, bad),
                                          "session": sess, "at": i})
                    break


def known_replays(ctx, findings):
    """D9: `r12 = -0xabc` on the real shell (the witness of C02_debugger_assign_negative_refuted)."""
    import dbgcases as dc
    out = []
    for e in findings:
        if e["id"] == "D51":
            # the library call of the finding on the real interpreter: every cell and register a 16-bit word
            import stdlibcases as sc
            conv, f, stdin = e["call"]
            bad = None
            for fn, inp in ((f, stdin), ("getline", "a" + stdin)):
                r = sc.run(sc.program(conv, fn, [], {k: k for k in range(1, 11)}), stdin=inp)
                if "raise" in r:
                    bad = "raised %s" % r["raise"]
                else:
                    bad = bad or wf_snapshot(snapshot_vm(r["vm"]))
            out.append((e, bad is not None, bad))
            continue
        if e["id"] in ("D59", "D63"):
            # getline on a line too long for any block: every register stays a 16-bit word up to the library's exit
            import stdlibcases as sc
            bad = None
            for n in e["line_lengths"]:
                for conv in ("reg", "stack"):
                    r = sc.run(sc.program(conv, "getline", [], {k: k for k in range(1, 11)}), stdin="a" * n + "\n", budget=20.0)
                    if "raise" in r:
                        bad = bad or "%s getline on a line of %d characters raised %s" % (conv, n, r["raise"])
                    else:
                        w = wf_snapshot(snapshot_vm(r["vm"]))
                        bad = bad or (w and "%s getline on a line of %d characters: %s" % (conv, n, w))
            out.append((e, bool(bad), bad or None))
            continue
        if e["id"] == "D61":
            rs = dc.RealSession("SET(R1, 1)\nHALT()\n", {"big_stack": False, "init": [], "warn_return_on": True})
            for line in e["history"]:
                rs.command(line)
            bad = wf_snapshot(snapshot_vm(rs.shell.debugger.vm))
            if not bad and rs.shell.debugger.vm.registers[13] != 0:
                bad = "execute ran the branch spelled as an OPCODE: R13 = %d" % rs.shell.debugger.vm.registers[13]
            out.append((e, bad is not None, bad))
            continue
        if e["id"] != "D9":
            continue
        rs = dc.RealSession("SET(R1, 1)\nHALT()\n", {"big_stack": False, "init": [], "warn_return_on": True})
        for line in e["history"]:
            rs.command(line)
        bad = wf_snapshot(snapshot_vm(rs.shell.debugger.vm))
        out.append((e, bad is not None, bad))
    return out


def library_calls_oracle(rng, n):
    """Calls of the Tiger library's functions (both conventions, edge arguments): the machine they leave behind is a
    well-formed 16-bit machine (seed C02i: -1 in R1 after the register tstrcmp of a string with its proper prefix)."""
    import C19 as lib
    import stdlibcases as sc
    out = []
    for _ in range(n):
        f, args = lib.gen_call(rng)
        for conv in ("stack", "reg"):
            if conv == "reg" and f in ("concat", "substring"):
                continue
            sent = {r: rng.choice([0, 1, 0x1234, 0x8000, 0xFFFF]) for r in range(1, 11)}
            r = sc.run(sc.program(conv, f, args, sent, 2 if f == "malloc" else 1))
            if "raise" in r:
                continue                       # the library stopping the run is C19's business
            bad = wf_snapshot(snapshot_vm(r["vm"]))
            if bad:
                out.append({"what": "after %s %s(%s): %s" % (conv, f, ", ".join(repr(a) for a in args), bad),
                            "call": [conv, f, args]})
                break
        if len(out) >= 3:
            break
    return out


def init_strings(rng, n):
    regs = ["r0", "R0", "r1", "R15", "sp", "FP", "pc_ret", "rt", "fp_alt", "r16", "r-1", "x", "r01", "", "r", "R", "r" + "7" * 4400,
            # signed register numbers: Python's negative indices would reach the register file from its end (seed C02h)
            "r-16", "r-15", "R-16", "r-17", "r-2", "r+3", "r-0", "r1_0"]
    vals = ["0", "5", "-1", "-32768", "-32769", "65535", "65536", "70000", "0x10", "0xFFFF", "0x10000",
            "0b11", "0o17", "abc", "", "1e3", "--1", "99999999999999999999"]
    out = []
    for _ in range(n):
        parts = []
        for _ in range(rng.choice([1, 1, 2, 3])):
            parts.append(rng.choice(regs) + rng.choice(["=", "=", "==", ""]) + rng.choice(vals))
        out.append(rng.choice([",", ", ", " "]).join(parts))
    return out


def correspondence(ctx, model_available=True):
    quick = ctx.tier == "quick"
    rng = ctx.rng
    spec_failures = []
    dist = {"exec_cases": 0, "programs": 0, "programs_leaving_at_front": 0, "programs_halting": 0,
            "throttled": 0, "init_strings": 0, "init_strings_accepted": 0, "debugger_sessions": 0,
            "debugger_commands": 0, "debugger_negative_register_assignments": 0}

    # (a) single instructions from well-formed states: the post-state must be well-formed
    cases = []
    for name, P in ec.real_ops():
        for _ in range(6 if quick else 80):
            cases.append(ec.make_case(rng, name, P))
    res, impl = ec.run_cases("C02e", cases, model_available=model_available, with_spec=False)
    dist["exec_cases"] = len(cases)
    for c, r in zip(cases, impl):
        bad = wf_snapshot(r)
        if bad:
            spec_failures.append({"what": "%s%s leaves an ill-formed machine: %s" % (c["op"], tuple(c["args"]), bad),
                                  "case": ec.case_json(c)})
    disagreements = list(res["disagreements"])

    # (b) whole programs, including ones that leave the program at either end
    pcases = []
    for k in range(160 if quick else 2000):
        prog = rc.gen_program(rng, wild=(k % 2 == 0))
        st = ec.rand_state(rng)
        st.pc = rng.choice([0, 5, -3])
        if k % 5 == 0:
            st.throttle = rng.choice([0, 1, 3, 10, 50])
            dist["throttled"] += 1
        if k % 3 == 0:
            st.init = [(rng.randrange(1, 16), ec.rand_word(rng)) for _ in range(rng.choice([1, 2]))]
        pcases.append({"prog": prog, "st": st})
    pres, pimpl = rc.run_cases("C02r", pcases, model_available=model_available)
    disagreements += pres["disagreements"]
    dist["programs"] = len(pcases)
    nontrivial = set()
    for c, r in zip(pcases, pimpl):
        bad = run_verdict(c["prog"], r)
        if bad:
            spec_failures.append({"what": "running a program: %s" % bad, "case": rc.case_json(c)})
        if "raise" not in r:
            if r["pc"] < 0:
                dist["programs_leaving_at_front"] += 1
            if r["halted"] == ["bool", True]:
                dist["programs_halting"] += 1
            if r["op_count"] > 0 or r["regs"] != [0] * 16 or r["mem"]:
                nontrivial.add(repr(c["prog"]))

    # (c) --init strings: whatever parse_init_string accepts must be admissible
    from hera.main import parse_init_string
    strs = init_strings(rng, 200 if quick else 3000)
    dist["init_strings"] = len(strs)
    for t in strs:
        try:
            v = parse_init_string(t)
        except Exception as e:  # noqa
            spec_failures.append({"what": "parse_init_string(%r) raised %s" % (t, type(e).__name__), "init": t})
            continue
        if v is None:
            continue
        dist["init_strings_accepted"] += 1
        for dest, val in v:
            if not (isinstance(dest, int) and 0 < dest < 16 and isinstance(val, int)
                    and not isinstance(val, bool) and 0 <= val < 65536):
                spec_failures.append({"what": "--init %r is accepted and yields (R%r, %r)" % (t, dest, val),
                                      "init": t})
                break

    # (e) the built-in library's Python helpers with the frame at the top of memory
    import stdlibcases as sc
    dist["library_calls_at_top_of_memory"] = 0
    for f, args in [("div", [7, 2]), ("mod", [7, 2]), ("printint", [5]), ("printbool", [1]), ("putchar_ord", [65]), ("not", [0])]:
        text = sc.program("stack", f, args, {k: k for k in range(1, 11)}).replace("CBON()\n", "CBON()\nSET(R15, 0x%04x)\n" % rng.choice([0xFFFB, 0xFFFC, 0xFFFD, 0xFFFE, 0xFFFF]), 1)
        r = sc.run(text)
        dist["library_calls_at_top_of_memory"] += 1
        if "raise" in r:
            spec_failures.append({"what": "library call %s with the stack at the top of memory: %s" % (f, r["raise"]), "program": text})
            continue
        bad = wf_snapshot(snapshot_vm(r["vm"]))
        if bad:
            spec_failures.append({"what": "after the library call %s with the stack at the top of memory: %s" % (f, bad), "program": text})

    # (d) debugger histories that write state: oracle on the real shell, and the session model
    import dbgprops as dp
    spec_failures += library_calls_oracle(rng, 250 if quick else 3000)
    dist["library_calls"] = 250 if quick else 3000
    dsessions = debugger_histories(rng, 30 if quick else 400, spec_failures, dist)
    after_the_end(spec_failures, dist)
    full_address_space(spec_failures, dist, quick)
    wraparound_oracle(spec_failures, dist, quick)
    full_data_space(spec_failures, dist)
    if model_available:
        dres = dp.correspondence("C02d", dsessions, True, check_history=False)
        disagreements += dres["disagreements"]
        dist["debugger_model_sessions_agree"] = dres["agree"]

    return {
        "cases": len(cases) + len(pcases) + len(strs) + dist["debugger_commands"],
        "nontrivial": len(nontrivial) + sum(1 for r in impl if "raise" not in r),
        "rule": "single instructions from random well-formed states (all real opcodes), whole programs of "
                "3..40 operations with relative/register branches that may leave the program at either end, "
                "CALL/RETURN, data statements, --init lists and throttling, run from dirty machine states; "
                "--init strings over register spellings x value syntaxes; debugger histories over assign/execute/on/off/"
                "goto/next/continue/step/undo/restart on generated programs. Oracle on the real machine: "
                "well-formedness predicate after each case, every code[...] index inside the program, no "
                "exception. A program is non-trivial when it executes at least one instruction.",
        "distribution": dist,
        "samples": [rc.case_json(pcases[0]), ec.case_json(cases[0]), {"init": strs[0]}],
        "disagreements": disagreements,
        "spec_failures": spec_failures[:5],
        "model_vs_impl_agree": res["model_vs_impl_agree"] + pres["agree"],
        "model_available": model_available,
    }


def search(ctx, breaks):
    """Oracle-only search on the real machine: many single-instruction cases (focused on the
    operation classes a broken obligation names) and whole programs."""
    import re
    found = []
    table = dict(ec.real_ops())
    focus = []
    for b in breaks:
        for m in re.findall(r"\b([A-Z][A-Z0-9_]{1,12})\b", repr(b)):
            if m in table and m not in focus:
                focus.append(m)
    plan = [(n, table[n]) for n in focus for _ in range(3000 // max(1, len(focus)))] if focus else []
    plan += [(n, P) for n, P in ec.real_ops() for _ in range(150)]
    for name, P in plan:
        c = ec.make_case(ctx.rng, name, P)
        bad = wf_snapshot(ec.run_impl(c))
        if bad:
            found.append({"what": "%s%s leaves an ill-formed machine: %s" % (c["op"], tuple(c["args"]), bad),
                          "case": ec.case_json(c)})
            if len(found) >= 3:
                return found
    for k in range(600):
        prog = rc.gen_program(ctx.rng, wild=(k % 2 == 0))
        st = ec.rand_state(ctx.rng)
        r = rc.run_impl(prog, st)
        bad = run_verdict(prog, r)
        if bad:
            found.append({"what": "running a program: %s" % bad, "case": rc.case_json({"prog": prog, "st": st})})
            if len(found) >= 3:
                break
    return found


def replay(ctx, path):
    import json
    print(open(path).read()[:4000])
    return 0


if __name__ == "__main__":
    sys.exit(framework.run_check(sys.modules[__name__], sys.argv[1:]))
