"""C11 — running to completion in the debugger equals running in the interpreter."""
import os
import sys

sys.path.insert(0, os.path.join(os.path.dirname(os.path.abspath(__file__)), "..", "lib"))
sys.path.insert(0, os.path.dirname(os.path.abspath(__file__)))
import framework  # noqa: E402
import dbgcases as dc  # noqa: E402
import dbgprops as dp  # noqa: E402
import runcases as rc  # noqa: E402

PID = "C11"
TARGETS = ["Properties/C11.vo"]
MODEL_TARGETS = ["Model/Session.vo", "Model/ExprEnc.vo", "Proofs/C11_Hyps.vo", "Lib/Enc.vo"]
ASSUMPTIONS = [
    "the theorem's hypotheses code_ok / only_last_branches are facts about preprocessed programs: the second is "
    "proved at class level (C12_expansion_only_last_branches) and evaluated on every program the check loads; "
    "the first is the C08/C02 obligation on accepted programs",
    "that the debugger's machine is built from the same settings as the interpreter's (--big-stack, --init, "
    "--warn-return-off) is checked by the session correspondence and the interpreter oracle, not by the theorem",
]
TRUSTED = ["coq/Model/Run.v", "coq/Model/Debugger.v", "coq/Model/Session.v (hand models of vm.run, Debugger, Shell handlers)"]


def cli_debug_oracle():
    """`hera debug <options> file` driven by `continue` prints what `hera <options> file` prints: the command line
    builds the debugger's machine from the same options as the interpreter's."""
    import contextlib
    import io
    import tempfile
    from hera.main import main
    text = ('DLABEL(v)\nINTEGER(42)\nSET(R1, 5)\nprint_reg(R1)\nprintln("x")\nADD(R2, R1, R3)\nprint_reg(R2)\n'
            'SET(R4, v)\nLOAD(R5, 0, R4)\nprint_reg(R5)\nprint_reg(R4)\nSET(R13, 14)\nRETURN(R12, R13)\nprint_reg(R6)\nHALT()\n')
    problems = []
    with tempfile.TemporaryDirectory() as d:
        p = os.path.join(d, "p.hera")
        open(p, "w").write(text)
        for opts in ([], ["--big-stack"], ["--init", "r3=7, r6=9"], ["--init=r3=0xFFFF"], ["--warn-return-off"],
                     ["--big-stack", "--init", "r6=1", "--warn-return-off"]):
            outs = []
            for argv, stdin in ((["--quiet"] + opts + [p], ""), (["debug"] + opts + [p], "continue\nquit\n")):
                out, err = io.StringIO(), io.StringIO()
                old = sys.stdin
                sys.stdin = io.StringIO(stdin)
                try:
                    with contextlib.redirect_stdout(out), contextlib.redirect_stderr(err):
                        try:
                            rc.with_budget(lambda: main(list(argv)), 10.0)
                        except SystemExit:
                            pass
                        except rc.Budget:
                            problems.append("hera %s did not finish within 10 s" % " ".join(argv[:-1]))
                        except BaseException as e:  # noqa
                            problems.append("hera %s raised %s" % (" ".join(argv[:-1]), type(e).__name__))
                finally:
                    sys.stdin = old
                outs.append((out.getvalue(), err.getvalue()))
            want = [l for l in outs[0][0].splitlines() if l.strip()]
            got = [l.replace(">>> ", "") for l in outs[1][0].splitlines()]
            got = [l for l in got if l.startswith(("R", "x")) and "=" in l or l == "x"]
            if [l for l in want if l.startswith("R") or l == "x"] != got:
                problems.append("hera debug %s (continue) prints %r; hera %s prints %r" % (" ".join(opts), got, " ".join(opts), want))
            w1, w2 = outs[0][1].count("Warning"), outs[1][1].count("Warning") + outs[1][0].count("Warning")
            if w1 != w2:
                problems.append("hera debug %s issues %d warning(s), hera %s issues %d" % (" ".join(opts), w2, " ".join(opts), w1))
    return problems


def correspondence(ctx, model_available=True):
    quick = ctx.tier == "quick"
    rng = ctx.rng
    n = 60 if quick else 700
    sessions = dp.make_sessions(rng, n, lambda k: dc.RUN_KINDS, finish_of=lambda k: True, inner_calls=0.3,
                                fixed_texts=dp.LEAVING)
    res = dp.correspondence("C11s", sessions, model_available, check_history=False)
    spec_failures = []
    stats = {"oracle_sessions": 0, "commands": 0, "finished": 0, "warnings": 0}
    for s in sessions:
        p, st = dp.run_oracle(s)
        stats["oracle_sessions"] += 1
        stats["commands"] += st["commands"]
        stats["finished"] += st["finished"]
        stats["warnings"] += st["warnings"]
        if p:
            spec_failures.append({"what": p, "session": dp.session_json(s)})
    for b in cli_debug_oracle():
        spec_failures.append({"what": b})
    for h in res["hypothesis_false"]:
        spec_failures.append({"what": "only_last_branches is false of a preprocessed program", "session": h})
    dist = dict(stats)
    dist.update({k: res[k] for k in ("sessions", "steps", "out_of_fuel", "hypothesis_checked")})
    dist["options"] = {"big_stack": sum(1 for s in sessions if s["opts"]["big_stack"]),
                       "init": sum(1 for s in sessions if s["opts"]["init"]),
                       "warn_return_off": sum(1 for s in sessions if not s["opts"]["warn_return_on"])}
    return {
        "cases": len(sessions), "nontrivial": stats["finished"],
        "rule": "generated programs (data, pseudo-ops, repeated lines, loops, nested/recursive calls) x option "
                "combinations x mixes of next/next n/step/continue/break/clear driven to the end: real Shell vs "
                "Model/Session after every command; real debugger vs independent source-level trace after every "
                "command; final machine, output and warnings vs hera.vm.VirtualMachine.run",
        "distribution": dist, "samples": [dp.session_json(sessions[0])] if sessions else [],
        "disagreements": res["disagreements"], "spec_failures": spec_failures[:5],
        "model_vs_impl_agree": res["agree"], "model_available": model_available,
    }


def search(ctx, breaks):
    out = []
    sessions = dp.make_sessions(ctx.rng, 150, lambda k: dc.RUN_KINDS, finish_of=lambda k: True, fixed_texts=dp.LEAVING)
    for s in sessions:
        p, _ = dp.run_oracle(s)
        if p:
            out.append({"what": p, "session": dp.session_json(s)})
            break
    return out


def replay(ctx, path):
    print(open(path).read()[:6000])
    return 0


if __name__ == "__main__":
    sys.exit(framework.run_check(sys.modules[__name__], sys.argv[1:]))
