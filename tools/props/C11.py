"""C11 — running to completion in the debugger equals running in the interpreter."""
import os
import sys

sys.path.insert(0, os.path.join(os.path.dirname(os.path.abspath(__file__)), "..", "lib"))
sys.path.insert(0, os.path.dirname(os.path.abspath(__file__)))
import framework  # noqa: E402
import dbgcases as dc  # noqa: E402
import dbgprops as dp  # noqa: E402

PID = "C11"
TARGETS = ["Properties/C11.vo"]
MODEL_TARGETS = ["Model/Session.vo", "Model/ExprEnc.vo", "Proofs/C11_Hyps.vo", "Lib/Enc.vo"]
ASSUMPTIONS = [
    "the theorem's hypotheses code_ok / only_last_branches are facts about preprocessed programs: the second is "
    "proved at class level (C12_expansion_only_last_branches) and evaluated on every program the check loads; "
    "the first is the C08/C02 obligation on accepted programs",
    "that the debugger's machine is built from the same settings as the interpreter's (--big-stack, --init, "
    "--warn-return-off) is checked by the session correspondence and the interpreter oracle, not by the theorem",
]
TRUSTED = ["coq/Model/Run.v", "coq/Model/Debugger.v", "coq/Model/Session.v (hand models of vm.run, Debugger, Shell handlers)"]


def correspondence(ctx, model_available=True):
    quick = ctx.tier == "quick"
    rng = ctx.rng
    n = 60 if quick else 700
    sessions = dp.make_sessions(rng, n, lambda k: dc.RUN_KINDS, finish_of=lambda k: True, inner_calls=0.3,
                                fixed_texts=dp.LEAVING)
    res = dp.correspondence("C11s", sessions, model_available, check_history=False)
    spec_failures = []
    stats = {"oracle_sessions": 0, "commands": 0, "finished": 0, "warnings": 0}
    for s in sessions:
        p, st = dp.run_oracle(s)
        stats["oracle_sessions"] += 1
        stats["commands"] += st["commands"]
        stats["finished"] += st["finished"]
        stats["warnings"] += st["warnings"]
        if p:
            spec_failures.append({"what": p, "session": dp.session_json(s)})
    for h in res["hypothesis_false"]:
        spec_failures.append({"what": "only_last_branches is false of a preprocessed program", "session": h})
    dist = dict(stats)
    dist.update({k: res[k] for k in ("sessions", "steps", "out_of_fuel", "hypothesis_checked")})
    dist["options"] = {"big_stack": sum(1 for s in sessions if s["opts"]["big_stack"]),
                       "init": sum(1 for s in sessions if s["opts"]["init"]),
                       "warn_return_off": sum(1 for s in sessions if not s["opts"]["warn_return_on"])}
    return {
        "cases": len(sessions), "nontrivial": stats["finished"],
        "rule": "generated programs (data, pseudo-ops, repeated lines, loops, nested/recursive calls) x option "
                "combinations x mixes of next/next n/step/continue/break/clear driven to the end: real Shell vs "
                "Model/Session after every command; real debugger vs independent source-level trace after every "
                "command; final machine, output and warnings vs hera.vm.VirtualMachine.run",
        "distribution": dist, "samples": [dp.session_json(sessions[0])] if sessions else [],
        "disagreements": res["disagreements"], "spec_failures": spec_failures[:5],
        "model_vs_impl_agree": res["agree"], "model_available": model_available,
    }


def search(ctx, breaks):
    out = []
    sessions = dp.make_sessions(ctx.rng, 150, lambda k: dc.RUN_KINDS, finish_of=lambda k: True, fixed_texts=dp.LEAVING)
    for s in sessions:
        p, _ = dp.run_oracle(s)
        if p:
            out.append({"what": p, "session": dp.session_json(s)})
            break
    return out


def replay(ctx, path):
    print(open(path).read()[:6000])
    return 0


if __name__ == "__main__":
    sys.exit(framework.run_check(sys.modules[__name__], sys.argv[1:]))
