"""
execcases — generation and execution of single-operation cases shared by C01/C02/C03:
(operation class, arguments, pre-state) run on the real op.execute(vm), on the generated
model (Gen.exec) and on the hand-written specification (Spec.ISA.step).
"""
import sys

import coqrun
from coqrun import pv, pvlist, z, zlist
from vmstate import St, decode_result, diff, run_real, snapshot_vm

WORDS = [0, 1, 2, 3, 0x7F, 0x80, 0xFF, 0x100, 0x101, 0x3FFF, 0x4000, 0x4001, 0x7FFE, 0x7FFF,
         0x8000, 0x8001, 0xBFFF, 0xC000, 0xC001, 0xC002, 0xC166, 0xC167, 0xFF00, 0xFFE0,
         0xFFFE, 0xFFFF]

HEADER = """From Coq Require Import ZArith List Bool String.
From Hera.Lib Require Import Py Machine Enc.
From Hera.Gen Require Import Ops.
From Hera.Model Require Import InstrOf.
Import ListNotations.
Open Scope Z_scope.
"""


def cname_ident(c):
    return "uu" + c[2:] if c.startswith("__") else c


def real_ops():
    """[(class name, P kinds)] for classes that have their own machine behaviour."""
    import hera.op as op
    seen, out = set(), []
    for key, cls in op.name_to_class.items():
        if cls.__name__ in seen:
            continue
        seen.add(cls.__name__)
        if cls.BITV != "" and cls.__name__ not in ("SWI", "RTI"):
            out.append((cls.__name__, cls.P))
    return out


def rand_word(rng):
    return rng.choice(WORDS) if rng.random() < 0.7 else rng.randrange(65536)


def rand_reg(rng):
    return rng.choice([0, 1, 2, 11, 12, 13, 14, 15]) if rng.random() < 0.6 else rng.randrange(16)


def rand_arg(rng, kind, opname):
    import hera.op as op
    if kind in (op.REGISTER, op.REGISTER_OR_LABEL):
        return rand_reg(rng)
    if kind in (op.I8_OR_LABEL,):
        lo, hi = -128, 256
    elif kind in (op.I16_OR_LABEL,):
        lo, hi = -32768, 65536
    elif isinstance(kind, range):
        lo, hi = kind.start, kind.stop
    elif kind == op.STRING:
        n = rng.choice([0, 1, 2, 5])
        return "".join(chr(rng.choice([65, 97, 48, 32, 10, 0, 127, 255, 300])) for _ in range(n))
    else:
        raise ValueError("unknown parameter kind %r" % (kind,))
    edge = [lo, lo + 1, hi - 1, hi - 2, 0, 1, -1, 127, 128, 129, 200, 255]
    edge = [e for e in edge if lo <= e < hi]
    return rng.choice(edge) if rng.random() < 0.6 else rng.randrange(lo, hi)


def rand_state(rng, wellformed=True):
    regs = [0] + [rand_word(rng) for _ in range(15)]
    flags = {k: rng.random() < 0.5 for k in ("s", "z", "v", "c", "cb")}
    mem = {}
    for _ in range(rng.choice([0, 2, 6])):
        mem[rand_word(rng)] = rand_word(rng)
    ers = []
    if rng.random() < 0.5:
        for _ in range(rng.choice([1, 2])):
            ers.append((rng.randrange(0, 400), rng.choice([regs[13], regs[12], rng.randrange(0, 400)])))
    st = St(regs=regs, pc=rng.choice([0, 1, 7, 200, 300, 65534]) if rng.random() < 0.7 else rng.randrange(0, 1000),
            flags=flags, mem=mem, mlen=rng.choice([16, 100, 0xC002]), ers=ers,
            warned_ovf=rng.random() < 0.3, warning_count=rng.choice([0, 3]),
            swarning_count=rng.choice([0, 2]),
            data_start=rng.choice([0xC001, 0xC167]), warn_return_on=rng.random() < 0.8)
    return st


def make_case(rng, name, P):
    args = [rand_arg(rng, k, name) for k in P]
    st = rand_state(rng)
    # make memory operands land on interesting cells
    if name in ("LOAD", "STORE") and rng.random() < 0.6:
        base = st.regs[args[2]] if args[2] != 0 else 0
        st.mem[(base + args[1]) & 0xFFFF] = rand_word(rng)
        st.mlen = max([st.mlen] + [a + 1 for a in st.mem])
    return {"op": name, "args": args, "st": st}


def tokens_for(name, args):
    import hera.op as op
    from hera.data import Token
    cls = getattr(op, name)
    toks = []
    for kind, a in zip(cls.P, args):
        if kind in (op.REGISTER, op.REGISTER_OR_LABEL):
            toks.append(Token.R(a))
        elif kind == op.STRING:
            toks.append(Token(Token.STRING, a))
        else:
            toks.append(Token.Int(a))
    return cls, toks


def run_impl(case):
    cls, toks = tokens_for(case["op"], case["args"])
    vm = case["st"].make_vm()
    o = cls(*toks)
    _, exc, out, err = run_real(lambda: o.execute(vm))
    if exc:
        return {"raise": exc}
    return snapshot_vm(vm, out, err)


def model_term(case):
    return "enc_unit_vm (run_exec O_%s %s %s)" % (cname_ident(case["op"]), pvlist(case["args"]), case["st"].term())


def spec_term(case):
    return "enc_unit_vm (run_spec O_%s %s %s)" % (cname_ident(case["op"]), zlist(case["args"]), case["st"].term())


def case_json(case):
    return {"op": case["op"], "args": case["args"], "state": case["st"].to_json()}


def mul_high(case):
    st = case["st"]
    return case["op"] == "MUL" and bool(st.flags["s"]) and not bool(st.flags["cb"])


def compare_spec(case, impl, spec):
    """None if the implementation meets the spec on this case."""
    if "raise" in spec and spec["raise"] == "ModelError":
        return "skip"
    if "raise" in impl or "raise" in spec:
        return None if impl == spec else "impl %r vs spec %r" % (impl.get("raise"), spec.get("raise"))
    a, b = dict(impl), dict(spec)
    if mul_high(case):
        a = dict(a, flags=dict(a["flags"], c=None, v=None))
        b = dict(b, flags=dict(b["flags"], c=None, v=None))
    return diff(a, b)


def run_cases(tag, cases, model_available=True, with_spec=True, jobs=None):
    """Returns dict(disagreements=[...], spec_failures=[...], counts...)."""
    impl = [run_impl(c) for c in cases]
    res = {"cases": len(cases), "disagreements": [], "spec_failures": [],
           "model_vs_impl_agree": 0, "spec_vs_impl_agree": 0, "skipped_unconstrained": 0,
           "model_available": model_available}
    if not model_available:
        return res, impl
    terms = [model_term(c) for c in cases]
    if with_spec:
        terms += [spec_term(c) for c in cases]
    outs = coqrun.eval_cases(tag, HEADER, terms, jobs=jobs)
    n = len(cases)
    for i, c in enumerate(cases):
        m = decode_result(outs[i])
        d = diff(impl[i], m) if not ("raise" in impl[i] or "raise" in m) else (None if impl[i] == m else "%r vs %r" % (impl[i], m))
        if d:
            res["disagreements"].append({"case": case_json(c), "diff_impl_vs_model": d})
        else:
            res["model_vs_impl_agree"] += 1
        if with_spec:
            s = decode_result(outs[n + i])
            r = compare_spec(c, impl[i], s)
            if r == "skip":
                res["skipped_unconstrained"] += 1
            elif r:
                res["spec_failures"].append({"what": "%s%s differs from the ISA specification: %s"
                                             % (c["op"], tuple(c["args"]), r),
                                             "case": case_json(c), "diff_impl_vs_spec": r})
            else:
                res["spec_vs_impl_agree"] += 1
    return res, impl
