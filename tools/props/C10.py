"""C10 — `hera preprocess` prints a program that means the same as its input."""
import os
import shutil
import sys
import tempfile

sys.path.insert(0, os.path.join(os.path.dirname(os.path.abspath(__file__)), "..", "lib"))
sys.path.insert(0, os.path.dirname(os.path.abspath(__file__)))
import framework  # noqa: E402
import coqrun  # noqa: E402
import frontcases as fc  # noqa: E402
from coqrun import zlist  # noqa: E402

PID = "C10"
TARGETS = ["Properties/C10.vo"]
MODEL_TARGETS = ["Model/Lexer.vo", "Model/Printer.vo"]
ASSUMPTIONS = [
    "PARTIAL: the theorem is the string-literal codec (printer output read back by the lexer, every string, any "
    "context); the instruction words of --obfuscate are the C05 codec theorems; printing of integer, register and "
    "symbol operands, the listing format and the whole-program fixed point are decided by the round-trip oracle on "
    "the real tool (preprocess -> strip index column -> preprocess / assemble; --obfuscate -> assemble)",
]
TRUSTED = ["coq/Model/Printer.v", "coq/Model/Lexer.v"]

HEADER = """From Coq Require Import ZArith List Bool.
From Hera.Model Require Import Lexer Printer.
Import ListNotations.
Open Scope Z_scope.
"""


def correspondence(ctx, model_available=True):
    quick = ctx.tier == "quick"
    rng = ctx.rng
    from hera.lexer import Lexer
    import hera.op as op
    spec_failures, disagreements = [], []
    # (1) the printer: real string_literal vs Model/Printer.v, and read back by the real lexer
    strs = ["", "a", '"', "\\", "\n", "\t", "\r", "\x00", "\x7f", "\xff", chr(300) + "7", "\x011", "a\"b\\c\nd"]
    for _ in range(300 if quick else 5000):
        strs.append("".join(chr(rng.choice([0, 1, 9, 10, 13, 31, 32, 34, 48, 55, 56, 65, 92, 110, 120, 126, 127, 128, 255, 256, 300, 511]))
                            for _ in range(rng.choice([1, 2, 4, 9]))))
    printer = getattr(op, "string_literal", None)
    agree = 0
    if printer is None:
        import json
        printer = json.dumps
    lits = []
    for s in strs:
        lit = printer(s)
        lits.append(lit)
        try:
            t = Lexer(lit + ")").tkn
            ok = t.type == "TOKEN_STRING" and t.value == s
        except BaseException as e:  # noqa
            ok = False
        if not ok:
            spec_failures.append({"what": "the string %r is printed as %s, which the lexer does not read back as that string" % (s, lit),
                                  "string": s})
    if model_available:
        outs = coqrun.eval_cases("C10p", HEADER, ["string_literal %s" % zlist([ord(c) for c in s]) for s in strs], shard=400)
        for s, lit, o in zip(strs, lits, outs):
            if o == [ord(c) for c in lit]:
                agree += 1
            else:
                disagreements.append({"what": "string_literal vs Model/Printer", "string": s, "impl": lit,
                                      "model": "".join(chr(c) for c in o)})
    # (2) whole programs through the real tool
    st = {"programs": 0, "accepted": 0}
    d = tempfile.mkdtemp(prefix="hera_rt_")
    try:
        for _ in range(120 if quick else 2000):
            text = fc.gen_roundtrip_program(rng)
            st["programs"] += 1
            p, acc = fc.roundtrip_oracle(text, d)
            st["accepted"] += acc
            if p:
                spec_failures.append({"what": p, "program": text})
    finally:
        shutil.rmtree(d, ignore_errors=True)
    return {
        "cases": len(strs) + st["programs"], "nontrivial": st["accepted"],
        "rule": "strings over control characters, quotes, backslashes, bytes above 127 and characters above 255: real "
                "op.string_literal vs Model/Printer.v, and read back by the real lexer; generated accepted programs (every "
                "pseudo-op, boundary operands, symbolic operands, string data with arbitrary characters): "
                "`hera preprocess` listing with the index column removed fed back — accepted, identical listing (fixed "
                "point), identical `assemble --stdout` output; `preprocess --obfuscate` output assembled — identical words",
        "distribution": {"strings": len(strs), "printer_model_agree": agree, **st},
        "samples": [{"string": strs[12]}],
        "disagreements": disagreements[:10], "spec_failures": spec_failures[:5],
        "model_vs_impl_agree": agree, "model_available": model_available,
    }


def search(ctx, breaks):
    r = correspondence(ctx, model_available=False)
    return r["spec_failures"][:3]


def replay(ctx, path):
    print(open(path).read()[:6000])
    return 0


if __name__ == "__main__":
    sys.exit(framework.run_check(sys.modules[__name__], sys.argv[1:]))
