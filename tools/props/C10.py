"""C10 — `hera preprocess` prints a program that means the same as its input."""
import os
import shutil
import sys
import tempfile

sys.path.insert(0, os.path.join(os.path.dirname(os.path.abspath(__file__)), "..", "lib"))
sys.path.insert(0, os.path.dirname(os.path.abspath(__file__)))
import framework  # noqa: E402
import coqrun  # noqa: E402
import frontcases as fc  # noqa: E402
from coqrun import z, zlist  # noqa: E402

PID = "C10"
TARGETS = ["Properties/C10.vo"]
MODEL_TARGETS = ["Model/Lexer.vo", "Model/Printer.vo", "Model/IntLit.vo"]
ASSUMPTIONS = [
    "PARTIAL: the theorem is the string-literal codec (printer output read back by the lexer, every string, any "
    "context); the instruction words of --obfuscate are the C05 codec theorems; printing of integer, register and "
    "symbol operands, the listing format and the whole-program fixed point are decided by the round-trip oracle on "
    "the real tool (preprocess -> strip index column -> preprocess / assemble; --obfuscate -> assemble)",
]
TRUSTED = ["coq/Model/Printer.v", "coq/Model/Lexer.v"]

HEADER = """From Coq Require Import ZArith List Bool.
From Hera.Model Require Import Lexer Printer.
Import ListNotations.
Open Scope Z_scope.
"""


INT_HEADER = """From Coq Require Import ZArith List.
From Hera.Model Require Import IntLit.
Import ListNotations.
Open Scope Z_scope.
Definition enc_opt (o : option Z) : list Z := match o with Some v => [1; v] | None => [0] end.
"""


def intlit_correspondence(rng, n, disagreements, spec_failures, model_available):
    """Integer operands: what the listing prints for a value (str(op) of a parsed INTEGER(n); OPCODE(0x..) of
    main.py's obfuscate form) vs Model/IntLit.print_int / print_opcode_word; the value the real parser gives a literal
    (decimal, 0x/0o/0b in both cases, zero-prefixed octal, invalid ones) vs Model/IntLit.read_value; and, on the real
    code alone, printed values read back."""
    from hera.data import Settings
    from hera.parser import parse
    st = {"int_values": 0, "int_literals": 0, "int_model_agree": 0}

    def real_value(text):
        try:
            ops, msgs = parse("INTEGER(%s)" % text, settings=Settings(color=False))
        except BaseException as e:  # noqa
            return "raise " + type(e).__name__
        if msgs.errors or len(ops) != 1 or len(ops[0].tokens) != 1:
            return None
        return ops[0].tokens[0].value, str(ops[0])[len("INTEGER("):-1]

    edge = [-32768, -32767, -256, -129, -128, -10, -9, -1, 0, 1, 7, 8, 9, 10, 99, 100, 255, 256, 999, 1000, 9999, 10000, 32767,
            32768, 65535]
    values = edge + [rng.randrange(-32768, 65536) for _ in range(n)]
    terms, metas = [], []
    for v in values:
        r = real_value(str(v))
        st["int_values"] += 1
        if not isinstance(r, tuple) or r[0] != v or real_value(r[1]) != r:
            spec_failures.append({"what": "the integer operand %d is printed as %r, which does not read back as that value"
                                          % (v, r[1] if isinstance(r, tuple) else r)})
            continue
        terms.append("print_int %s" % z(v))
        metas.append(("print", v, [ord(c) for c in r[1]]))
    for w in [0, 1, 15, 16, 255, 256, 4095, 4096, 65535] + [rng.randrange(65536) for _ in range(n // 4)]:
        terms.append("print_opcode_word %d" % w)
        metas.append(("word", w, [ord(c) for c in "0x{:x}".format(w)]))
    lits = ["0", "00", "07", "08", "09", "017", "0o17", "0O17", "0x1f", "0X1F", "0b101", "0B101", "0b2", "0o8", "0xg", "0x", "0b", "0o",
            "-0", "-017", "-0x10", "-0b11", "-09", "1a", "65535", "65536", "99999"]
    for _ in range(n // 2):
        k = rng.choice([1, 1, 2, 3, 5])
        body = "".join(rng.choice("0123456789") for _ in range(k))
        if rng.random() < 0.5:
            body = rng.choice(["0x", "0X", "0o", "0O", "0b", "0B", "0"]) + "".join(rng.choice("0123456789abcdefABCDEF01") for _ in range(k))
        lits.append(("-" if rng.random() < 0.3 else "") + body)
    for t in lits:
        r = real_value(t)
        st["int_literals"] += 1
        if isinstance(r, str):
            spec_failures.append({"what": "parsing INTEGER(%s): %s" % (t, r)})
            continue
        terms.append("enc_opt (read_value %s)" % zlist([ord(c) for c in t]))
        metas.append(("read", t, [1, r[0]] if r is not None else [0]))
    # registers: "R" + str(index) as printed by str(op), and register_to_index on the texts a REGISTER token can have
    from hera.utils import HERAError, register_to_index
    st["register_texts"] = 0
    for n_ in range(16):
        try:
            ops, msgs = parse("SETLO(R%d, 1)" % n_, settings=Settings(color=False))
            shown = str(ops[0])[len("SETLO("):].split(",")[0]
        except BaseException as e:  # noqa
            shown = "raise " + type(e).__name__
        terms.append("print_register %d" % n_)
        metas.append(("register", n_, [ord(c) for c in shown]))
    names = ["R%d" % k for k in range(0, 21)] + ["r%d" % k for k in range(0, 17)] + ["r007", "R015", "R016", "r00", "R99999", "sp", "SP", "Sp",
             "fp", "FP", "rt", "Rt", "RT", "pc_ret", "PC_ret", "PC_RET", "fp_alt", "FP_alt", "Fp_Alt"]
    for t in names:
        try:
            want = [1, register_to_index(t)]
        except HERAError:
            want = [0]
        except BaseException as e:  # noqa
            spec_failures.append({"what": "register_to_index(%r) raised %s" % (t, type(e).__name__)})
            continue
        st["register_texts"] += 1
        terms.append("enc_opt (register_to_index %s)" % zlist([ord(c) for c in t]))
        metas.append(("register text", t, want))
    if model_available and terms:
        outs = coqrun.eval_cases("C10i", INT_HEADER, terms, shard=400)
        for (kind, x, want), o in zip(metas, outs):
            if o == want:
                st["int_model_agree"] += 1
            else:
                disagreements.append({"what": "integer operands vs Model/IntLit (%s)" % kind, "input": x, "impl": want, "model": o})
    return st


def correspondence(ctx, model_available=True):
    quick = ctx.tier == "quick"
    rng = ctx.rng
    from hera.lexer import Lexer
    import hera.op as op
    spec_failures, disagreements = [], []
    # (1) the printer: real string_literal vs Model/Printer.v, and read back by the real lexer
    strs = ["", "a", '"', "\\", "\n", "\t", "\r", "\x00", "\x7f", "\xff", chr(300) + "7", "\x011", "a\"b\\c\nd"]
    for _ in range(300 if quick else 5000):
        strs.append("".join(chr(rng.choice([0, 1, 9, 10, 13, 31, 32, 34, 48, 55, 56, 65, 92, 110, 120, 126, 127, 128, 255, 256, 300, 511]))
                            for _ in range(rng.choice([1, 2, 4, 9]))))
    printer = getattr(op, "string_literal", None)
    agree = 0
    if printer is None:
        import json
        printer = json.dumps
    lits = []
    for s in strs:
        lit = printer(s)
        lits.append(lit)
        try:
            t = Lexer(lit + ")").tkn
            ok = t.type == "TOKEN_STRING" and t.value == s
        except BaseException as e:  # noqa
            ok = False
        if not ok:
            spec_failures.append({"what": "the string %r is printed as %s, which the lexer does not read back as that string" % (s, lit),
                                  "string": s})
    if model_available:
        outs = coqrun.eval_cases("C10p", HEADER, ["string_literal %s" % zlist([ord(c) for c in s]) for s in strs], shard=400)
        for s, lit, o in zip(strs, lits, outs):
            if o == [ord(c) for c in lit]:
                agree += 1
            else:
                disagreements.append({"what": "string_literal vs Model/Printer", "string": s, "impl": lit,
                                      "model": "".join(chr(c) for c in o)})
    # (1b) integer operands: printer and reader vs Model/IntLit
    ist = intlit_correspondence(rng, 300 if quick else 4000, disagreements, spec_failures, model_available)
    # (2) whole programs through the real tool
    st = {"programs": 0, "accepted": 0}
    d = tempfile.mkdtemp(prefix="hera_rt_")
    try:
        for _ in range(120 if quick else 2000):
            text = fc.gen_roundtrip_program(rng)
            st["programs"] += 1
            p, acc = fc.roundtrip_oracle(text, d)
            st["accepted"] += acc
            if p:
                spec_failures.append({"what": p, "program": text})
    finally:
        shutil.rmtree(d, ignore_errors=True)
    return {
        "cases": len(strs) + st["programs"], "nontrivial": st["accepted"],
        "rule": "strings over control characters, quotes, backslashes, bytes above 127 and characters above 255: real "
                "op.string_literal vs Model/Printer.v, and read back by the real lexer; integer operands over the whole operand "
                "range and literal spellings (bases, zero-prefixed octal, invalid): printed form and parsed value vs "
                "Model/IntLit.v, printed values parsed back on the real code; generated accepted programs (every "
                "pseudo-op, boundary operands, symbolic operands, string data with arbitrary characters): "
                "`hera preprocess` listing with the index column removed fed back — accepted, identical listing (fixed "
                "point), identical `assemble --stdout` output; `preprocess --obfuscate` output assembled — identical words",
        "distribution": {"strings": len(strs), "printer_model_agree": agree, **st, **ist},
        "samples": [{"string": strs[12]}],
        "disagreements": disagreements[:10], "spec_failures": spec_failures[:5],
        "model_vs_impl_agree": agree, "model_available": model_available,
    }


def search(ctx, breaks):
    r = correspondence(ctx, model_available=False)
    return r["spec_failures"][:3]


def replay(ctx, path):
    print(open(path).read()[:6000])
    return 0


if __name__ == "__main__":
    sys.exit(framework.run_check(sys.modules[__name__], sys.argv[1:]))
