#!/usr/bin/env python3
"""Regenerate /verif/MANIFEST.json from the table below."""
import json
import os

VERIF = os.path.dirname(os.path.dirname(os.path.abspath(__file__)))
props = [json.loads(l) for l in open(os.path.join(VERIF, "properties.jsonl"))]

CLAIMED = {
    "C01": ("Coq theorem C01_exec_exact: for every real opcode class, every well-formed state, all operand "
            "registers (aliasing and R0 included), all operand values and all 32 flag settings, the model of "
            "execute() regenerated from hera/op.py + hera/vm.py + hera/utils.py on this run equals the "
            "hand-written HERA 2.4 step function on the whole state record; translator validated each run by "
            "differential execution against the real code, which is also compared with the specification.",
            "trusted: Coq kernel, tools/translate + Lib/Py.v + Lib/Machine.v (validated differentially each run), "
            "Spec/ISA.v (hand-written reading of HERA 2.4), Model/InstrOf.v"),
    "C02": ("Coq theorems: every instruction (aliased CALL/RETURN and MUL high-word included) preserves the "
            "well-formedness predicate and never raises; reset() yields a well-formed machine for every "
            "admissible --init; data statements preserve it; by induction on the number of loop iterations every "
            "state the interpreter loop visits is well-formed, every fetch is inside the program and no exception "
            "is raised. Loop guards/reset/execute are regenerated from source; the loop skeleton is shape-checked "
            "and differentially tested. Oracle on the real machine: wf predicate, watched code[] indices.",
            "trusted: as C01 plus Model/Run.v, Spec/Wf.v; debugger histories are not yet in this check's model"),
    "C05": ("Coq theorems closed by complete enumeration inside the kernel (all 65536 words; every valid operand "
            "tuple of every real instruction): assemble gives the word of the hand-written HERA encoding table, "
            "disassemble inverts it, distinct instructions never share a word, every word decodes to the "
            "instruction that re-assembles to it or is reported unknown (and then no valid instruction has that "
            "word), integers outside 0..0xFFFF are rejected. BITV patterns, class order and override lists are "
            "regenerated from hera/op.py; the bit-pattern machinery is a hand model tied by correspondence "
            "(complete in the thorough tier).",
            "trusted: Coq kernel + vm_compute, Spec/EncTable.v, Model/Bitvec.v (hand model, differential), "
            "tools/translate tables"),
    "C03": ("Coq theorems, one per pseudo-operation (SET SETRF MOVE CMP NEG NOT FLAGS CON COFF CBON CCBOFF HALT NOP "
            "OPCODE, the label form of all fifteen register branches, CALL to a label): the expansion produced by "
            "the model of convert() regenerated from hera/op.py, executed by the code model of C01, yields exactly "
            "the documented whole-effect (Spec/PseudoSpec.v) on every well-formed state, every register operand, "
            "every immediate / label value < 65536 and every flag setting; equality of whole states, except that "
            "SET/SETRF to R15 are compared up to hera-py's stack-overflow warning bookkeeping; the whole effect of CALL(Ra, "
            "label) is stated for Ra other than R13/FP (the overlapping exchanges are an open point of the ISA), and that "
            "the call arrives at the label is proved for every Ra.",
            "trusted: as C01 plus Spec/PseudoSpec.v, Model/Bitvec.v (OPCODE)"),
    "C04": ("PARTIAL proof (whole-program code layout now a theorem). Proved in Coq over the hand model of checker.py "
            "(Model/Preproc.v) and the regenerated operation_length / convert / P tables: a program whose type-check reports "
            "no error consists of individually clean operations; for every such operation the number of instructions "
            "convert() emits equals checker.operation_length; over any program the program counter of get_labels and the "
            "one of convert_ops stay in lockstep, the latter is the number of instructions emitted so far, hence every "
            "label denotes the index of the next emitted instruction in every mode (debugging operations skipped by both "
            "passes when stripped); relative label branches are accepted iff the distance is in -128..127 and then carry "
            "it; each data statement advances the data counter by its cell count and a data label gets the current "
            "counter. Not theorems: persistence of entries in the final symbol table and whole-program data-label layout; "
            "decided by the differential correspondence (model = real parse+check in all four modes) and the layout oracle.",
            "trusted: Model/Preproc.v (hand model, differential), tools/translate tables"),
    "C15": ("Coq theorems: reset() (regenerated from hera/vm.py) yields a state that depends only on the settings object, "
            "prior terminal output and the settings' warning counter, so a run is the same whatever the machine executed "
            "before (run_deterministic); every attribute vm.py assigns is a field of the model; the throttled loop stops "
            "after exactly min(n, run length) instructions and coincides with any larger limit (prefix); and nothing the "
            "interpreter executes reads or writes the instruction counter (one regenerated lemma per generated definition, "
            "Gen/Indep.v, by a logical relation over the state monad), hence the throttled loop follows the unthrottled "
            "loop step for step in states equal up to op_count, and ends where it ends when the limit is not reached — for "
            "every program and state, no side condition. PARTIAL only in that process-level isolation of hera.main (module "
            "globals, default-argument objects) is outside the model: decided by the oracle (run / rerun / other program / "
            "rerun on one machine, main() repeated in one process, unread stdin between runs).",
            "trusted: as C02 plus Lib/Indep.v (relation and primitives), tools/translate/genindep.py (lemma generator); "
            "process state outside VirtualMachine attributes is not modelled"),
    "C06": ("Coq theorems: the specification's own arithmetic decoder inverts the HERA encoding table (complete "
            "enumeration); every iteration of the interpreter loop on the operations of an accepted program is a "
            "step of the independent word-level machine (specification decoder + specification step) on the "
            "assembled words, and the loop ends exactly when that machine ends (refinement, composed over any "
            "number of steps; open points of the ISA left open); the bytes the assembler emits for each data "
            "statement are exactly the cells the interpreter writes, untouched cells stay zero; the printed form "
            "(Model/Listing.v, hand model of assemble_and_print's text, compared character by character with the real "
            "--stdout --code / --data output): a strict reader of the format gets back exactly the words printed and "
            "decoding them gives back the instructions, and the Logisim data image reads as data_start-1 zero cells, the "
            "next free cell and the data cells, cell i at address data_start+i, for every data start and cell list. End-to-end oracle "
            "on the real tool: `hera assemble --stdout` output executed by the word machine (evaluated in Coq) vs "
            "`hera --throttle`, byte-identical output with debugging ops added, disassemble/re-assemble.",
            "trusted: Spec/WordMachine.v, Spec/EncTable.v, Spec/ISA.v, Model/Run.v, Model/Bitvec.v, Model/Listing.v; the "
            "preprocessor's layout is covered by C04's check"),
    "C08": ("Coq theorems: for every operation class that expands to instructions and every operand list the checker "
            "accepts (registers 0..15, literals, symbols bound to labels < 65536 / data labels / constants), the "
            "substitution and convert() (regenerated) succeed and every resulting real operation denotes an "
            "instruction whose operands fit their machine fields (valid_instr); relative label branches accepted by "
            "convert_ops carry an in-range distance; such instructions assemble to their table word (C05) and execute "
            "from well-formed states without raising, for runs of any length (C02). At program level: in an accepted "
            "program the symbol table each operation is type-checked against is contained, binding for binding, in the "
            "table the preprocessor substitutes from (names are declared once; bindings never change) — so the values "
            "that were range-checked are the values that reach the instructions; code labels are addresses below 2^16; and "
            "hence every instruction-producing operation of an accepted program (tokens as the parser builds them; a "
            "relative branch naming a label goes through C08_rel_label_valid instead) is substituted from the final table "
            "without a missing symbol, expands without raising and yields only instructions whose operands fit their "
            "machine fields (C08_accepted_program_op_valid). The rest of the composition through "
            "checker.check() is hand-modelled (Model/Preproc.v, differential) and exercised on the real tool in "
            "run/assemble/preprocess mode: assemble->disassemble identity of every emitted operation, no internal "
            "exception in run, assemble (--code/--data), preprocess (--obfuscate).",
            "trusted: Model/Preproc.v, tokens as the parser builds them (tok_wf), no user __eval"),
    "C09": ("PARTIAL proof. Coq theorems: the P tuples regenerated from hera/op.py equal the hand-written documented "
            "signature table (operand counts, kinds, both ends of every range) for every operation; an operand is "
            "accepted iff it conforms to its documented kind, for all integers, all token kinds and every binding of "
            "a symbol; hence an operation passes the generic type-check iff it has exactly the documented operands; "
            "each step of the program-level check reports an error iff the operation is rejected, or is data after "
            "code, an interrupt where unsupported, or a debugging op under --no-debug-ops; a whole program is accepted "
            "iff no symbol is redeclared, the layout pass reports nothing and every operation passes those rules with "
            "the constants declared before it (no other source of rejection). Far branches are C04/C08. The Preproc "
            "model itself is tied by correspondence on an enumerated grid (complete in the thorough tier) against an "
            "independent re-implementation of the documented rules.",
            "trusted: Model/Preproc.v (differential on the grid), Spec/Signature.v, the oracle in tools/props/C09.py"),
    "C11": ("Coq theorems over the hand models of the interpreter loop (Model/Run.v) and of Debugger.next / real_ops / "
            "finished and the next/step/continue handlers (Model/Debugger.v), executing the operation semantics "
            "regenerated from hera/op.py: executing the real operations of one source operation in list order is "
            "exactly that many iterations of the interpreter's fetch-execute loop (slice_runs), and by induction over "
            "any list of next / next n / step / continue commands that reaches the end, the debugger's machine is a "
            "state of the interpreter's run from the same initial machine and, being finished, its final one: "
            "registers, flags, memory, pc, halt status, call stack, output and warnings. The structural hypothesis "
            "(only the last operation of an expansion branches) is proved per class in C12 and evaluated in Coq on "
            "every program the check loads. Models tied by session correspondence (real Shell.handle_command vs "
            "Model/Session after every command); implementation-level oracle: real debugger vs an independent "
            "source-level trace and vs VirtualMachine.run under --big-stack/--init/--warn-return-off mixes.",
            "trusted: Model/Run.v, Model/Debugger.v, Model/Session.v (hand models, differential); settings plumbing "
            "is covered by the correspondence and the oracle, not by the theorem"),
    "C12": ("Coq theorems: in the expansion convert() (regenerated) gives for any source operation, every real "
            "operation but the last is SETLO/SETHI/FON/FOFF; the operations `next` executes are exactly the remaining "
            "real operations of the current source operation (all share its identity, the following one does not); "
            "`next` off a CALL executes exactly that slice; `next n` unfolds to n `next`s stopping only at the end; "
            "`continue` takes at least one source-operation step and stops at the first state that is finished or on "
            "a breakpoint, no earlier; `next` on a CALL stops at the first state whose call depth is back, or that is "
            "on a breakpoint or finished, no earlier (nested and recursive calls included). Session correspondence as "
            "C11; oracle: stop points and the line the shell shows vs the independent source-level trace.",
            "trusted: Model/Debugger.v, Model/Session.v; op.original identity is modelled by an index supplied by the "
            "harness; location resolution and print_current_op are covered by the oracle only"),
    "C13": ("Coq theorems at two levels. Object level, on tables regenerated from vm.py / debugger.py / shell.py: "
            "every machine attribute holding a mutable container is duplicated by VirtualMachine.copy(), "
            "Debugger.save() duplicates the machine and the breakpoint table, the only other attribute commands "
            "change is the immutable call counter, and exactly the eleven state-changing handlers are @mutates "
            "(undo is not). Value level, on Model/Session.v: after any state-changing command undo returns the "
            "whole previous session (machine, breakpoints, call depth, remaining history); n undos after n "
            "commands return to the initial session; undo with empty history is the identity; read-only commands "
            "change nothing; restart yields exactly the freshly started machine (reset + data statements), keeps the "
            "breakpoints and clears the call depth. Session correspondence compares every saved snapshot; oracle on "
            "the real shell: command+undo vs before (all snapshots, `info` text), undo to the start, restart vs fresh.",
            "trusted: Model/Debugger.v, Model/Session.v; nested containers inside attributes would escape the "
            "object-level tables (none exist: ints and tuples only)"),
    "C14": ("PARTIAL proof. Coq theorems. Expression language (complete): whatever the Pratt parser (hand model of "
            "miniparser.py, precedences regenerated from source) accepts at precedence p is a sum / product / unary "
            "expression of the textbook stratified left-associative grammar with exactly the tree that grammar assigns; every "
            "derivation of that grammar is found by the parser, and every expression tree written with the usual minimal "
            "parentheses is read back as that tree (parse o render = id); the evaluator (hand model of Shell.evaluate_node) "
            "returns v iff the expression means v in ordinary integer arithmetic with every literal and intermediate result "
            "in -32768..65535 and no zero divisor, and reports an error iff it has no such meaning. Shell: on the session "
            "model, from a well-formed machine no stepping / breakpoint / flag / goto / restart / assignment / undo / "
            "read-only command raises an internal error (it returns, or the debugged program's own non-termination exhausts "
            "the fuel). What is shown: every numeric form format_int prints for a 16-bit value (Model/Format.v, hand model of "
            "utils.format_int compared with the real function on sampled values x specifier strings) reads back, as an "
            "integer literal, to that value - the signed form exactly when the sign bit is set, to the two's-complement "
            "reading (finite sweep over all 65536 values). NOT theorems: message printing, location resolution and `execute` on the real shell, arbitrary text "
            "lines - decided by the survival oracle (all commands, abbreviations, operand counts and arbitrary text in "
            "start/middle/finished/pc-outside states) and the session correspondence.",
            "trusted: Model/MiniParser.v, Model/Session.v, Model/Format.v, Spec/ExprGrammar.v, Spec/ExprSpec.v, the real lexer (tokens "
            "handed to the model)"),
    "C07": ("PARTIAL proof. Coq theorems on hand models tied to the code by correspondence: the lexer (Model/Lexer.v, which "
            "records a read past the end of the text instead of excluding it) never reads past the end, consumes at least "
            "one character per token and produces EOF after at most n+1 tokens, for every text; conditional compilation "
            "is a total line-preserving function; include processing terminates on every include graph (the stack of "
            "files being parsed never repeats a file). NOT theorems: the parser's error recovery, type checking and "
            "preprocessing of ill-formed operations — decided by the survival oracle (no uncaught exception, no timeout) "
            "over generated, mutated and truncated texts in all four modes.",
            "trusted: Model/Lexer.v (ASCII), Model/Ifdef.v, Model/Include.v; survival oracle for the rest"),
    "C10": ("PARTIAL proof. Coq theorem: what the printer writes for a string operand (Model/Printer.v, hand model of "
            "op.string_literal) is read back by the lexer (Model/Lexer.v) as exactly that string, for every string of "
            "characters, in any following context, with no warning (induction over the string, all escape forms); the "
            "OPCODE words of --obfuscate are the C05 codec theorems; every integer operand of the range -32768..65535 as "
            "printed (str(value)) and every instruction word as printed by --obfuscate (0x...) is read back by the parser's "
            "integer reader (Model/IntLit.v, hand model of match_value/match_int, compared with the real parser on literal "
            "spellings in all bases) as the same value, and the word decodes to the instruction. NOT theorems: register/symbol printing, the "
            "listing format and the whole-program fixed point — decided by the round-trip oracle on the real tool "
            "(listing fed back: accepted, identical listing, identical assembled words; --obfuscate: identical words).",
            "trusted: Model/Printer.v, Model/Lexer.v, Model/IntLit.v; round-trip oracle"),
    "C16": ("PARTIAL proof. Coq theorems: for every well-nested conditional structure (any depth, #ifdef/#ifndef, with or "
            "without #else, arbitrary text in discarded regions) the keep-stack machine of evaluate_ifdefs (Model/Ifdef.v, "
            "line-level) outputs exactly what a C preprocessor with only HERA_PY defined keeps, compositionally inside any "
            "context; include processing (Model/Include.v, abstract) terminates on every include graph, reports an include "
            "of a file that is being parsed at that directive and goes on, splices any other file in place whether or "
            "not it was included before, and - when no cycle is reported - yields exactly the plain textual splice. NOT theorems: path resolution (dirname/join/realpath), read errors, attribution of "
            "diagnostics to the included file — decided by the include oracle on generated directory trees (nested "
            "directories, diamonds, cycles of any length, ./ and ../ spellings, missing files).",
            "trusted: Model/Ifdef.v, Model/Include.v, Spec/CondSpec.v; include oracle"),
    "C17": ("PARTIAL proof. Coq theorems: the line and column recorded in every token are those of its first character "
            "(1 + newlines before it, 1 + characters since the last newline), for every text - comments, tabs, multi-line "
            "constructs included (every lexer state is the text advanced by k <= n characters); conditional compilation "
            "keeps every surviving line unchanged at its line number; the type checker (Model/Preproc.v) attaches every "
            "operand fault to that operand's token - and reports every faulty operand - and a wrong operand count to the "
            "operation; the white space printed in front of the caret (Model/Caret.v) brings it to the display column of "
            "the reported character for every distance between tab stops. NOT theorems: parser diagnostics, which line "
            "is quoted, attribution inside included files, run-time warnings - decided by the planted-fault oracle (15 "
            "fault kinds x random layout incl. tabs inside the line), a check of the diagnostic as printed, and an "
            "implementation-only check that the text at every reported line:column is the token.",
            "trusted: Model/Lexer.v, Model/Ifdef.v, Model/Preproc.v (differential incl. the attachment of every message), "
            "Model/Caret.v (differential against align_caret and str.expandtabs); planted-fault oracle"),
    "C18": ("PARTIAL proof. Coq theorems on the hand model of parse_args (Model/Cli.v; FLAGS and PICKY_FLAGS regenerated "
            "from hera/main.py): an accepted argument vector has exactly the settings its flags denote — none of the "
            "informational flags, every mode-specific flag compatible with the chosen mode, not both --quiet and --verbose, "
            "a well-formed --init; an argument that looks like a flag but is none is refused on the spot; a --throttle "
            "value that is not a decimal number is refused in both syntaxes, and an accepted one is a natural number; the "
            "two spellings `--throttle=v` / `--throttle v` (and `--init=v` / `--init v`) continue the flag loop identically "
            "for every text v; after a bare -- every argument is a file name taken as written "
            "(C18_after_dashdash_literal). NOT "
            "theorems: exit statuses 0/1/3, absence of tracebacks, stdout/stderr separation, the assemble files — decided "
            "by the oracle on hera.main.main over enumerated vectors x valid, invalid, warning-only, empty, hex, missing, "
            "directory, path-through-a-file, over-long name, non-ASCII and unwritable inputs, debugging sessions typed on "
            "standard input, and by comparing the two spellings of valued flags on the real parser.",
            "trusted: Model/Cli.v (differential on enumerated argument vectors), the oracle in tools/props/C18.py"),
    "C19": ("PARTIAL proof. Coq theorems on the hand model of the library's div/mod arithmetic (Model/Stdlib.v, shared by "
            "both calling conventions): for all 16-bit arguments div is signed division truncating towards zero and mod "
            "its remainder (sign of the dividend), a zero divisor gives zero, results are 16-bit words and "
            "divisor*quotient+remainder recomposes the dividend; and, on the specification machine of C01, the full "
            "contract for every machine state of twelve routines written in HERA assembly: size, ord, not and malloc in both "
            "calling conventions (result, return to the caller, FP restored, SP and the caller's registers unchanged, exactly "
            "which memory cells are written), `not` and the stack `malloc` being placed at an arbitrary address (their label "
            "branches are absolute); malloc is shown to refine a bump allocator on the cell 0x4000, and for that allocator "
            "the blocks handed out over ANY request sequence are pairwise disjoint and strictly inside the heap "
            "(C19_malloc_blocks_disjoint); these rest on C19_core_simulation (registers/memory/pc/flags of the Spec machine "
            "evolve independently of hera-py's bookkeeping) and on instruction lists compared with what the real loader "
            "produces from hera/stdlib.py at three load addresses. A routine with a loop: the word copy used by concat and "
            "substring is proved for EVERY count by induction (C19_memcpy_contract: memory becomes the forward copy, pointers "
            "advance, counter zero, return; C19_copy_moves_the_words / C19_copy_leaves_the_rest say what a forward copy between "
            "disjoint regions does). A routine that calls a routine: the register chr, in any program map holding chr and "
            "malloc, returns a fresh allocator block holding [1; c] (C19_chr_reg_contract; the callee's contract is reused "
            "inside the caller's run); the stack chr likewise, with two frames on the stack and the stack malloc as callee, for a "
            "stack that does not wrap and lies on one side of the heap (C19_chr_stack_contract). The register tstrcmp (a Python "
            "helper over memory, hand model Model/Stdlib.tstrcmp_reg tied by correspondence) is the lexicographic comparison of "
            "the two character lists for strings of any length (C19_tstrcmp_reg_is_lexicographic, _zero_iff_equal, "
            "_antisymmetric). The stack tstrcmp, HERA assembly with a loop and two early exits, is proved for every pair of "
            "strings by induction on the remaining length: the result cell receives a word whose sign is the lexicographic "
            "comparison, control returns, FP/SP/R1..R10 are restored and nothing outside the frame is written "
            "(C19_tstrcmp_stack_contract; carry-block on, lengths and characters below 2^15, strings outside the frame). "
            "NOT theorems: concat, substring "
            "(apart from their copy loop), the failure path of malloc "
            "(prints and exits) and the I/O functions — decided by running each "
            "function in both conventions on the real interpreter with edge/random arguments under random register "
            "contents (result vs independent computation, return to the caller, SP/FP restored, R1..R10 preserved in the "
            "stack convention, malloc blocks disjoint, returned strings inside their block, getchar_ord over several input "
            "lines).",
            "trusted: Model/Stdlib.v (differential on an edge grid + random words), the oracle in tools/props/C19.py; "
            "known finding D45 (stack getline)"),
}

checks = []
for pid, (text, note) in CLAIMED.items():
    checks.append({
        "property_id": pid,
        "quick_cmd": "./check %s --tier quick" % pid,
        "thorough_cmd": "./check %s --tier thorough" % pid,
        "evidence_file": "evidence/%s.json" % pid,
        "replay_cmd_template": "./check %s --replay {path}" % pid,
        "engine": "coq",
        "level_claimed": {"category": "proof", "text": text, "design_ref": "DESIGN.md §4 " + pid},
        "level_note": note,
        "technique": "machine-checked proof in Coq over a model regenerated from the source, plus differential correspondence",
    })

m = {
    "version": 1,
    "setup_cmd": "./setup.sh",
    "hooks": {"guard": "HERA_PY_VERIF",
              "enable": "no hooks are needed: every observation goes through hera-py's public Python API",
              "baseline_off_cmd": "cd /repo && /venv/bin/python -m pytest -q -p no:cacheprovider --timeout=900",
              "source_commits": [], "add_only": True},
    "engines": [{"name": "coq", "path": "coq", "serves_properties": sorted(CLAIMED),
                 "kind_free_text": "Coq 8.16.1 development: Lib (Python/VM semantics), Gen (regenerated from /repo by "
                                   "tools/translate), Spec, Model, Proofs, Properties"}],
    "checks": checks,
    "not_applicable": [{"property_id": p["id"],
                        "reason": "not claimed"}
                       for p in props if p["id"] not in CLAIMED],
    "notes": "see DESIGN.md; ./check <ID> [--tier quick|thorough]; VERIF_SEED, VERIF_REPO honoured",
}
json.dump(m, open(os.path.join(VERIF, "MANIFEST.json"), "w"), indent=1)
print("MANIFEST.json: %d checks, %d not claimed" % (len(checks), len(m["not_applicable"])))
