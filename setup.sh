#!/bin/bash
# Build the whole Coq development from /repo's current tree (offline).  On a tree that the translator refuses or on
# which a proof no longer goes through, everything that can be built is built and the script still ends normally: it
# is the checks that report what no longer checks.
cd "$(dirname "$0")"
export PYTHONHASHSEED=0 PYTHONDONTWRITEBYTECODE=1
mkdir -p work evidence
if /venv/bin/python tools/translate/gen.py --repo "${VERIF_REPO:-/repo}" --out coq/Gen; then
  mkdir -p work/gen_lastgood && cp coq/Gen/*.v work/gen_lastgood/
else
  echo "setup: the model could not be regenerated completely from this tree (the checks will report it)"
fi
cd coq
coq_makefile -f _CoqProject -o Makefile >/dev/null
timeout 7200 make -k -j16 || echo "setup: the build is incomplete on this tree (the checks will report it)"
exit 0
