#!/bin/bash
# Build the whole Coq development from /repo's current tree (offline).
set -e
cd "$(dirname "$0")"
export PYTHONHASHSEED=0 PYTHONDONTWRITEBYTECODE=1
mkdir -p work evidence
/venv/bin/python tools/translate/gen.py --repo "${VERIF_REPO:-/repo}" --out coq/Gen
cd coq
coq_makefile -f _CoqProject -o Makefile >/dev/null
timeout 7200 make -j16
