(* C10_IntLit.v — every integer operand reads back as printed: str(n) for the whole operand range -32768 .. 65535,
   and the hexadecimal word of the --obfuscate form.  Finite sweeps. *)
From Coq Require Import ZArith List Bool Lia.
From Hera.Lib Require Import Word16.
From Hera.Model Require Import Listing Format IntLit.
From Hera.Proofs Require Import C06_ListingSweep.
Import ListNotations.
Open Scope Z_scope.

Definition chk_int (n : Z) : bool := is_some_eq (read_value (print_int n)) n.
Definition chk_word (w : Z) : bool := is_some_eq (read_value (print_opcode_word w)) w.

Lemma int_sweep : forallb chk_int (zrange (-32768) 65536) = true.
Proof. vm_compute. reflexivity. Qed.
Lemma word_sweep : forallb chk_word (zrange 0 65536) = true.
Proof. vm_compute. reflexivity. Qed.

Lemma printed_int_reads_back n : -32768 <= n < 65536 -> read_value (print_int n) = Some n.
Proof. intros H. apply is_some_eq_spec. exact (range_forall chk_int _ _ int_sweep n H). Qed.

Lemma printed_word_reads_back w : 0 <= w < 65536 -> read_value (print_opcode_word w) = Some w.
Proof. intros H. apply is_some_eq_spec. exact (range_forall chk_word _ _ word_sweep w H). Qed.

(* the --obfuscate form of an instruction: its word printed as OPCODE(0x...) reads back and decodes to it *)
From Hera.Spec Require Import ISA EncTable.
From Hera.Proofs Require Import C06_Decode C06_Listing.

Lemma obfuscated_instr_reads_back i : valid_instr i = true ->
  match read_value (print_opcode_word (word_of i)) with Some w => decode_word w | None => None end = Some (canon i).
Proof.
  intros H. rewrite printed_word_reads_back by (apply word_of_word; exact H). now apply decode_word_encode.
Qed.

(* registers as printed read back *)
Definition chk_reg (n : Z) : bool := is_some_eq (register_to_index (print_register n)) n.
Lemma reg_sweep : forallb chk_reg (zrange 0 16) = true.
Proof. vm_compute. reflexivity. Qed.
Lemma printed_register_reads_back n : 0 <= n < 16 -> register_to_index (print_register n) = Some n.
Proof. intros H. apply is_some_eq_spec. exact (range_forall chk_reg _ _ reg_sweep n H). Qed.
