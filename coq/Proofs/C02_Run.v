(* C02_Run.v — the interpreter's main loop: from reset, through the data statements and any
   number of loop iterations, every state is well-formed, every fetch is inside the program,
   and no exception is raised (for any amount of fuel). *)
From Coq Require Import ZArith List Bool String Lia ZifyBool.
From Hera.Lib Require Import Py Machine Word16.
From Hera.Gen Require Import Utils Vm Ops.
From Hera.Spec Require Import ISA Wf.
From Hera.Model Require Import InstrOf Run.
From Hera.Proofs Require Import VmLemmas Tactics SpecLemmas C01_ALU C01_Misc C01_All C02_Step C02_Exec.
Import ListNotations.
Open Scope Z_scope.

(* ---- what the checker guarantees about the code of an accepted program (no __eval) ------ *)
Definition code_op_ok (o : rop) : Prop :=
  (exists zs i, r_args o = map PI zs /\ instr_of (r_op o) zs = Some i /\
                valid_instr i = true /\ runnable i = true)
  \/ (r_op o = O_PRINT_REG /\ exists r, r_args o = [PI r] /\ reg_ix r)
  \/ ((r_op o = O_PRINT \/ r_op o = O_PRINTLN) /\ exists str, r_args o = [PS str]).

Definition code_ok (code : list rop) : Prop := Forall code_op_ok code /\ zlen code <= 65535.

(* ---- debugging operations --------------------------------------------------------------- *)
Lemma exec_PRINT_REG_wf s r : wf_vm s -> reg_ix r ->
  exists s', exec_PRINT_REG [PI r] s = Ok (tt, s') /\ wf_vm s' /\ op_count s' = op_count s.
Proof.
  intros W Hr. pose proof (wf_r _ W) as [Hl _]. unfold exec_PRINT_REG.
  astep. mstep ltac:(apply vm_load_register_ok; assumption). astep.
  mstep reflexivity. mstep reflexivity. mstep reflexivity.
  eexists. split; [reflexivity|]. split; [apply wf_upd_pc, wf_upd_out, W|reflexivity].
Qed.
Lemma exec_PRINT_wf s str : wf_vm s ->
  exists s', exec_PRINT [PS str] s = Ok (tt, s') /\ wf_vm s' /\ op_count s' = op_count s.
Proof.
  intros W. unfold exec_PRINT. astep. mstep reflexivity. mstep reflexivity. mstep reflexivity.
  eexists. split; [reflexivity|]. split; [apply wf_upd_pc, wf_upd_out, W|reflexivity].
Qed.
Lemma exec_PRINTLN_wf s str : wf_vm s ->
  exists s', exec_PRINTLN [PS str] s = Ok (tt, s') /\ wf_vm s' /\ op_count s' = op_count s.
Proof.
  intros W. unfold exec_PRINTLN. astep. mstep reflexivity. mstep reflexivity. mstep reflexivity.
  eexists. split; [reflexivity|]. split; [apply wf_upd_pc, wf_upd_out, W|reflexivity].
Qed.

Lemma code_op_wf o s : code_op_ok o -> wf_vm s -> pc_ok s ->
  exists s', exec (r_op o) (r_args o) s = Ok (tt, s') /\ wf_vm s' /\ op_count s' = op_count s.
Proof.
  intros [(zs & i & Ea & Hi & Hv & Hr) | [(Eo & r & Ea & Hr) | (Eo & str & Ea)]] W Hp.
  - rewrite Ea. eapply exec_wf; eassumption.
  - rewrite Eo, Ea. cbv beta iota delta [exec]. now apply exec_PRINT_REG_wf.
  - rewrite Ea. destruct Eo as [-> | ->]; cbv beta iota delta [exec];
      [apply exec_PRINT_wf | apply exec_PRINTLN_wf]; exact W.
Qed.

(* ---- one loop iteration --------------------------------------------------------------------- *)
Lemma nth_in_code (code : list rop) k : 0 <= k < zlen code ->
  py_getitem dummy_rop code (PI k) = Ok (nth (Z.to_nat k) code dummy_rop) /\
  In (nth (Z.to_nat k) code dummy_rop) code.
Proof.
  intros Hk. unfold py_getitem. cbn [as_int]. rewrite norm_index_in by exact Hk.
  split; [reflexivity|]. apply nth_In. unfold zlen in Hk. lia.
Qed.

Lemma fetch_exec_wf code s : code_ok code -> wf_vm s -> 0 <= pc s < zlen code ->
  exists s', fetch_exec code s = Ok (tt, s') /\ wf_vm s' /\ op_count s' = op_count s.
Proof.
  intros [Hall Hlen] W Hp. unfold fetch_exec.
  destruct (nth_in_code code (pc s) Hp) as [Eg Hin].
  mstep reflexivity.
  mstep ltac:(unfold lift; rewrite Eg; reflexivity).
  mstep reflexivity.
  rewrite Forall_forall in Hall.
  destruct (code_op_wf (nth (Z.to_nat (pc s)) code dummy_rop) (upd_location (r_loc (nth (Z.to_nat (pc s)) code dummy_rop)) s))
    as (s' & E & W' & O'); [apply Hall, Hin | apply wf_upd_location, W | unfold pc_ok; cbn; lia|].
  exists s'. split; [exact E|]. split; [exact W'|exact O'].
Qed.

Definition guard_true (code : list rop) (s : vm) : bool :=
  negb (flag (halted s)) && (0 <=? pc s) && (pc s <? zlen code).

Lemma run_guard_ok code s : wf_vm s ->
  exists g, run_guard (PI (zlen code)) s = Ok (g, s) /\ truthy g = guard_true code s.
Proof.
  intros W. destruct (wf_halted _ W) as [h Eh]. unfold run_guard, guard_true, flag.
  mstep reflexivity. mstep reflexivity. rewrite Eh. unfold ret.
  eexists. split; [reflexivity|].
  unfold py_and, py_not, py_le, py_lt; cbn [truthy negb as_int].
  destruct h; cbn [negb andb truthy]; [reflexivity|].
  destruct (0 <=? pc s); cbn [truthy andb]; reflexivity.
Qed.

(* the result of one iteration on a well-formed state: either the loop ends (guard false) or
   one instruction is fetched from INSIDE the program and executed, giving a well-formed
   state; never an exception *)
Lemma loop_step_ok code s : code_ok code -> wf_vm s ->
  (guard_true code s = false /\ loop_step code s = Ok None) \/
  (guard_true code s = true /\ 0 <= pc s < zlen code /\
   exists s', loop_step code s = Ok (Some s') /\ wf_vm s').
Proof.
  intros C W. destruct (run_guard_ok code s W) as (g & Eg & Tg).
  unfold loop_step. rewrite Eg, Tg.
  destruct (guard_true code s) eqn:G; [right|left; split; reflexivity].
  assert (Hp : 0 <= pc s < zlen code) by (unfold guard_true in G; lia).
  split; [reflexivity|]. split; [exact Hp|].
  destruct (fetch_exec_wf code s C W Hp) as (s' & E & W' & _).
  rewrite E. eexists. split; [reflexivity|exact W'].
Qed.

Theorem iter_wf code : code_ok code -> forall fuel s, wf_vm s ->
  Forall wf_vm (visited (loop_step code) fuel s) /\
  match iter (loop_step code) fuel s with
  | Ok s' => wf_vm s'
  | Raise OutOfFuel => True
  | Raise _ => False
  end.
Proof.
  intros C. induction fuel as [|f IH]; intros s W; cbn [visited iter].
  - split; [constructor; [exact W|constructor]|exact I].
  - destruct (loop_step_ok code s C W) as [[_ E] | (_ & _ & s' & E & W')]; rewrite E.
    + split; [constructor; [exact W|constructor]|exact W].
    + destruct (IH s' W') as [H1 H2]. split; [constructor; assumption|exact H2].
Qed.

(* no instruction is ever fetched from outside the program *)
Theorem fetch_in_program code s s' : code_ok code -> wf_vm s ->
  loop_step code s = Ok (Some s') -> 0 <= pc s < zlen code.
Proof.
  intros C W E. destruct (loop_step_ok code s C W) as [[_ E'] | (_ & Hp & _)]; [congruence|exact Hp].
Qed.

(* ---- the throttled loop -------------------------------------------------------------------- *)
Lemma run_guard_throttled_ok code n s : wf_vm s ->
  exists g, run_guard_throttled (PI (zlen code)) (PI n) s = Ok (g, s) /\
            truthy g = guard_true code s && (op_count s <? n).
Proof.
  intros W. destruct (wf_halted _ W) as [h Eh]. unfold run_guard_throttled, guard_true, flag.
  mstep reflexivity. mstep reflexivity. mstep reflexivity. rewrite Eh. unfold ret.
  eexists. split; [reflexivity|].
  unfold py_and, py_not, py_le, py_lt; cbn [truthy negb as_int].
  destruct h; cbn [negb andb truthy]; [reflexivity|].
  destruct (0 <=? pc s); cbn [truthy andb]; [|reflexivity].
  destruct (pc s <? zlen code); cbn [truthy andb]; reflexivity.
Qed.

Lemma loop_step_throttled_ok code n s : code_ok code -> wf_vm s ->
  (loop_step_throttled n code s = Ok None) \/
  (0 <= pc s < zlen code /\ op_count s < n /\
   exists s', loop_step_throttled n code s = Ok (Some s') /\ wf_vm s' /\ op_count s' = op_count s + 1).
Proof.
  intros C W. destruct (run_guard_throttled_ok code n s W) as (g & Eg & Tg).
  unfold loop_step_throttled. rewrite Eg, Tg.
  destruct (guard_true code s && (op_count s <? n)) eqn:G; [right|left; reflexivity].
  assert (Hp : 0 <= pc s < zlen code) by (unfold guard_true in G; lia).
  split; [exact Hp|]. split; [lia|].
  destruct (fetch_exec_wf code s C W Hp) as (s' & E & W' & O').
  mstep ltac:(exact E). mstep reflexivity.
  eexists. split; [reflexivity|]. split; [apply wf_upd_op_count, W'|].
  pynorm. cbn [op_count upd_op_count]. lia.
Qed.

Theorem iter_throttled_wf code n : code_ok code -> forall fuel s, wf_vm s ->
  Forall wf_vm (visited (loop_step_throttled n code) fuel s) /\
  match iter (loop_step_throttled n code) fuel s with
  | Ok s' => wf_vm s'
  | Raise OutOfFuel => True
  | Raise _ => False
  end.
Proof.
  intros C. induction fuel as [|f IH]; intros s W; cbn [visited iter].
  - split; [constructor; [exact W|constructor]|exact I].
  - destruct (loop_step_throttled_ok code n s C W) as [E | (_ & _ & s' & E & W' & _)]; rewrite E.
    + split; [constructor; [exact W|constructor]|exact W].
    + destruct (IH s' W') as [H1 H2]. split; [constructor; assumption|exact H2].
Qed.
