(* C14_Expr.v — the evaluator computes exactly the specified meaning of an expression, and
   reports an error in every other case. *)
From Coq Require Import ZArith List Bool Lia.
From Hera.Lib Require Import Py Machine.
From Hera.Spec Require Import ISA ExprSpec.
From Hera.Model Require Import MiniParser.
Import ListNotations.
Open Scope Z_scope.

Lemma oor_false v : oor v = false <-> in16 v.
Proof. unfold oor, in16. lia. Qed.

Theorem eval_exact s st e v : eval s st e = Some v <-> evals s st e v.
Proof.
  split.
  - revert v. induction e as [x|r|name|a IH|a IH|o l IHl r IHr]; intros v H; cbn [eval] in H.
    + destruct (oor x) eqn:E; [discriminate H|]. injection H as <-. constructor. now apply oor_false.
    + injection H as <-. constructor.
    + destruct (is_pc name) eqn:E; [injection H as <-; now constructor|]. now apply ev_sym.
    + destruct (eval s st a) as [addr|]; [|discriminate H]. injection H as <-. constructor. now apply IH.
    + destruct (eval s st a) as [x|]; [|discriminate H]. destruct (oor (- x)) eqn:E; [discriminate H|].
      injection H as <-. constructor; [now apply IH|now apply oor_false].
    + destruct (eval s st l) as [x|]; [|discriminate H]. destruct (eval s st r) as [y|]; [|discriminate H].
      destruct o.
      * destruct (oor (x + y)) eqn:E; [discriminate H|]. injection H as <-.
        apply (ev_bin s st OpAdd l r x y); auto; [discriminate|now apply oor_false].
      * destruct (oor (x - y)) eqn:E; [discriminate H|]. injection H as <-.
        apply (ev_bin s st OpSub l r x y); auto; [discriminate|now apply oor_false].
      * destruct (oor (x * y)) eqn:E; [discriminate H|]. injection H as <-.
        apply (ev_bin s st OpMul l r x y); auto; [discriminate|now apply oor_false].
      * destruct (y =? 0) eqn:Ey; [discriminate H|]. destruct (oor (x / y)) eqn:E; [discriminate H|].
        injection H as <-. apply (ev_bin s st OpDiv l r x y); auto; [intros _; lia|now apply oor_false].
  - induction 1; cbn [eval].
    + apply oor_false in H. now rewrite H.
    + reflexivity.
    + now rewrite H.
    + now rewrite H.
    + now rewrite IHevals.
    + rewrite IHevals. apply oor_false in H0. now rewrite H0.
    + rewrite IHevals1, IHevals2. apply oor_false in H2. destruct o; cbn [apply_op] in *; rewrite ?H2; try reflexivity.
      destruct (y =? 0) eqn:Ey; [exfalso; apply H1; [reflexivity|lia]|reflexivity].
Qed.

(* hence an error (None) is reported exactly when the expression has no meaning: some literal or
   intermediate result leaves -32768..65535, a divisor is zero, or a symbol is undefined *)
Corollary eval_error_iff s st e : eval s st e = None <-> forall v, ~ evals s st e v.
Proof.
  split.
  - intros H v Hv. apply eval_exact in Hv. congruence.
  - intros H. destruct (eval s st e) as [v|] eqn:E; [|reflexivity]. exfalso. apply (H v). now apply eval_exact.
Qed.

Corollary evals_fun s st e v1 v2 : evals s st e v1 -> evals s st e v2 -> v1 = v2.
Proof. intros H1 H2. apply eval_exact in H1, H2. congruence. Qed.
