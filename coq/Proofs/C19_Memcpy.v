(* C19_Memcpy.v — the word-copy loop of the stack-convention library
   (tstdlib_label_local_memcpy_reg, used by concat and substring), placed at any address: for
   EVERY count it performs exactly the forward copy [copy], advances both pointers by the count,
   zeroes the counter, returns to its caller and touches nothing else.  The loop is handled by
   induction on the count, so there is no bound on the number of iterations; [copy_spec] then says
   what a forward copy between disjoint regions does to memory. *)
From Coq Require Import ZArith List Bool Lia.
From Hera.Lib Require Import Py Machine Word16.
From Hera.Spec Require Import ISA Wf.
From Hera.Proofs Require Import SpecLemmas SpecCore.
Import ListNotations.
Open Scope Z_scope.

Definition memcpy_code (base : Z) : list instr :=
  [I_ADD 4 11 0; I_OR 0 0 3; I_SETLO 11 ((base + 13) mod 256); I_SETHI 11 ((base + 13) / 256); I_B cBZ 11;
   I_LOAD 11 0 1; I_INC 1 1; I_STORE 11 0 2; I_INC 2 1; I_DEC 3 1;
   I_SETLO 11 ((base + 1) mod 256); I_SETHI 11 ((base + 1) / 256); I_B cBR 11;
   I_ADD 11 4 0; I_RETURN 12 13].

(* the abstract operation: copy n words from s upwards to d upwards, lowest address first *)
Fixpoint copy (m : pmem) (s d : Z) (n : nat) : pmem :=
  match n with
  | O => m
  | S k => copy (mem_write m d (mem_read m s)) ((s + 1) mod 65536) ((d + 1) mod 65536) k
  end.

Lemma crun_app base code n1 : forall n2 c c1 c2,
  crun_at base code n1 c = Some c1 -> crun_at base code n2 c1 = Some c2 ->
  crun_at base code (n1 + n2) c = Some c2.
Proof.
  induction n1 as [|k IH]; intros n2 c c1 c2 E1 E2.
  - injection E1 as <-. exact E2.
  - cbn [crun_at Nat.add] in *. destruct (fetch base code (cpc c)) as [i|]; [|discriminate E1].
    destruct (cstep i c) as [c'|]; [|discriminate E1]. exact (IH n2 c' c1 c2 E1 E2).
Qed.

Lemma wmod x : 0 <= x < 65536 -> (x + 0) mod 65536 = x.
Proof. intros H. rewrite Z.add_0_r. apply Z.mod_small, H. Qed.

(* ---- the loop, from its head, for any count --------------------------------------------------------------- *)
Lemma memcpy_loop base : 0 <= base -> base + 14 < 65536 ->
  forall k r m fS fZ fV fC fCB,
  r 0 = 0 -> 0 <= r 1 < 65536 -> 0 <= r 2 < 65536 -> r 3 = Z.of_nat k -> Z.of_nat k < 65536 ->
  exists n c', crun_at base (memcpy_code base) n (mkcore r m (base + 1) fS fZ fV fC fCB) = Some c' /\
    cpc c' = base + 13 /\ cmem c' = copy m (r 1) (r 2) k /\
    cr c' 1 = (r 1 + Z.of_nat k) mod 65536 /\ cr c' 2 = (r 2 + Z.of_nat k) mod 65536 /\ cr c' 3 = 0 /\
    cr c' 0 = 0 /\ cCB c' = fCB /\
    (forall j, j <> 1 -> j <> 2 -> j <> 3 -> j <> 11 -> cr c' j = r j).
Proof.
  intros Hb Hb2. induction k as [|k IH]; intros r m fS fZ fV fC fCB R0 R1 R2 R3 Hk.
  - (* count 0: the test fails at once *)
    change (Z.of_nat 0) with 0 in *.
    exists 4%nat. eexists. split.
    + cgo 1%nat. rewrite R0, R3. zeval. cgo 2%nat. cgo 3%nat. cgo 4%nat.
      rewrite (set_value (base + 13)) by lia. reflexivity.
    + cbn [cr cpc cmem cCB copy]. cbn [Z.eqb Pos.eqb]. rewrite R3, !Z.add_0_r, !Z.mod_small by lia.
      repeat split; try reflexivity; try assumption.
      intros j J1 J2 J3 J11. destruct (j =? 11) eqn:E; [lia|reflexivity].
  - (* count k+1: one iteration, then the induction hypothesis *)
    assert (N3 : Z.lor (r 0) (r 3) =? 0 = false).
    { rewrite R0. change (Z.lor 0 (r 3)) with (r 3). lia. }
    eassert (E9 : crun_at base (memcpy_code base) 12 (mkcore r m (base + 1) fS fZ fV fC fCB) = Some _).
    { cgo 1%nat. rewrite N3. cgo 2%nat. cgo 3%nat. cgo 4%nat.
      cgo 5%nat. cgo 6%nat. cgo 7%nat. cgo 8%nat. cgo 9%nat. cgo 10%nat. cgo 11%nat. cgo 12%nat.
      rewrite (set_value (base + 1)) by lia. reflexivity. }
    match type of E9 with _ = Some (mkcore ?r' ?m' _ ?a ?b ?c ?d ?e) =>
      destruct (IH r' m' a b c d e) as (n & c' & E & Q1 & Q2 & Q3 & Q4 & Q5 & Q6 & Q7 & Q8)
    end.
    + cbn [Z.eqb Pos.eqb]. exact R0.
    + cbn [Z.eqb Pos.eqb]. apply Z.mod_pos_bound. lia.
    + cbn [Z.eqb Pos.eqb]. apply Z.mod_pos_bound. lia.
    + cbn [Z.eqb Pos.eqb]. rewrite R3, Z.mod_small by lia. lia.
    + lia.
    + exists (12 + n)%nat, c'. split; [exact (crun_app _ _ _ _ _ _ _ E9 E)|].
      cbn [Z.eqb Pos.eqb] in Q2, Q3, Q4, Q8. rewrite !wmod in Q2 by lia.
      repeat split; try assumption.
      * rewrite Q3. rewrite Zplus_mod_idemp_l. f_equal. lia.
      * rewrite Q4. rewrite Zplus_mod_idemp_l. f_equal. lia.
      * intros j J1 J2 J3 J11. rewrite (Q8 j J1 J2 J3 J11).
        repeat match goal with |- context [j =? ?x] => destruct (j =? x) eqn:?; try lia end; reflexivity.
Qed.

(* ---- the whole routine ------------------------------------------------------------------------------------- *)
Lemma memcpy_core base r m fS fZ fV fC fCB :
  0 <= base -> base + 14 < 65536 -> r 0 = 0 -> 0 <= r 1 < 65536 -> 0 <= r 2 < 65536 -> 0 <= r 3 < 65536 ->
  0 <= r 11 < 65536 ->
  exists n c', crun_at base (memcpy_code base) n (mkcore r m base fS fZ fV fC fCB) = Some c' /\
    cmem c' = copy m (r 1) (r 2) (Z.to_nat (r 3)) /\
    cr c' 1 = (r 1 + r 3) mod 65536 /\ cr c' 2 = (r 2 + r 3) mod 65536 /\ cr c' 3 = 0 /\
    cpc c' = r 13 /\ cr c' 14 = r 12 /\ cr c' 15 = r 15 /\
    (forall j, 5 <= j <= 10 -> cr c' j = r j) /\
    (fCB = true -> cr c' 11 = r 11).
Proof.
  intros Hb Hb2 R0 R1 R2 R3 R11.
  eassert (E1 : crun_at base (memcpy_code base) 1 (mkcore r m base fS fZ fV fC fCB) = Some _).
  { cgo 0%nat. reflexivity. }
  match type of E1 with _ = Some (mkcore ?r' ?m' _ ?a ?b ?c ?d ?e) =>
    destruct (memcpy_loop base Hb Hb2 (Z.to_nat (r 3)) r' m' a b c d e)
      as (n & c1 & E & Q1 & Q2 & Q3 & Q4 & Q5 & Q6 & Q7 & Q8)
  end; cbn [Z.eqb Pos.eqb]; try assumption; try lia.
  cbn [Z.eqb Pos.eqb] in Q2, Q3, Q4, Q8.
  destruct c1 as [r1 m1 p1 gS gZ gV gC gCB]. cbn [cr cmem cpc cCB] in *. subst p1.
  eassert (E2 : crun_at base (memcpy_code base) 2 (mkcore r1 m1 (base + 13) gS gZ gV gC gCB) = Some _).
  { cgo 13%nat. cgo 14%nat. reflexivity. }
  eexists. eexists. split; [exact (crun_app _ _ _ _ _ _ _ (crun_app _ _ _ _ _ _ _ E1 E) E2)|].
  cbn [cr cmem cpc]. cbn [Z.eqb Pos.eqb]. rewrite Z2Nat.id in Q3, Q4 by lia.
  repeat split; try assumption.
  - apply Q8; lia.
  - rewrite (Q8 12) by lia. reflexivity.
  - apply Q8; lia.
  - intros j Hj. repeat match goal with |- context [j =? ?x] => destruct (j =? x) eqn:?; try lia end.
    rewrite Q8 by lia. destruct (j =? 4) eqn:?; [lia|reflexivity].
  - intros CB. subst gCB. rewrite CB, Q6, (Q8 4) by lia. cbn [andb negb Z.eqb Pos.eqb].
    rewrite CB, R0. cbn [andb negb]. rewrite !andb_false_r, !Z.add_0_r, Z.mod_mod by lia. apply Z.mod_small; lia.
Qed.

Lemma lo_hi_ok x : 0 <= x < 65536 -> in_range (-128) 256 (x mod 256) = true /\ in_range (-128) 256 (x / 256) = true.
Proof.
  intros H. unfold in_range. pose proof (Z.mod_pos_bound x 256).
  assert (0 <= x / 256) by (apply Z.div_pos; lia).
  assert (x / 256 < 256) by (apply Z.div_lt_upper_bound; lia). lia.
Qed.

Lemma memcpy_code_valid base : 0 <= base -> base + 14 < 65536 ->
  Forall (fun i => valid_instr i = true) (memcpy_code base).
Proof.
  intros Hb Hb2. unfold memcpy_code.
  destruct (lo_hi_ok (base + 13)) as [A B]; [lia|]. destruct (lo_hi_ok (base + 1)) as [C D]; [lia|].
  repeat constructor; cbn [valid_instr reg_ok]; rewrite ?A, ?B, ?C, ?D; reflexivity.
Qed.

(* the routine on the specification machine itself, for every state, load address and count *)
Theorem memcpy_contract base s :
  0 <= base -> base + 14 < 65536 -> List.length (regs s) = 16%nat -> pc s = base -> getreg s 0 = 0 ->
  word (getreg s 1) -> word (getreg s 2) -> word (getreg s 3) -> word (getreg s 11) ->
  exists n s', run_at base (memcpy_code base) n s = Some s' /\
    mem s' = copy (mem s) (getreg s 1) (getreg s 2) (Z.to_nat (getreg s 3)) /\
    getreg s' 1 = (getreg s 1 + getreg s 3) mod 65536 /\ getreg s' 2 = (getreg s 2 + getreg s 3) mod 65536 /\
    getreg s' 3 = 0 /\ pc s' = getreg s 13 /\ getreg s' 14 = getreg s 12 /\ getreg s' 15 = getreg s 15 /\
    (forall j, 5 <= j <= 10 -> getreg s' j = getreg s j) /\
    (flag (f_cb s) = true -> getreg s' 11 = getreg s 11).
Proof.
  intros Hb Hb2 L P R0 W1 W2 W3 W11.
  destruct (memcpy_core base (getreg s) (mem s) (flag (f_s s)) (flag (f_z s)) (flag (f_v s)) (flag (f_c s))
              (flag (f_cb s)) Hb Hb2 R0 W1 W2 W3 W11) as (n & c' & E & Q1 & Q2 & Q3 & Q4 & Q5 & Q6 & Q7 & Q8 & Q9).
  pose proof (sim_core_of s L) as S0. unfold core_of in S0. rewrite P in S0.
  destruct (sim_run base (memcpy_code base) (memcpy_code_valid base Hb Hb2) n s _ c' S0 E) as (s' & Rn & S').
  exists n, s'. split; [exact Rn|].
  rewrite !(sim_reg s' c' _ S') by lia. rewrite (sim_pc s' c' S'), (sim_mem s' c' S').
  repeat split; try assumption.
  intros j Hj. rewrite (sim_reg s' c' j S') by lia. apply Q8, Hj.
Qed.

(* ---- what a forward copy does to memory ------------------------------------------------------------------- *)
Lemma copy_wf n : forall m s d, wf_mem m -> 0 <= s < 65536 -> 0 <= d < 65536 -> wf_mem (copy m s d n).
Proof.
  induction n as [|k IH]; intros m s d WM Hs Hd; cbn [copy]; [exact WM|].
  apply IH; try (apply Z.mod_pos_bound; lia). apply wf_mw; [exact WM|exact Hd|apply mr_word, WM].
Qed.

(* addresses outside the destination keep their contents *)
Lemma copy_outside n : forall m s d a, wf_mem m -> 0 <= s < 65536 -> 0 <= d < 65536 -> 0 <= a ->
  (forall i, 0 <= i < Z.of_nat n -> a <> (d + i) mod 65536) ->
  mem_read (copy m s d n) a = mem_read m a.
Proof.
  induction n as [|k IH]; intros m s d a WM Hs Hd Ha Out; cbn [copy]; [reflexivity|].
  rewrite IH.
  - apply mrw_other; try lia; [|exact WM]. specialize (Out 0). rewrite Z.add_0_r, Z.mod_small in Out by lia. lia.
  - apply wf_mw; [exact WM|exact Hd|apply mr_word, WM].
  - apply Z.mod_pos_bound. lia.
  - apply Z.mod_pos_bound. lia.
  - exact Ha.
  - intros i Hi. rewrite Zplus_mod_idemp_l. replace (d + 1 + i) with (d + (i + 1)) by lia. apply Out. lia.
Qed.

(* when no source word is a destination word, the destination receives the source's words *)
Theorem copy_spec n : forall m s d, wf_mem m -> 0 <= s < 65536 -> 0 <= d < 65536 -> Z.of_nat n <= 65536 ->
  (forall i j, 0 <= i < Z.of_nat n -> 0 <= j < Z.of_nat n -> (s + i) mod 65536 <> (d + j) mod 65536) ->
  forall i, 0 <= i < Z.of_nat n -> mem_read (copy m s d n) ((d + i) mod 65536) = mem_read m ((s + i) mod 65536).
Proof.
  induction n as [|k IH]; intros m s d WM Hs Hd Hn Dis i Hi; [lia|]. cbn [copy].
  assert (WM' : wf_mem (mem_write m d (mem_read m s))) by (apply wf_mw; [exact WM|exact Hd|apply mr_word, WM]).
  assert (Hs' : 0 <= (s + 1) mod 65536 < 65536) by (apply Z.mod_pos_bound; lia).
  assert (Hd' : 0 <= (d + 1) mod 65536 < 65536) by (apply Z.mod_pos_bound; lia).
  destruct (Z.eq_dec i 0) as [->|Ni].
  - (* the first word: written now, never overwritten by the rest (fewer than 65536 further words) *)
    rewrite !Z.add_0_r, (Z.mod_small d), (Z.mod_small s) by lia.
    rewrite copy_outside; try assumption; try lia.
    apply mrw_same. lia.
  - replace ((d + i) mod 65536) with (((d + 1) mod 65536 + (i - 1)) mod 65536)
      by (rewrite Zplus_mod_idemp_l; f_equal; lia).
    rewrite IH; try assumption; try lia.
    + rewrite Zplus_mod_idemp_l. replace (s + 1 + (i - 1)) with (s + i) by lia.
      apply mrw_other; try lia; try exact WM.
      intros E. apply (Dis i 0); lia.
    + intros i' j' Hi' Hj'. rewrite !Zplus_mod_idemp_l.
      replace (s + 1 + i') with (s + (i' + 1)) by lia. replace (d + 1 + j') with (d + (j' + 1)) by lia.
      apply Dis; lia.
Qed.

Example copy_example :
  let m := mem_write (mem_write (mem_write (mkmem 0 []) 10 7) 11 8) 12 9 in
  map (mem_read (copy m 10 20 3)) [20; 21; 22; 10; 23] = [7; 8; 9; 7; 0].
Proof. reflexivity. Qed.
