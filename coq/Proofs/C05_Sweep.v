(* C05_Sweep.v — the complete enumerations, run inside the kernel.  See C05_Codec.v.
   C05_Codec.v — encoding and decoding are exact inverses and follow the HERA table.
   The spaces are finite: every statement is checked on the COMPLETE enumeration inside the
   kernel (vm_compute) and lifted to a universally quantified theorem by the membership
   lemmas below. *)
From Coq Require Import ZArith List Bool String Lia ZifyBool.
From Hera.Lib Require Import Py Machine Word16.
From Hera.Gen Require Import Utils Ops Tables.
From Hera.Spec Require Import ISA EncTable.
From Hera.Model Require Import OpRep InstrOf Bitvec.
Import ListNotations.
Open Scope Z_scope.

(* ---- the enumeration is complete ----------------------------------------------------------- *)
Lemma in_prod2 {A} (f : Z -> Z -> A) l1 l2 x y : In x l1 -> In y l2 -> In (f x y) (prod2 f l1 l2).
Proof. intros H1 H2. unfold prod2. apply in_flat_map. exists x. split; [exact H1|]. now apply in_map. Qed.
Lemma in_prod3 {A} (f : Z -> Z -> Z -> A) l1 l2 l3 x y z :
  In x l1 -> In y l2 -> In z l3 -> In (f x y z) (prod3 f l1 l2 l3).
Proof.
  intros H1 H2 H3. unfold prod3. apply in_flat_map. exists x. split; [exact H1|].
  apply in_flat_map. exists y. split; [exact H2|]. now apply in_map.
Qed.
Lemma in_conds c : In c all_conds.
Proof. destruct c; cbn; tauto. Qed.

Ltac inr := apply in_zrange; lia.
Ltac pick :=
  repeat first
    [ apply in_or_app; left;
      first [ apply in_prod2; inr | apply in_prod3; inr | apply in_map; inr
            | (apply in_flat_map; eexists; split; [apply in_conds|]; apply in_map; inr) ];
      fail
    | apply in_or_app; right ].

Lemma all_valid_complete i : valid_instr i = true -> In i all_valid_instrs.
Proof.
  intros H. unfold all_valid_instrs.
  destruct i; cbn [valid_instr] in H; unfold reg_ok, in_range in H; unfold regs16;
    repeat (apply in_or_app;
            first [ left; solve [ apply in_prod2; inr | apply in_prod3; inr | apply in_map; inr
                                | apply in_flat_map; eexists; split; [apply in_conds|]; apply in_map; inr ]
                  | right ]);
    try solve [ apply in_prod2; inr | apply in_map; inr | cbn; tauto ].
Qed.

(* ---- checks run over the complete enumerations --------------------------------------------- *)
Definition assemble_word (o : op) : option Z :=
  match assemble o with
  | Ok (Some [hi; lo]) =>
      if (0 <=? hi) && (hi <? 256) && (0 <=? lo) && (lo <? 256) then Some (256 * hi + lo) else None
  | _ => None
  end.

Definition check_encode (i : instr) : bool :=
  match assemble_word (op_of_instr i) with
  | Some w => w =? word_of i
  | None => false
  end.

Definition check_roundtrip (i : instr) : bool :=
  match disassemble (word_of i) false with
  | Ok o => match instr_of_op o with
            | Some j => key_eqb (instr_key j) (instr_key (canon i))
            | None => false
            end
  | Raise _ => false
  end.

Definition check_word (w : Z) : bool :=
  match disassemble w false with
  | Ok o => match instr_of_op o with
            | Some i => valid_instr i && (word_of i =? w) &&
                        match assemble_word o with Some w' => w' =? w | None => false end
            | None => false
            end
  | Raise (HERAError _) => true
  | Raise _ => false
  end.

Lemma encode_all : forallb check_encode all_valid_instrs = true.
Proof. vm_compute. reflexivity. Qed.
Lemma roundtrip_all : forallb check_roundtrip all_valid_instrs = true.
Proof. vm_compute. reflexivity. Qed.
Lemma words_all : forallb check_word (zrange 0 65536) = true.
Proof. vm_compute. reflexivity. Qed.

