(* C19_MallocStack.v — the stack-convention allocator `malloc`, placed at any address: it is the same
   bump allocator (Proofs/C19_Malloc.v), with the request and the result in the frame cell FP+3. *)
From Coq Require Import ZArith List Bool Lia.
From Hera.Lib Require Import Py Machine Word16.
From Hera.Spec Require Import ISA Wf.
From Hera.Proofs Require Import SpecLemmas SpecCore C19_Malloc.
Import ListNotations.
Open Scope Z_scope.

Definition malloc_stack_code (base : Z) : list instr :=
  [I_STORE 13 0 14; I_STORE 12 1 14; I_INC 15 3; I_STORE 1 4 14; I_STORE 2 5 14; I_STORE 3 6 14;
   I_LOAD 1 3 14; I_SETLO 3 0; I_SETHI 3 64; I_LOAD 2 0 3;
   I_SETLO 11 ((base + 16) mod 256); I_SETHI 11 ((base + 16) / 256); I_B cBNZ 11;
   I_OR 2 3 0; I_INC 2 1; I_STORE 2 0 3;
   I_STORE 2 3 14; I_ADD 2 2 1;
   I_SETLO 11 ((base + 41) mod 256); I_SETHI 11 ((base + 41) / 256); I_B cBC 11;
   I_SETLO 1 255; I_SETHI 1 191; I_FON 8; I_SUB 0 2 1;
   I_SETLO 11 ((base + 41) mod 256); I_SETHI 11 ((base + 41) / 256); I_B cBC 11;
   I_STORE 2 0 3; I_LOAD 1 4 14; I_LOAD 2 5 14; I_LOAD 3 6 14; I_LOAD 13 0 14; I_LOAD 12 1 14;
   I_DEC 15 3; I_RETURN 12 13].

Ltac refold := match goal with
  | a0 := _ : Z, a1 := _ : Z, a3 := _ : Z, a4 := _ : Z, a5 := _ : Z, a6 := _ : Z, m5 := _ : pmem, n := _ : Z, cur := _ : Z |- _ =>
      fold a0 a1 a3 a4 a5 a6; fold m5; fold n cur
  end.
Ltac cgof k := cgo k; refold.

Lemma malloc_stack_core base r m fS fZ fV fC fCB p q :
  0 <= base -> base + 41 < 65536 -> r 0 = 0 -> 0 <= r 15 -> r 15 + 3 < 65536 ->
  let a0 := (r 14 + 0) mod 65536 in let a1 := (r 14 + 1) mod 65536 in let a3 := (r 14 + 3) mod 65536 in
  let a4 := (r 14 + 4) mod 65536 in let a5 := (r 14 + 5) mod 65536 in let a6 := (r 14 + 6) mod 65536 in
  let m5 := mem_write (mem_write (mem_write (mem_write (mem_write m a0 (r 13)) a1 (r 12)) a4 (r 1)) a5 (r 2)) a6 (r 3) in
  let n := mem_read m5 a3 in let cur := mem_read m5 16384 in
  0 <= n < 65536 -> 0 <= cur < 65536 ->
  alloc cur n = Some (p, q) ->
  exists k c' mf, crun_at base (malloc_stack_code base) k (mkcore r m base fS fZ fV fC fCB) = Some c' /\
    cmem c' = mf /\
    (mf = mem_write (mem_write m5 a3 p) 16384 q \/
     mf = mem_write (mem_write (mem_write m5 16384 16385) a3 p) 16384 q) /\
    cr c' 1 = mem_read mf a4 /\ cr c' 2 = mem_read mf a5 /\ cr c' 3 = mem_read mf a6 /\
    cpc c' = mem_read mf a0 /\ cr c' 14 = mem_read mf a1 /\ cr c' 15 = r 15 /\ cr c' 12 = r 14 /\
    (forall j, 4 <= j <= 10 -> cr c' j = r j).
Proof.
  intros Hb Hb2 R0 SP0 SP a0 a1 a3 a4 a5 a6 m5 n cur Hn Hc A. unfold alloc, heap_cell, heap_end in *.
  destruct (cur =? 0) eqn:Z1.
  - assert (E0 : cur = 0) by lia.
    destruct (16384 + 1 + n <? 49151) eqn:LT; [|discriminate A].
    assert (Ep : p = 16384 + 1) by congruence. assert (Eq : q = 16384 + 1 + n) by congruence. clear A.
    exists 36%nat. eexists. eexists. split.
    + cgof 0%nat. cgof 1%nat. cgof 2%nat. cgof 3%nat. cgof 4%nat. cgof 5%nat. cgof 6%nat. cgof 7%nat. cgof 8%nat. cgof 9%nat.
      rewrite Z1. cgof 10%nat. cgof 11%nat. cgof 12%nat. cgof 13%nat. rewrite R0. zeval. cgof 14%nat. cgof 15%nat. cgof 16%nat.
      cgof 17%nat.
      replace (65536 <=? 16385 + n + 0) with false by lia.
      replace ((16385 + n + 0) mod 65536) with (16385 + n) by (rewrite Z.mod_small; lia).
      cgof 18%nat. cgof 19%nat. cgof 20%nat. cgof 21%nat. cgof 22%nat. cgof 23%nat. cgof 24%nat.
      replace (0 <=? 16385 + n - 49151 - 0) with false by lia.
      cgof 25%nat. cgof 26%nat. cgof 27%nat. cgof 28%nat. cgof 29%nat. cgof 30%nat. cgof 31%nat. cgof 32%nat. cgof 33%nat.
      cgof 34%nat. cgof 35%nat. reflexivity.
    + cbn [cr cpc cmem]. cbn [Z.eqb Pos.eqb]. split; [reflexivity|]. split; [right; subst p q; reflexivity|].
      repeat split; try reflexivity.
      * Z.to_euclidean_division_equations; lia.
      * intros j Hj. repeat match goal with |- context [j =? ?x] => destruct (j =? x) eqn:?; try lia end; try reflexivity.
  - destruct (cur + n <? 49151) eqn:LT; [|discriminate A].
    assert (Ep : p = cur) by congruence. assert (Eq : q = cur + n) by congruence. clear A.
    exists 33%nat. eexists. eexists. split.
    + cgof 0%nat. cgof 1%nat. cgof 2%nat. cgof 3%nat. cgof 4%nat. cgof 5%nat. cgof 6%nat. cgof 7%nat. cgof 8%nat. cgof 9%nat.
      rewrite Z1. cgof 10%nat. cgof 11%nat. cgof 12%nat. rewrite (set_value (base + 16)) by lia.
      cgof 16%nat. cgof 17%nat.
      replace (65536 <=? r 15 + 3) with false by lia. cbn [andb].
      replace (65536 <=? cur + n + 0) with false by lia.
      replace ((cur + n + 0) mod 65536) with (cur + n) by (rewrite Z.mod_small; lia).
      cgof 18%nat. cgof 19%nat. cgof 20%nat. cgof 21%nat. cgof 22%nat. cgof 23%nat. cgof 24%nat.
      replace (0 <=? cur + n - 49151 - 0) with false by lia.
      cgof 25%nat. cgof 26%nat. cgof 27%nat. cgof 28%nat. cgof 29%nat. cgof 30%nat. cgof 31%nat. cgof 32%nat. cgof 33%nat.
      cgof 34%nat. cgof 35%nat. reflexivity.
    + cbn [cr cpc cmem]. cbn [Z.eqb Pos.eqb]. split; [reflexivity|]. split; [left; subst p q; reflexivity|].
      repeat split; try reflexivity.
      * Z.to_euclidean_division_equations; lia.
      * intros j Hj. repeat match goal with |- context [j =? ?x] => destruct (j =? x) eqn:?; try lia end; try reflexivity.
Qed.

Lemma off_ne x i j : 0 <= i < 65536 -> 0 <= j < 65536 -> i <> j -> (x + i) mod 65536 <> (x + j) mod 65536.
Proof. intros Hi Hj N. Z.to_euclidean_division_equations. lia. Qed.

Lemma malloc_stack_valid base : 0 <= base -> base + 41 < 65536 ->
  Forall (fun i => valid_instr i = true) (malloc_stack_code base).
Proof.
  intros Hb Hb2. unfold malloc_stack_code.
  assert (A : forall x, 0 <= x < 65536 -> in_range (-128) 256 (x mod 256) = true)
    by (intros x Hx; unfold in_range; pose proof (Z.mod_pos_bound x 256); lia).
  assert (B : forall x, 0 <= x < 65536 -> in_range (-128) 256 (x / 256) = true).
  { intros x Hx. unfold in_range. assert (0 <= x / 256) by (apply Z.div_pos; lia).
    assert (x / 256 < 256) by (apply Z.div_lt_upper_bound; lia). lia. }
  repeat constructor; cbn [valid_instr reg_ok]; rewrite ?A, ?B by lia; reflexivity.
Qed.

Lemma malloc_stack_core2 base r m fS fZ fV fC fCB p q :
  0 <= base -> base + 41 < 65536 -> wf_mem m ->
  r 0 = 0 -> 0 <= r 15 -> r 15 + 3 < 65536 ->
  word (r 1) -> word (r 2) -> word (r 3) -> word (r 12) -> word (r 13) ->
  let a k := (r 14 + k) mod 65536 in
  (forall k, 0 <= k <= 6 -> a k <> heap_cell) ->                 (* the frame is not on the heap pointer *)
  alloc (mem_read m heap_cell) (mem_read m (a 3)) = Some (p, q) ->
  exists n c', crun_at base (malloc_stack_code base) n (mkcore r m base fS fZ fV fC fCB) = Some c' /\
    mem_read (cmem c') (a 3) = p /\ mem_read (cmem c') heap_cell = q /\
    (forall b, 0 <= b -> b <> heap_cell -> (forall k, 0 <= k <= 6 -> b <> a k) -> mem_read (cmem c') b = mem_read m b) /\
    cr c' 1 = r 1 /\ cr c' 2 = r 2 /\ cr c' 3 = r 3 /\
    cpc c' = r 13 /\ cr c' 14 = r 12 /\ cr c' 15 = r 15 /\
    (forall j, 4 <= j <= 10 -> cr c' j = r j) /\ cr c' 12 = r 14 /\ wf_mem (cmem c').
Proof.
  intros Hb Hb2 WM R0 SP0 SP W1 W2 W3 W12 W13 a NH A. unfold heap_cell in *.
  set (a0 := (r 14 + 0) mod 65536). set (a1 := (r 14 + 1) mod 65536).
  set (a3 := (r 14 + 3) mod 65536). set (a4 := (r 14 + 4) mod 65536).
  set (a5 := (r 14 + 5) mod 65536). set (a6 := (r 14 + 6) mod 65536).
  assert (B0 : 0 <= a0 < 65536) by (apply Z.mod_pos_bound; lia).
  assert (B1 : 0 <= a1 < 65536) by (apply Z.mod_pos_bound; lia).
  assert (B3 : 0 <= a3 < 65536) by (apply Z.mod_pos_bound; lia).
  assert (B4 : 0 <= a4 < 65536) by (apply Z.mod_pos_bound; lia).
  assert (B5 : 0 <= a5 < 65536) by (apply Z.mod_pos_bound; lia).
  assert (B6 : 0 <= a6 < 65536) by (apply Z.mod_pos_bound; lia).
  assert (H0 : a0 <> 16384) by (apply (NH 0); lia). assert (H1 : a1 <> 16384) by (apply (NH 1); lia).
  assert (H3 : a3 <> 16384) by (apply (NH 3); lia). assert (H4 : a4 <> 16384) by (apply (NH 4); lia).
  assert (H5 : a5 <> 16384) by (apply (NH 5); lia). assert (H6 : a6 <> 16384) by (apply (NH 6); lia).
  assert (D01 : a0 <> a1) by (apply off_ne; lia). assert (D03 : a0 <> a3) by (apply off_ne; lia).
  assert (D04 : a0 <> a4) by (apply off_ne; lia). assert (D05 : a0 <> a5) by (apply off_ne; lia).
  assert (D06 : a0 <> a6) by (apply off_ne; lia). assert (D13 : a1 <> a3) by (apply off_ne; lia).
  assert (D14 : a1 <> a4) by (apply off_ne; lia). assert (D15 : a1 <> a5) by (apply off_ne; lia).
  assert (D16 : a1 <> a6) by (apply off_ne; lia). assert (D34 : a3 <> a4) by (apply off_ne; lia).
  assert (D35 : a3 <> a5) by (apply off_ne; lia). assert (D36 : a3 <> a6) by (apply off_ne; lia).
  assert (D45 : a4 <> a5) by (apply off_ne; lia). assert (D46 : a4 <> a6) by (apply off_ne; lia).
  assert (D56 : a5 <> a6) by (apply off_ne; lia).
  assert (P16 : 0 <= 16384) by (clear; lia).
  (* side conditions: never hand a goal to lia with the disequalities in context *)
  Ltac sc := first [ assumption | apply not_eq_sym; assumption
                   | match goal with
                     | Hx : 0 <= ?x < _ |- 0 <= ?x => exact (proj1 Hx)
                     | Hx : 0 <= ?x < 65536 |- 0 <= ?x < 65536 => exact Hx
                     end ].
  set (m1 := mem_write m a0 (r 13)). set (m2 := mem_write m1 a1 (r 12)).
  set (m3 := mem_write m2 a4 (r 1)). set (m4 := mem_write m3 a5 (r 2)). set (m5 := mem_write m4 a6 (r 3)).
  assert (WM1 : wf_mem m1) by (apply wf_mw; sc). assert (WM2 : wf_mem m2) by (apply wf_mw; sc).
  assert (WM3 : wf_mem m3) by (apply wf_mw; sc). assert (WM4 : wf_mem m4) by (apply wf_mw; sc).
  assert (WM5 : wf_mem m5) by (apply wf_mw; sc).
  assert (R5 : forall b, 0 <= b -> b <> a0 -> b <> a1 -> b <> a4 -> b <> a5 -> b <> a6 -> mem_read m5 b = mem_read m b).
  { intros b Hb0 N0 N1 N4 N5 N6. unfold m5, m4, m3, m2, m1. rewrite !mrw_other by sc. reflexivity. }
  assert (En : mem_read m5 a3 = mem_read m a3) by (apply R5; sc).
  assert (Ec : mem_read m5 16384 = mem_read m 16384) by (apply R5; sc).
  change (a 3) with a3 in A |- *. rewrite <- En, <- Ec in A.
  pose proof (mr_word m5 a3 WM5) as Wn. pose proof (mr_word m5 16384 WM5) as Wc.
  assert (Wpq : 0 <= p < 65536 /\ 0 <= q < 65536).
  { clear - A Wn Wc. unfold alloc, heap_cell, heap_end, word in *.
    destruct (mem_read m5 16384 =? 0).
    - destruct (16384 + 1 + mem_read m5 a3 <? 49151) eqn:LT; [|discriminate A].
      assert (p = 16384 + 1) by congruence. assert (q = 16384 + 1 + mem_read m5 a3) by congruence. lia.
    - destruct (mem_read m5 16384 + mem_read m5 a3 <? 49151) eqn:LT; [|discriminate A].
      assert (p = mem_read m5 16384) by congruence. assert (q = mem_read m5 16384 + mem_read m5 a3) by congruence. lia. }
  destruct Wpq as (Wp & Wq).
  destruct (malloc_stack_core base r m fS fZ fV fC fCB p q Hb Hb2 R0 SP0 SP Wn Wc A)
    as (n & c' & mf & E & Q0 & QM & Q1 & Q2 & Q3 & Q4 & Q5 & Q6 & Q12 & Q7).
  fold a0 a1 a3 a4 a5 a6 m1 m2 m3 m4 m5 in QM, Q1, Q2, Q3, Q4, Q5.
  exists n, c'. split; [exact E|].
  assert (Wk : word 16385) by (clear; unfold word; lia).
  assert (RF : forall b, 0 <= b -> mem_read mf b = if b =? 16384 then q else if b =? a3 then p else mem_read m5 b).
  { intros b Hb0. destruct QM as [-> | ->].
    - destruct (b =? 16384) eqn:E1; [apply Z.eqb_eq in E1; subst b; apply mrw_same; sc|]. apply Z.eqb_neq in E1.
      rewrite mrw_other by (first [sc|apply wf_mw; sc]).
      destruct (b =? a3) eqn:E2; [apply Z.eqb_eq in E2; subst b; apply mrw_same; sc|]. apply Z.eqb_neq in E2.
      apply mrw_other; sc.
    - assert (WMi : wf_mem (mem_write m5 16384 16385)) by (apply wf_mw; first [sc|clear; lia]).
      destruct (b =? 16384) eqn:E1; [apply Z.eqb_eq in E1; subst b; apply mrw_same; sc|]. apply Z.eqb_neq in E1.
      rewrite mrw_other by (first [sc|apply wf_mw; sc]).
      destruct (b =? a3) eqn:E2; [apply Z.eqb_eq in E2; subst b; apply mrw_same; sc|]. apply Z.eqb_neq in E2.
      rewrite mrw_other by sc. apply mrw_other; sc. }
  assert (K : forall b, 0 <= b -> b <> 16384 -> b <> a3 -> mem_read mf b = mem_read m5 b).
  { intros b Hb0 N1 N2. rewrite RF by sc. apply Z.eqb_neq in N1, N2. rewrite N1, N2. reflexivity. }
  rewrite Q0, Q1, Q2, Q3, Q4, Q5, Q6.
  split; [|split; [|split; [|split; [|split; [|split; [|split; [|split; [|split; [|split; [|split]]]]]]]]]].
  - rewrite RF by sc. apply Z.eqb_neq in H3. rewrite H3, Z.eqb_refl. reflexivity.
  - rewrite RF by sc. reflexivity.
  - intros b Hb0 N NK. rewrite K; [|sc|sc|apply (NK 3); clear; lia].
    apply R5; [sc|apply (NK 0)|apply (NK 1)|apply (NK 4)|apply (NK 5)|apply (NK 6)]; clear; lia.
  - rewrite K by sc. unfold m5, m4. rewrite !mrw_other by sc. unfold m3. apply mrw_same; sc.
  - rewrite K by sc. unfold m5. rewrite mrw_other by sc. unfold m4. apply mrw_same; sc.
  - rewrite K by sc. unfold m5. apply mrw_same; sc.
  - rewrite K by sc. unfold m5, m4, m3, m2. rewrite !mrw_other by sc. unfold m1. apply mrw_same; sc.
  - rewrite K by sc. unfold m5, m4, m3. rewrite !mrw_other by sc. unfold m2. apply mrw_same; sc.
  - reflexivity.
  - exact Q7.
  - exact Q12.
  - destruct QM as [-> | ->].
    + apply wf_mw; [apply wf_mw; [exact WM5|exact B3|exact Wp]|clear; lia|exact Wq].
    + apply wf_mw; [apply wf_mw; [apply wf_mw; [exact WM5|clear; lia|exact Wk]|exact B3|exact Wp]|clear; lia|exact Wq].
Qed.

(* the routine on the specification machine itself *)
Theorem malloc_stack_contract base s p q :
  0 <= base -> base + 41 < 65536 -> List.length (regs s) = 16%nat -> pc s = base -> wf_mem (mem s) ->
  getreg s 0 = 0 -> 0 <= getreg s 15 -> getreg s 15 + 3 < 65536 ->
  word (getreg s 1) -> word (getreg s 2) -> word (getreg s 3) -> word (getreg s 12) -> word (getreg s 13) ->
  let a k := (getreg s 14 + k) mod 65536 in
  (forall k, 0 <= k <= 6 -> a k <> heap_cell) ->                 (* the frame is not on the heap pointer *)
  alloc (mem_read (mem s) heap_cell) (mem_read (mem s) (a 3)) = Some (p, q) ->
  exists n s', run_at base (malloc_stack_code base) n s = Some s' /\
    mem_read (mem s') (a 3) = p /\ mem_read (mem s') heap_cell = q /\
    (forall b, 0 <= b -> b <> heap_cell -> (forall k, 0 <= k <= 6 -> b <> a k) -> mem_read (mem s') b = mem_read (mem s) b) /\
    getreg s' 1 = getreg s 1 /\ getreg s' 2 = getreg s 2 /\ getreg s' 3 = getreg s 3 /\
    pc s' = getreg s 13 /\ getreg s' 14 = getreg s 12 /\ getreg s' 15 = getreg s 15 /\
    (forall j, 4 <= j <= 10 -> getreg s' j = getreg s j).
Proof.
  intros Hb Hb2 L P WM R0 SP0 SP W1 W2 W3 W12 W13 a NH A.
  destruct (malloc_stack_core2 base (getreg s) (mem s) (flag (f_s s)) (flag (f_z s)) (flag (f_v s)) (flag (f_c s))
              (flag (f_cb s)) p q Hb Hb2 WM R0 SP0 SP W1 W2 W3 W12 W13 NH A)
    as (n & c' & E & Q1 & Q2 & Q3 & Q4 & Q5 & Q6 & Q7 & Q8 & Q9 & Q10 & _ & _).
  pose proof (sim_core_of s L) as S0. unfold core_of in S0. rewrite P in S0.
  destruct (sim_run base (malloc_stack_code base) (malloc_stack_valid base Hb Hb2) n s _ c' S0 E) as (s' & Rn & S').
  exists n, s'. split; [exact Rn|].
  rewrite !(sim_reg s' c' _ S') by (clear; lia). rewrite (sim_pc s' c' S'), (sim_mem s' c' S').
  repeat split; try assumption.
  intros j Hj. rewrite (sim_reg s' c' j S') by (clear - Hj; lia). apply Q10, Hj.
Qed.
