(* C19_Malloc.v — the register-convention allocator `malloc`: it refines a bump allocator on the
   cell 0x4000, and the blocks a bump allocator hands out over any sequence of calls are pairwise
   disjoint and inside the heap. *)
From Coq Require Import ZArith List Bool Lia.
From Hera.Lib Require Import Py Machine Word16.
From Hera.Spec Require Import ISA Wf.
From Hera.Proofs Require Import SpecLemmas SpecCore.
Import ListNotations.
Open Scope Z_scope.

Definition heap_cell : Z := 16384.       (* first_space_for_fsheap, 0x4000 *)
Definition heap_end : Z := 49151.        (* last_space_for_fsheap, 0xbfff *)

(* the abstract allocator: the cell holds the next free address, 0 meaning "not initialised yet" *)
Definition alloc (cur n : Z) : option (Z * Z) :=
  let p := if cur =? 0 then heap_cell + 1 else cur in
  if p + n <? heap_end then Some (p, p + n) else None.

Definition malloc_reg_code : list instr :=
  [I_SETLO 11 0; I_SETHI 11 64; I_LOAD 10 0 11; I_FOFF 8; I_ADD 0 10 0; I_BREL cBNZ 4;
   I_OR 10 11 0; I_INC 10 1; I_STORE 10 0 11;
   I_OR 9 10 0; I_ADD 10 10 1; I_BREL cBC 12; I_SETLO 1 255; I_SETHI 1 191; I_FON 8; I_SUB 0 10 1;
   I_BREL cBC 7; I_STORE 10 0 11; I_OR 1 9 0; I_RETURN 12 13].

Lemma malloc_reg_core base r m fS fZ fV fC fCB p q :
  r 0 = 0 -> 0 <= r 1 < 65536 -> 0 <= mem_read m heap_cell < 65536 ->
  alloc (mem_read m heap_cell) (r 1) = Some (p, q) ->
  exists n c', crun_at base malloc_reg_code n (mkcore r m base fS fZ fV fC fCB) = Some c' /\
    cr c' 1 = p /\ mem_read (cmem c') heap_cell = q /\ cpc c' = r 13 /\ cr c' 14 = r 12 /\ cr c' 15 = r 15 /\
    (forall j, 2 <= j <= 8 -> cr c' j = r j) /\
    (wf_mem m -> forall b, 0 <= b -> b <> heap_cell -> mem_read (cmem c') b = mem_read m b) /\
    (wf_mem m -> wf_mem (cmem c')).
Proof.
  intros R0 R1 HC A. unfold alloc, heap_cell, heap_end in *. set (cur := mem_read m 16384) in *.
  destruct (cur =? 0) eqn:Z1.
  - assert (E0 : cur = 0) by lia.
    destruct (16384 + 1 + r 1 <? 49151) eqn:LT; [|discriminate A].
    assert (Ep : p = 16384 + 1) by congruence. assert (Eq : q = 16384 + 1 + r 1) by congruence. clear A.
    exists 20%nat. eexists. split.
    + cgo 0%nat. cgo 1%nat. cgo 2%nat. fold cur. rewrite E0. zeval. cgo 3%nat. cgo 4%nat. rewrite R0. zeval.
      cgo 5%nat. cgo 6%nat. rewrite R0. zeval. cgo 7%nat. cgo 8%nat. cgo 9%nat. rewrite R0. zeval.
      cgo 10%nat.
      replace (65536 <=? 16385 + r 1 + 0) with false by lia.
      replace ((16385 + r 1 + 0) mod 65536) with (16385 + r 1) by (rewrite Z.mod_small; lia).
      cgo 11%nat. cgo 12%nat. cgo 13%nat. cgo 14%nat. cgo 15%nat.
      replace (0 <=? 16385 + r 1 - 49151 - 0) with false by lia.
      cgo 16%nat. cgo 17%nat. cgo 18%nat. rewrite R0. zeval. cgo 19%nat. reflexivity.
    + cbn [cr cpc cmem]. cbn [Z.eqb Pos.eqb]. split; [|split; [|split; [|split; [|split; [|split; [|split]]]]]]; try reflexivity.
      * lia.
      * rewrite mrw_same by lia. lia.
      * intros j Hj. repeat match goal with |- context [j =? ?x] => destruct (j =? x) eqn:?; try lia end; try reflexivity.
      * intros WM b Hb Nb. rewrite !mrw_other; try lia; try assumption; try reflexivity.
        apply wf_mw; [assumption|lia|unfold word; lia].
      * intros WM. apply wf_mw; [apply wf_mw; [assumption|lia|unfold word; lia]|lia|unfold word; lia].
  - destruct (cur + r 1 <? 49151) eqn:LT; [|discriminate A].
    assert (Ep : p = cur) by congruence. assert (Eq : q = cur + r 1) by congruence. clear A.
    assert (NZ : cur mod 65536 =? 0 = false) by (rewrite Z.mod_small by lia; exact Z1).
    exists 17%nat. eexists. split.
    + cgo 0%nat. cgo 1%nat. cgo 2%nat. fold cur. cgo 3%nat. cgo 4%nat. rewrite R0, !Z.add_0_r, NZ.
      cgo 5%nat. replace (65536 <=? cur) with false by lia.
      cgo 9%nat. rewrite R0. rewrite Z.lor_0_r. cgo 10%nat.
      replace (65536 <=? cur + r 1 + 0) with false by lia.
      replace ((cur + r 1 + 0) mod 65536) with (cur + r 1) by (rewrite Z.mod_small; lia).
      cgo 11%nat. cgo 12%nat. cgo 13%nat. cgo 14%nat. cgo 15%nat.
      replace (0 <=? cur + r 1 - 49151 - 0) with false by lia.
      cgo 16%nat. cgo 17%nat. cgo 18%nat. rewrite R0, Z.lor_0_r. cgo 19%nat. reflexivity.
    + cbn [cr cpc cmem]. cbn [Z.eqb Pos.eqb]. split; [|split; [|split; [|split; [|split; [|split; [|split]]]]]]; try reflexivity.
      * lia.
      * rewrite mrw_same by lia. lia.
      * intros j Hj. repeat match goal with |- context [j =? ?x] => destruct (j =? x) eqn:?; try lia end; try reflexivity.
      * intros WM b Hb Nb. rewrite mrw_other; try lia; try assumption; reflexivity.
      * intros WM. apply wf_mw; [assumption|lia|unfold word; lia].
Qed.

Lemma malloc_reg_valid : Forall (fun i => valid_instr i = true) malloc_reg_code.
Proof. unfold malloc_reg_code. repeat constructor. Qed.

(* one call of the routine is one step of the abstract allocator on the cell 0x4000 *)
Theorem malloc_reg_contract base s p q :
  List.length (regs s) = 16%nat -> pc s = base -> wf_mem (mem s) -> getreg s 0 = 0 -> word (getreg s 1) ->
  alloc (mem_read (mem s) heap_cell) (getreg s 1) = Some (p, q) ->
  exists n s', run_at base malloc_reg_code n s = Some s' /\
    getreg s' 1 = p /\ mem_read (mem s') heap_cell = q /\
    (forall b, 0 <= b -> b <> heap_cell -> mem_read (mem s') b = mem_read (mem s) b) /\
    pc s' = getreg s 13 /\ getreg s' 14 = getreg s 12 /\ getreg s' 15 = getreg s 15 /\
    (forall j, 2 <= j <= 8 -> getreg s' j = getreg s j).
Proof.
  intros L P WM R0 W1 A.
  destruct (malloc_reg_core base (getreg s) (mem s) (flag (f_s s)) (flag (f_z s)) (flag (f_v s)) (flag (f_c s))
              (flag (f_cb s)) p q R0 W1 (mr_word _ _ WM) A) as (n & c' & E & Q1 & Q2 & Q3 & Q4 & Q5 & Q6 & Q7 & _).
  pose proof (sim_core_of s L) as S0. unfold core_of in S0. rewrite P in S0.
  destruct (sim_run base malloc_reg_code malloc_reg_valid n s _ c' S0 E) as (s' & Rn & S').
  exists n, s'. split; [exact Rn|].
  rewrite !(sim_reg s' c' _ S') by lia. rewrite (sim_pc s' c' S'), (sim_mem s' c' S').
  repeat split; try assumption.
  - intros b Hb Nb. apply Q7; assumption.
  - intros j Hj. rewrite (sim_reg s' c' j S') by lia. apply Q6, Hj.
Qed.

(* ---- the abstract allocator hands out disjoint blocks inside the heap ------------------------------------- *)
Fixpoint alloc_seq (cur : Z) (ns : list Z) : list (Z * Z) :=          (* (address, size) of each block *)
  match ns with
  | [] => []
  | n :: t => match alloc cur n with
              | Some (p, c') => (p, n) :: alloc_seq c' t
              | None => []                         (* the routine reports "out of memory" and exits *)
              end
  end.

Definition heap_ok (cur : Z) : Prop := cur = 0 \/ heap_cell < cur.
Definition next_free (cur : Z) : Z := if cur =? 0 then heap_cell + 1 else cur.

Lemma alloc_spec cur n p c' : heap_ok cur -> 0 <= n -> alloc cur n = Some (p, c') ->
  p = next_free cur /\ c' = p + n /\ heap_cell < p /\ p + n < heap_end /\ heap_ok c' /\ next_free c' = p + n.
Proof.
  unfold alloc, heap_ok, next_free, heap_cell, heap_end. intros H Hn A.
  destruct (cur =? 0) eqn:E.
  - destruct (16384 + 1 + n <? 49151) eqn:L; [|discriminate A].
    assert (Ep : p = 16384 + 1) by congruence. assert (Ec : c' = 16384 + 1 + n) by congruence. subst p c'.
    repeat split; try lia. destruct (16384 + 1 + n =? 0) eqn:E2; lia.
  - destruct (cur + n <? 49151) eqn:L; [|discriminate A].
    assert (Ep : p = cur) by congruence. assert (Ec : c' = cur + n) by congruence. subst p c'.
    repeat split; try lia. destruct (cur + n =? 0) eqn:E2; lia.
Qed.

Lemma alloc_seq_above cur ns : heap_ok cur -> Forall (fun n => 0 <= n) ns ->
  Forall (fun b => next_free cur <= fst b /\ heap_cell < fst b /\ fst b + snd b < heap_end) (alloc_seq cur ns).
Proof.
  revert cur. induction ns as [|n t IH]; intros cur H Hn; cbn [alloc_seq]; [constructor|].
  inversion Hn as [|? ? Hn0 Ht]; subst.
  destruct (alloc cur n) as [[p c']|] eqn:A; [|constructor].
  destruct (alloc_spec cur n p c' H Hn0 A) as (E1 & E2 & E3 & E4 & E5 & E6).
  constructor; [cbn [fst snd]; lia|].
  eapply Forall_impl; [|apply IH; assumption]. cbv beta. intros b (B1 & B2 & B3). rewrite E6 in B1. lia.
Qed.

(* every block lies strictly inside the heap, and any two blocks handed out by a sequence of calls do not
   overlap: the earlier one ends at or before the start of the later one *)
Theorem alloc_seq_disjoint cur ns : heap_ok cur -> Forall (fun n => 0 <= n) ns ->
  ForallOrdPairs (fun b1 b2 => fst b1 + snd b1 <= fst b2) (alloc_seq cur ns) /\
  Forall (fun b => heap_cell < fst b /\ fst b + snd b < heap_end) (alloc_seq cur ns).
Proof.
  intros H Hn. split.
  - revert cur H Hn. induction ns as [|n t IH]; intros cur H Hn; cbn [alloc_seq]; [constructor|].
    inversion Hn as [|? ? Hn0 Ht]; subst.
    destruct (alloc cur n) as [[p c']|] eqn:A; [|constructor].
    destruct (alloc_spec cur n p c' H Hn0 A) as (E1 & E2 & E3 & E4 & E5 & E6).
    constructor; [|apply IH; assumption].
    eapply Forall_impl; [|apply (alloc_seq_above c' t); assumption]. cbv beta. cbn [fst snd].
    intros b (B1 & _). rewrite E6 in B1. exact B1.
  - eapply Forall_impl; [|apply alloc_seq_above; assumption]. cbv beta. intros b (_ & B2 & B3). split; assumption.
Qed.

Example alloc_seq_example : alloc_seq 0 [3; 0; 5] = [(16385, 3); (16388, 0); (16388, 5)].
Proof. reflexivity. Qed.
