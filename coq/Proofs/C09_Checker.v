(* C09_Checker.v — the checker's verdict on every operation matches its documented signature. *)
From Coq Require Import ZArith List Bool String Lia ZifyBool.
From Hera.Lib Require Import Py.
From Hera.Gen Require Import Utils Ops Tables Convert.
From Hera.Spec Require Import Signature.
From Hera.Model Require Import OpRep Bitvec Preproc.
From Hera.Proofs Require Import C04_Oplen.
Import ListNotations.
Open Scope Z_scope.

(* the parameter tuples in hera/op.py are exactly the documented signatures *)
Theorem P_matches_signature : forall o, map kind_of_ptype (P_of o) = signature o.
Proof. destruct o; reflexivity. Qed.

Lemma range_check_none v lo hi : range_check v lo hi = None <-> in_rng lo hi v.
Proof. unfold range_check, in_rng. destruct ((v <? lo) || (v >=? hi)) eqn:E; split; intros H; try discriminate; try reflexivity; lia. Qed.

(* operand-level exactness: an operand is accepted iff it conforms to the documented kind *)
Theorem check_arg_exact p t st : tok_parsed t ->
  (check_arg p t st = None <-> arg_ok (kind_of_ptype p) t st).
Proof.
  intros Hp. unfold tok_parsed in Hp. destruct t as [ty v]. cbn [t_type t_val] in *.
  destruct p; cbn [kind_of_ptype arg_ok check_arg]; unfold check_register, check_register_or_label,
    check_label, check_string, check_in_range, lift_str; cbn [t_type t_val].
  - (* REGISTER *) destruct ty; try (destruct (is_pc_name v)); split; intros H; try discriminate; try reflexivity.
  - (* REGISTER_OR_LABEL *)
    destruct ty; try (split; [intros H; discriminate H|intros [H|[H _]]; discriminate H]).
    + split; [intros _; now left|reflexivity].
    + destruct (dict_get st v) as [[x|x|x]|] eqn:E.
      * split; [intros _; right; split; [reflexivity|now exists x]|reflexivity].
      * split; [intros H; discriminate H|intros [H|[_ [y H]]]; discriminate H].
      * split; [intros H; discriminate H|intros [H|[_ [y H]]]; discriminate H].
      * split; [intros H; discriminate H|intros [H|[_ [y H]]]; discriminate H].
  - (* STRING *) destruct ty; split; intros H; try discriminate; reflexivity.
  - (* LABEL_TYPE *) destruct ty; split; intros H; try discriminate; reflexivity.
  - (* I16_OR_LABEL *)
    destruct ty; try (split; [intros H; discriminate H|intros [[H _]|[H _]]; discriminate H]).
    + destruct Hp as [x ->]. rewrite range_check_none. split.
      * intros H. left. split; [reflexivity|]. now exists x.
      * intros [[_ [y [Ey Hy]]]|[H _]]; [injection Ey as <-; exact Hy|discriminate H].
    + destruct (dict_get st v) as [[x|x|x]|] eqn:E; cbn [sym_int]; rewrite ?range_check_none.
      * split; [intros _; right; split; [reflexivity|]; right; right; now exists x|reflexivity].
      * split.
        -- intros H. right. split; [reflexivity|]. right. left. exists x. now split.
        -- intros [[H _]|[_ [[y [Ey Hy]]|[[y [Ey Hy]]|[y Ey]]]]]; try discriminate.
           injection Ey as <-. exact Hy.
      * split.
        -- intros H. right. split; [reflexivity|]. left. exists x. now split.
        -- intros [[H _]|[_ [[y [Ey Hy]]|[[y [Ey Hy]]|[y Ey]]]]]; try discriminate.
           injection Ey as <-. exact Hy.
      * split; [intros H; discriminate H|].
        intros [[H _]|[_ [[y [Ey _]]|[[y [Ey _]]|[y Ey]]]]]; discriminate.
  - (* I8_OR_LABEL *)
    destruct ty; try (split; [intros H; discriminate H|intros [[H _]|[H _]]; discriminate H]).
    + destruct Hp as [x ->]. rewrite range_check_none. split.
      * intros H. left. split; [reflexivity|]. now exists x.
      * intros [[_ [y [Ey Hy]]]|[H _]]; [injection Ey as <-; exact Hy|discriminate H].
    + destruct (dict_get st v) as [[x|x|x]|] eqn:E; cbn [sym_int]; rewrite ?range_check_none.
      * split; [intros _; right; split; [reflexivity|]; right; right; now exists x|reflexivity].
      * split.
        -- intros H. right. split; [reflexivity|]. right. left. exists x. now split.
        -- intros [[H _]|[_ [[y [Ey Hy]]|[[y [Ey Hy]]|[y Ey]]]]]; try discriminate.
           injection Ey as <-. exact Hy.
      * split.
        -- intros H. right. split; [reflexivity|]. left. exists x. now split.
        -- intros [[H _]|[_ [[y [Ey Hy]]|[[y [Ey Hy]]|[y Ey]]]]]; try discriminate.
           injection Ey as <-. exact Hy.
      * split; [intros H; discriminate H|].
        intros [[H _]|[_ [[y [Ey _]]|[[y [Ey _]]|[y Ey]]]]]; discriminate.
  - (* RANGE lo hi *)
    destruct ty; try (split; [intros H; discriminate H|intros [[H _]|[H _]]; discriminate H]).
    + destruct Hp as [x ->]. rewrite range_check_none. split.
      * intros H. left. split; [reflexivity|]. now exists x.
      * intros [[_ [y [Ey Hy]]]|[H _]]; [injection Ey as <-; exact Hy|discriminate H].
    + destruct (dict_get st v) as [[x|x|x]|] eqn:E; rewrite ?range_check_none.
      * split; [intros H; discriminate H|intros [[H _]|[_ [y [Ey _]]]]; discriminate].
      * split; [intros H; discriminate H|intros [[H _]|[_ [y [Ey _]]]]; discriminate].
      * split.
        -- intros H. right. split; [reflexivity|]. exists x. now split.
        -- intros [[H _]|[_ [y [Ey Hy]]]]; [discriminate H|]. injection Ey as <-. exact Hy.
      * split; [intros H; discriminate H|intros [[H _]|[_ [y [Ey _]]]]; discriminate].
Qed.

(* ---- operation level ------------------------------------------------------------------------------ *)
Lemma check_arglist_clean_conv ps ts st i :
  Forall2 (fun p t => check_arg p t st = None) ps ts -> has_errors (check_arglist ps ts st i) = false.
Proof.
  intros F. revert i. induction F as [|p t ps ts H _ IH]; intros i; cbn [check_arglist]; [reflexivity|].
  rewrite H. apply IH.
Qed.

Lemma Forall2_map_l {A B C} (f : A -> B) (R : B -> C -> Prop) l l' :
  Forall2 R (map f l) l' <-> Forall2 (fun a c => R (f a) c) l l'.
Proof.
  revert l'. induction l as [|a l IH]; intros l'; cbn [map]; split; intros H; inversion H; subst; constructor;
    try assumption; now apply IH.
Qed.

(* An operation passes the generic type-check iff it has exactly the documented number of operands
   and each conforms to its documented kind. *)
Theorem op_accept_exact o st : Forall tok_parsed (o_toks o) ->
  (has_errors (default_typecheck o st) = false <->
   Forall2 (fun k t => arg_ok k t st) (signature (o_cls o)) (o_toks o)).
Proof.
  intros Hp. rewrite <- P_matches_signature, Forall2_map_l. split.
  - intros H. pose proof (typecheck_clean o st H) as F.
    clear H. revert Hp. induction F as [|p t ps ts H _ IH]; intros Hp; constructor.
    + apply check_arg_exact; [now inversion Hp|exact H].
    + apply IH. now inversion Hp.
  - intros F.
    assert (F' : Forall2 (fun p t => check_arg p t st = None) (P_of (o_cls o)) (o_toks o)).
    { clear -F Hp. induction F as [|p t ps ts H _ IH]; constructor.
      - apply check_arg_exact; [now inversion Hp|exact H].
      - apply IH. now inversion Hp. }
    unfold default_typecheck, has_errors. rewrite existsb_app.
    apply orb_false_iff. split.
    + assert (L : List.length (P_of (o_cls o)) = List.length (o_toks o)).
      { clear -F'. induction F'; cbn; congruence. }
      unfold zlen. rewrite L, Z.ltb_irrefl. reflexivity.
    + apply check_arglist_clean_conv, F'.
Qed.

(* ---- one step of the program-level check: exactly the documented program rules --------------------- *)
Definition step_msgs (c : csettings) (t : tcstate) (o : op) : list msg :=
  skipn (List.length (tc_msgs t)) (tc_msgs (typecheck_step c t o)).

Lemma has_errors_app a b : has_errors (a ++ b) = has_errors a || has_errors b.
Proof. unfold has_errors. apply existsb_app. Qed.

Theorem typecheck_step_exact c t o :
  has_errors (step_msgs c t o) = false <->
  has_errors (op_typecheck o (tc_st t) (String.eqb (cs_mode c) "assemble")) = false /\
  (is_data_op (o_cls o) && tc_seen_code t = false) /\
  (cs_allow_interrupts c = true \/ interrupt_name o (tc_st t) = None) /\
  (cs_no_debug_ops c && is_debugging_op (o_cls o) = false).
Proof.
  unfold step_msgs, typecheck_step. cbn [tc_msgs].
  rewrite skipn_app, skipn_all, Nat.sub_diag. cbn [skipn app].
  rewrite !has_errors_app.
  destruct (is_data_op (o_cls o) && tc_seen_code t) eqn:E1;
  destruct (cs_allow_interrupts c) eqn:E2;
  destruct (cs_no_debug_ops c && is_debugging_op (o_cls o)) eqn:E4;
  destruct (has_errors (op_typecheck o (tc_st t) (cs_mode c =? "assemble")%string)) eqn:E0;
  try destruct (interrupt_name o (tc_st t)) eqn:E3; cbn;
  split; intros H; try discriminate; try tauto;
  try (destruct H as (H1 & H2 & [H3|H3] & H4); discriminate).
  all: repeat split; auto.
Qed.

(* ---- whole programs: the verdict is the conjunction of the per-operation verdicts and of the two
   global passes (redeclaration, label/data layout) — nothing else can reject a program ------------- *)
Fixpoint steps_clean (c : csettings) (t : tcstate) (ops : list op) : Prop :=
  match ops with
  | [] => True
  | o :: r => has_errors (step_msgs c t o) = false /\ steps_clean c (typecheck_step c t o) r
  end.

Lemma step_msgs_app c t o : tc_msgs (typecheck_step c t o) = tc_msgs t ++ step_msgs c t o.
Proof.
  unfold step_msgs. set (l := tc_msgs (typecheck_step c t o)).
  assert (E : exists x, l = tc_msgs t ++ x) by (unfold l, typecheck_step; cbn [tc_msgs]; eexists; reflexivity).
  destruct E as [x ->]. rewrite skipn_app, skipn_all, Nat.sub_diag. reflexivity.
Qed.

Lemma fold_clean c ops : forall t,
  has_errors (tc_msgs (fold_left (typecheck_step c) ops t)) = false <->
  has_errors (tc_msgs t) = false /\ steps_clean c t ops.
Proof.
  induction ops as [|o r IH]; intros t; cbn [fold_left steps_clean]; [tauto|].
  rewrite IH, step_msgs_app, has_errors_app, orb_false_iff. tauto.
Qed.

Theorem program_accept_exact c ops :
  has_errors (snd (typecheck c ops)) = false <->
  has_errors (check_redecl ops []) = false /\
  has_errors (snd (get_labels c ops)) = false /\
  steps_clean c (mktc (fst (get_labels c ops)) false (check_redecl ops [] ++ snd (get_labels c ops))) ops.
Proof.
  unfold typecheck. destruct (get_labels c ops) as [st m1]. cbn [fst snd].
  rewrite fold_clean. cbn [tc_msgs]. rewrite has_errors_app, orb_false_iff. tauto.
Qed.
