(* C09_Checker.v — the checker's verdict on every operation matches its documented signature. *)
From Coq Require Import ZArith List Bool String Lia ZifyBool.
From Hera.Lib Require Import Py.
From Hera.Gen Require Import Utils Ops Tables Convert.
From Hera.Spec Require Import Signature.
From Hera.Model Require Import OpRep Bitvec Preproc.
From Hera.Proofs Require Import C04_Oplen.
Import ListNotations.
Open Scope Z_scope.

(* the parameter tuples in hera/op.py are exactly the documented signatures *)
Theorem P_matches_signature : forall o, map kind_of_ptype (P_of o) = signature o.
Proof. destruct o; reflexivity. Qed.

Lemma range_check_none v lo hi : range_check v lo hi = None <-> in_rng lo hi v.
Proof. unfold range_check, in_rng. destruct ((v <? lo) || (v >=? hi)) eqn:E; split; intros H; try discriminate; try reflexivity; lia. Qed.

(* operand-level exactness: an operand is accepted iff it conforms to the documented kind *)
Theorem check_arg_exact p t st : tok_parsed t ->
  (check_arg p t st = None <-> arg_ok (kind_of_ptype p) t st).
Proof.
  intros Hp. unfold tok_parsed in Hp. destruct t as [ty v]. cbn [t_type t_val] in *.
  destruct p; cbn [kind_of_ptype arg_ok check_arg]; unfold check_register, check_register_or_label,
    check_label, check_string, check_in_range, lift_str; cbn [t_type t_val].
  - (* REGISTER *) destruct ty; try (destruct (is_pc_name v)); split; intros H; try discriminate; try reflexivity.
  - (* REGISTER_OR_LABEL *)
    destruct ty; try (split; [intros H; discriminate H|intros [H|[H _]]; discriminate H]).
    + split; [intros _; now left|reflexivity].
    + destruct (dict_get st v) as [[x|x|x]|] eqn:E.
      * split; [intros _; right; split; [reflexivity|now exists x]|reflexivity].
      * split; [intros H; discriminate H|intros [H|[_ [y H]]]; discriminate H].
      * split; [intros H; discriminate H|intros [H|[_ [y H]]]; discriminate H].
      * split; [intros H; discriminate H|intros [H|[_ [y H]]]; discriminate H].
  - (* STRING *) destruct ty; split; intros H; try discriminate; reflexivity.
  - (* LABEL_TYPE *) destruct ty; split; intros H; try discriminate; reflexivity.
  - (* I16_OR_LABEL *)
    destruct ty; try (split; [intros H; discriminate H|intros [[H _]|[H _]]; discriminate H]).
    + destruct Hp as [x ->]. rewrite range_check_none. split.
      * intros H. left. split; [reflexivity|]. now exists x.
      * intros [[_ [y [Ey Hy]]]|[H _]]; [injection Ey as <-; exact Hy|discriminate H].
    + destruct (dict_get st v) as [[x|x|x]|] eqn:E; cbn [sym_int]; rewrite ?range_check_none.
      * split; [intros _; right; split; [reflexivity|]; right; right; now exists x|reflexivity].
      * split.
        -- intros H. right. split; [reflexivity|]. right. left. exists x. now split.
        -- intros [[H _]|[_ [[y [Ey Hy]]|[[y [Ey Hy]]|[y Ey]]]]]; try discriminate.
           injection Ey as <-. exact Hy.
      * split.
        -- intros H. right. split; [reflexivity|]. left. exists x. now split.
        -- intros [[H _]|[_ [[y [Ey Hy]]|[[y [Ey Hy]]|[y Ey]]]]]; try discriminate.
           injection Ey as <-. exact Hy.
      * split; [intros H; discriminate H|].
        intros [[H _]|[_ [[y [Ey _]]|[[y [Ey _]]|[y Ey]]]]]; discriminate.
  - (* I8_OR_LABEL *)
    destruct ty; try (split; [intros H; discriminate H|intros [[H _]|[H _]]; discriminate H]).
    + destruct Hp as [x ->]. rewrite range_check_none. split.
      * intros H. left. split; [reflexivity|]. now exists x.
      * intros [[_ [y [Ey Hy]]]|[H _]]; [injection Ey as <-; exact Hy|discriminate H].
    + destruct (dict_get st v) as [[x|x|x]|] eqn:E; cbn [sym_int]; rewrite ?range_check_none.
      * split; [intros _; right; split; [reflexivity|]; right; right; now exists x|reflexivity].
      * split.
        -- intros H. right. split; [reflexivity|]. right. left. exists x. now split.
        -- intros [[H _]|[_ [[y [Ey Hy]]|[[y [Ey Hy]]|[y Ey]]]]]; try discriminate.
           injection Ey as <-. exact Hy.
      * split.
        -- intros H. right. split; [reflexivity|]. left. exists x. now split.
        -- intros [[H _]|[_ [[y [Ey Hy]]|[[y [Ey Hy]]|[y Ey]]]]]; try discriminate.
           injection Ey as <-. exact Hy.
      * split; [intros H; discriminate H|].
        intros [[H _]|[_ [[y [Ey _]]|[[y [Ey _]]|[y Ey]]]]]; discriminate.
  - (* RANGE lo hi *)
    destruct ty; try (split; [intros H; discriminate H|intros [[H _]|[H _]]; discriminate H]).
    + destruct Hp as [x ->]. rewrite range_check_none. split.
      * intros H. left. split; [reflexivity|]. now exists x.
      * intros [[_ [y [Ey Hy]]]|[H _]]; [injection Ey as <-; exact Hy|discriminate H].
    + destruct (dict_get st v) as [[x|x|x]|] eqn:E; rewrite ?range_check_none.
      * split; [intros H; discriminate H|intros [[H _]|[_ [y [Ey _]]]]; discriminate].
      * split; [intros H; discriminate H|intros [[H _]|[_ [y [Ey _]]]]; discriminate].
      * split.
        -- intros H. right. split; [reflexivity|]. exists x. now split.
        -- intros [[H _]|[_ [y [Ey Hy]]]]; [discriminate H|]. injection Ey as <-. exact Hy.
      * split; [intros H; discriminate H|intros [[H _]|[_ [y [Ey _]]]]; discriminate].
Qed.
