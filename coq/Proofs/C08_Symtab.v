(* C08_Symtab.v — the symbol table only grows while a program is type-checked: once a name is bound its
   value never changes (a program that re-declares a name is rejected), so what the type checker saw
   when it accepted an operation is what the preprocessor substitutes later. *)
From Coq Require Import ZArith List Bool String Lia.
From Hera.Lib Require Import Py.
From Hera.Gen Require Import Utils Ops Tables Convert.
From Hera.Model Require Import OpRep Preproc.
Import ListNotations.
Open Scope Z_scope.

(* ---- dictionaries keyed by strings --------------------------------------------------------------------- *)
Lemma zlist_eqb_iff a b : zlist_eqb a b = true <-> a = b.
Proof.
  revert b. induction a as [|x a IH]; destruct b as [|y b]; cbn [zlist_eqb]; try (split; [discriminate|discriminate]).
  - tauto.
  - rewrite andb_true_iff, Z.eqb_eq, IH. split; [intros [-> ->]; reflexivity|intros E; injection E; auto].
Qed.
Lemma py_eqb_PS a b : py_eqb (PS a) (PS b) = true <-> a = b.
Proof. cbn [py_eqb]. apply zlist_eqb_iff. Qed.
Lemma py_eqb_PS_false a b : a <> b -> py_eqb (PS a) (PS b) = false.
Proof. intros N. destruct (py_eqb (PS a) (PS b)) eqn:E; [apply py_eqb_PS in E; contradiction|reflexivity]. Qed.
Lemma py_eqb_PS_l a q : py_eqb (PS a) q = true -> q = PS a.
Proof. destruct q; cbn [py_eqb]; try discriminate. intros E. apply zlist_eqb_iff in E. now subst. Qed.

Definition keys_ps {V} (d : list (pv * V)) : Prop := Forall (fun kv => exists s, fst kv = PS s) d.
Definition has_key {V} (d : list (pv * V)) (s : list Z) : Prop := In (PS s) (map fst d).

Lemma get_none_nokey {V} (d : list (pv * V)) s : keys_ps d -> dict_get d (PS s) = None <-> ~ has_key d s.
Proof.
  unfold has_key. induction d as [|[k v] t IH]; intros K; cbn [dict_get map fst In]; [tauto|].
  inversion K as [|? ? [s' Hk] Kt]; subst. cbn [fst] in Hk. subst k.
  destruct (py_eqb (PS s') (PS s)) eqn:E.
  - apply py_eqb_PS in E. subst. split; [discriminate|]. intros N. exfalso. apply N. now left.
  - rewrite (IH Kt). split.
    + intros N [H|H]; [injection H as ->; rewrite (proj2 (py_eqb_PS s s) eq_refl) in E; discriminate|exact (N H)].
    + intros N H. apply N. now right.
Qed.

Lemma get_some_key {V} (d : list (pv * V)) q x : keys_ps d -> dict_get d q = Some x -> exists s, q = PS s /\ has_key d s.
Proof.
  unfold has_key. induction d as [|[k v] t IH]; intros K; cbn [dict_get map fst In]; [discriminate|].
  inversion K as [|? ? [s' Hk] Kt]; subst. cbn [fst] in Hk. subst k.
  destruct (py_eqb (PS s') q) eqn:E.
  - intros _. apply py_eqb_PS_l in E. exists s'. split; [exact E|now left].
  - intros H. destruct (IH Kt H) as (s & -> & I). exists s. split; [reflexivity|now right].
Qed.

Lemma set_keys_ps {V} (d : list (pv * V)) s v : keys_ps d -> keys_ps (dict_set d (PS s) v).
Proof.
  induction d as [|[k w] t IH]; intros K; cbn [dict_set].
  - constructor; [eexists; reflexivity|constructor].
  - inversion K as [|? ? Hk Kt]; subst. destruct (py_eqb k (PS s)); constructor; auto.
    apply IH, Kt.
Qed.

Lemma set_has_key {V} (d : list (pv * V)) s v t : keys_ps d -> has_key (dict_set d (PS s) v) t -> t = s \/ has_key d t.
Proof.
  unfold has_key. induction d as [|[k w] r IH]; intros K; cbn [dict_set map fst In].
  - intros [H|[]]. injection H as ->. now left.
  - inversion K as [|? ? [s' Hk] Kt]; subst. cbn [fst] in Hk. subst k.
    destruct (py_eqb (PS s') (PS s)) eqn:E; cbn [map fst In].
    + intros [H|H]; right; [now left|now right].
    + intros [H|H]; [right; now left|]. destruct (IH Kt H) as [->|I]; [now left|right; now right].
Qed.

(* binding a fresh name leaves every existing binding alone *)
Lemma set_fresh_ext {V} (d : list (pv * V)) s v q x :
  keys_ps d -> dict_get d (PS s) = None -> dict_get d q = Some x -> dict_get (dict_set d (PS s) v) q = Some x.
Proof.
  induction d as [|[k w] t IH]; intros K N H; cbn [dict_get dict_set] in *; [discriminate|].
  inversion K as [|? ? [s' Hk] Kt]; subst. cbn [fst] in Hk. subst k.
  destruct (py_eqb (PS s') (PS s)) eqn:E; [discriminate N|].
  cbn [dict_get]. destruct (py_eqb (PS s') q); [exact H|]. apply IH; assumption.
Qed.

Definition ext {V} (a b : list (pv * V)) : Prop := forall q x, dict_get a q = Some x -> dict_get b q = Some x.
Lemma ext_refl {V} (a : list (pv * V)) : ext a a.  Proof. intros q x H. exact H. Qed.
Lemma ext_trans {V} (a b c : list (pv * V)) : ext a b -> ext b c -> ext a c.
Proof. intros H1 H2 q x H. apply H2, H1, H. Qed.

(* ---- declared names ---------------------------------------------------------------------------------------- *)
Definition decl_name (o : op) : option pv := if declares_symbol (o_cls o) then hd_error (o_args o) else None.
Fixpoint decls (ops : list op) : list pv :=
  match ops with
  | [] => []
  | o :: t => match decl_name o with Some s => s :: decls t | None => decls t end
  end.
Lemma decls_app a b : decls (a ++ b) = decls a ++ decls b.
Proof. induction a as [|o a IH]; cbn [decls app]; [reflexivity|]. destruct (decl_name o); cbn [app]; now rewrite IH. Qed.

Lemma has_errors_cons m l : has_errors (m :: l) = m_err m || has_errors l.
Proof. reflexivity. Qed.

(* a program without redeclaration errors declares pairwise different names *)
Lemma redecl_clean : forall ops seen, has_errors (check_redecl ops seen) = false ->
  forall a o b s, ops = a ++ o :: b -> decl_name o = Some s ->
    existsb (py_eqb s) seen = false /\ (forall x, In x (decls a) -> py_eqb s x = false) /\
    (forall y, In y (decls b) -> py_eqb y s = false).
Proof.
  induction ops as [|o0 r IH]; intros seen H a o b s E D; [destruct a; discriminate E|].
  cbn [check_redecl] in H.
  destruct a as [|o1 a'].
  - (* o is the first operation *)
    cbn [app] in E. injection E as -> ->. unfold decl_name in D.
    destruct (declares_symbol (o_cls o)) eqn:Dc; [|discriminate D].
    destruct (o_args o) as [|s0 rest] eqn:Ea; [discriminate D|]. cbn [hd_error] in D. injection D as Ds. subst s0.
    destruct (existsb (py_eqb s) seen) eqn:Es; [discriminate H|].
    split; [reflexivity|]. split; [intros x []|].
    intros y Hy.
    (* y is declared by some operation of b *)
    assert (G : forall ops' seen', has_errors (check_redecl ops' seen') = false ->
                forall y, In y (decls ops') -> existsb (py_eqb y) seen' = false).
    { clear. induction ops' as [|p q IHq]; intros seen' Hc y Hy; [destruct Hy|].
      cbn [check_redecl] in Hc. cbn [decls] in Hy. unfold decl_name in Hy.
      destruct (declares_symbol (o_cls p)); [|exact (IHq _ Hc y Hy)].
      destruct (o_args p) as [|s1 r1]; cbn [hd_error] in Hy; [exact (IHq _ Hc y Hy)|].
      destruct (existsb (py_eqb s1) seen') eqn:E1; [discriminate Hc|].
      destruct Hy as [<-|Hy]; [exact E1|].
      pose proof (IHq _ Hc y Hy) as X. cbn [existsb] in X. apply orb_false_iff in X. exact (proj2 X). }
    pose proof (G b (s :: seen) H y Hy) as X. cbn [existsb] in X.
    apply orb_false_iff in X. exact (proj1 X).
  - cbn [app] in E. injection E as -> ->.
    destruct (declares_symbol (o_cls o1)) eqn:Dc0.
    + destruct (o_args o1) as [|s0 rest] eqn:Ea0.
      * destruct (IH seen H a' o b s eq_refl D) as (A1 & A2 & A3).
        split; [exact A1|]. split; [|exact A3].
        intros x Hx. cbn [decls] in Hx. unfold decl_name in Hx. rewrite Dc0, Ea0 in Hx. cbn [hd_error] in Hx. exact (A2 x Hx).
      * destruct (existsb (py_eqb s0) seen) eqn:Es0; [discriminate H|].
        destruct (IH (s0 :: seen) H a' o b s eq_refl D) as (A1 & A2 & A3).
        cbn [existsb] in A1. apply orb_false_iff in A1 as [B1 B2].
        split; [exact B2|]. split; [|exact A3].
        intros x Hx. cbn [decls] in Hx. unfold decl_name in Hx. rewrite Dc0, Ea0 in Hx. cbn [hd_error] in Hx.
        destruct Hx as [<-|Hx]; [exact B1|exact (A2 x Hx)].
    + destruct (IH seen H a' o b s eq_refl D) as (A1 & A2 & A3).
      split; [exact A1|]. split; [|exact A3].
      intros x Hx. cbn [decls] in Hx. unfold decl_name in Hx. rewrite Dc0 in Hx. exact (A2 x Hx).
Qed.

(* ---- get_labels binds label and data-label names only ---------------------------------------------------- *)
Lemma gl_st_step c g o : gl_st (get_labels_step c g o) =
  match o_cls o, o_args o with
  | O_LABEL, [a] => dict_set (gl_st g) a (SLabel (gl_pc g))
  | O_DLABEL, [a] => dict_set (gl_st g) a (SDataLabel (if out_of_range_z (gl_dc g) then 0 else gl_dc g))
  | _, _ => gl_st g
  end.
Proof.
  unfold get_labels_step. cbv zeta.
  destruct (o_cls o); try (destruct (strips_debug c && _));
    repeat match goal with
           | |- context [match o_args o with _ => _ end] => destruct (o_args o) as [|? [|? ?]]
           | |- context [match ?x with PI _ => _ | _ => _ end] => destruct x
           | |- context [match dict_get ?a ?b with _ => _ end] => destruct (dict_get a b)
           | |- context [if ?b then _ else _] => destruct b
           end; reflexivity.
Qed.

Definition names_ps (ops : list op) : Prop :=
  Forall (fun o => declares_symbol (o_cls o) = true -> exists s r, o_args o = PS s :: r) ops.

Definition ldecl_name (o : op) : option pv :=
  match o_cls o with O_LABEL | O_DLABEL => hd_error (o_args o) | _ => None end.
Fixpoint ldecls (ops : list op) : list pv :=
  match ops with
  | [] => []
  | o :: t => match ldecl_name o with Some s => s :: ldecls t | None => ldecls t end
  end.
Lemma ldecls_app a b : ldecls (a ++ b) = ldecls a ++ ldecls b.
Proof. induction a as [|o a IH]; cbn [ldecls app]; [reflexivity|]. destruct (ldecl_name o); cbn [app]; now rewrite IH. Qed.
Lemma ldecl_decl o s : ldecl_name o = Some s -> decl_name o = Some s.
Proof. unfold ldecl_name, decl_name. destruct (o_cls o); try discriminate; cbn [declares_symbol]; auto. Qed.
Lemma ldecls_decls ops x : In x (ldecls ops) -> In x (decls ops).
Proof.
  induction ops as [|o t IH]; cbn [ldecls decls]; [auto|].
  destruct (ldecl_name o) eqn:E.
  - rewrite (ldecl_decl _ _ E). intros [<-|H]; [now left|right; auto].
  - intros H. destruct (decl_name o); [right|]; auto.
Qed.

Lemma gl_fold_keys c ops : names_ps ops -> forall g, keys_ps (gl_st g) ->
  keys_ps (gl_st (fold_left (get_labels_step c) ops g)) /\
  forall t, has_key (gl_st (fold_left (get_labels_step c) ops g)) t -> has_key (gl_st g) t \/ In (PS t) (ldecls ops).
Proof.
  induction ops as [|o r IH]; intros N g K; cbn [fold_left ldecls]; [split; [exact K|auto]|].
  inversion N as [|? ? No Nr]; subst.
  assert (S1 : keys_ps (gl_st (get_labels_step c g o)) /\
               forall t, has_key (gl_st (get_labels_step c g o)) t -> has_key (gl_st g) t \/ ldecl_name o = Some (PS t)).
  { rewrite gl_st_step. unfold ldecl_name.
    destruct (o_cls o) eqn:Ec; cbv iota beta; try (split; [exact K|intros t Ht; left; exact Ht]);
      destruct (No eq_refl) as (s & rest & Ea); rewrite Ea;
      (destruct rest as [|? ?]; [|split; [exact K|intros t Ht; left; exact Ht]]);
      (split; [apply set_keys_ps, K|]); intros t Ht; apply set_has_key in Ht; try exact K;
      (destruct Ht as [->|Ht]; [right; reflexivity|left; exact Ht]). }
  destruct S1 as [K1 H1]. destruct (IH Nr _ K1) as [K2 H2]. split; [exact K2|].
  intros t Ht. destruct (H2 t Ht) as [A|A].
  - destruct (H1 t A) as [B|B]; [left; exact B|]. right. rewrite B. now left.
  - right. destruct (ldecl_name o); [right|]; exact A.
Qed.

(* ---- type checking only ever adds fresh constants ----------------------------------------------------------- *)
Lemma py_eqb_refl' k : py_eqb k k = true.
Proof. destruct k; cbn [py_eqb as_int]; try apply Z.eqb_refl; try reflexivity. apply zlist_eqb_iff. reflexivity. Qed.

Lemma tc_fold_ext c ops : names_ps ops -> has_errors (check_redecl ops []) = false ->
  forall rest a tail t, ops = a ++ rest ++ tail -> keys_ps (tc_st t) ->
    (forall s, has_key (tc_st t) s -> In (PS s) (ldecls ops) \/ In (PS s) (decls a)) ->
    ext (tc_st t) (tc_st (fold_left (typecheck_step c) rest t)) /\
    keys_ps (tc_st (fold_left (typecheck_step c) rest t)) /\
    (forall s, has_key (tc_st (fold_left (typecheck_step c) rest t)) s -> In (PS s) (ldecls ops) \/ In (PS s) (decls (a ++ rest))).
Proof.
  intros N R. induction rest as [|o r IH]; intros a tail t E K I; cbn [fold_left];
    [rewrite app_nil_r; split; [apply ext_refl|split; assumption]|].
  assert (E2 : ops = (a ++ [o]) ++ r ++ tail) by (rewrite <- app_assoc; exact E).
  assert (E3 : ops = a ++ o :: (r ++ tail)) by exact E.
  (* one step *)
  assert (S1 : ext (tc_st t) (tc_st (typecheck_step c t o)) /\ keys_ps (tc_st (typecheck_step c t o)) /\
               (forall s, has_key (tc_st (typecheck_step c t o)) s -> In (PS s) (ldecls ops) \/ In (PS s) (decls (a ++ [o])))).
  { assert (Keep : forall s, has_key (tc_st t) s -> In (PS s) (ldecls ops) \/ In (PS s) (decls (a ++ [o]))).
    { intros s Hs. destruct (I s Hs) as [A|A]; [left; exact A|right]. rewrite decls_app. apply in_or_app. now left. }
    assert (Fresh : forall name rest', o_cls o = O_CONSTANT -> o_args o = PS name :: rest' -> dict_get (tc_st t) (PS name) = None).
    { intros name rest' Ec Ea. apply get_none_nokey; [exact K|]. intros Hk.
      assert (D : decl_name o = Some (PS name)) by (unfold decl_name; rewrite Ec, Ea; reflexivity).
      destruct (redecl_clean ops [] R a o (r ++ tail) (PS name) E3 D) as (_ & A2 & A3).
      assert (LO : ldecl_name o = None) by (unfold ldecl_name; rewrite Ec; reflexivity).
      destruct (I name Hk) as [A|A].
      - rewrite E3, ldecls_app in A. cbn [ldecls] in A. rewrite LO in A. apply in_app_or in A as [A|A].
        + pose proof (A2 _ (ldecls_decls _ _ A)) as X. rewrite py_eqb_refl' in X. discriminate X.
        + pose proof (A3 _ (ldecls_decls _ _ A)) as X. rewrite py_eqb_refl' in X. discriminate X.
      - pose proof (A2 _ A) as X. rewrite py_eqb_refl' in X. discriminate X. }
    assert (NewKey : forall name rest', o_cls o = O_CONSTANT -> o_args o = PS name :: rest' -> In (PS name) (decls (a ++ [o]))).
    { intros name rest' Ec Ea. rewrite decls_app. apply in_or_app. right. cbn [decls]. unfold decl_name. rewrite Ec, Ea. now left. }
    unfold typecheck_step. cbv zeta. cbn [tc_st].
    assert (Fin : ext (tc_st t) (tc_st t) /\ keys_ps (tc_st t) /\
                  (forall s, has_key (tc_st t) s -> In (PS s) (ldecls ops) \/ In (PS s) (decls (a ++ [o]))))
      by (split; [apply ext_refl|split; [exact K|exact Keep]]).
    destruct (o_cls o) eqn:Ec; try exact Fin.
    destruct (o_args o) as [|a1 l1] eqn:Ea; try exact Fin.
    destruct a1 as [|b1|z1|name|f1]; try exact Fin.
    destruct l1 as [|a2 l2]; try exact Fin.
    destruct a2 as [|b2|v|other|f2]; try exact Fin; (destruct l2 as [|a3 l3]; try exact Fin).
    - (* CONSTANT(name, integer) *)
      pose proof (Fresh name _ eq_refl eq_refl) as F.
      split; [intros q x H; apply set_fresh_ext; assumption|]. split; [apply set_keys_ps, K|].
      intros s Hs. apply set_has_key in Hs; [|exact K]. destruct Hs as [->|Hs]; [right; exact (NewKey name _ eq_refl eq_refl)|exact (Keep s Hs)].
    - (* CONSTANT(name, other constant) *)
      destruct (dict_get (tc_st t) (PS other)) as [[w|w|w]|]; try exact Fin.
      pose proof (Fresh name _ eq_refl eq_refl) as F.
      split; [intros q x H; apply set_fresh_ext; assumption|]. split; [apply set_keys_ps, K|].
      intros s Hs. apply set_has_key in Hs; [|exact K]. destruct Hs as [->|Hs]; [right; exact (NewKey name _ eq_refl eq_refl)|exact (Keep s Hs)]. }
  destruct S1 as (X1 & X2 & X3).
  destruct (IH (a ++ [o]) tail _ E2 X2 X3) as (Y1 & Y2 & Y3).
  split; [eapply ext_trans; [exact X1|exact Y1]|]. split; [exact Y2|].
  rewrite <- app_assoc in Y3. exact Y3.
Qed.

(* the table an operation is type-checked against is contained in the table the preprocessor uses *)
Theorem typecheck_symtab_stable c ops st msgs :
  names_ps ops -> has_errors (check_redecl ops []) = false -> typecheck c ops = (st, msgs) ->
  forall a b, ops = a ++ b ->
    ext (tc_st (fold_left (typecheck_step c) a
                  (mktc (fst (get_labels c ops)) false (check_redecl ops [] ++ snd (get_labels c ops))))) st.
Proof.
  intros N R T a b E. unfold typecheck in T. destruct (get_labels c ops) as [st0 m1] eqn:G. cbn [fst snd].
  injection T as <- _.
  set (t0 := mktc st0 false (check_redecl ops [] ++ m1)).
  assert (G0 : keys_ps st0 /\ forall t, has_key st0 t -> In (PS t) (ldecls ops)).
  { unfold get_labels in G. injection G as <- _.
    destruct (gl_fold_keys c ops N (mkgl [] [] 0 (cs_data_start c) [])) as [K H]; [constructor|].
    split; [exact K|]. intros t Ht. destruct (H t Ht) as [[]|A]; exact A. }
  destruct G0 as [K0 H0].
  destruct (tc_fold_ext c ops N R a [] b t0) as (_ & K1 & I1); [exact E|exact K0|intros s Hs; left; exact (H0 s Hs)|].
  cbn [app] in I1.
  destruct (tc_fold_ext c ops N R b a [] (fold_left (typecheck_step c) a t0)) as (X & _ & _);
    [rewrite app_nil_r; exact E|exact K1|exact I1|].
  rewrite E, fold_left_app. exact X.
Qed.
