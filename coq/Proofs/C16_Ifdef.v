(* C16_Ifdef.v — the keep-stack machine computes exactly what the C rules prescribe, for every
   well-nested structure at any depth, inside any context. *)
From Coq Require Import ZArith List Bool Lia.
From Hera.Model Require Import Lexer Ifdef.
From Hera.Spec Require Import CondSpec.
Import ListNotations.

Section Proof.
  Variable cls : list Z -> lkind.

  Lemma run_tree t : wf cls t -> forall k st rest,
    run cls (k :: st) (render t ++ rest) = cpp cls k t ++ run cls (k :: st) rest.
  Proof.
    induction t as [|l r IH|d th IHth e el IHel en r IHr]; intros W k st rest.
    - reflexivity.
    - destruct W as [C W]. cbn [render cpp app run]. rewrite C. cbn [top]. rewrite (IH W). reflexivity.
    - destruct W as ((w & Hd) & Wth & We & Cen & Wr).
      cbn [render cpp].
      repeat (rewrite <- ?app_assoc, <- ?app_comm_cons).
      (* the opening directive pushes keep && condition *)
      transitivity ([] :: run cls ((k && cond_true (cls d)) :: k :: st)
                            (render th ++ (match e with Some eln => eln :: render el | None => [] end)
                             ++ en :: render r ++ rest)).
      { cbn [run]. destruct Hd as [Hd|Hd]; rewrite Hd; cbn [top cond_true]; reflexivity. }
      cbn [app]. f_equal.
      rewrite (IHth Wth). f_equal.
      destruct e as [eln|].
      + destruct We as [Ce Wel]. cbn [app run]. rewrite Ce.
        repeat (rewrite <- ?app_assoc, <- ?app_comm_cons). cbn [app]. f_equal.
        assert (B : forall c, k && negb (k && c) = k && negb c) by (intros c; destruct k, c; reflexivity).
        rewrite B. rewrite (IHel Wel). f_equal.
        cbn [run]. rewrite Cen. f_equal. apply (IHr Wr).
      + cbn [app run]. rewrite Cen. f_equal. apply (IHr Wr).
  Qed.
End Proof.

(* the whole text of a well-nested structure: what remains is what the C rules keep *)
Theorem ifdef_is_cpp t : wf classify t -> ifdef_lines (render t) = cpp classify true t.
Proof.
  intros W. unfold ifdef_lines. rewrite <- (app_nil_r (render t)).
  rewrite (run_tree classify t W true [] []). cbn [run]. apply app_nil_r.
Qed.

(* line numbers are preserved: the output has exactly as many lines as the input, whatever the input *)
Theorem ifdef_keeps_line_count cls : forall lines st, List.length (run cls st lines) = List.length lines.
Proof.
  induction lines as [|l r IH]; intros st; cbn [run List.length]; [reflexivity|].
  destruct (cls l); cbn [List.length]; rewrite IH; reflexivity.
Qed.

(* and a line that survives is the input line at the same position; anything else is blank *)
Theorem ifdef_lines_in_place cls : forall lines st n,
  nth n (run cls st lines) [] = nth n lines [] \/ nth n (run cls st lines) [] = [].
Proof.
  induction lines as [|l r IH]; intros st n; cbn [run].
  - right. destruct n; reflexivity.
  - destruct (cls l); destruct n as [|n]; cbn [nth];
      try (right; reflexivity); try apply IH.
    destruct (top st); [left|right]; reflexivity.
Qed.
