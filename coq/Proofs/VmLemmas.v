(* VmLemmas.v — characterisation of the generated VirtualMachine methods (Gen/Vm.v,
   regenerated from hera/vm.py) on well-formed states, in terms of the specification's
   helpers.  Every C01/C02/C03 proof goes through these lemmas, so a change to vm.py that
   alters behaviour breaks them here. *)
From Coq Require Import ZArith List Bool String Lia ZifyBool.
From Hera.Lib Require Import Py Machine Word16.
From Hera.Gen Require Import Utils Vm.
From Hera.Spec Require Import ISA Wf.
Import ListNotations.
Open Scope Z_scope.

Ltac Zify.zify_post_hook ::= Z.to_euclidean_division_equations.

(* --- list facts ------------------------------------------------------------------ *)
Lemma list_set_length {A} (l : list A) n v : List.length (list_set l n v) = List.length l.
Proof. revert n; induction l as [|h t IH]; intros [|n]; simpl; auto. Qed.

Lemma nth_list_set_same {A} (l : list A) n v d :
  (n < List.length l)%nat -> nth n (list_set l n v) d = v.
Proof. revert n; induction l as [|h t IH]; intros [|n] H; simpl in *; try lia; auto. apply IH; lia. Qed.

Lemma nth_list_set_other {A} (l : list A) n m v d :
  n <> m -> nth m (list_set l n v) d = nth m l d.
Proof. revert n m; induction l as [|h t IH]; intros [|n] [|m] H; simpl; auto; try congruence. Qed.

Lemma Forall_list_set {A} (P : A -> Prop) l n v : Forall P l -> P v -> Forall P (list_set l n v).
Proof.
  revert n; induction l as [|h t IH]; intros n Hl Hv; simpl; [constructor|].
  inversion Hl; subst. destruct n; constructor; auto.
Qed.

(* --- unfolding the monad --------------------------------------------------------- *)
Lemma bind_Ok {A B} (c : M A) (k : A -> M B) s a s' :
  c s = Ok (a, s') -> bind c k s = k a s'.
Proof. unfold bind. now intros ->. Qed.

Lemma norm_index_in len i : 0 <= i < len -> norm_index len i = Some i.
Proof.
  intros H. unfold norm_index.
  destruct (i <? 0) eqn:E1; [lia|]. destruct (i <? len) eqn:E2; [reflexivity|lia].
Qed.

(* --- registers ------------------------------------------------------------------- *)
Lemma regs_getitem_ok s i :
  List.length (regs s) = 16%nat -> reg_ix i ->
  regs_getitem (PI i) s = Ok (PI (getreg s i), s).
Proof.
  intros Hl Hi. unfold regs_getitem, py_getitem, zlen, getreg. rewrite Hl. cbn [as_int].
  rewrite norm_index_in by (unfold reg_ix in Hi; lia). reflexivity.
Qed.

Lemma vm_load_register_ok s i :
  List.length (regs s) = 16%nat -> reg_ix i ->
  vm_load_register (PI i) s = Ok (PI (getreg s i), s).
Proof.
  intros Hl Hi. unfold vm_load_register.
  rewrite (bind_Ok _ _ _ _ _ (regs_getitem_ok s i Hl Hi)). reflexivity.
Qed.

Lemma regs_setitem_ok s i v :
  List.length (regs s) = 16%nat -> reg_ix i ->
  regs_setitem (PI i) (PI v) s = Ok (tt, upd_regs (list_set (regs s) (Z.to_nat i) v) s).
Proof.
  intros Hl Hi. unfold regs_setitem, need_int, py_setitem, zlen. rewrite Hl. cbn [as_int].
  rewrite norm_index_in by (unfold reg_ix in Hi; lia). reflexivity.
Qed.

Lemma vm_store_register_ok s i v :
  List.length (regs s) = 16%nat -> reg_ix i -> is_bool (warned_ovf s) ->
  vm_store_register (PI i) (PI v) s = Ok (tt, setreg i v s).
Proof.
  intros Hl Hi [w Hw]. unfold vm_store_register, setreg, flag.
  cbn [py_ne py_eqb as_int truthy].
  destruct (i =? 0) eqn:E0; cbn [negb]; [reflexivity|].
  rewrite (bind_Ok _ _ _ _ _ (regs_setitem_ok s i v Hl Hi)).
  destruct s as [r p d fs fz fv fc fcb m h e oc wo ws wr wc sw lo ib ip ou cf].
  cbn [warned_ovf] in Hw. subst wo. unfold vm_warn. msimpl.
  destruct (i =? 15) eqn:E15; [|reflexivity].
  replace (v >=? match cf with {| data_start := ds |} => ds end)
    with (match cf with {| data_start := ds |} => ds end <=? v) by lia.
  destruct (match cf with {| data_start := ds |} => ds end <=? v) eqn:Ed; [|reflexivity].
  destruct w; reflexivity.
Qed.

Lemma vm_set_zero_and_sign_ok s v :
  word v -> vm_set_zero_and_sign (PI v) s = Ok (tt, set_zs v s).
Proof.
  intros Hv. unfold vm_set_zero_and_sign, set_zs.
  destruct s as [r p d fs fz fv fc fcb m h e oc wo ws wr wc sw lo ib ip ou cf]. msimpl.
  rewrite (land_32768_word v Hv).
  replace (negb (v <? 32768)) with (32768 <=? v) by lia.
  reflexivity.
Qed.

(* --- memory ---------------------------------------------------------------------- *)
Lemma vm_load_memory_ok s a :
  0 <= a -> vm_load_memory (PI a) s = Ok (PI (mem_read (mem s) a), s).
Proof.
  intros Ha. unfold vm_load_memory, mem_getitem, mem_read.
  destruct s as [r p d fs fz fv fc fcb [ml cl] h e oc wo ws wr wc sw lo ib ip ou cf]. msimpl.
  destruct (a <? ml) eqn:E.
  - replace (a >=? ml) with false by lia.
    rewrite norm_index_in by lia. reflexivity.
  - replace (a >=? ml) with true by lia. reflexivity.
Qed.

Lemma vm_store_memory_ok s a v :
  0 <= a -> 0 <= mlen (mem s) ->
  vm_store_memory (PI a) (PI v) s = Ok (tt, upd_mem (mem_write (mem s) a v) s).
Proof.
  intros Ha Hm. unfold vm_store_memory, mem_extend_zeros, mem_setitem, mem_write.
  destruct s as [r p d fs fz fv fc fcb [ml cl] h e oc wo ws wr wc sw lo ib ip ou cf].
  cbn [mem mlen] in Hm. msimpl.
  destruct (a >=? ml) eqn:E; msimpl.
  - rewrite norm_index_in by lia.
    replace (ml + Z.max (a - ml + 1) 0) with (Z.max ml (a + 1)) by lia. reflexivity.
  - rewrite norm_index_in by lia.
    replace (Z.max ml (a + 1)) with ml by lia. reflexivity.
Qed.
