(* C01_Branch.v — the fifteen register branches, the fifteen relative branches (BRR with
   its HALT idiom included), CALL and RETURN. *)
From Coq Require Import ZArith List Bool String Lia ZifyBool.
From Hera.Lib Require Import Py Machine Word16.
From Hera.Gen Require Import Utils Vm Ops.
From Hera.Spec Require Import ISA Wf.
From Hera.Proofs Require Import VmLemmas Tactics SpecLemmas C01_ALU C01_Misc.
Import ListNotations.
Open Scope Z_scope.

Ltac Zify.zify_post_hook ::= Z.to_euclidean_division_equations.

Ltac should_tac :=
  let Hf := fresh "Hf" in
  intros Hf; match goal with |- exists r, _ ?s = _ /\ _ => expose_state s Hf end;
  unfold holds, flag; msimpl;
  repeat match goal with b : bool |- _ => destruct b end;
  eexists; split; reflexivity.

Ltac regbranch should_ok :=
  let W := fresh "W" in let Hb := fresh "Hb" in
  intros W Hb; facts W;
  let r := fresh "r" in let E := fresh "E" in let T := fresh "T" in
  match goal with H : wf_flags _ |- _ => destruct (should_ok _ H) as (r & E & T) end;
  mstep ltac:(exact E); rewrite T; unfold step_regbranch;
  match goal with |- context [holds ?c ?s] => destruct (holds c s) end; cbv beta iota;
  [ astep; mstep ltac:(apply vm_load_register_ok; assumption); mstep reflexivity; reflexivity
  | mstep reflexivity; mstep reflexivity; reflexivity ].

Ltac relbranch should_ok :=
  let W := fresh "W" in let Ho := fresh "Ho" in
  intros W Ho; facts W;
  let r := fresh "r" in let E := fresh "E" in let T := fresh "T" in
  match goal with H : wf_flags _ |- _ => destruct (should_ok _ H) as (r & E & T) end;
  mstep ltac:(exact E); rewrite T; unfold step_relbranch, next, sext8, byte_of;
  match goal with |- context [holds ?c ?s] => destruct (holds c s) end; cbv beta iota;
  [ astep; pynorm;
    match goal with |- context [?o >? 127] => destruct (o >? 127) eqn:? end; cbv beta iota;
    mstep reflexivity; mstep reflexivity; unfold ret; pynorm; S_eq
  | mstep reflexivity; mstep reflexivity; reflexivity ].

Lemma should_BR_ok s : wf_flags s -> exists r, should_BR s = Ok (r, s) /\ truthy r = holds cBR s.
Proof. unfold should_BR. should_tac. Qed.
Lemma should_BL_ok s : wf_flags s -> exists r, should_BL s = Ok (r, s) /\ truthy r = holds cBL s.
Proof. unfold should_BL. should_tac. Qed.
Lemma should_BLR_ok s : wf_flags s -> exists r, should_BLR s = Ok (r, s) /\ truthy r = holds cBL s.
Proof. unfold should_BLR. should_tac. Qed.
Lemma should_BGE_ok s : wf_flags s -> exists r, should_BGE s = Ok (r, s) /\ truthy r = holds cBGE s.
Proof. unfold should_BGE. should_tac. Qed.
Lemma should_BGER_ok s : wf_flags s -> exists r, should_BGER s = Ok (r, s) /\ truthy r = holds cBGE s.
Proof. unfold should_BGER. should_tac. Qed.
Lemma should_BLE_ok s : wf_flags s -> exists r, should_BLE s = Ok (r, s) /\ truthy r = holds cBLE s.
Proof. unfold should_BLE. should_tac. Qed.
Lemma should_BLER_ok s : wf_flags s -> exists r, should_BLER s = Ok (r, s) /\ truthy r = holds cBLE s.
Proof. unfold should_BLER. should_tac. Qed.
Lemma should_BG_ok s : wf_flags s -> exists r, should_BG s = Ok (r, s) /\ truthy r = holds cBG s.
Proof. unfold should_BG. should_tac. Qed.
Lemma should_BGR_ok s : wf_flags s -> exists r, should_BGR s = Ok (r, s) /\ truthy r = holds cBG s.
Proof. unfold should_BGR. should_tac. Qed.
Lemma should_BULE_ok s : wf_flags s -> exists r, should_BULE s = Ok (r, s) /\ truthy r = holds cBULE s.
Proof. unfold should_BULE. should_tac. Qed.
Lemma should_BULER_ok s : wf_flags s -> exists r, should_BULER s = Ok (r, s) /\ truthy r = holds cBULE s.
Proof. unfold should_BULER. should_tac. Qed.
Lemma should_BUG_ok s : wf_flags s -> exists r, should_BUG s = Ok (r, s) /\ truthy r = holds cBUG s.
Proof. unfold should_BUG. should_tac. Qed.
Lemma should_BUGR_ok s : wf_flags s -> exists r, should_BUGR s = Ok (r, s) /\ truthy r = holds cBUG s.
Proof. unfold should_BUGR. should_tac. Qed.
Lemma should_BZ_ok s : wf_flags s -> exists r, should_BZ s = Ok (r, s) /\ truthy r = holds cBZ s.
Proof. unfold should_BZ. should_tac. Qed.
Lemma should_BZR_ok s : wf_flags s -> exists r, should_BZR s = Ok (r, s) /\ truthy r = holds cBZ s.
Proof. unfold should_BZR. should_tac. Qed.
Lemma should_BNZ_ok s : wf_flags s -> exists r, should_BNZ s = Ok (r, s) /\ truthy r = holds cBNZ s.
Proof. unfold should_BNZ. should_tac. Qed.
Lemma should_BNZR_ok s : wf_flags s -> exists r, should_BNZR s = Ok (r, s) /\ truthy r = holds cBNZ s.
Proof. unfold should_BNZR. should_tac. Qed.
Lemma should_BC_ok s : wf_flags s -> exists r, should_BC s = Ok (r, s) /\ truthy r = holds cBC s.
Proof. unfold should_BC. should_tac. Qed.
Lemma should_BCR_ok s : wf_flags s -> exists r, should_BCR s = Ok (r, s) /\ truthy r = holds cBC s.
Proof. unfold should_BCR. should_tac. Qed.
Lemma should_BNC_ok s : wf_flags s -> exists r, should_BNC s = Ok (r, s) /\ truthy r = holds cBNC s.
Proof. unfold should_BNC. should_tac. Qed.
Lemma should_BNCR_ok s : wf_flags s -> exists r, should_BNCR s = Ok (r, s) /\ truthy r = holds cBNC s.
Proof. unfold should_BNCR. should_tac. Qed.
Lemma should_BS_ok s : wf_flags s -> exists r, should_BS s = Ok (r, s) /\ truthy r = holds cBS s.
Proof. unfold should_BS. should_tac. Qed.
Lemma should_BSR_ok s : wf_flags s -> exists r, should_BSR s = Ok (r, s) /\ truthy r = holds cBS s.
Proof. unfold should_BSR. should_tac. Qed.
Lemma should_BNS_ok s : wf_flags s -> exists r, should_BNS s = Ok (r, s) /\ truthy r = holds cBNS s.
Proof. unfold should_BNS. should_tac. Qed.
Lemma should_BNSR_ok s : wf_flags s -> exists r, should_BNSR s = Ok (r, s) /\ truthy r = holds cBNS s.
Proof. unfold should_BNSR. should_tac. Qed.
Lemma should_BV_ok s : wf_flags s -> exists r, should_BV s = Ok (r, s) /\ truthy r = holds cBV s.
Proof. unfold should_BV. should_tac. Qed.
Lemma should_BVR_ok s : wf_flags s -> exists r, should_BVR s = Ok (r, s) /\ truthy r = holds cBV s.
Proof. unfold should_BVR. should_tac. Qed.
Lemma should_BNV_ok s : wf_flags s -> exists r, should_BNV s = Ok (r, s) /\ truthy r = holds cBNV s.
Proof. unfold should_BNV. should_tac. Qed.
Lemma should_BNVR_ok s : wf_flags s -> exists r, should_BNVR s = Ok (r, s) /\ truthy r = holds cBNV s.
Proof. unfold should_BNVR. should_tac. Qed.

Theorem exec_BR_ok s b : wf_vm s -> reg_ix b ->
  exec_BR [PI b] s = Ok (tt, step_regbranch cBR b s).
Proof. unfold exec_BR. regbranch should_BR_ok. Qed.
Theorem exec_BL_ok s b : wf_vm s -> reg_ix b ->
  exec_BL [PI b] s = Ok (tt, step_regbranch cBL b s).
Proof. unfold exec_BL. regbranch should_BL_ok. Qed.
Theorem exec_BLR_ok s o : wf_vm s -> -128 <= o < 256 ->
  exec_BLR [PI o] s = Ok (tt, step_relbranch cBL o s).
Proof. unfold exec_BLR. relbranch should_BLR_ok. Qed.
Theorem exec_BGE_ok s b : wf_vm s -> reg_ix b ->
  exec_BGE [PI b] s = Ok (tt, step_regbranch cBGE b s).
Proof. unfold exec_BGE. regbranch should_BGE_ok. Qed.
Theorem exec_BGER_ok s o : wf_vm s -> -128 <= o < 256 ->
  exec_BGER [PI o] s = Ok (tt, step_relbranch cBGE o s).
Proof. unfold exec_BGER. relbranch should_BGER_ok. Qed.
Theorem exec_BLE_ok s b : wf_vm s -> reg_ix b ->
  exec_BLE [PI b] s = Ok (tt, step_regbranch cBLE b s).
Proof. unfold exec_BLE. regbranch should_BLE_ok. Qed.
Theorem exec_BLER_ok s o : wf_vm s -> -128 <= o < 256 ->
  exec_BLER [PI o] s = Ok (tt, step_relbranch cBLE o s).
Proof. unfold exec_BLER. relbranch should_BLER_ok. Qed.
Theorem exec_BG_ok s b : wf_vm s -> reg_ix b ->
  exec_BG [PI b] s = Ok (tt, step_regbranch cBG b s).
Proof. unfold exec_BG. regbranch should_BG_ok. Qed.
Theorem exec_BGR_ok s o : wf_vm s -> -128 <= o < 256 ->
  exec_BGR [PI o] s = Ok (tt, step_relbranch cBG o s).
Proof. unfold exec_BGR. relbranch should_BGR_ok. Qed.
Theorem exec_BULE_ok s b : wf_vm s -> reg_ix b ->
  exec_BULE [PI b] s = Ok (tt, step_regbranch cBULE b s).
Proof. unfold exec_BULE. regbranch should_BULE_ok. Qed.
Theorem exec_BULER_ok s o : wf_vm s -> -128 <= o < 256 ->
  exec_BULER [PI o] s = Ok (tt, step_relbranch cBULE o s).
Proof. unfold exec_BULER. relbranch should_BULER_ok. Qed.
Theorem exec_BUG_ok s b : wf_vm s -> reg_ix b ->
  exec_BUG [PI b] s = Ok (tt, step_regbranch cBUG b s).
Proof. unfold exec_BUG. regbranch should_BUG_ok. Qed.
Theorem exec_BUGR_ok s o : wf_vm s -> -128 <= o < 256 ->
  exec_BUGR [PI o] s = Ok (tt, step_relbranch cBUG o s).
Proof. unfold exec_BUGR. relbranch should_BUGR_ok. Qed.
Theorem exec_BZ_ok s b : wf_vm s -> reg_ix b ->
  exec_BZ [PI b] s = Ok (tt, step_regbranch cBZ b s).
Proof. unfold exec_BZ. regbranch should_BZ_ok. Qed.
Theorem exec_BZR_ok s o : wf_vm s -> -128 <= o < 256 ->
  exec_BZR [PI o] s = Ok (tt, step_relbranch cBZ o s).
Proof. unfold exec_BZR. relbranch should_BZR_ok. Qed.
Theorem exec_BNZ_ok s b : wf_vm s -> reg_ix b ->
  exec_BNZ [PI b] s = Ok (tt, step_regbranch cBNZ b s).
Proof. unfold exec_BNZ. regbranch should_BNZ_ok. Qed.
Theorem exec_BNZR_ok s o : wf_vm s -> -128 <= o < 256 ->
  exec_BNZR [PI o] s = Ok (tt, step_relbranch cBNZ o s).
Proof. unfold exec_BNZR. relbranch should_BNZR_ok. Qed.
Theorem exec_BC_ok s b : wf_vm s -> reg_ix b ->
  exec_BC [PI b] s = Ok (tt, step_regbranch cBC b s).
Proof. unfold exec_BC. regbranch should_BC_ok. Qed.
Theorem exec_BCR_ok s o : wf_vm s -> -128 <= o < 256 ->
  exec_BCR [PI o] s = Ok (tt, step_relbranch cBC o s).
Proof. unfold exec_BCR. relbranch should_BCR_ok. Qed.
Theorem exec_BNC_ok s b : wf_vm s -> reg_ix b ->
  exec_BNC [PI b] s = Ok (tt, step_regbranch cBNC b s).
Proof. unfold exec_BNC. regbranch should_BNC_ok. Qed.
Theorem exec_BNCR_ok s o : wf_vm s -> -128 <= o < 256 ->
  exec_BNCR [PI o] s = Ok (tt, step_relbranch cBNC o s).
Proof. unfold exec_BNCR. relbranch should_BNCR_ok. Qed.
Theorem exec_BS_ok s b : wf_vm s -> reg_ix b ->
  exec_BS [PI b] s = Ok (tt, step_regbranch cBS b s).
Proof. unfold exec_BS. regbranch should_BS_ok. Qed.
Theorem exec_BSR_ok s o : wf_vm s -> -128 <= o < 256 ->
  exec_BSR [PI o] s = Ok (tt, step_relbranch cBS o s).
Proof. unfold exec_BSR. relbranch should_BSR_ok. Qed.
Theorem exec_BNS_ok s b : wf_vm s -> reg_ix b ->
  exec_BNS [PI b] s = Ok (tt, step_regbranch cBNS b s).
Proof. unfold exec_BNS. regbranch should_BNS_ok. Qed.
Theorem exec_BNSR_ok s o : wf_vm s -> -128 <= o < 256 ->
  exec_BNSR [PI o] s = Ok (tt, step_relbranch cBNS o s).
Proof. unfold exec_BNSR. relbranch should_BNSR_ok. Qed.
Theorem exec_BV_ok s b : wf_vm s -> reg_ix b ->
  exec_BV [PI b] s = Ok (tt, step_regbranch cBV b s).
Proof. unfold exec_BV. regbranch should_BV_ok. Qed.
Theorem exec_BVR_ok s o : wf_vm s -> -128 <= o < 256 ->
  exec_BVR [PI o] s = Ok (tt, step_relbranch cBV o s).
Proof. unfold exec_BVR. relbranch should_BVR_ok. Qed.
Theorem exec_BNV_ok s b : wf_vm s -> reg_ix b ->
  exec_BNV [PI b] s = Ok (tt, step_regbranch cBNV b s).
Proof. unfold exec_BNV. regbranch should_BNV_ok. Qed.
Theorem exec_BNVR_ok s o : wf_vm s -> -128 <= o < 256 ->
  exec_BNVR [PI o] s = Ok (tt, step_relbranch cBNV o s).
Proof. unfold exec_BNVR. relbranch should_BNVR_ok. Qed.

Theorem exec_BRR_ok s o : wf_vm s -> -128 <= o < 256 ->
  exec_BRR [PI o] s = Ok (tt, step_BRR o s).
Proof.
  intros W Ho. unfold exec_BRR, step_BRR, sext8, byte_of.
  assert (Hs : (if o mod 256 <? 128 then o mod 256 else o mod 256 - 256)
               = (if o >? 127 then o - 256 else o)) by (destruct_ifs; lia).
  rewrite Hs. clear Hs.
  astep. pynorm.
  destruct (o >? 127) eqn:E1; cbv beta iota; pynorm.
  - destruct (o - 256 =? 0) eqn:E2; cbn [negb]; cbv beta iota.
    + lia.
    + mstep reflexivity. mstep reflexivity. reflexivity.
  - destruct (o =? 0) eqn:E2; cbn [negb]; cbv beta iota.
    + mstep reflexivity. reflexivity.
    + mstep reflexivity. mstep reflexivity. reflexivity.
Qed.

(* ---- CALL / RETURN --------------------------------------------------------------------- *)
Lemma setreg_upd_pc i v x s : setreg i v (upd_pc x s) = upd_pc x (setreg i v s).
Proof.
  unfold setreg. destruct (i =? 0); [reflexivity|].
  change (data_start (cfg (upd_pc x s))) with (data_start (cfg s)).
  change (warned_ovf (upd_pc x s)) with (warned_ovf s).
  destruct ((i =? 15) && (data_start (cfg s) <=? v) && negb (flag (warned_ovf s))); reflexivity.
Qed.

Lemma swap_ok s a b : List.length (regs s) = 16%nat -> is_bool (warned_ovf s) ->
  reg_ix a -> reg_ix b -> a <> b -> a <> 14 -> b <> 14 ->
  forall X, (X = exec_CALL_via_CALL_AND_RETURN \/ X = exec_RETURN_via_CALL_AND_RETURN) ->
  X [PI a; PI b] s = Ok (tt, swap_call a b s).
Proof.
  intros Hl Hwo Ha Hb Hab Ha14 Hb14 X HX.
  assert (H14 : reg_ix 14) by (unfold reg_ix; lia).
  assert (E : X [PI a; PI b] s = exec_CALL_via_CALL_AND_RETURN [PI a; PI b] s)
    by (destruct HX as [-> | ->]; reflexivity).
  rewrite E. clear E HX X.
  unfold exec_CALL_via_CALL_AND_RETURN.
  mstep reflexivity. mstep reflexivity.
  mstep ltac:(apply vm_load_register_ok; assumption).
  mstep reflexivity. pynorm.
  store_step Hl Hwo.
  mstep ltac:(apply vm_load_register_ok; [apply regs_len_setreg; exact Hl | exact H14]).
  mstep ltac:(apply vm_load_register_ok; [apply regs_len_setreg; exact Hl | exact Ha]).
  store_step Hl Hwo.
  store_step Hl Hwo.
  unfold ret, swap_call.
  rewrite !getreg_setreg_other by (assumption || congruence).
  rewrite !setreg_upd_pc.
  change (getreg (upd_pc (getreg s b) s)) with (getreg s).
  reflexivity.
Qed.

Theorem exec_CALL_ok s a b : wf_vm s -> reg_ix a -> reg_ix b -> a <> b -> a <> 14 -> b <> 14 ->
  exec_CALL [PI a; PI b] s = Ok (tt, step_CALL a b s).
Proof.
  intros W Ha Hb Hab Ha14 Hb14. facts W.
  unfold exec_CALL.
  astep.
  mstep ltac:(apply vm_load_register_ok; assumption).
  mstep reflexivity.
  mstep reflexivity.
  mstep ltac:(apply swap_ok; auto).
  reflexivity.
Qed.

Theorem exec_RETURN_ok s a b : wf_vm s -> reg_ix a -> reg_ix b -> a <> b -> a <> 14 -> b <> 14 ->
  exec_RETURN [PI a; PI b] s = Ok (tt, step_RETURN a b s).
Proof.
  intros W Ha Hb Hab Ha14 Hb14. facts W.
  unfold exec_RETURN, step_RETURN, return_warning.
  astep.
  mstep ltac:(apply vm_load_register_ok; assumption).
  mstep reflexivity. cbn [truthy].
  destruct (warn_return_on (cfg s)) eqn:Ew; cbv beta iota.
  2:{ mstep ltac:(apply swap_ok; auto). reflexivity. }
  destruct (rev (ers s)) as [|[ca ex] t] eqn:Er.
  - assert (Ee : ers s = []) by (rewrite <- (rev_involutive (ers s)), Er; reflexivity).
    assert (Hne : ers_nonempty s = Ok (PB false, s)) by (unfold ers_nonempty; rewrite Ee; reflexivity).
    mstep ltac:(exact Hne). cbn [truthy]. cbv beta iota.
    mstep reflexivity. mstep reflexivity. mstep reflexivity. mstep reflexivity.
    pynorm.
    mstep ltac:(apply swap_ok; auto). reflexivity.
  - assert (Hne : ers_nonempty s = Ok (PB true, s))
      by (unfold ers_nonempty; destruct (ers s); [discriminate Er | reflexivity]).
    assert (Hpop : ers_pop s = Ok ((PI ca, PI ex), upd_ers (rev t) s))
      by (unfold ers_pop; rewrite Er; reflexivity).
    mstep ltac:(exact Hne). cbn [truthy]. cbv beta iota.
    mstep ltac:(exact Hpop).
    pynorm.
    destruct (ex =? getreg s b) eqn:Eg; cbn [negb]; cbv beta iota.
    + mstep ltac:(apply swap_ok; auto). reflexivity.
    + mstep reflexivity. mstep reflexivity. mstep reflexivity. mstep reflexivity. pynorm.
      mstep ltac:(apply swap_ok; auto). reflexivity.
Qed.
