(* SpecLemmas.v — projections of the specification's state-update helpers. *)
From Coq Require Import ZArith List Bool String Lia ZifyBool.
From Hera.Lib Require Import Py Machine Word16.
From Hera.Spec Require Import ISA Wf.
From Hera.Proofs Require Import VmLemmas.
Import ListNotations.
Open Scope Z_scope.

Ltac setreg_cases i v s :=
  unfold setreg; destruct (i =? 0); [reflexivity|];
  destruct ((i =? 15) && (data_start (cfg s) <=? v) && negb (flag (warned_ovf s))); reflexivity.

Lemma pc_setreg i v s : pc (setreg i v s) = pc s.            Proof. setreg_cases i v s. Qed.
Lemma dc_setreg i v s : dc (setreg i v s) = dc s.            Proof. setreg_cases i v s. Qed.
Lemma f_s_setreg i v s : f_s (setreg i v s) = f_s s.         Proof. setreg_cases i v s. Qed.
Lemma f_z_setreg i v s : f_z (setreg i v s) = f_z s.         Proof. setreg_cases i v s. Qed.
Lemma f_v_setreg i v s : f_v (setreg i v s) = f_v s.         Proof. setreg_cases i v s. Qed.
Lemma f_c_setreg i v s : f_c (setreg i v s) = f_c s.         Proof. setreg_cases i v s. Qed.
Lemma f_cb_setreg i v s : f_cb (setreg i v s) = f_cb s.      Proof. setreg_cases i v s. Qed.
Lemma mem_setreg i v s : mem (setreg i v s) = mem s.         Proof. setreg_cases i v s. Qed.
Lemma halted_setreg i v s : halted (setreg i v s) = halted s. Proof. setreg_cases i v s. Qed.
Lemma ers_setreg i v s : ers (setreg i v s) = ers s.         Proof. setreg_cases i v s. Qed.
Lemma cfg_setreg i v s : cfg (setreg i v s) = cfg s.         Proof. setreg_cases i v s. Qed.
Lemma location_setreg i v s : location (setreg i v s) = location s. Proof. setreg_cases i v s. Qed.
Lemma swc_setreg i v s : swarning_count (setreg i v s) = swarning_count s. Proof. setreg_cases i v s. Qed.
Lemma op_count_setreg i v s : op_count (setreg i v s) = op_count s. Proof. setreg_cases i v s. Qed.

Lemma regs_setreg i v s :
  regs (setreg i v s) = if i =? 0 then regs s else list_set (regs s) (Z.to_nat i) v.
Proof.
  unfold setreg. destruct (i =? 0); [reflexivity|].
  destruct ((i =? 15) && (data_start (cfg s) <=? v) && negb (flag (warned_ovf s))); reflexivity.
Qed.

Lemma regs_len_setreg i v s n : List.length (regs s) = n -> List.length (regs (setreg i v s)) = n.
Proof. intros H. rewrite regs_setreg. destruct (i =? 0); [exact H|]. now rewrite list_set_length. Qed.

Lemma warned_ovf_setreg_bool i v s : is_bool (warned_ovf s) -> is_bool (warned_ovf (setreg i v s)).
Proof.
  intros H. unfold setreg. destruct (i =? 0); [exact H|].
  destruct ((i =? 15) && (data_start (cfg s) <=? v) && negb (flag (warned_ovf s))); [|exact H].
  eexists; reflexivity.
Qed.

(* reading a register after a write *)
Lemma getreg_setreg_same i v s :
  List.length (regs s) = 16%nat -> reg_ix i -> i <> 0 -> getreg (setreg i v s) i = v.
Proof.
  intros Hl Hi Hn. unfold getreg. rewrite regs_setreg.
  destruct (i =? 0) eqn:E; [lia|]. apply nth_list_set_same. unfold reg_ix in Hi. lia.
Qed.
Lemma getreg_setreg_other i j v s :
  reg_ix i -> reg_ix j -> i <> j -> getreg (setreg i v s) j = getreg s j.
Proof.
  intros Hi Hj Hn. unfold getreg. rewrite regs_setreg.
  destruct (i =? 0) eqn:E; [reflexivity|]. apply nth_list_set_other. unfold reg_ix in *. lia.
Qed.
Lemma getreg_setreg_0 v s : getreg (setreg 0 v s) 0 = getreg s 0.
Proof. reflexivity. Qed.

Global Hint Rewrite pc_setreg dc_setreg f_s_setreg f_z_setreg f_v_setreg f_c_setreg f_cb_setreg
  mem_setreg halted_setreg ers_setreg cfg_setreg location_setreg swc_setreg op_count_setreg : spec.

(* pc is untouched by every other update *)
Lemma pc_upd_regs x s : pc (upd_regs x s) = pc s. Proof. reflexivity. Qed.
Lemma pc_upd_dc x s : pc (upd_dc x s) = pc s. Proof. reflexivity. Qed.
Lemma pc_upd_f_s x s : pc (upd_f_s x s) = pc s. Proof. reflexivity. Qed.
Lemma pc_upd_f_z x s : pc (upd_f_z x s) = pc s. Proof. reflexivity. Qed.
Lemma pc_upd_f_v x s : pc (upd_f_v x s) = pc s. Proof. reflexivity. Qed.
Lemma pc_upd_f_c x s : pc (upd_f_c x s) = pc s. Proof. reflexivity. Qed.
Lemma pc_upd_f_cb x s : pc (upd_f_cb x s) = pc s. Proof. reflexivity. Qed.
Lemma pc_upd_mem x s : pc (upd_mem x s) = pc s. Proof. reflexivity. Qed.
Lemma pc_upd_halted x s : pc (upd_halted x s) = pc s. Proof. reflexivity. Qed.
Lemma pc_upd_ers x s : pc (upd_ers x s) = pc s. Proof. reflexivity. Qed.
Lemma pc_upd_op_count x s : pc (upd_op_count x s) = pc s. Proof. reflexivity. Qed.
Lemma pc_upd_warned_ovf x s : pc (upd_warned_ovf x s) = pc s. Proof. reflexivity. Qed.
Lemma pc_upd_warned_swi x s : pc (upd_warned_swi x s) = pc s. Proof. reflexivity. Qed.
Lemma pc_upd_warned_rti x s : pc (upd_warned_rti x s) = pc s. Proof. reflexivity. Qed.
Lemma pc_upd_warning_count x s : pc (upd_warning_count x s) = pc s. Proof. reflexivity. Qed.
Lemma pc_upd_swarning_count x s : pc (upd_swarning_count x s) = pc s. Proof. reflexivity. Qed.
Lemma pc_upd_location x s : pc (upd_location x s) = pc s. Proof. reflexivity. Qed.
Lemma pc_upd_input_buffer x s : pc (upd_input_buffer x s) = pc s. Proof. reflexivity. Qed.
Lemma pc_upd_input_pos x s : pc (upd_input_pos x s) = pc s. Proof. reflexivity. Qed.
Lemma pc_upd_out x s : pc (upd_out x s) = pc s. Proof. reflexivity. Qed.
Lemma pc_set_zs v s : pc (set_zs v s) = pc s. Proof. reflexivity. Qed.
Lemma pc_upd_pc x s : pc (upd_pc x s) = x. Proof. reflexivity. Qed.
Global Hint Rewrite pc_upd_regs pc_upd_dc pc_upd_f_s pc_upd_f_z pc_upd_f_v pc_upd_f_c pc_upd_f_cb pc_upd_mem pc_upd_halted pc_upd_ers pc_upd_op_count pc_upd_warned_ovf pc_upd_warned_swi pc_upd_warned_rti pc_upd_warning_count pc_upd_swarning_count pc_upd_location pc_upd_input_buffer pc_upd_input_pos pc_upd_out pc_set_zs pc_upd_pc : spec.
