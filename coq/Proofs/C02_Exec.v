(* C02_Exec.v — the code model of every real instruction maps well-formed states to
   well-formed states and never raises, the cases C01 leaves open included. *)
From Coq Require Import ZArith List Bool String Lia ZifyBool.
From Hera.Lib Require Import Py Machine Word16.
From Hera.Gen Require Import Utils Vm Ops.
From Hera.Spec Require Import ISA Wf.
From Hera.Model Require Import InstrOf.
From Hera.Proofs Require Import VmLemmas Tactics SpecLemmas C01_ALU C01_MUL C01_Shift C01_Misc C01_Branch C01_All C02_Step.
Import ListNotations.
Open Scope Z_scope.

(* CALL/RETURN's register shuffle for arbitrary (possibly aliased) operand registers *)
Lemma swap_any_wf s a b : wf_vm s -> pc_ok s -> reg_ix a -> reg_ix b ->
  forall X, (X = exec_CALL_via_CALL_AND_RETURN \/ X = exec_RETURN_via_CALL_AND_RETURN) ->
  exists s', X [PI a; PI b] s = Ok (tt, s') /\ wf_vm s' /\ op_count s' = op_count s.
Proof.
  intros W Hp Ha Hb X HX.
  assert (H14 : reg_ix 14) by (unfold reg_ix; lia).
  assert (E : X [PI a; PI b] s = exec_CALL_via_CALL_AND_RETURN [PI a; PI b] s)
    by (destruct HX as [-> | ->]; reflexivity).
  rewrite E. clear E HX X.
  pose proof (wf_r _ W) as [Hl _]. pose proof (wf_wovf _ W) as Hwo.
  unfold exec_CALL_via_CALL_AND_RETURN.
  mstep reflexivity. mstep reflexivity.
  mstep ltac:(apply vm_load_register_ok; assumption).
  mstep reflexivity. pynorm.
  store_step Hl Hwo.
  set (s1 := setreg b (pc s + 1) (upd_pc (getreg s b) s)).
  assert (W1 : wf_vm s1).
  { apply wf_setreg; [apply wf_upd_pc, W|exact Hb|unfold pc_ok, word in *; lia]. }
  mstep ltac:(apply vm_load_register_ok; [apply (wf_r _ W1)|exact H14]).
  mstep ltac:(apply vm_load_register_ok; [apply (wf_r _ W1)|exact Ha]).
  mstep ltac:(apply vm_store_register_ok; [apply (wf_r _ W1)|exact H14|apply (wf_wovf _ W1)]).
  set (s2 := setreg 14 (getreg s1 a) s1).
  assert (W2 : wf_vm s2) by (apply wf_setreg; [exact W1|exact H14|apply getreg_word; assumption]).
  mstep ltac:(apply vm_store_register_ok; [apply (wf_r _ W2)|exact Ha|apply (wf_wovf _ W2)]).
  eexists. split; [reflexivity|]. split.
  - apply wf_setreg; [exact W2|exact Ha|apply getreg_word; assumption].
  - subst s2 s1. rewrite !op_count_setreg. reflexivity.
Qed.

Lemma exec_CALL_any s a b : wf_vm s -> pc_ok s -> reg_ix a -> reg_ix b ->
  exists s', exec_CALL [PI a; PI b] s = Ok (tt, s') /\ wf_vm s' /\ op_count s' = op_count s.
Proof.
  intros W Hp Ha Hb. pose proof (wf_r _ W) as [Hl _].
  unfold exec_CALL.
  astep.
  mstep ltac:(apply vm_load_register_ok; assumption).
  mstep reflexivity. mstep reflexivity.
  destruct (swap_any_wf (upd_ers (ers s ++ [(getreg s b, pc s + 1)]) s) a b
              (wf_upd_ers _ _ W) Hp Ha Hb _ (or_introl eq_refl)) as (s' & E & W' & O').
  pynorm. mstep ltac:(exact E).
  eexists. split; [reflexivity|]. split; [exact W'|exact O'].
Qed.

Lemma exec_RETURN_any s a b : wf_vm s -> pc_ok s -> reg_ix a -> reg_ix b ->
  exists s', exec_RETURN [PI a; PI b] s = Ok (tt, s') /\ wf_vm s' /\ op_count s' = op_count s.
Proof.
  intros W Hp Ha Hb. pose proof (wf_r _ W) as [Hl _].
  assert (K : forall s0, wf_vm s0 -> pc_ok s0 -> op_count s0 = op_count s ->
            exists s', (exec_RETURN_via_CALL_AND_RETURN [PI a; PI b];;; ret tt) s0 = Ok (tt, s') /\ wf_vm s'
                       /\ op_count s' = op_count s).
  { intros s0 W0 P0 O0.
    destruct (swap_any_wf s0 a b W0 P0 Ha Hb _ (or_intror eq_refl)) as (s' & E & W' & O').
    mstep ltac:(exact E). eexists. split; [reflexivity|]. split; [exact W'|congruence]. }
  unfold exec_RETURN.
  astep.
  mstep ltac:(apply vm_load_register_ok; assumption).
  mstep reflexivity. cbn [truthy].
  destruct (warn_return_on (cfg s)) eqn:Ew; cbv beta iota; [|apply K; [assumption..|reflexivity]].
  destruct (rev (ers s)) as [|[ca ex] t] eqn:Er.
  - assert (Ee : ers s = []) by (rewrite <- (rev_involutive (ers s)), Er; reflexivity).
    assert (Hne : ers_nonempty s = Ok (PB false, s)) by (unfold ers_nonempty; rewrite Ee; reflexivity).
    mstep ltac:(exact Hne). cbn [truthy]. cbv beta iota.
    mstep reflexivity. mstep reflexivity. mstep reflexivity. mstep reflexivity. pynorm.
    apply K; [apply wf_upd_swc, wf_upd_out, W|exact Hp|reflexivity].
  - assert (Hne : ers_nonempty s = Ok (PB true, s))
      by (unfold ers_nonempty; destruct (ers s); [discriminate Er | reflexivity]).
    assert (Hpop : ers_pop s = Ok ((PI ca, PI ex), upd_ers (rev t) s))
      by (unfold ers_pop; rewrite Er; reflexivity).
    mstep ltac:(exact Hne). cbn [truthy]. cbv beta iota.
    mstep ltac:(exact Hpop). pynorm.
    destruct (ex =? getreg s b) eqn:Eg; cbn [negb]; cbv beta iota.
    + apply K; [apply wf_upd_ers, W|exact Hp|reflexivity].
    + mstep reflexivity. mstep reflexivity. mstep reflexivity. mstep reflexivity. pynorm.
      apply K; [apply wf_upd_swc, wf_upd_out, wf_upd_ers, W|exact Hp|reflexivity].
Qed.

Definition runnable (i : instr) : bool :=
  match i with I_SWI _ | I_RTI => false | _ => true end.

(* Every instruction the interpreter can meet: from a well-formed state it does not raise and
   yields a well-formed state. *)
Theorem exec_wf : forall o args i s,
  wf_vm s -> pc_ok s -> instr_of o args = Some i -> valid_instr i = true -> runnable i = true ->
  exists s', exec o (map PI args) s = Ok (tt, s') /\ wf_vm s' /\ op_count s' = op_count s.
Proof.
  intros o args i s W Hp Hi Hv Hr.
  destruct (constrained i s) eqn:Hc.
  - destruct (exec_exact o args i s W Hi Hv Hc) as (mc & mv & Bc & Bv & E).
    eexists. split; [exact E|]. split; [apply step_wf_spec; try assumption; apply pc_ok_needed, Hp|].
    apply step_op_count.
  - destruct i; cbn [constrained runnable] in Hc, Hr; try discriminate.
    + (* CALL, aliased *)
      destruct o; cbn [instr_of] in Hi;
        repeat match type of Hi with match ?l with _ => _ end = _ => destruct l end;
        try discriminate Hi; injection Hi as <- <-.
      cbn [valid_instr] in Hv. unfold reg_ok in Hv. cbv beta iota delta [exec map].
      apply exec_CALL_any; [assumption..|unfold reg_ix; lia|unfold reg_ix; lia].
    + destruct o; cbn [instr_of] in Hi;
        repeat match type of Hi with match ?l with _ => _ end = _ => destruct l end;
        try discriminate Hi; injection Hi as <- <-.
      cbn [valid_instr] in Hv. unfold reg_ok in Hv. cbv beta iota delta [exec map].
      apply exec_RETURN_any; [assumption..|unfold reg_ix; lia|unfold reg_ix; lia].
Qed.
