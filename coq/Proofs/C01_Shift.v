(* C01_Shift.v — LSL LSR LSL8 LSR8 ASL ASR *)
From Coq Require Import ZArith List Bool String Lia ZifyBool.
From Hera.Lib Require Import Py Machine Word16.
From Hera.Gen Require Import Utils Vm Ops.
From Hera.Spec Require Import ISA Wf.
From Hera.Proofs Require Import VmLemmas Tactics C01_ALU.
Import ListNotations.
Open Scope Z_scope.

Ltac Zify.zify_post_hook ::= Z.to_euclidean_division_equations.

(* single bits of a 16-bit word, as the code tests them *)
Lemma bit15_word x : word x -> negb (Z.land x 32768 =? 0) = bit x 15.
Proof. intros H. rewrite (land_pow2_word 15) by (lia || exact H). now rewrite negb_involutive. Qed.
Lemma bit14_word x : word x -> negb (Z.land x 16384 =? 0) = bit x 14.
Proof. intros H. rewrite (land_pow2_word 14) by (lia || exact H). now rewrite negb_involutive. Qed.
Lemma bit0_land x : 0 <= x -> negb (Z.land x 1 =? 0) = bit x 0.
Proof. intros H. rewrite land_1. unfold bit. change (2 ^ 0) with 1. rewrite Z.div_1_r. lia. Qed.
Lemma bit0_mod x : 0 <= x -> (x mod 2 =? 1) = bit x 0.
Proof. intros H. unfold bit. change (2 ^ 0) with 1. now rewrite Z.div_1_r. Qed.
Lemma bit15_val x : word x -> bit x 15 = (32768 <=? x).
Proof. unfold word, bit. intros H. change (2 ^ 15) with 32768. lia. Qed.
Lemma bit14_val x : word x -> bit x 14 = (16384 <=? x mod 32768).
Proof. unfold word, bit. intros H. change (2 ^ 14) with 16384. lia. Qed.

Lemma calculate_LSL_ok s x : wf_flags s -> word x ->
  calculate_LSL (PI x) s = Ok (PI (fst (f_LSL x s)), snd (f_LSL x s)).
Proof.
  intros Hf Hx. expose_state s Hf.
  unfold calculate_LSL, f_LSL, cin, flag.
  destruct bc, bcb; msimpl; norm_words; rewrite ?shiftl_mul by lia; rewrite bit15_word by exact Hx;
    bsimpl; change (2 ^ 1) with 2; unfold word in Hx; st_eq.
Qed.

Lemma calculate_ASL_ok s x : wf_flags s -> word x ->
  calculate_ASL (PI x) s = Ok (PI (fst (f_ASL x s)), snd (f_ASL x s)).
Proof.
  intros Hf Hx. expose_state s Hf.
  unfold calculate_ASL, f_ASL, cin, flag, fits16s, sgn16.
  destruct bc, bcb; msimpl; norm_words; rewrite ?shiftl_mul by lia;
    rewrite ?bit15_word, ?bit14_word by exact Hx; bsimpl; change (2 ^ 1) with 2;
    rewrite (bit15_val x Hx); rewrite ?(bit14_val x Hx); unfold word in Hx;
    st_eq.
Qed.

Lemma calculate_LSR_ok s x : wf_flags s -> word x ->
  calculate_LSR (PI x) s = Ok (PI (fst (f_LSR x s)), snd (f_LSR x s)).
Proof.
  intros Hf Hx. expose_state s Hf.
  unfold calculate_LSR, f_LSR, cin, flag.
  destruct bc, bcb; msimpl; rewrite ?shiftr_div by lia; rewrite bit0_mod by (unfold word in Hx; lia);
    bsimpl; change (2 ^ 1) with 2; unfold word in Hx; st_eq.
Qed.

Lemma calculate_LSL8_ok s x : word x ->
  calculate_LSL8 (PI x) s = Ok (PI (fst (f_LSL8 x s)), snd (f_LSL8 x s)).
Proof.
  intros Hx. unfold calculate_LSL8, f_LSL8, ret. cbn [fst snd].
  unfold py_band, py_shl; cbn [as_int]. rewrite land_65535, shiftl_mul by lia.
  change (2 ^ 8) with 256. st_eq.
Qed.

Lemma calculate_LSR8_ok s x : word x ->
  calculate_LSR8 (PI x) s = Ok (PI (fst (f_LSR8 x s)), snd (f_LSR8 x s)).
Proof.
  intros Hx. unfold calculate_LSR8, f_LSR8, ret. cbn [fst snd].
  unfold py_shr; cbn [as_int]. rewrite shiftr_div by lia. reflexivity.
Qed.

Lemma calculate_ASR_ok s x : wf_flags s -> word x ->
  calculate_ASR (PI x) s = Ok (PI (fst (f_ASR x s)), snd (f_ASR x s)).
Proof.
  intros Hf Hx. expose_state s Hf.
  unfold calculate_ASR, f_ASR, sgn16.
  msimpl. rewrite (land_32768_word x Hx).
  destruct (x <? 32768) eqn:E; cbn [negb]; msimpl.
  - rewrite bit0_land by (unfold word in Hx; lia). rewrite shiftr_div by lia.
    change (2 ^ 1) with 2. unfold word in Hx. bsimpl. st_eq.
  - rewrite bit0_land by (unfold word in Hx; lia). rewrite (asr_lor_word x Hx).
    unfold word in Hx. bsimpl. st_eq.
Qed.

(* ---- UnaryOp.execute plumbing ---------------------------------------------------------- *)
Ltac exec2t calc_tac range_tac :=
  let W := fresh "W" in let Hd := fresh "Hd" in let Hb := fresh "Hb" in
  intros W Hd Hb;
  pose proof (wf_vm_flags _ W) as Hf;
  pose proof (getreg_word _ _ W Hb) as Hx;
  destruct W as [[Hl _] _ _ _ _ _ _ Hwo _];
  mstep reflexivity;
  mstep ltac:(apply vm_load_register_ok; assumption);
  mstep calc_tac;
  mstep ltac:(apply vm_set_zero_and_sign_ok; range_tac);
  mstep reflexivity;
  mstep ltac:(apply vm_store_register_ok; [exact Hl | assumption | exact Hwo]);
  mstep reflexivity;
  mstep reflexivity;
  reflexivity.

Ltac range2 := unfold word in *; unfold f_LSL, f_LSR, f_LSL8, f_LSR8, f_ASL, f_ASR, cin, sgn16; cbn [fst]; destruct_ifs; lia.

Theorem exec_LSL_ok s d b : wf_vm s -> reg_ix d -> reg_ix b ->
  exec_LSL [PI d; PI b] s = Ok (tt, step_LSL d b s).
Proof. unfold exec_LSL. exec2t ltac:(apply calculate_LSL_ok; assumption) range2. Qed.
Theorem exec_LSR_ok s d b : wf_vm s -> reg_ix d -> reg_ix b ->
  exec_LSR [PI d; PI b] s = Ok (tt, step_LSR d b s).
Proof. unfold exec_LSR. exec2t ltac:(apply calculate_LSR_ok; assumption) range2. Qed.
Theorem exec_LSL8_ok s d b : wf_vm s -> reg_ix d -> reg_ix b ->
  exec_LSL8 [PI d; PI b] s = Ok (tt, step_LSL8 d b s).
Proof. unfold exec_LSL8. exec2t ltac:(apply calculate_LSL8_ok; assumption) range2. Qed.
Theorem exec_LSR8_ok s d b : wf_vm s -> reg_ix d -> reg_ix b ->
  exec_LSR8 [PI d; PI b] s = Ok (tt, step_LSR8 d b s).
Proof. unfold exec_LSR8. exec2t ltac:(apply calculate_LSR8_ok; assumption) range2. Qed.
Theorem exec_ASL_ok s d b : wf_vm s -> reg_ix d -> reg_ix b ->
  exec_ASL [PI d; PI b] s = Ok (tt, step_ASL d b s).
Proof. unfold exec_ASL. exec2t ltac:(apply calculate_ASL_ok; assumption) range2. Qed.
Theorem exec_ASR_ok s d b : wf_vm s -> reg_ix d -> reg_ix b ->
  exec_ASR [PI d; PI b] s = Ok (tt, step_ASR d b s).
Proof. unfold exec_ASR. exec2t ltac:(apply calculate_ASR_ok; assumption) range2. Qed.
