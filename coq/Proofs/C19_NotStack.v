(* C19_NotStack.v — the stack-convention library routine `not`, placed at any address. *)
From Coq Require Import ZArith List Bool Lia.
From Hera.Lib Require Import Py Machine Word16.
From Hera.Spec Require Import ISA Wf.
From Hera.Proofs Require Import SpecLemmas SpecCore.
Import ListNotations.
Open Scope Z_scope.

Definition not_stack_code (base : Z) : list instr :=
  [I_STORE 13 0 14; I_STORE 12 1 14; I_INC 15 1; I_STORE 1 4 14; I_LOAD 1 3 14; I_FON 8; I_SUB 0 1 0;
   I_SETLO 11 ((base + 16) mod 256); I_SETHI 11 ((base + 16) / 256); I_B cBZ 11;
   I_SETLO 1 0; I_SETHI 1 0; I_STORE 1 3 14;
   I_SETLO 11 ((base + 19) mod 256); I_SETHI 11 ((base + 19) / 256); I_B cBR 11;
   I_SETLO 1 1; I_SETHI 1 0; I_STORE 1 3 14;
   I_LOAD 1 4 14; I_LOAD 13 0 14; I_LOAD 12 1 14; I_DEC 15 1; I_RETURN 12 13].

Lemma not_stack_core base r m fS fZ fV fC fCB :
  0 <= base -> base + 23 < 65536 -> r 0 = 0 -> 0 <= r 15 < 65536 ->
  let a0 := (r 14 + 0) mod 65536 in let a1 := (r 14 + 1) mod 65536 in
  let a3 := (r 14 + 3) mod 65536 in let a4 := (r 14 + 4) mod 65536 in
  let m3 := mem_write (mem_write (mem_write m a0 (r 13)) a1 (r 12)) a4 (r 1) in
  let arg := mem_read m3 a3 in
  0 <= arg < 65536 ->
  let m4 := mem_write m3 a3 (if arg =? 0 then 1 else 0) in
  exists n c', crun_at base (not_stack_code base) n (mkcore r m base fS fZ fV fC fCB) = Some c' /\
    cmem c' = m4 /\ cr c' 1 = mem_read m4 a4 /\ cpc c' = mem_read m4 a0 /\ cr c' 14 = mem_read m4 a1 /\
    cr c' 15 = r 15 /\ (forall j, 2 <= j <= 10 -> cr c' j = r j).
Proof.
  intros Hb Hb2 R0 SP a0 a1 a3 a4 m3 arg HA m4. destruct (arg =? 0) eqn:Z1.
  - assert (E1 : arg = 0) by lia.
    exists 18%nat. eexists. split.
    + cgo 0%nat. cgo 1%nat. cgo 2%nat. cgo 3%nat. cgo 4%nat. cgo 5%nat. cgo 6%nat.
      fold a0 a1 a3 a4 m3 arg. rewrite R0, E1. zeval.
      cgo 7%nat. cgo 8%nat. cgo 9%nat. rewrite (set_value (base + 16)) by lia.
      cgo 16%nat. cgo 17%nat. cgo 18%nat. cgo 19%nat. cgo 20%nat. cgo 21%nat. cgo 22%nat. cgo 23%nat. reflexivity.
    + cbn [cr cpc cmem]. cbn [Z.eqb Pos.eqb]. fold a0 a1 a3 a4 m3. repeat split; try reflexivity.
      * Z.to_euclidean_division_equations; lia.
      * intros j Hj. repeat match goal with |- context [j =? ?x] => destruct (j =? x) eqn:?; try lia end; try reflexivity.
  - assert (N1 : (arg - r 0 - 0) mod 65536 =? 0 = false).
    { rewrite R0, !Z.sub_0_r, Z.mod_small by lia. exact Z1. }
    exists 21%nat. eexists. split.
    + cgo 0%nat. cgo 1%nat. cgo 2%nat. cgo 3%nat. cgo 4%nat. cgo 5%nat. cgo 6%nat.
      fold a0 a1 a3 a4 m3 arg. rewrite N1.
      cgo 7%nat. cgo 8%nat. cgo 9%nat. cgo 10%nat. cgo 11%nat. cgo 12%nat. cgo 13%nat. cgo 14%nat. cgo 15%nat.
      rewrite (set_value (base + 19)) by lia.
      cgo 19%nat. cgo 20%nat. cgo 21%nat. cgo 22%nat. cgo 23%nat. reflexivity.
    + cbn [cr cpc cmem]. cbn [Z.eqb Pos.eqb]. fold a0 a1 a3 a4 m3. repeat split; try reflexivity.
      * Z.to_euclidean_division_equations; lia.
      * intros j Hj. repeat match goal with |- context [j =? ?x] => destruct (j =? x) eqn:?; try lia end; try reflexivity.
Qed.

Lemma not_stack_valid base : 0 <= base -> base + 23 < 65536 ->
  Forall (fun i => valid_instr i = true) (not_stack_code base).
Proof.
  intros Hb Hb2. unfold not_stack_code.
  assert (A : forall x, 0 <= x < 65536 -> in_range (-128) 256 (x mod 256) = true)
    by (intros x Hx; unfold in_range; pose proof (Z.mod_pos_bound x 256); lia).
  assert (B : forall x, 0 <= x < 65536 -> in_range (-128) 256 (x / 256) = true).
  { intros x Hx. unfold in_range. assert (0 <= x / 256) by (apply Z.div_pos; lia).
    assert (x / 256 < 256) by (apply Z.div_lt_upper_bound; lia). lia. }
  repeat constructor; cbn [valid_instr reg_ok]; rewrite ?A, ?B by lia; reflexivity.
Qed.

Theorem not_stack_contract base s :
  0 <= base -> base + 23 < 65536 -> List.length (regs s) = 16%nat -> pc s = base -> wf_mem (mem s) ->
  getreg s 0 = 0 -> 0 <= getreg s 15 < 65536 -> word (getreg s 1) -> word (getreg s 12) -> word (getreg s 13) ->
  let a0 := (getreg s 14 + 0) mod 65536 in let a1 := (getreg s 14 + 1) mod 65536 in
  let a3 := (getreg s 14 + 3) mod 65536 in let a4 := (getreg s 14 + 4) mod 65536 in
  let arg := mem_read (mem s) a3 in
  exists n s', run_at base (not_stack_code base) n s = Some s' /\
    mem_read (mem s') a3 = (if arg =? 0 then 1 else 0) /\                       (* the result cell *)
    (forall b, 0 <= b -> b <> a0 -> b <> a1 -> b <> a3 -> b <> a4 -> mem_read (mem s') b = mem_read (mem s) b) /\
    getreg s' 1 = getreg s 1 /\ pc s' = getreg s 13 /\ getreg s' 14 = getreg s 12 /\
    getreg s' 15 = getreg s 15 /\ (forall j, 2 <= j <= 10 -> getreg s' j = getreg s j).
Proof.
  intros Hb Hb2 L P WM R0 SP W1 W12 W13 a0 a1 a3 a4 arg.
  assert (B0 : 0 <= a0 < 65536) by (unfold a0; apply Z.mod_pos_bound; lia).
  assert (B1 : 0 <= a1 < 65536) by (unfold a1; apply Z.mod_pos_bound; lia).
  assert (B3 : 0 <= a3 < 65536) by (unfold a3; apply Z.mod_pos_bound; lia).
  assert (B4 : 0 <= a4 < 65536) by (unfold a4; apply Z.mod_pos_bound; lia).
  assert (D : a0 <> a1 /\ a0 <> a3 /\ a0 <> a4 /\ a1 <> a3 /\ a1 <> a4 /\ a3 <> a4)
    by (unfold a0, a1, a3, a4; Z.to_euclidean_division_equations; lia).
  destruct D as (D01 & D03 & D04 & D13 & D14 & D34).
  set (m1 := mem_write (mem s) a0 (getreg s 13)). set (m2 := mem_write m1 a1 (getreg s 12)).
  set (m3 := mem_write m2 a4 (getreg s 1)).
  assert (WM1 : wf_mem m1) by (apply wf_mw; assumption).
  assert (WM2 : wf_mem m2) by (apply wf_mw; assumption).
  assert (WM3 : wf_mem m3) by (apply wf_mw; assumption).
  assert (A3 : mem_read m3 a3 = arg).
  { unfold m3, m2, m1. rewrite !mrw_other by (try lia; assumption). reflexivity. }
  assert (HA : 0 <= mem_read m3 a3 < 65536) by (apply mr_word, WM3).
  destruct (not_stack_core base (getreg s) (mem s) (flag (f_s s)) (flag (f_z s)) (flag (f_v s)) (flag (f_c s))
              (flag (f_cb s)) Hb Hb2 R0 SP HA) as (n & c' & E & Q1 & Q2 & Q3 & Q4 & Q5 & Q6).
  fold a0 a1 a3 a4 m1 m2 m3 in Q1, Q2, Q3, Q4. rewrite A3 in Q1, Q2, Q3, Q4.
  pose proof (sim_core_of s L) as S0. unfold core_of in S0. rewrite P in S0.
  destruct (sim_run base (not_stack_code base) (not_stack_valid base Hb Hb2) n s _ c' S0 E) as (s' & Rn & S').
  exists n, s'. split; [exact Rn|].
  rewrite !(sim_reg s' c' _ S') by lia. rewrite (sim_pc s' c' S'), (sim_mem s' c' S').
  rewrite Q1, Q2, Q3, Q4, Q5.
  set (res := if arg =? 0 then 1 else 0).
  repeat split.
  - apply mrw_same. lia.
  - intros b Hb0 N0 N1 N3 N4. rewrite mrw_other by (try lia; assumption).
    unfold m3, m2, m1. rewrite !mrw_other by (try lia; assumption). reflexivity.
  - rewrite mrw_other by (try lia; assumption). unfold m3. apply mrw_same. lia.
  - rewrite mrw_other by (try lia; assumption). unfold m3. rewrite mrw_other by (try lia; assumption).
    unfold m2. rewrite mrw_other by (try lia; assumption). unfold m1. apply mrw_same. lia.
  - rewrite mrw_other by (try lia; assumption). unfold m3. rewrite mrw_other by (try lia; assumption).
    unfold m2. apply mrw_same. lia.
  - intros j Hj. rewrite (sim_reg s' c' j S') by lia. apply Q6, Hj.
Qed.
