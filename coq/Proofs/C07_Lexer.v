(* C07_Lexer.v — the lexer (Model/Lexer.v) only ever moves forward through the text, one
   next_char at a time, and never past its end:
     * no IndexError: next_char is never called at the end of the text (oob stays false);
     * progress: every token but EOF consumes at least one character, so the token stream of a
       text of n characters has at most n+1 tokens and ends with EOF (no hang);
     * locations (C17): every state is the text advanced by some k <= n characters, hence the line
       and column recorded in a token are those of its first character. *)
From Coq Require Import ZArith List Bool Lia Arith.
From Hera.Model Require Import Lexer.
Import ListNotations.
Open Scope Z_scope.

(* ---- adv --------------------------------------------------------------------------------------------------------- *)
Lemma adv_add n m s : adv (n + m) s = adv m (adv n s).
Proof. revert s. induction n as [|n IH]; intros s; cbn [adv Nat.add]; [reflexivity|apply IH]. Qed.

Lemma rest_next s c r : rest s = c :: r -> rest (next_char s) = r /\ oob (next_char s) = oob s /\ pos (next_char s) = S (pos s).
Proof. intros H. unfold next_char. rewrite H. destruct (c =? 10); cbn; auto. Qed.

Lemma adv_rest n : forall s, (n <= List.length (rest s))%nat ->
  rest (adv n s) = skipn n (rest s) /\ oob (adv n s) = oob s /\ pos (adv n s) = (pos s + n)%nat.
Proof.
  induction n as [|n IH]; intros s H; cbn [adv skipn].
  - repeat split; auto with arith.
  - destruct (rest s) as [|c r] eqn:E; [cbn in H; lia|].
    destruct (rest_next s c r E) as (R & O & P).
    destruct (IH (next_char s)) as (R' & O' & P'); [rewrite R; cbn in H; lia|].
    rewrite R', O', P', R, O, P. repeat split; auto. lia.
Qed.

(* s' is s moved forward by some number of characters that the text still has *)
Definition within (s s' : lx) : Prop := exists n, (n <= List.length (rest s))%nat /\ s' = adv n s.

Lemma within_refl s : within s s.   Proof. exists 0%nat. split; [lia|reflexivity]. Qed.
Lemma within_adv n s : (n <= List.length (rest s))%nat -> within s (adv n s).
Proof. intros H. exists n. auto. Qed.
Lemma within_trans a b c : within a b -> within b c -> within a c.
Proof.
  intros (n & Hn & ->) (m & Hm & ->). exists (n + m)%nat. split; [|symmetry; apply adv_add].
  destruct (adv_rest n a Hn) as (R & _). rewrite R, skipn_length in Hm. lia.
Qed.
Lemma within_len a b : within a b -> (List.length (rest b) <= List.length (rest a))%nat.
Proof. intros (n & Hn & ->). destruct (adv_rest n a Hn) as (R & _). rewrite R, skipn_length. lia. Qed.
Lemma within_next s c r : rest s = c :: r -> within s (next_char s).
Proof. intros H. exists 1%nat. split; [rewrite H; cbn; lia|reflexivity]. Qed.

Lemma count_while_le f l : (count_while f l <= List.length l)%nat.
Proof. induction l as [|c r IH]; cbn; [lia|destruct (f c); cbn; lia]. Qed.

Lemma to_block_end_le l : forall n c, to_block_end l = (n, c) ->
  if c then (n + 2 <= List.length l)%nat else (n <= List.length l)%nat.
Proof.
  induction l as [|a r IH]; intros n c H; cbn [to_block_end] in H.
  - injection H as <- <-. cbn. lia.
  - destruct ((a =? 42) && match r with b :: _ => b =? 47 | [] => false end) eqn:G.
    + injection H as <- <-. apply andb_true_iff in G as [_ G]. destruct r; [discriminate G|cbn; lia].
    + destruct (to_block_end r) as [n' c'] eqn:E. injection H as <- <-.
      specialize (IH n' c' eq_refl). destruct c'; cbn [List.length]; lia.
Qed.

(* ---- skip ------------------------------------------------------------------------------------------------------------ *)
Lemma skip_within fuel : forall s, within s (skip fuel s).
Proof.
  induction fuel as [|f IH]; intros s; cbn [skip]; [apply within_refl|].
  set (s1 := adv (count_while is_space (rest s)) s).
  assert (W1 : within s s1) by (apply within_adv, count_while_le).
  destruct (rest s1) as [|a [|b r]] eqn:E1; try exact W1.
  destruct ((a =? 47) && (b =? 47)).
  - eapply within_trans; [exact W1|]. eapply within_trans; [|apply IH].
    apply within_adv. rewrite E1. apply count_while_le.
  - destruct ((a =? 47) && (b =? 42)); [|exact W1].
    eapply within_trans; [exact W1|].
    assert (W2 : within s1 (adv 2 s1)) by (apply within_adv; rewrite E1; cbn; lia).
    eapply within_trans; [exact W2|].
    destruct (to_block_end (rest (adv 2 s1))) as [n c] eqn:TB.
    pose proof (to_block_end_le _ _ _ TB) as L.
    eapply within_trans; [|apply IH]. destruct c; apply within_adv; lia.
Qed.

(* ---- tokens --------------------------------------------------------------------------------------------------------- *)
Lemma adv_len n s : (n <= List.length (rest s))%nat -> List.length (rest (adv n s)) = (List.length (rest s) - n)%nat.
Proof. intros H. destruct (adv_rest n s H) as (R & _). rewrite R. apply skipn_length. Qed.

Lemma sym_len_le l : (sym_len l <= List.length l)%nat.
Proof. destruct l as [|c r]; cbn; [lia|]. pose proof (count_while_le is_symch r). lia. Qed.

Lemma int_len_le l : (int_len l <= List.length l)%nat.
Proof.
  destruct l as [|a [|p r]]; cbn [int_len]; [cbn; lia|cbn; lia|].
  destruct ((a =? 48) && existsb (Z.eqb p) [98; 111; 120; 66; 79; 88]).
  - match goal with |- (2 + count_while ?f r <= _)%nat => pose proof (count_while_le f r) end. cbn [List.length]. lia.
  - pose proof (count_while_le is_digit (p :: r)). cbn [List.length] in *. lia.
Qed.

Lemma codes_eqb_len a b : codes_eqb a b = true -> List.length a = List.length b.
Proof. unfold codes_eqb. intros H. apply andb_true_iff in H as [H _]. now apply Nat.eqb_eq. Qed.

Lemma starts_with_len p l : starts_with p l = true -> (List.length p <= List.length l)%nat.
Proof.
  unfold starts_with. intros H. apply codes_eqb_len in H. rewrite firstn_length in H. lia.
Qed.

Lemma peek_some n s c : peek n s = Some c -> (n < List.length (rest s))%nat.
Proof. unfold peek. intros H. apply nth_error_Some. congruence. Qed.

Lemma read_escape_le s v n w c r : rest s = c :: r -> read_escape s = (v, n, w) -> (n <= List.length r)%nat.
Proof.
  intros E. unfold read_escape.
  destruct (peek 1 s) as [p|] eqn:P1; [|intros H; injection H as _ <- _; lia].
  pose proof (peek_some 1 s p P1) as L1. rewrite E in L1. cbn [List.length] in L1.
  destruct (p =? 120).
  - destruct (peek 2 s) as [a|] eqn:P2; [|intros H; injection H as _ <- _; lia].
    destruct (peek 3 s) as [b|] eqn:P3; [|intros H; injection H as _ <- _; lia].
    pose proof (peek_some 3 s b P3) as L3. rewrite E in L3. cbn [List.length] in L3.
    destruct (is_hex a && is_hex b); intros H; injection H as _ <- _; lia.
  - destruct (is_digit p).
    + rewrite E. change (skipn 1 (c :: r)) with r.
      pose proof (count_while_le is_digit r) as K1. pose proof (Nat.le_min_r 3 (count_while is_digit r)) as K2.
      remember (Nat.min 3 (count_while is_digit r)) as k eqn:Hk. clear Hk.
      destruct (octval 0 _); intros H; injection H as _ <- _; lia.
    + intros H; injection H as _ <- _. lia.
Qed.

Lemma delimited_within fuel d : forall s acc ws v s' ws',
  delimited fuel d s acc ws = (v, s', ws') -> within s s'.
Proof.
  induction fuel as [|f IH]; intros s acc ws v s' ws'; cbn [delimited].
  - intros H; injection H as _ <- _. apply within_refl.
  - destruct (rest s) as [|c r] eqn:E; [intros H; injection H as _ <- _; apply within_refl|].
    destruct (c =? d); [intros H; injection H as _ <- _; apply within_refl|].
    destruct (c =? 92).
    + destruct (read_escape s) as [[ev n] w] eqn:RE.
      pose proof (read_escape_le s ev n w c r E RE) as Ln.
      destruct (rest_next s c r E) as (R1 & _).
      destruct n as [|n'].
      * intros H; injection H as _ <- _. eapply within_next, E.
      * intros H. apply IH in H.
        eapply within_trans; [eapply within_next, E|].
        eapply within_trans; [apply within_adv; rewrite R1; exact Ln|exact H].
    + intros H. apply IH in H. eapply within_trans; [eapply within_next, E|exact H].
Qed.

(* where a token says it starts: a state reachable by moving forward *)
Definition tok_at (s0 : lx) (t : tok) : Prop :=
  exists st, within s0 st /\ t_line t = line st /\ t_col t = col st /\ t_start t = pos st.

Lemma set_token_spec ty n s0 s : within s0 s -> (n <= List.length (rest s))%nat ->
  within s0 (snd (set_token ty n s)) /\ tok_at s0 (fst (set_token ty n s)) /\
  List.length (rest (snd (set_token ty n s))) = (List.length (rest s) - n)%nat.
Proof.
  intros W H. unfold set_token. cbn [fst snd t_line t_col t_start]. split; [|split].
  - eapply within_trans; [exact W|apply within_adv, H].
  - exists s. auto.
  - apply adv_len, H.
Qed.

Definition progress (s0 s' : lx) (t : tok) : Prop :=
  t_type t = T_EOF \/ (List.length (rest s') < List.length (rest s0))%nat.

Definition spec3 (s0 : lx) (x : tok * lx * list lwarn) : Prop :=
  within s0 (snd (fst x)) /\ tok_at s0 (fst (fst x)) /\ progress s0 (snd (fst x)) (fst (fst x)).

Lemma set_token_fin ty n s0 s ws : within s0 s -> (1 <= n <= List.length (rest s))%nat ->
  spec3 s0 (set_token ty n s, ws).
Proof.
  intros W Hn. destruct (set_token_spec ty n s0 s W ltac:(lia)) as (A & B & C).
  pose proof (within_len _ _ W). unfold spec3. cbn [fst snd].
  split; [exact A|split; [exact B|right; lia]].
Qed.

Lemma next_token_spec3 s0 : spec3 s0 (next_token s0).
Proof.
  unfold next_token. set (s := skip _ s0).
  assert (W : within s0 s) by apply skip_within.
  pose proof (within_len _ _ W) as Ls.
  destruct (rest s) as [|ch r] eqn:E.
  - destruct (set_token_spec T_EOF 0 s0 s W ltac:(lia)) as (A & B & _).
    unfold spec3. cbn [fst snd]. split; [exact A|split; [exact B|left; reflexivity]].
  - destruct (is_alpha ch || (ch =? 95)).
    { apply set_token_fin; [exact W|]. rewrite E. pose proof (sym_len_le (ch :: r)). cbn [sym_len] in *. lia. }
    destruct (is_digit ch).
    { apply set_token_fin; [exact W|]. rewrite E. pose proof (int_len_le (ch :: r)). split; [|lia].
      destruct r as [|p r']; cbn [int_len]; [lia|]. destruct ((ch =? 48) && _); lia. }
    destruct ((ch =? 34) || (ch =? 39)).
    { destruct (rest_next s ch r E) as (R1 & _).
      assert (W1 : within s (next_char s)) by (eapply within_next, E).
      destruct (delimited _ ch (next_char s) [] []) as [[v s2] ws2] eqn:D.
      pose proof (delimited_within _ _ _ _ _ _ _ _ D) as W2.
      assert (TA : forall ty val, tok_at s0 (mktok ty val (line s) (col s) (pos s))) by (intros; exists s; auto).
      pose proof (within_len _ _ W2) as L2. rewrite R1 in L2.
      destruct (rest s2) as [|c2 r2] eqn:E2.
      - unfold spec3. cbn [fst snd]. split; [|split; [apply TA|right; rewrite E2; cbn [List.length] in *; lia]].
        eapply within_trans; [exact W|]. eapply within_trans; [exact W1|exact W2].
      - assert (W3 : within s0 (next_char s2)).
        { eapply within_trans; [exact W|]. eapply within_trans; [exact W1|].
          eapply within_trans; [exact W2|eapply within_next, E2]. }
        assert (P3 : (List.length (rest (next_char s2)) < List.length (rest s0))%nat).
        { destruct (rest_next s2 c2 r2 E2) as (R3 & _). rewrite R3. cbn [List.length] in *. lia. }
        assert (Done : forall ty val, spec3 s0 (mktok ty val (line s) (col s) (pos s), next_char s2, ws2)).
        { intros. unfold spec3. cbn [fst snd]. split; [exact W3|split; [apply TA|right; exact P3]]. }
        destruct (ch =? 34); [apply Done|].
        destruct v as [|c1 [|c3 [|c4 v']]]; apply Done. }
    destruct (starts_with include_word (ch :: r)) eqn:SW.
    { apply set_token_fin; [exact W|]. apply starts_with_len in SW. rewrite E. cbn [List.length include_word] in *. lia. }
    destruct (ch =? 60).
    { destruct (rest_next s ch r E) as (R1 & _).
      assert (W1 : within s0 (next_char s)) by (eapply within_trans; [exact W|eapply within_next, E]).
      set (n := count_while (fun c => negb (c =? 62)) (rest (next_char s))).
      assert (Ln : (n <= List.length (rest (next_char s)))%nat) by apply count_while_le.
      assert (W2 : within s0 (adv n (next_char s))) by (eapply within_trans; [exact W1|apply within_adv, Ln]).
      pose proof (adv_len n (next_char s) Ln) as L2. rewrite R1 in L2.
      assert (TA : forall ty val, tok_at s0 (mktok ty val (line (next_char s)) (col (next_char s)) (pos (next_char s))))
        by (intros; exists (next_char s); auto).
      destruct (rest (adv n (next_char s))) as [|c2 r2] eqn:E2; unfold spec3; cbn [fst snd].
      - split; [exact W2|split; [apply TA|right]]. rewrite E2. cbn [List.length] in *. lia.
      - destruct (rest_next _ c2 r2 E2) as (R3 & _).
        split; [eapply within_trans; [exact W2|eapply within_next, E2]|split; [apply TA|right]].
        rewrite R3. cbn [List.length] in *. lia. }
    destruct (ch =? 58).
    { destruct (rest_next s ch r E) as (R1 & _).
      assert (W1 : within s0 (next_char s)) by (eapply within_trans; [exact W|eapply within_next, E]).
      set (n := if peek_is is_symch 0 (next_char s) then sym_len (rest (next_char s)) else 0%nat).
      assert (Ln : (n <= List.length (rest (next_char s)))%nat).
      { unfold n. destruct (peek_is is_symch 0 (next_char s)); [apply sym_len_le|lia]. }
      unfold spec3. cbn [fst snd]. split; [eapply within_trans; [exact W1|apply within_adv, Ln]|].
      split; [exists s; auto|right].
      rewrite (adv_len n (next_char s) Ln), R1. cbn [List.length] in *. lia. }
    apply set_token_fin; [exact W|]. rewrite E. cbn. lia.
Qed.

Theorem next_token_spec s0 t s' ws : next_token s0 = (t, s', ws) ->
  within s0 s' /\ tok_at s0 t /\ progress s0 s' t.
Proof. intros H. pose proof (next_token_spec3 s0) as S. rewrite H in S. exact S. Qed.

(* ---- the whole token stream ------------------------------------------------------------------------------------- *)
Lemma tok_at_mono a b t : within a b -> tok_at b t -> tok_at a t.
Proof. intros W (st & Ws & H). exists st. split; [eapply within_trans; eassumption|exact H]. Qed.

Lemma lex_all_spec fuel : forall s ts ws sf, lex_all fuel s = (ts, ws, sf) ->
  (List.length (rest s) < fuel)%nat ->
  within s sf /\ Forall (tok_at s) ts /\
  (exists ts' e, ts = ts' ++ [e] /\ t_type e = T_EOF /\ Forall (fun t => t_type t <> T_EOF) ts') /\
  (List.length ts <= S (List.length (rest s)))%nat.
Proof.
  induction fuel as [|f IH]; intros s ts ws sf H Hf; [lia|].
  cbn [lex_all] in H.
  destruct (next_token s) as [[t s1] w1] eqn:N.
  destruct (next_token_spec s t s1 w1 N) as (W1 & T1 & P1).
  destruct (t_type t) eqn:TT;
    try (destruct (lex_all f s1) as [[ts2 ws2] s2] eqn:L; injection H as <- _ <-;
         destruct P1 as [P1|P1]; [congruence|];
         destruct (IH s1 ts2 ws2 s2 L ltac:(lia)) as (W2 & F2 & (ts' & e & -> & Ee & Ne) & Len);
         split; [eapply within_trans; eassumption|];
         split; [constructor; [exact T1|eapply Forall_impl; [|exact F2]; intros a Ha; eapply tok_at_mono; eassumption]|];
         split; [exists (t :: ts'), e; split; [reflexivity|split; [exact Ee|constructor; [congruence|exact Ne]]]|];
         cbn [List.length] in *; lia).
  injection H as <- _ <-. split; [exact W1|]. split; [constructor; [exact T1|constructor]|].
  split; [exists [], t; split; [reflexivity|split; [exact TT|constructor]]|cbn; lia].
Qed.

(* ---- where a state is: line and column as functions of the consumed prefix ---------------------------- *)
Definition line_of (pre : list Z) : Z := 1 + Z.of_nat (count_occ Z.eq_dec pre 10).
Definition col_of (pre : list Z) : Z := 1 + Z.of_nat (count_while (fun c => negb (c =? 10)) (rev pre)).

Lemma firstn_S_nth {A} (l : list A) n c r : skipn n l = c :: r -> firstn (S n) l = firstn n l ++ [c].
Proof.
  revert l. induction n as [|n IH]; intros l H.
  - cbn in H. subst l. reflexivity.
  - destruct l as [|a l']; [discriminate H|]. cbn [skipn] in H.
    change (firstn (S (S n)) (a :: l')) with (a :: firstn (S n) l'). rewrite (IH l' H). reflexivity.
Qed.

Lemma state_at text n : (n <= List.length text)%nat ->
  let s := adv n (start text) in
  rest s = skipn n text /\ oob s = false /\ pos s = n /\
  line s = line_of (firstn n text) /\ col s = col_of (firstn n text).
Proof.
  induction n as [|n IH]; intros H.
  - cbn. repeat split.
  - specialize (IH ltac:(lia)). cbn zeta in IH. destruct IH as (R & O & P & L & C).
    replace (S n) with (n + 1)%nat by lia. rewrite adv_add. cbn [adv]. cbn zeta.
    set (s := adv n (start text)) in *.
    destruct (skipn n text) as [|c r] eqn:SK.
    { pose proof (skipn_length n text) as X. rewrite SK in X. cbn in X. lia. }
    replace (n + 1)%nat with (S n) by lia.
    rewrite (firstn_S_nth text n c r SK).
    assert (SK2 : skipn (S n) text = r).
    { clear -SK. revert text SK. induction n as [|n IH]; intros text SK.
      - cbn in SK. subst text. reflexivity.
      - destruct text as [|a t]; [discriminate SK|]. cbn [skipn] in *. apply IH, SK. }
    unfold next_char. rewrite R. unfold line_of, col_of.
    rewrite count_occ_app, rev_app_distr. cbn [rev app count_occ count_while].
    destruct (c =? 10) eqn:E10.
    + apply Z.eqb_eq in E10. subst c. cbn [rest oob pos line col negb].
      destruct (Z.eq_dec 10 10) as [_|X]; [|congruence].
      rewrite SK2. unfold line_of in L. rewrite L. repeat split; auto; lia.
    + cbn [rest oob pos line col negb].
      destruct (Z.eq_dec c 10) as [X|_]; [apply Z.eqb_neq in E10; congruence|].
      rewrite SK2. unfold col_of in C. rewrite C, L. unfold line_of. repeat split; auto; lia.
Qed.

(* ---- the theorems about lexing a whole text ---------------------------------------------------------------------- *)
Theorem lex_in_bounds_and_terminates text ts ws sf : lex text = (ts, ws, sf) ->
  oob sf = false /\
  (exists ts' e, ts = ts' ++ [e] /\ t_type e = T_EOF /\ Forall (fun t => t_type t <> T_EOF) ts') /\
  (List.length ts <= S (List.length text))%nat.
Proof.
  unfold lex. intros H.
  destruct (lex_all_spec _ _ _ _ _ H ltac:(cbn; lia)) as ((n & Hn & ->) & _ & E & L).
  cbn [start rest] in *. split; [|split; [exact E|exact L]].
  exact (proj1 (proj2 (state_at text n Hn))).
Qed.

Theorem token_locations text ts ws sf : lex text = (ts, ws, sf) ->
  Forall (fun t => (t_start t <= List.length text)%nat /\
                   t_line t = line_of (firstn (t_start t) text) /\
                   t_col t = col_of (firstn (t_start t) text)) ts.
Proof.
  unfold lex. intros H.
  destruct (lex_all_spec _ _ _ _ _ H ltac:(cbn; lia)) as (_ & F & _).
  eapply Forall_impl; [|exact F]. intros t (st & (n & Hn & ->) & Hl & Hc & Hs).
  cbn [start rest] in Hn. destruct (state_at text n Hn) as (_ & _ & P & L & C).
  rewrite Hs, Hl, Hc, P. split; [exact Hn|split; assumption].
Qed.
