(* C16_Include.v — include processing terminates for every include graph, cyclic or not: the stack
   of files being parsed never repeats a file, so its depth is bounded by the number of files
   and the recursion bottoms out; an include of a file on the stack is reported, not followed. *)
From Coq Require Import ZArith List Bool Arith Lia.
From Hera.Model Require Import Include.
Import ListNotations.

Definition targets_ok (n : nat) (items : list iitem) : Prop :=
  Forall (fun it => match it with IInc (Some t) => t < n | _ => True end) items.
Definition fs_ok (fs : list (list iitem)) : Prop := Forall (targets_ok (List.length fs)) fs.

Lemma file_ok fs t : fs_ok fs -> targets_ok (List.length fs) (file fs t).
Proof.
  intros H. unfold file. destruct (Nat.lt_ge_cases t (List.length fs)) as [L|L].
  - apply (proj1 (Forall_forall _ _) H). apply nth_In, L.
  - rewrite nth_overflow by exact L. constructor.
Qed.

Lemma on_stack_false t st : on_stack t st = false -> ~ In t st.
Proof.
  unfold on_stack. intros H I. assert (X : existsb (Nat.eqb t) st = true).
  { apply existsb_exists. exists t. split; [exact I|apply Nat.eqb_refl]. }
  congruence.
Qed.

Lemma nodup_bounded n (l : list nat) : NoDup l -> Forall (fun x => x < n) l -> List.length l <= n.
Proof.
  intros ND B. rewrite <- (seq_length n 0). apply NoDup_incl_length; [exact ND|].
  intros x Hx. apply in_seq. pose proof (proj1 (Forall_forall _ _) B x Hx) as Hb. cbn beta in Hb. lia.
Qed.

Lemma expand_total fs : fs_ok fs -> forall fuel stack cur items,
  NoDup (cur :: stack) -> Forall (fun x => x < List.length fs) (cur :: stack) ->
  targets_ok (List.length fs) items ->
  List.length fs - List.length (cur :: stack) <= fuel ->
  exists out, expand fuel fs stack cur items = Some out.
Proof.
  intros FS. induction fuel as [|f IHf]; intros stack cur items ND B T Hf;
    (induction items as [|it r IHr]; [exists []; destruct f || idtac; reflexivity|]);
    inversion T as [|? ? Hit Tr]; subst; specialize (IHr Tr); destruct IHr as [outr Er].
  - (* fuel 0 *)
    destruct it as [o|[t|]].
    + exists (OOp o :: outr). cbn [expand]. cbn [expand] in Er. rewrite Er. reflexivity.
    + cbn [expand]. cbn [expand] in Er.
      destruct (on_stack t (cur :: stack)) eqn:OS.
      * rewrite Er. eexists. reflexivity.
      * exfalso. apply on_stack_false in OS.
        assert (ND2 : NoDup (t :: cur :: stack)) by (constructor; assumption).
        assert (B2 : Forall (fun x => x < List.length fs) (t :: cur :: stack)) by (constructor; assumption).
        pose proof (nodup_bounded _ _ ND2 B2) as L. cbn [List.length] in *. lia.
    + exists (OMissing cur :: outr). cbn [expand]. cbn [expand] in Er. rewrite Er. reflexivity.
  - destruct it as [o|[t|]].
    + exists (OOp o :: outr). cbn [expand]. cbn [expand] in Er. rewrite Er. reflexivity.
    + cbn [expand]. cbn [expand] in Er.
      destruct (on_stack t (cur :: stack)) eqn:OS.
      * rewrite Er. eexists. reflexivity.
      * apply on_stack_false in OS.
        assert (ND2 : NoDup (t :: cur :: stack)) by (constructor; assumption).
        assert (B2 : Forall (fun x => x < List.length fs) (t :: cur :: stack)) by (constructor; assumption).
        destruct (IHf (cur :: stack) t (file fs t) ND2 B2 (file_ok fs t FS)) as [outa Ea].
        { cbn [List.length] in *. lia. }
        rewrite Ea, Er. eexists. reflexivity.
    + exists (OMissing cur :: outr). cbn [expand]. cbn [expand] in Er. rewrite Er. reflexivity.
Qed.

Theorem include_processing_terminates fs : fs_ok fs -> fs <> [] -> exists out, expand_main fs = Some out.
Proof.
  intros FS NE. unfold expand_main. apply expand_total; try exact FS.
  - constructor; [intros []|constructor].
  - constructor; [destruct fs; [congruence|cbn; lia]|constructor].
  - apply file_ok, FS.
  - cbn [List.length]. lia.
Qed.

(* an include of a file that is being parsed (the file itself, or any file up the chain) is reported
   at that directive and not followed: the remaining items of the including file are still processed *)
Theorem cycle_reported fuel fs stack cur t r :
  on_stack t (cur :: stack) = true ->
  expand fuel fs stack cur (IInc (Some t) :: r) = option_map (cons (ORecursive cur)) (expand fuel fs stack cur r).
Proof. intros H. destruct fuel; cbn [expand]; rewrite H; reflexivity. Qed.

(* a file that is not being parsed is spliced in place, whether or not it was included before *)
Theorem include_splices fuel fs stack cur t r a b :
  on_stack t (cur :: stack) = false ->
  expand fuel fs (cur :: stack) t (file fs t) = Some a -> expand (S fuel) fs stack cur r = Some b ->
  expand (S fuel) fs stack cur (IInc (Some t) :: r) = Some (a ++ b).
Proof. intros H A B. cbn [expand]. rewrite H. cbn [expand] in B. rewrite A, B. reflexivity. Qed.

(* ---- without a reported cycle the result is the plain textual splice -------------------------------------- *)
(* the splice semantics: an include directive stands for the contents of its file, nothing else is
   looked at (no notion of "files being parsed") *)
Fixpoint splice (fuel : nat) (fs : list (list iitem)) : nat -> list iitem -> option (list iout) :=
  fix go (cur : nat) (items : list iitem) {struct items} : option (list iout) :=
    match items with
    | [] => Some []
    | IOp o :: r => option_map (cons (OOp o)) (go cur r)
    | IInc None :: r => option_map (cons (OMissing cur)) (go cur r)
    | IInc (Some t) :: r =>
        match fuel with
        | O => None
        | S f => match splice f fs t (file fs t), go cur r with
                 | Some a, Some b => Some (a ++ b)
                 | _, _ => None
                 end
        end
    end.

Definition no_cycle_report (out : list iout) : Prop :=
  Forall (fun o => match o with ORecursive _ => False | _ => True end) out.

Lemma expand_op fuel fs stack cur o r :
  expand fuel fs stack cur (IOp o :: r) = option_map (cons (OOp o)) (expand fuel fs stack cur r).
Proof. destruct fuel; reflexivity. Qed.
Lemma expand_missing fuel fs stack cur r :
  expand fuel fs stack cur (IInc None :: r) = option_map (cons (OMissing cur)) (expand fuel fs stack cur r).
Proof. destruct fuel; reflexivity. Qed.
Lemma expand_inc_new fuel fs stack cur t r : on_stack t (cur :: stack) = false ->
  expand (S fuel) fs stack cur (IInc (Some t) :: r) =
  match expand fuel fs (cur :: stack) t (file fs t), expand (S fuel) fs stack cur r with
  | Some a, Some b => Some (a ++ b) | _, _ => None end.
Proof. intros H. cbn [expand]. rewrite H. reflexivity. Qed.
Lemma expand_inc_new0 fs stack cur t r : on_stack t (cur :: stack) = false ->
  expand 0 fs stack cur (IInc (Some t) :: r) = None.
Proof. intros H. cbn [expand]. rewrite H. reflexivity. Qed.
Lemma splice_op fuel fs cur o r : splice fuel fs cur (IOp o :: r) = option_map (cons (OOp o)) (splice fuel fs cur r).
Proof. destruct fuel; reflexivity. Qed.
Lemma splice_missing fuel fs cur r : splice fuel fs cur (IInc None :: r) = option_map (cons (OMissing cur)) (splice fuel fs cur r).
Proof. destruct fuel; reflexivity. Qed.
Lemma splice_inc fuel fs cur t r :
  splice (S fuel) fs cur (IInc (Some t) :: r) =
  match splice fuel fs t (file fs t), splice (S fuel) fs cur r with Some a, Some b => Some (a ++ b) | _, _ => None end.
Proof. reflexivity. Qed.

Theorem no_report_is_splice fs : forall fuel stack cur items out,
  expand fuel fs stack cur items = Some out -> no_cycle_report out ->
  splice fuel fs cur items = Some out.
Proof.
  induction fuel as [|f IHf]; intros stack cur items;
    induction items as [|it r IHr]; intros out E N; try (destruct f || idtac; cbn in *; exact E).
  - destruct it as [o|[t|]].
    + rewrite expand_op in E. rewrite splice_op.
      destruct (expand 0 fs stack cur r) as [o1|]; [|discriminate E]. injection E as <-.
      inversion N; subst. rewrite (IHr o1 eq_refl H2). reflexivity.
    + destruct (on_stack t (cur :: stack)) eqn:OS.
      * rewrite cycle_reported in E by exact OS.
        destruct (expand 0 fs stack cur r) as [o1|]; [|discriminate E]. injection E as <-. inversion N; subst. contradiction.
      * rewrite expand_inc_new0 in E by exact OS. discriminate E.
    + rewrite expand_missing in E. rewrite splice_missing.
      destruct (expand 0 fs stack cur r) as [o1|]; [|discriminate E]. injection E as <-.
      inversion N; subst. rewrite (IHr o1 eq_refl H2). reflexivity.
  - destruct it as [o|[t|]].
    + rewrite expand_op in E. rewrite splice_op.
      destruct (expand (S f) fs stack cur r) as [o1|]; [|discriminate E]. injection E as <-.
      inversion N; subst. rewrite (IHr o1 eq_refl H2). reflexivity.
    + destruct (on_stack t (cur :: stack)) eqn:OS.
      * rewrite cycle_reported in E by exact OS.
        destruct (expand (S f) fs stack cur r) as [o1|]; [|discriminate E]. injection E as <-. inversion N; subst. contradiction.
      * rewrite expand_inc_new in E by exact OS. rewrite splice_inc.
        destruct (expand f fs (cur :: stack) t (file fs t)) as [a|] eqn:Ea; [|discriminate E].
        destruct (expand (S f) fs stack cur r) as [b|]; [|discriminate E]. injection E as <-.
        unfold no_cycle_report in N. apply Forall_app in N as [Na Nb].
        rewrite (IHf _ _ _ a Ea Na), (IHr b eq_refl Nb). reflexivity.
    + rewrite expand_missing in E. rewrite splice_missing.
      destruct (expand (S f) fs stack cur r) as [o1|]; [|discriminate E]. injection E as <-.
      inversion N; subst. rewrite (IHr o1 eq_refl H2). reflexivity.
Qed.
