(* C15_Throttle.v — `--throttle n` stops after exactly min(n, length of the run) instructions,
   and its states are those of any run with a larger limit. *)
From Coq Require Import ZArith List Bool String Lia.
From Hera.Lib Require Import Py Machine Word16.
From Hera.Gen Require Import Utils Vm Ops.
From Hera.Spec Require Import ISA Wf.
From Hera.Model Require Import InstrOf Run.
From Hera.Proofs Require Import VmLemmas Tactics SpecLemmas C01_ALU C01_Misc C01_Branch C01_All C02_Step C02_Exec C02_Run C15_Repeat.
Import ListNotations.
Open Scope Z_scope.



Lemma throttled_none code n s : code_ok code -> wf_vm s ->
  loop_step_throttled n code s = Ok None -> guard_true code s = false \/ n <= op_count s.
Proof.
  intros C W E. destruct (run_guard_throttled_ok code n s W) as (g & Eg & Tg).
  unfold loop_step_throttled in E. rewrite Eg, Tg in E.
  destruct (guard_true code s) eqn:G; [|now left]. right.
  destruct (op_count s <? n) eqn:L; [|lia]. cbn [andb] in E.
  assert (Hp : 0 <= pc s < zlen code) by (unfold guard_true in G; lia).
  destruct (fetch_exec_wf code s C W Hp) as (s' & E' & _).
  erewrite bind_Ok in E by exact E'. erewrite bind_Ok in E by reflexivity. discriminate E.
Qed.

(* `--throttle n` ends after exactly min(n, length of the run) instructions: when it stops, either
   n instructions have been counted, or the program has ended by itself (halted or left the
   program) having executed fewer *)
Theorem throttle_exact code n : code_ok code -> forall fuel s, wf_vm s -> op_count s <= n ->
  match iter (loop_step_throttled n code) fuel s with
  | Ok s' => op_count s' <= n /\ (op_count s' = n \/ guard_true code s' = false)
  | Raise OutOfFuel => True
  | Raise _ => False
  end.
Proof.
  intros C. induction fuel as [|f IH]; intros s W Hn; cbn [iter]; [exact I|].
  destruct (loop_step_throttled_ok code n s C W) as [E | (_ & Hlt & s' & E & W' & O')].
  - rewrite E. split; [exact Hn|]. destruct (throttled_none code n s C W E) as [G|G]; [now right|left; lia].
  - rewrite E. apply IH; [exact W'|lia].
Qed.

(* the states of a throttled run do not depend on the limit until the limit is reached: the run
   with limit n is a prefix of the run with any larger limit n' *)
Theorem throttle_prefix code n n' : code_ok code -> n <= n' -> forall k s, wf_vm s ->
  op_count s + Z.of_nat k <= n ->
  steps (loop_step_throttled n code) k s = steps (loop_step_throttled n' code) k s.
Proof.
  intros C Hnn. induction k as [|k IH]; intros s W Hk; cbn [steps]; [reflexivity|].
  rewrite (throttled_step_limit code n n' s (wf_halted _ W)) by lia.
  destruct (loop_step_throttled_ok code n' s C W) as [E | (_ & _ & s' & E & W' & O')]; rewrite E; [reflexivity|].
  apply IH; [exact W'|lia].
Qed.
