(* C04_Bounds.v — in a program whose label pass reports no error, every code label is an instruction
   address below 2^16. *)
From Coq Require Import ZArith List Bool String Lia.
From Hera.Lib Require Import Py.
From Hera.Gen Require Import Utils Ops Tables Convert.
From Hera.Model Require Import OpRep Preproc.
From Hera.Proofs Require Import C04_Layout C08_Symtab.
Import ListNotations.
Open Scope Z_scope.

Lemma oplen_pos o : 1 <= operation_length o <= 4.
Proof.
  unfold operation_length.
  repeat match goal with |- context [if ?b then _ else _] => destruct b end; lia.
Qed.

Lemma labels_delta_nonneg c o : 0 <= labels_delta c o.
Proof.
  unfold labels_delta. pose proof (oplen_pos o).
  destruct (o_cls o); try lia; destruct (strips_debug c && _); lia.
Qed.

Lemma has_errors_snoc l m : has_errors (l ++ [m]) = has_errors l || m_err m.
Proof. unfold has_errors. rewrite existsb_app. cbn [existsb]. now rewrite orb_false_r. Qed.

(* one step of the label pass: errors are never withdrawn, and a program counter that stays without error
   stays below 2^16 *)
Lemma gl_step_errors c g o : has_errors (gl_msgs (get_labels_step c g o)) = false ->
  has_errors (gl_msgs g) = false /\ (gl_pc g <= 65535 -> gl_pc (get_labels_step c g o) <= 65535).
Proof.
  unfold get_labels_step. cbv zeta.
  destruct (o_cls o); try (destruct (strips_debug c && _));
    repeat match goal with
           | |- context [match o_args o with _ => _ end] => destruct (o_args o) as [|? [|? ?]]
           | |- context [match ?x with PI _ => _ | _ => _ end] => destruct x
           | |- context [match dict_get ?a ?b with _ => _ end] => destruct (dict_get a b)
           | |- context [if ?b then _ else _] => destruct b eqn:?
           end;
    cbn [gl_msgs gl_pc]; rewrite ?has_errors_snoc; cbn [m_err err]; rewrite ?orb_true_r, ?orb_false_r;
    intros H; try discriminate H; (split; [exact H|intros; lia]).
Qed.

Lemma gl_fold_errors c ops : forall g, has_errors (gl_msgs (fold_left (get_labels_step c) ops g)) = false ->
  has_errors (gl_msgs g) = false.
Proof.
  induction ops as [|o r IH]; intros g H; cbn [fold_left] in H; [exact H|].
  exact (proj1 (gl_step_errors c g o (IH _ H))).
Qed.

Lemma get_set_cases {V} (d : list (pv * V)) k x q y :
  dict_get (dict_set d k x) q = Some y -> y = x \/ dict_get d q = Some y.
Proof.
  induction d as [|[k' v'] t IH]; cbn [dict_set dict_get].
  - destruct (py_eqb k q); [intros E; injection E as <-; now left|discriminate].
  - destruct (py_eqb k' k) eqn:E1; cbn [dict_get]; destruct (py_eqb k' q) eqn:E2.
    + intros E; injection E as <-. now left.
    + intros H. now right.
    + intros H. now right.
    + exact IH.
Qed.

Definition labels_ok (st : symtab) : Prop := forall k v, dict_get st k = Some (SLabel v) -> 0 <= v <= 65535.

Lemma gl_fold_labels c ops : forall g, has_errors (gl_msgs (fold_left (get_labels_step c) ops g)) = false ->
  0 <= gl_pc g <= 65535 -> labels_ok (gl_st g) -> labels_ok (gl_st (fold_left (get_labels_step c) ops g)).
Proof.
  induction ops as [|o r IH]; intros g H P L; cbn [fold_left] in *; [exact L|].
  pose proof (gl_fold_errors c r _ H) as H1.
  destruct (gl_step_errors c g o H1) as [_ B].
  apply IH; [exact H| |].
  - rewrite get_labels_pc in *. pose proof (labels_delta_nonneg c o). split; [lia|]. apply B. lia.
  - rewrite gl_st_step. intros k v.
    destruct (o_cls o); try exact (L k v); (destruct (o_args o) as [|a [|? ?]]; try exact (L k v));
      intros E; apply get_set_cases in E as [E|E]; try discriminate E; try exact (L k v E).
    injection E as ->. exact P.
Qed.

(* every code label of a program whose label pass reports no error is an instruction address below 2^16 *)
Theorem labels_in_range c ops st msgs : get_labels c ops = (st, msgs) -> has_errors msgs = false -> labels_ok st.
Proof.
  unfold get_labels. intros E H. injection E as <- <-.
  apply gl_fold_labels; [exact H|cbn [gl_pc]; lia|intros k v E; discriminate E].
Qed.
