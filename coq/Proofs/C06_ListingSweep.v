(* C06_ListingSweep.v — the finite sweeps of C06_Listing.v: the text `hera assemble` prints reads back, with a strict reader of the format, as exactly
   the words and the data image that were printed (Model/Listing.v).  The single-number facts are finite
   sweeps over all 16-bit values, lifted with [range_forall]; the line structure (C06_Listing.v) is by induction. *)
From Coq Require Import ZArith List Bool Lia.
From Hera.Lib Require Import Word16.
From Hera.Model Require Import Listing.
Import ListNotations.
Open Scope Z_scope.

Definition nonl (s : list Z) : bool := forallb (fun c => negb (c =? NL)) s.
Definition nostar (s : list Z) : bool := forallb (fun c => negb (c =? STAR)) s.
Definition nonempty (s : list Z) : bool := match s with [] => false | _ :: _ => true end.
Definition is_some_eq (o : option Z) (w : Z) : bool := match o with Some v => v =? w | None => false end.

Definition chk_hex4 (w : Z) : bool := is_some_eq (parse_hex (hex4 w)) w && nonl (hex4 w).
Definition chk_hexmin (w : Z) : bool :=
  is_some_eq (parse_hex (hexmin w)) w && nonl (hexmin w) && nostar (hexmin w) && nonempty (hexmin w).
Definition chk_dec (n : Z) : bool :=
  is_some_eq (parse_dec (dec n)) n && nonl (dec n) && nostar (dec n) && nonempty (dec n).

Lemma hex4_sweep : forallb chk_hex4 (zrange 0 65536) = true.
Proof. vm_compute. reflexivity. Qed.
Lemma hexmin_sweep : forallb chk_hexmin (zrange 0 65537) = true.
Proof. vm_compute. reflexivity. Qed.
Lemma dec_sweep : forallb chk_dec (zrange 0 65536) = true.
Proof. vm_compute. reflexivity. Qed.

Lemma is_some_eq_spec o w : is_some_eq o w = true -> o = Some w.
Proof. destruct o as [v|]; simpl; [|discriminate]. intros H. apply Z.eqb_eq in H. now subst. Qed.

Lemma hex4_ok w : 0 <= w < 65536 -> parse_hex (hex4 w) = Some w /\ nonl (hex4 w) = true.
Proof.
  intros Hw. assert (H := range_forall chk_hex4 0 65536 hex4_sweep w Hw).
  unfold chk_hex4 in H. apply andb_true_iff in H. destruct H as [H1 H2].
  split; [now apply is_some_eq_spec | exact H2].
Qed.

Lemma hexmin_ok w : 0 <= w <= 65536 ->
  parse_hex (hexmin w) = Some w /\ nonl (hexmin w) = true /\ nostar (hexmin w) = true /\ nonempty (hexmin w) = true.
Proof.
  intros Hw. assert (Hw' : 0 <= w < 65537) by lia.
  assert (H := range_forall chk_hexmin 0 65537 hexmin_sweep w Hw').
  unfold chk_hexmin in H. repeat rewrite andb_true_iff in H. destruct H as [[[H1 H2] H3] H4].
  repeat split; try assumption. now apply is_some_eq_spec.
Qed.

Lemma dec_ok n : 0 <= n < 65536 ->
  parse_dec (dec n) = Some n /\ nonl (dec n) = true /\ nostar (dec n) = true /\ nonempty (dec n) = true.
Proof.
  intros Hn. assert (H := range_forall chk_dec 0 65536 dec_sweep n Hn).
  unfold chk_dec in H. repeat rewrite andb_true_iff in H. destruct H as [[[H1 H2] H3] H4].
  repeat split; try assumption. now apply is_some_eq_spec.
Qed.

