(* C05_Codec.v — encoding and decoding are exact inverses and follow the HERA table: the
   universally quantified statements, lifted from the complete sweeps of C05_Sweep.v. *)
From Coq Require Import ZArith List Bool String Lia ZifyBool.
From Hera.Lib Require Import Py Machine Word16.
From Hera.Gen Require Import Utils Ops Tables.
From Hera.Spec Require Import ISA EncTable.
From Hera.Model Require Import OpRep InstrOf Bitvec.
From Hera.Proofs Require Import C05_Sweep.
Import ListNotations.
Open Scope Z_scope.

(* ---- the universally quantified statements ---------------------------------------------------- *)
Theorem encode_table i : valid_instr i = true -> assemble_word (op_of_instr i) = Some (word_of i).
Proof.
  intros H. pose proof encode_all as A. rewrite forallb_forall in A.
  specialize (A i (all_valid_complete i H)). unfold check_encode in A.
  clear A0 || idtac. destruct (assemble_word (op_of_instr i)) as [w|]; [|discriminate A]. f_equal. lia.
Qed.

Lemma zlist_eqb_eq a b : zlist_eqb a b = true -> a = b.
Proof.
  revert b; induction a as [|x a IH]; intros [|y b] H; cbn in H; try discriminate; [reflexivity|].
  apply andb_true_iff in H as [H1 H2]. f_equal; [lia|auto].
Qed.

Lemma cond_tag_inj c d : cond_tag c = cond_tag d -> c = d.
Proof. destruct c, d; cbn; intros H; try reflexivity; discriminate. Qed.

Lemma instr_key_inj i j : instr_key i = instr_key j -> i = j.
Proof.
  destruct i, j; cbn [instr_key]; intros H; try discriminate; try reflexivity; injection H; intros; subst;
    try reflexivity;
    match goal with Hc : cond_tag _ = cond_tag _ |- _ => apply cond_tag_inj in Hc; subst; reflexivity end.
Qed.

Theorem decode_encode i : valid_instr i = true ->
  exists o, disassemble (word_of i) false = Ok o /\ instr_of_op o = Some (canon i).
Proof.
  intros H. pose proof roundtrip_all as A. rewrite forallb_forall in A.
  specialize (A i (all_valid_complete i H)). unfold check_roundtrip in A.
  destruct (disassemble (word_of i) false) as [o|]; [|discriminate A].
  exists o. split; [reflexivity|].
  destruct (instr_of_op o) as [j|]; [|discriminate A].
  f_equal. apply instr_key_inj, zlist_eqb_eq, A.
Qed.

Theorem encode_injective i j : valid_instr i = true -> valid_instr j = true ->
  word_of i = word_of j -> canon i = canon j.
Proof.
  intros Hi Hj E.
  destruct (decode_encode i Hi) as (o & D & I). destruct (decode_encode j Hj) as (o' & D' & I').
  rewrite E in D. rewrite D in D'. injection D' as <-. congruence.
Qed.

(* every 16-bit word either decodes to a valid instruction that re-assembles to it, or is
   reported as not an instruction — and then really no valid instruction has that word *)
Theorem decode_total w : 0 <= w < 65536 ->
  (exists o i, disassemble w false = Ok o /\ instr_of_op o = Some i /\ valid_instr i = true
               /\ word_of i = w /\ assemble_word o = Some w)
  \/ ((exists m, disassemble w false = Raise (HERAError m))
      /\ forall i, valid_instr i = true -> word_of i <> w).
Proof.
  intros Hw. pose proof words_all as A.
  pose proof (range_forall check_word 0 65536 A w Hw) as C. clear A. unfold check_word in C.
  destruct (disassemble w false) as [o|e] eqn:D.
  - left. destruct (instr_of_op o) as [i|] eqn:I; [|discriminate C].
    destruct (assemble_word o) as [w'|] eqn:Aw; [|rewrite andb_false_r in C; discriminate C].
    apply andb_true_iff in C as [C C3]. apply andb_true_iff in C as [C1 C2].
    apply Z.eqb_eq in C2, C3. subst w'.
    exists o, i. split; [reflexivity|]. split; [exact I|]. split; [exact C1|]. split; [exact C2|exact Aw].
  - right. destruct e; try discriminate C. split; [eexists; reflexivity|].
    intros i Hi E. destruct (decode_encode i Hi) as (o & D' & _). rewrite E, D in D'. discriminate D'.
Qed.

Theorem decode_rejects v allow : v < 0 \/ 65536 <= v ->
  exists m, disassemble v allow = Raise (HERAError m).
Proof.
  intros H. unfold disassemble.
  unfold disassemble_with. replace ((0 <=? v) && (v <? 65536)) with false by lia. eexists; reflexivity.
Qed.

(* the generated tables are of the shape the model assumes *)
Theorem patterns_wf : forallb (fun o => pattern_wf (parse_pattern (BITV_of o))) all_opnames = true.
Proof. vm_compute. reflexivity. Qed.
Theorem overrides_as_modelled :
  assemble_definers = modelled_assemble_definers /\ disassemble_definers = modelled_disassemble_definers.
Proof. split; reflexivity. Qed.
