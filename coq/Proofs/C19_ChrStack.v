(* C19_ChrStack.v — the stack-convention `chr`, which calls the stack-convention `malloc`: two frames on the stack.
   For a stack that does not wrap around and lies on one side of the heap (FP + 4 <= SP, as the calling sequence
   guarantees for a one-argument function), chr(c) stores in its result cell FP+3 the address of a fresh two-cell
   allocator block holding [1; c], restores R1, R2, FP, SP, returns to its caller and keeps R3..R10. *)
From Coq Require Import ZArith List Bool Lia.
From Hera.Lib Require Import Py Machine Word16.
From Hera.Spec Require Import ISA Wf.
From Hera.Proofs Require Import SpecLemmas SpecCore C19_Malloc C19_MallocStack C19_Memcpy C19_Chr.
Import ListNotations.
Open Scope Z_scope.

Definition chr_stack_code (mbase : Z) : list instr :=
  [I_STORE 13 0 14; I_STORE 12 1 14; I_INC 15 2; I_STORE 1 4 14; I_STORE 2 5 14; I_OR 12 15 0; I_INC 15 5;
   I_SETLO 1 2; I_SETHI 1 0; I_STORE 1 3 12; I_SETLO 13 (mbase mod 256); I_SETHI 13 (mbase / 256); I_CALL 12 13;
   I_LOAD 2 3 12; I_DEC 15 5; I_SETLO 1 1; I_SETHI 1 0; I_STORE 1 0 2; I_LOAD 1 3 14; I_STORE 1 1 2; I_STORE 2 3 14;
   I_LOAD 1 4 14; I_LOAD 2 5 14; I_LOAD 13 0 14; I_LOAD 12 1 14; I_DEC 15 2; I_RETURN 12 13].

Lemma chr_stack_core prog cbase mbase r m fS fZ fV fC fCB p q :
  contains prog cbase (chr_stack_code mbase) -> contains prog mbase (malloc_stack_code mbase) ->
  0 <= cbase -> cbase + 26 < 65536 -> 0 <= mbase -> mbase + 41 < 65536 ->
  r 0 = 0 -> word (r 1) -> word (r 2) -> word (r 3) -> word (r 12) -> word (r 13) ->
  0 <= r 14 -> r 14 + 4 <= r 15 -> r 15 + 10 < 65536 ->
  (r 15 + 8 < heap_cell \/ heap_end <= r 14) ->
  wf_mem m -> heap_ok (mem_read m heap_cell) ->
  alloc (mem_read m heap_cell) 2 = Some (p, q) ->
  exists n c', crun_in prog n (mkcore r m cbase fS fZ fV fC fCB) = Some c' /\
    mem_read (cmem c') (r 14 + 3) = p /\ mem_read (cmem c') p = 1 /\
    mem_read (cmem c') (p + 1) = mem_read m (r 14 + 3) /\ mem_read (cmem c') heap_cell = q /\
    cr c' 1 = r 1 /\ cr c' 2 = r 2 /\ cpc c' = r 13 /\ cr c' 14 = r 12 /\ cr c' 15 = r 15 /\
    (forall j, 3 <= j <= 10 -> cr c' j = r j) /\
    (forall b, 0 <= b < 65536 -> b <> heap_cell -> b <> p -> b <> p + 1 ->
       ~ (r 14 <= b <= r 14 + 5) -> ~ (r 15 + 2 <= b <= r 15 + 8) -> mem_read (cmem c') b = mem_read m b).
Proof.
  intros HC HM Hcb Hcb2 Hmb Hmb2 R0 W1 W2 W3 W12 W13 HF HS HT HH WM HO A.
  destruct (alloc_spec _ 2 _ _ HO ltac:(lia) A) as (_ & Eq & Gp & Lp & _ & _). clear HO.
  unfold heap_cell, heap_end, word in *.
  (* side conditions are linear facts about f = r 14, sp = r 15 and p: decided in a context without the run equations *)
  Ltac dq := repeat match goal with
                    | H : crun_in _ _ _ = _ |- _ => clear H
                    | H : crun_at _ _ _ _ = _ |- _ => clear H
                    | H : contains _ _ _ |- _ => clear H
                    | H : _ mod _ = _ |- _ => clear H
                    end; lia.
  set (f := r 14) in *. set (sp := r 15) in *.
  assert (MA0 : (f + 0) mod 65536 = f + 0) by (apply Z.mod_small; lia).
  assert (MA1 : (f + 1) mod 65536 = f + 1) by (apply Z.mod_small; lia).
  assert (MA3 : (f + 3) mod 65536 = f + 3) by (apply Z.mod_small; lia).
  assert (MA4 : (f + 4) mod 65536 = f + 4) by (apply Z.mod_small; lia).
  assert (MA5 : (f + 5) mod 65536 = f + 5) by (apply Z.mod_small; lia).
  assert (MS2 : (sp + 2) mod 65536 = sp + 2) by (apply Z.mod_small; lia).
  assert (MS7 : (sp + 2 + 5) mod 65536 = sp + 7) by (rewrite Z.mod_small; lia).
  assert (MG3 : (sp + 2 + 3) mod 65536 = sp + 5) by (rewrite Z.mod_small; lia).
  assert (MD5 : (sp + 7 - 5) mod 65536 = sp + 2) by (rewrite Z.mod_small; lia).
  assert (MD2 : (sp + 2 - 2) mod 65536 = sp) by (rewrite Z.mod_small; lia).
  assert (Pm0 : (p + 0) mod 65536 = p) by (rewrite Z.add_0_r; apply Z.mod_small; lia).
  assert (Pm1 : (p + 1) mod 65536 = p + 1) by (apply Z.mod_small; lia).
  (* the frame of chr once the registers are saved and the request is written into malloc's frame *)
  set (m1 := mem_write m (f + 0) (r 13)). set (m2 := mem_write m1 (f + 1) (r 12)). set (m3 := mem_write m2 (f + 4) (r 1)).
  set (m4 := mem_write m3 (f + 5) (r 2)). set (m5 := mem_write m4 (sp + 5) 2).
  assert (V1 : wf_mem m1) by (apply wf_mw; [exact WM|dq|exact W13]).
  assert (V2 : wf_mem m2) by (apply wf_mw; [exact V1|dq|exact W12]).
  assert (V3 : wf_mem m3) by (apply wf_mw; [exact V2|dq|exact W1]).
  assert (V4 : wf_mem m4) by (apply wf_mw; [exact V3|dq|exact W2]).
  assert (V5 : wf_mem m5) by (apply wf_mw; [exact V4|dq|unfold word; clear; lia]).
  (* reading a cell of m5 that none of the five writes touched *)
  assert (R5 : forall b, 0 <= b < 65536 -> b <> f + 0 -> b <> f + 1 -> b <> f + 4 -> b <> f + 5 -> b <> sp + 5 ->
               mem_read m5 b = mem_read m b).
  { intros b Hb N0 N1 N4 N5 N6.
    unfold m5. rewrite (mro m4 (sp + 5) b) by (first [assumption|dq]).
    unfold m4. rewrite (mro m3 (f + 5) b) by (first [assumption|dq]).
    unfold m3. rewrite (mro m2 (f + 4) b) by (first [assumption|dq]).
    unfold m2. rewrite (mro m1 (f + 1) b) by (first [assumption|dq]).
    unfold m1. apply (mro m (f + 0) b); first [assumption|dq]. }
  (* up to and including the CALL *)
  eassert (E1 : crun_in prog 13 (mkcore r m cbase fS fZ fV fC fCB) = Some _).
  { clear - HC Hcb Hcb2 Hmb Hmb2 R0 MA0 MA1 MA4 MA5 MS2 MS7 MG3.
    igo HC Hcb 0%nat. igo HC Hcb 1%nat. igo HC Hcb 2%nat. igo HC Hcb 3%nat. igo HC Hcb 4%nat. igo HC Hcb 5%nat.
    igo HC Hcb 6%nat. igo HC Hcb 7%nat. igo HC Hcb 8%nat. igo HC Hcb 9%nat. igo HC Hcb 10%nat. igo HC Hcb 11%nat.
    rewrite (set_value mbase) by lia. igo HC Hcb 12%nat.
    fold f sp. rewrite R0, !Z.lor_0_r, ?MS2, ?MS7, ?MG3, ?MA0, ?MA1, ?MA4, ?MA5. reflexivity. }
  fold m1 m2 m3 m4 m5 in E1.
  assert (H5 : mem_read m5 16384 = mem_read m 16384) by (apply R5; dq).
  assert (G5 : mem_read m5 (sp + 5) = 2) by (unfold m5; apply mrw_same; dq).
  match type of E1 with _ = Some (mkcore ?r' _ _ ?a ?b ?c ?d ?e) =>
    set (rm := r') in E1;
    destruct (malloc_stack_core2 mbase rm m5 a b c d e p q)
      as (n2 & c2 & E2 & M1 & M2 & M3 & M4 & M5 & M6 & M7 & M8 & M9 & M10 & M11 & M12)
  end; try (subst rm; cbn [Z.eqb Pos.eqb]); try assumption; try (unfold word; dq).
  - intros k Hk. unfold heap_cell. rewrite Z.mod_small by dq. dq.
  - unfold heap_cell. rewrite MG3, H5, G5. exact A.
  - cbn [Z.eqb Pos.eqb] in *. unfold heap_cell in *. rewrite MG3 in M1.
    pose proof (crun_at_r0 _ _ _ _ _ E2) as M0. cbn [cr] in M0. cbn [Z.eqb Pos.eqb] in M0.
    apply (crun_at_in prog mbase (malloc_stack_code mbase) HM) in E2.
    destruct c2 as [r2 mm p2 gS gZ gV gC gCB]. cbn [cr cmem cpc] in *. subst p2.
    assert (K3 : forall b, 0 <= b < 65536 -> b <> 16384 -> ~ (sp + 2 <= b <= sp + 8) -> mem_read mm b = mem_read m5 b).
    { intros b Hb N1 N2. apply M3; [dq|exact N1|]. intros k Hk. rewrite Z.mod_small by dq. dq. }
    set (m6 := mem_write mm p 1). set (m7 := mem_write m6 (p + 1) (mem_read m6 (f + 3))). set (m8 := mem_write m7 (f + 3) p).
    assert (V6 : wf_mem m6) by (apply wf_mw; [exact M12|dq|unfold word; clear; lia]).
    assert (V7 : wf_mem m7) by (apply wf_mw; [exact V6|dq|apply mr_word; exact V6]).
    assert (V8 : wf_mem m8) by (apply wf_mw; [exact V7|dq|unfold word; dq]).
    (* the rest of chr *)
    eassert (E3 : crun_in prog 14 (mkcore r2 mm (cbase + 1 + 1 + 1 + 1 + 1 + 1 + 1 + 1 + 1 + 1 + 1 + 1 + 1) gS gZ gV gC gCB) = Some _).
    { clear - HC Hcb Hcb2 M0 R0 M11 M8 M9 MG3 M1 MD5 MD2 Pm0 Pm1 MA0 MA1 MA3 MA4 MA5.
      igo HC Hcb 13%nat. rewrite M11, MG3, M1. igo HC Hcb 14%nat. rewrite M9, MD5. igo HC Hcb 15%nat. igo HC Hcb 16%nat.
      igo HC Hcb 17%nat. rewrite Pm0. igo HC Hcb 18%nat. rewrite M8. fold f. rewrite MA3.
      igo HC Hcb 19%nat. rewrite Pm1. igo HC Hcb 20%nat. rewrite M8. fold f. rewrite MA3.
      igo HC Hcb 21%nat. rewrite M8. fold f. rewrite MA4. igo HC Hcb 22%nat. rewrite M8. fold f. rewrite MA5.
      igo HC Hcb 23%nat. rewrite M8. fold f. rewrite MA0. igo HC Hcb 24%nat. rewrite M8. fold f. rewrite MA1.
      igo HC Hcb 25%nat. rewrite MD2. igo HC Hcb 26%nat. reflexivity. }
    fold m6 in E3. fold m7 in E3. fold m8 in E3.
    exists (13 + n2 + 14)%nat. eexists. split.
    { apply (crun_in_app _ _ _ _ _ _ (crun_in_app _ _ _ _ _ _ E1 E2) E3). }
    assert (RD8 : forall b, 0 <= b < 65536 -> b <> f + 3 -> b <> p + 1 -> b <> p -> mem_read m8 b = mem_read mm b).
    { intros b Hb N1 N2 N3. unfold m8. rewrite (mro m7 (f + 3) b) by (first [assumption|dq]).
      unfold m7. rewrite (mro m6 (p + 1) b) by (first [assumption|dq]).
      unfold m6. apply (mro mm p b); first [assumption|dq]. }
    assert (X4 : mem_read m8 (f + 4) = r 1).
    { rewrite RD8 by dq. rewrite K3 by dq. unfold m5. rewrite (mro m4 (sp + 5) (f + 4)) by (first [assumption|dq]).
      unfold m4. rewrite (mro m3 (f + 5) (f + 4)) by (first [assumption|dq]). unfold m3. apply mrw_same. dq. }
    assert (X5 : mem_read m8 (f + 5) = r 2).
    { rewrite RD8 by dq. rewrite K3 by dq. unfold m5. rewrite (mro m4 (sp + 5) (f + 5)) by (first [assumption|dq]).
      unfold m4. apply mrw_same. dq. }
    assert (X0 : mem_read m8 (f + 0) = r 13).
    { rewrite RD8 by dq. rewrite K3 by dq. unfold m5. rewrite (mro m4 (sp + 5) (f + 0)) by (first [assumption|dq]).
      unfold m4. rewrite (mro m3 (f + 5) (f + 0)) by (first [assumption|dq]).
      unfold m3. rewrite (mro m2 (f + 4) (f + 0)) by (first [assumption|dq]).
      unfold m2. rewrite (mro m1 (f + 1) (f + 0)) by (first [assumption|dq]). unfold m1. apply mrw_same. dq. }
    assert (X1 : mem_read m8 (f + 1) = r 12).
    { rewrite RD8 by dq. rewrite K3 by dq. unfold m5. rewrite (mro m4 (sp + 5) (f + 1)) by (first [assumption|dq]).
      unfold m4. rewrite (mro m3 (f + 5) (f + 1)) by (first [assumption|dq]).
      unfold m3. rewrite (mro m2 (f + 4) (f + 1)) by (first [assumption|dq]). unfold m2. apply mrw_same. dq. }
    cbn [cr cmem cpc]. cbn [Z.eqb Pos.eqb]. rewrite X4, X5, X0, X1.
    split. { unfold m8. apply mrw_same. dq. }
    split. { unfold m8. rewrite (mro m7 (f + 3) p) by (first [assumption|dq]).
             unfold m7. rewrite (mro m6 (p + 1) p) by (first [assumption|dq]). unfold m6. apply mrw_same. dq. }
    split. { unfold m8. rewrite (mro m7 (f + 3) (p + 1)) by (first [assumption|dq]). unfold m7. rewrite mrw_same by dq.
             unfold m6. rewrite (mro mm p (f + 3)) by (first [assumption|dq]). rewrite K3 by dq. apply R5; dq. }
    split. { rewrite RD8 by dq. exact M2. }
    split; [reflexivity|]. split; [reflexivity|]. split; [reflexivity|]. split; [reflexivity|]. split; [reflexivity|].
    split.
    { intros j Hj.
      repeat match goal with |- context [j =? ?x] => destruct (j =? x) eqn:E; [exfalso; clear - Hj E; lia|clear E] end.
      destruct (Z.eq_dec j 3) as [->|N3]; [exact M6|].
      rewrite (M10 j) by (clear - Hj N3; lia).
      repeat match goal with |- context [j =? ?x] => destruct (j =? x) eqn:E; [exfalso; clear - Hj E; lia|clear E] end.
      reflexivity. }
    intros b Hb NbH Nbp Nbp1 NF NG.
    rewrite RD8 by dq. rewrite K3 by dq. apply R5; dq.
Qed.

Lemma chr_stack_code_valid mbase : 0 <= mbase < 65536 -> Forall (fun i => valid_instr i = true) (chr_stack_code mbase).
Proof.
  intros H. unfold chr_stack_code. destruct (lo_hi_ok mbase H) as [A B].
  repeat constructor; cbn [valid_instr reg_ok]; rewrite ?A, ?B; reflexivity.
Qed.

(* the routine on the specification machine itself, in any program that holds the stack chr and the stack malloc *)
Theorem chr_stack_contract prog cbase mbase s p q :
  contains prog cbase (chr_stack_code mbase) -> contains prog mbase (malloc_stack_code mbase) ->
  (forall a i, prog a = Some i -> valid_instr i = true) ->
  0 <= cbase -> cbase + 26 < 65536 -> 0 <= mbase -> mbase + 41 < 65536 ->
  List.length (regs s) = 16%nat -> pc s = cbase -> getreg s 0 = 0 ->
  word (getreg s 1) -> word (getreg s 2) -> word (getreg s 3) -> word (getreg s 12) -> word (getreg s 13) ->
  0 <= getreg s 14 -> getreg s 14 + 4 <= getreg s 15 -> getreg s 15 + 10 < 65536 ->
  (getreg s 15 + 8 < heap_cell \/ heap_end <= getreg s 14) ->
  wf_mem (mem s) -> heap_ok (mem_read (mem s) heap_cell) ->
  alloc (mem_read (mem s) heap_cell) 2 = Some (p, q) ->
  exists n s', run_in prog n s = Some s' /\
    mem_read (mem s') (getreg s 14 + 3) = p /\ mem_read (mem s') p = 1 /\
    mem_read (mem s') (p + 1) = mem_read (mem s) (getreg s 14 + 3) /\ mem_read (mem s') heap_cell = q /\
    getreg s' 1 = getreg s 1 /\ getreg s' 2 = getreg s 2 /\ pc s' = getreg s 13 /\
    getreg s' 14 = getreg s 12 /\ getreg s' 15 = getreg s 15 /\
    (forall j, 3 <= j <= 10 -> getreg s' j = getreg s j) /\
    (forall b, 0 <= b < 65536 -> b <> heap_cell -> b <> p -> b <> p + 1 ->
       ~ (getreg s 14 <= b <= getreg s 14 + 5) -> ~ (getreg s 15 + 2 <= b <= getreg s 15 + 8) ->
       mem_read (mem s') b = mem_read (mem s) b).
Proof.
  intros HC HM V Hcb Hcb2 Hmb Hmb2 L P R0 W1 W2 W3 W12 W13 HF HS HT HH WM HO A.
  destruct (chr_stack_core prog cbase mbase (getreg s) (mem s) (flag (f_s s)) (flag (f_z s)) (flag (f_v s)) (flag (f_c s))
              (flag (f_cb s)) p q HC HM Hcb Hcb2 Hmb Hmb2 R0 W1 W2 W3 W12 W13 HF HS HT HH WM HO A)
    as (n & c' & E & Q1 & Q2 & Q3 & Q4 & Q5 & Q6 & Q7 & Q8 & Q9 & Q10 & Q11).
  pose proof (sim_core_of s L) as S0. unfold core_of in S0. rewrite P in S0.
  destruct (sim_run_in prog V n s _ c' S0 E) as (s' & Rn & S').
  exists n, s'. split; [exact Rn|].
  rewrite !(sim_reg s' c' _ S') by lia. rewrite (sim_pc s' c' S'), (sim_mem s' c' S').
  split; [exact Q1|]. split; [exact Q2|]. split; [exact Q3|]. split; [exact Q4|]. split; [exact Q5|].
  split; [exact Q6|]. split; [exact Q7|]. split; [exact Q8|]. split; [exact Q9|]. split; [|exact Q11].
  intros j Hj. rewrite (sim_reg s' c' j S') by lia. apply Q10, Hj.
Qed.

(* the premises are satisfiable: malloc at 0, chr behind it, a frame at 100 with the argument 65 in FP+3, an empty heap *)
Definition demo_stack_prog : Z -> option instr := fetch 0 (malloc_stack_code 0 ++ chr_stack_code 0).
Example chr_stack_runs_somewhere :
  let c0 := mkcore (fun j => if j =? 13 then 777 else if j =? 15 then 104 else if j =? 14 then 100 else if j =? 1 then 11 else 0)
                   (mem_write (mkmem 0 []) 103 65) 36 false false false false true in
  exists c', crun_in demo_stack_prog 63 c0 = Some c' /\ cpc c' = 777 /\ cr c' 1 = 11 /\ cr c' 15 = 104 /\
             map (mem_read (cmem c')) [103; 16384; 16385; 16386] = [16385; 16387; 1; 65].
Proof. eexists. split; [vm_compute; reflexivity|]. repeat split. Qed.
