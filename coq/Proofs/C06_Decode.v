(* C06_Decode.v — the specification's arithmetic decoder is the inverse of the encoding table
   (both hand-written; closed by complete enumeration in the kernel). *)
From Coq Require Import ZArith List Bool String Lia.
From Hera.Lib Require Import Py Machine Word16.
From Hera.Gen Require Import Ops.
From Hera.Spec Require Import ISA EncTable.
From Hera.Model Require Import InstrOf.
From Hera.Proofs Require Import C05_Sweep C05_Codec.
Import ListNotations.
Open Scope Z_scope.

Definition chk_dec_enc (i : instr) : bool :=
  match decode_word (word_of i) with
  | Some j => key_eqb (instr_key j) (instr_key (canon i))
  | None => false
  end.
Definition chk_word (w : Z) : bool :=
  match decode_word w with
  | Some i => valid_instr i && (word_of i =? w)
  | None => true
  end.

Lemma dec_enc_all : forallb chk_dec_enc all_valid_instrs = true.
Proof. vm_compute. reflexivity. Qed.
Lemma dec_words_all : forallb chk_word (zrange 0 65536) = true.
Proof. vm_compute. reflexivity. Qed.

Theorem decode_word_encode i : valid_instr i = true -> decode_word (word_of i) = Some (canon i).
Proof.
  intros H. pose proof dec_enc_all as A. rewrite forallb_forall in A.
  specialize (A i (all_valid_complete i H)). unfold chk_dec_enc in A.
  destruct (decode_word (word_of i)) as [j|]; [|discriminate A].
  f_equal. apply instr_key_inj, zlist_eqb_eq, A.
Qed.

Theorem decode_word_sound w i : decode_word w = Some i -> valid_instr i = true /\ word_of i = w.
Proof.
  intros D.
  assert (Hw : 0 <= w < 65536).
  { unfold decode_word in D. destruct ((w <? 0) || (65536 <=? w)) eqn:E; [discriminate D|lia]. }
  pose proof dec_words_all as A.
  pose proof (range_forall chk_word 0 65536 A w Hw) as C. clear A. unfold chk_word in C. rewrite D in C.
  apply andb_true_iff in C as [C1 C2]. split; [exact C1|lia].
Qed.
