(* C12_Step.v — stepping and breakpoints follow source operations exactly. *)
From Coq Require Import ZArith List Bool String Lia.
From Hera.Lib Require Import Py Machine Word16.
From Hera.Gen Require Import Utils Vm Ops Tables Convert.
From Hera.Spec Require Import ISA Wf.
From Hera.Model Require Import OpRep InstrOf Bitvec Run Debugger.
From Hera.Proofs Require Import VmLemmas Tactics C02_Run C04_Oplen C11_Debug.
Import ListNotations.
Open Scope Z_scope.

(* ---- within an expansion only the last operation can branch (class level, from convert) ---------- *)
Definition seq_class (c : opname) : bool :=
  match c with O_SETLO | O_SETHI | O_FON | O_FOFF => true | _ => false end.

Theorem expansion_only_last_branches c ts l :
  negb (opname_eqb c O_OPCODE) = true ->
  List.length ts = List.length (P_of c) ->
  convert_full (mkop c ts) = Ok l ->
  Forall (fun r => seq_class (o_cls r) = true) (removelast l).
Proof.
  intros Hc Hlen Hl.
  destruct c; try discriminate Hc;
    try (cbv beta iota delta [convert_full convert o_cls] in Hl;
         match type of Hl with ?f _ = _ => unfold f, rret in Hl end;
         injection Hl as <-; cbn [removelast]; repeat constructor).
  all: cbn [P_of List.length] in Hlen;
       destruct ts as [|[ty1 v1] [|[ty2 v2] [|t3 ts]]]; try discriminate Hlen;
       cbv beta iota delta [convert_full convert o_cls o_args o_toks map t_val
                       convert_SET convert_CMP convert_SETRF convert_FLAGS convert_CALL convert_NEG convert_NOT
                       convert_CALL_via_AbstractOperation
                       convert_BR convert_BL convert_BGE convert_BLE convert_BG convert_BULE convert_BUG convert_BZ
                       convert_BNZ convert_BC convert_BNC convert_BS convert_BNS convert_BV convert_BNV
                       convert_BR_via_AbstractOperation convert_BL_via_AbstractOperation
                       convert_BGE_via_AbstractOperation convert_BLE_via_AbstractOperation
                       convert_BG_via_AbstractOperation convert_BULE_via_AbstractOperation
                       convert_BUG_via_AbstractOperation convert_BZ_via_AbstractOperation
                       convert_BNZ_via_AbstractOperation convert_BC_via_AbstractOperation
                       convert_BNC_via_AbstractOperation convert_BS_via_AbstractOperation
                       convert_BNS_via_AbstractOperation convert_BV_via_AbstractOperation
                       convert_BNV_via_AbstractOperation
                       tokens_at oargs_at rbind rret t_type t_val py_getitem as_int] in Hl;
       cbn [zlen List.length norm_index nth Z.to_nat Z.of_nat Z.ltb Z.add Z.compare Pos.compare Pos.compare_cont
            Pos.of_succ_nat Pos.succ] in Hl;
       try change (Pos.to_nat 1) with 1%nat in Hl; cbv beta iota in Hl;
       try discriminate Hl.
  all: try (destruct ty1; cbn [ttype_eqb] in Hl).
  all: try (destruct ty2; cbn [ttype_eqb] in Hl).
  all: repeat match type of Hl with
         | context [to_u16 ?x] => destruct (to_u16 x); [|discriminate Hl]
         end;
       try discriminate Hl; try (injection Hl as <-; cbn [removelast app]; repeat constructor).
Qed.

(* ---- what `next` executes: the rest of the current source operation, and nothing more ---------- *)
Lemma same_orig_prefix_spec o l :
  exists n, same_orig_prefix o l = firstn n l /\
            Forall (fun x => dp_orig x = o) (firstn n l) /\
            match skipn n l with y :: _ => dp_orig y <> o | [] => True end.
Proof.
  induction l as [|x t IH]; cbn [same_orig_prefix].
  - exists 0%nat. repeat split; constructor.
  - destruct (Nat.eqb (dp_orig x) o) eqn:E.
    + destruct IH as (n & E1 & F & N). exists (S n). cbn [firstn skipn]. rewrite E1.
      split; [reflexivity|]. split; [constructor; [now apply Nat.eqb_eq|exact F]|exact N].
    + exists 0%nat. cbn [firstn skipn]. repeat split; [constructor|]. now apply Nat.eqb_neq.
Qed.

Theorem slice_is_current_source_op code pc x t :
  skipn (Z.to_nat pc) code = x :: t ->
  exists n, slice_at code pc = firstn (S n) (skipn (Z.to_nat pc) code) /\
            Forall (fun y => dp_orig y = dp_orig x) (slice_at code pc) /\
            match skipn (S n) (skipn (Z.to_nat pc) code) with y :: _ => dp_orig y <> dp_orig x | [] => True end.
Proof.
  intros H. unfold slice_at. rewrite H.
  destruct (same_orig_prefix_spec (dp_orig x) t) as (n & E & F & N).
  exists n. cbn [firstn skipn]. rewrite E. split; [reflexivity|]. split; [constructor; [reflexivity|exact F]|exact N].
Qed.

(* `next` on anything but a CALL executes exactly that slice *)
Theorem next_is_one_source_op fuel code d :
  d_finished code d = false ->
  opname_is (dp_src (nth (Z.to_nat (pc (d_vm d))) code dummy_dop)) O_CALL = false ->
  next_over fuel code d = exec_slice (slice_at code (pc (d_vm d))) d.
Proof. intros F C. unfold next_over. now rewrite F, C. Qed.

(* `next n` is n successive `next`s (stopping early only when the program has finished) *)
Theorem next_n_unfold fuel code n d :
  next_n fuel code (S n) d =
  if d_finished code d then Ok d
  else match next_over fuel code d with Ok d' => next_n fuel code n d' | Raise e => Raise e end.
Proof. reflexivity. Qed.

(* ---- `continue`: the trace of source-operation steps it takes --------------------------------------- *)
Inductive steps_to (code : dcode) (stop : dstate -> bool) : dstate -> dstate -> Prop :=
| st_here d : stop d = true -> steps_to code stop d d
| st_step d d1 d' : stop d = false -> next_into code d = Ok d1 -> steps_to code stop d1 d' -> steps_to code stop d d'.

Definition continue_stop (code : dcode) (d : dstate) : bool := d_finished code d || d_at_breakpoint code d.

(* `continue` stops precisely at the first state — after at least one source operation — that is
   finished or sits on a breakpoint: every earlier state was neither *)
Theorem continue_stops_exactly code fuel d d' :
  do_continue fuel code d = Ok d' ->
  exists d1, next_into code d = Ok d1 /\ steps_to code (continue_stop code) d1 d'.
Proof.
  unfold do_continue. destruct (next_into code d) as [d1|] eqn:N; [|discriminate].
  intros E. exists d1. split; [reflexivity|]. clear N d.
  revert d1 E. induction fuel as [|f IH]; intros d E; cbn [continue_loop] in E; [discriminate E|].
  destruct (negb (d_finished code d) && negb (d_at_breakpoint code d)) eqn:G.
  - destruct (next_into code d) as [d2|] eqn:N; [|discriminate E].
    eapply st_step; [|exact N|apply IH, E].
    unfold continue_stop. apply andb_true_iff in G as [G1 G2].
    apply negb_true_iff in G1, G2. now rewrite G1, G2.
  - injection E as <-. apply st_here. unfold continue_stop.
    destruct (d_finished code d), (d_at_breakpoint code d); cbn in *; try reflexivity; discriminate G.
Qed.

Definition over_stop (code : dcode) (calls0 : Z) (d : dstate) : bool :=
  d_finished code d || d_at_breakpoint code d || (d_calls d <=? calls0).

(* `next` on a CALL: into the call, then source operation by source operation until the call depth
   is back to where it was (nested and recursive calls included), a breakpoint is hit, or the
   program ends — and no earlier *)
Theorem next_over_call_stops_exactly code fuel d d' :
  d_finished code d = false ->
  opname_is (dp_src (nth (Z.to_nat (pc (d_vm d))) code dummy_dop)) O_CALL = true ->
  next_over fuel code d = Ok d' ->
  exists d1, next_into code d = Ok d1 /\ steps_to code (over_stop code (d_calls d)) d1 d'.
Proof.
  intros F C. unfold next_over. rewrite F, C.
  destruct (next_into code d) as [d1|] eqn:N; [|discriminate].
  intros E. exists d1. split; [reflexivity|]. revert E. generalize (d_calls d) as c0. intros c0 E. clear N F C d.
  revert d1 E. induction fuel as [|f IH]; intros d E; cbn [next_over_loop] in E; [discriminate E|].
  destruct (negb (d_finished code d) && negb (d_at_breakpoint code d) && (c0 <? d_calls d)) eqn:G.
  - destruct (next_into code d) as [d2|] eqn:N; [|discriminate E].
    eapply st_step; [|exact N|apply IH, E].
    unfold over_stop. apply andb_true_iff in G as [G G3]. apply andb_true_iff in G as [G1 G2].
    apply negb_true_iff in G1, G2. rewrite G1, G2. cbn [orb]. lia.
  - injection E as <-. apply st_here. unfold over_stop.
    destruct (d_finished code d), (d_at_breakpoint code d); cbn in *; try reflexivity. lia.
Qed.
