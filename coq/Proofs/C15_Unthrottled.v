(* C15_Unthrottled.v — a throttled run differs from the unthrottled run in nothing but the
   instruction counter: as long as the limit is not reached the two loops take the same steps
   through states that are equal up to op_count; when the unthrottled loop ends, so does the
   throttled one (if its limit was not smaller), in the same state up to op_count.
   No well-formedness or other hypothesis on the program or the state is needed. *)
From Coq Require Import ZArith List Bool Lia.
From Hera.Lib Require Import Py Machine Indep.
From Hera.Gen Require Import Utils Vm Ops Indep.
From Hera.Model Require Import Run.
From Hera.Proofs Require Import C15_Repeat.
Import ListNotations.
Open Scope Z_scope.
Open Scope m_scope.

Lemma upd_upd c c' s : upd_op_count c' (upd_op_count c s) = upd_op_count c' s.
Proof. destruct s. reflexivity. Qed.
Lemma op_count_upd c s : op_count (upd_op_count c s) = c.
Proof. destruct s. reflexivity. Qed.

Lemma truthy_and a b : truthy (py_and a b) = truthy a && truthy b.
Proof. unfold py_and. destruct (truthy a) eqn:E; [reflexivity|exact E]. Qed.

Lemma i_fetch_exec code : indep (fetch_exec code).
Proof.
  unfold fetch_exec. apply indep_bind; [auto with indep|intros v].
  apply indep_bind; [apply indep_lift|intros o].
  apply indep_bind; [auto with indep|intros _]. apply exec_indep.
Qed.

(* the guards: the throttled one is the unthrottled one and "counter below the limit" *)
Lemma guards (code : list rop) n c s :
  exists g, run_guard (PI (zlen code)) s = Ok (g, s) /\
    run_guard_throttled (PI (zlen code)) (PI n) (upd_op_count c s)
    = Ok (py_and g (py_lt (PI c) (PI n)), upd_op_count c s).
Proof.
  destruct s. eexists. split; reflexivity.
Qed.

(* one iteration *)
Lemma step_same code n c s s' : loop_step code s = Ok (Some s') -> c < n ->
  loop_step_throttled n code (upd_op_count c s) = Ok (Some (upd_op_count (c + 1) s')).
Proof.
  intros H Hc. destruct (guards code n c s) as (g & G1 & G2).
  unfold loop_step in H. rewrite G1 in H. unfold loop_step_throttled. rewrite G2, truthy_and.
  destruct (truthy g); [|discriminate H].
  assert (truthy (py_lt (PI c) (PI n)) = true) as -> by (cbn; lia). cbn [andb].
  pose proof (i_fetch_exec code c s) as I.
  destruct (fetch_exec code s) as [[[] s2]|e]; [|discriminate H]. injection H as <-.
  unfold bind at 1.
  destruct (fetch_exec code (upd_op_count c s)) as [[[] t]|e]; cbn [okrel] in I; [|contradiction].
  destruct I as [_ ->]. unfold bind, get_op_count. rewrite op_count_upd. cbn [py_add as_int set_op_count need_int].
  rewrite upd_upd. reflexivity.
Qed.

Lemma step_end code n c s : loop_step code s = Ok None -> loop_step_throttled n code (upd_op_count c s) = Ok None.
Proof.
  intros H. destruct (guards code n c s) as (g & G1 & G2).
  unfold loop_step in H. rewrite G1 in H. unfold loop_step_throttled. rewrite G2, truthy_and.
  destruct (truthy g); [|reflexivity].
  destruct (fetch_exec code s) as [[[] s2]|e]; discriminate H.
Qed.

Lemma step_raise code n c s e : loop_step code s = Raise e -> c < n ->
  loop_step_throttled n code (upd_op_count c s) = Raise e.
Proof.
  intros H Hc. destruct (guards code n c s) as (g & G1 & G2).
  unfold loop_step in H. rewrite G1 in H. unfold loop_step_throttled. rewrite G2, truthy_and.
  destruct (truthy g); [|discriminate H].
  assert (truthy (py_lt (PI c) (PI n)) = true) as -> by (cbn; lia). cbn [andb].
  pose proof (i_fetch_exec code c s) as I. unfold bind at 1.
  destruct (fetch_exec code s) as [[[] s2]|e1]; [discriminate H|]. injection H as ->.
  destruct (fetch_exec code (upd_op_count c s)) as [[[] t]|e2]; cbn [okrel] in I; [contradiction|]. now subst.
Qed.

(* the whole loop: if the unthrottled loop ends (within the fuel) after k iterations in state s',
   the throttled loop with a limit of at least c + k ends in that state, with k more on the counter *)
Theorem unthrottled_is_throttled code n : forall fuel s s' c,
  iter (loop_step code) fuel s = Ok s' ->
  exists k, (k <= fuel)%nat /\
    (c + Z.of_nat k <= n ->
     iter (loop_step_throttled n code) fuel (upd_op_count c s) = Ok (upd_op_count (c + Z.of_nat k) s')).
Proof.
  induction fuel as [|f IH]; intros s s' c H; cbn [iter] in H; [discriminate H|].
  destruct (loop_step code s) as [[s1|]|e] eqn:L; [| |discriminate H].
  - destruct (IH s1 s' (c + 1) H) as (k & Hk & Hrun).
    exists (S k). split; [lia|]. intros Hn. cbn [iter].
    rewrite (step_same code n c s s1 L ltac:(lia)).
    replace (c + Z.of_nat (S k)) with (c + 1 + Z.of_nat k) by lia. apply Hrun. lia.
  - injection H as <-. exists 0%nat. split; [lia|]. intros _. cbn [iter].
    rewrite (step_end code n c s L). replace (c + Z.of_nat 0) with c by lia. reflexivity.
Qed.

(* and step for step, while the limit is not reached *)
Theorem throttled_follows_unthrottled code n : forall k s s' c,
  steps (loop_step code) k s = Ok s' -> c + Z.of_nat k <= n ->
  exists c', c <= c' <= c + Z.of_nat k /\ steps (loop_step_throttled n code) k (upd_op_count c s) = Ok (upd_op_count c' s').
Proof.
  induction k as [|k IH]; intros s s' c H Hn; cbn [steps] in *.
  - injection H as <-. exists c. split; [lia|reflexivity].
  - destruct (loop_step code s) as [[s1|]|e] eqn:L; [| |discriminate H].
    + rewrite (step_same code n c s s1 L ltac:(lia)).
      destruct (IH s1 s' (c + 1) H ltac:(lia)) as (c' & Hc & E). exists c'. split; [lia|exact E].
    + injection H as <-. rewrite (step_end code n c s L). exists c. split; [lia|reflexivity].
Qed.
