(* C06_ListingFull.v — the whole text of `hera assemble --stdout` (Model/Listing.full_listing) reads back, section by
   section, as the data image and the words that were printed. *)
From Coq Require Import ZArith List Bool Lia.
From Hera.Lib Require Import Word16.
From Hera.Model Require Import Listing.
From Hera.Proofs Require Import C06_ListingSweep C06_Listing.
Import ListNotations.
Open Scope Z_scope.

Lemma lines_app_nl x y : lines (x ++ NL :: y) = lines x ++ lines y.
Proof.
  induction x as [|c x IH]; [reflexivity|].
  cbn [app lines]. destruct (c =? NL).
  - rewrite IH. reflexivity.
  - rewrite IH. destruct (lines x) as [|l ls] eqn:E; [exfalso; exact (lines_nonempty x E)|]. reflexivity.
Qed.

Lemma lines_nonl s : Forall (fun l => nonl l = true) (lines s).
Proof.
  induction s as [|c s IH]; [repeat constructor|].
  cbn [lines]. destruct (c =? NL) eqn:E.
  - constructor; [reflexivity|exact IH].
  - destruct (lines s) as [|l ls]; [repeat constructor; cbn; now rewrite E|].
    inversion IH as [|? ? Hl Hls]; subst. constructor; [|exact Hls].
    cbn. rewrite E. exact Hl.
Qed.

Lemma lines_join_gen ls : ls <> [] -> Forall (fun l => nonl l = true) ls -> lines (join_lines ls) = ls.
Proof.
  induction ls as [|l ls IH]; intros Hne Hf; [congruence|].
  inversion Hf as [|? ? Hl Hls]; subst.
  destruct ls as [|l2 ls].
  - simpl. now apply lines_single.
  - change (join_lines (l :: l2 :: ls)) with (l ++ NL :: join_lines (l2 :: ls)).
    rewrite lines_app by exact Hl. rewrite IH; [reflexivity|discriminate|exact Hls].
Qed.

Lemma indent_line_nonl l : nonl l = true -> nonl (indent_line l) = true.
Proof. intros H. unfold indent_line. destruct (is_blank l); [exact H|]. cbn. exact H. Qed.

Lemma lines_indent2 s : lines (indent2 s) = map indent_line (lines s).
Proof.
  unfold indent2. apply lines_join_gen.
  - destruct (lines s) eqn:E; [exfalso; exact (lines_nonempty s E)|discriminate].
  - apply Forall_forall. intros l Hl. apply in_map_iff in Hl. destruct Hl as (l0 & <- & Hl0).
    pose proof (lines_nonl s) as H. rewrite Forall_forall in H. now apply indent_line_nonl, H.
Qed.

Lemma lines_full ds cells ws :
  lines (full_listing ds cells ws) =
  DATA_H :: map indent_line (lines (data_listing ds cells)) ++ CODE_H :: map indent_line (lines (code_listing ws)).
Proof.
  unfold full_listing. rewrite lines_app_nl, lines_app_nl, lines_app_nl, !lines_indent2.
  reflexivity.
Qed.

Lemma is_blank_cons c r : is_blank (c :: r) = ((c =? 32) || (c =? 9)) && is_blank r.
Proof. reflexivity. Qed.

Lemma blank_no_hex l : nonempty l = true -> is_blank l = true -> parse_hex l = None.
Proof.
  destruct l as [|c r]; [discriminate|]. intros _ H. rewrite is_blank_cons in H. apply andb_true_iff in H. destruct H as [Hc _].
  apply orb_true_iff in Hc. destruct Hc as [Hc|Hc]; apply Z.eqb_eq in Hc; subst c; reflexivity.
Qed.

Lemma star_not_blank l p : split_star l = Some p -> is_blank l = false.
Proof.
  revert p. induction l as [|c r IH]; intros p H; [discriminate|].
  cbn [split_star] in H. rewrite is_blank_cons. destruct (c =? STAR) eqn:E.
  - apply Z.eqb_eq in E. subst c. reflexivity.
  - destruct (split_star r) as [[a b]|]; [|discriminate]. rewrite (IH _ eq_refl). now rewrite andb_false_r.
Qed.

Definition line_ok (l : list Z) : Prop := l = [] \/ is_blank l = false.

Lemma image_runs_lines_ok ls r : image_runs ls = Some r -> Forall line_ok ls.
Proof.
  revert r. induction ls as [|l ls IH]; intros r H; [constructor|].
  destruct l as [|c l'].
  - constructor; [now left|]. exact (IH _ H).
  - cbn [image_runs] in H.
    destruct (image_line (c :: l')) as [x|] eqn:E1; [|discriminate].
    destruct (image_runs ls) as [xs|] eqn:E2; [|discriminate].
    constructor; [|exact (IH _ eq_refl)]. right.
    unfold image_line in E1. destruct (split_star (c :: l')) as [[a b]|] eqn:E3.
    + exact (star_not_blank _ _ E3).
    + destruct (is_blank (c :: l')) eqn:B; [|reflexivity].
      rewrite (blank_no_hex (c :: l') eq_refl B) in E1. discriminate.
Qed.

Lemma read_words_lines_ok ls ws : read_words ls = Some ws -> Forall (fun l => is_blank l = false) ls.
Proof.
  revert ws. induction ls as [|l ls IH]; intros ws H; [constructor|].
  cbn [read_words] in H. destruct (parse_hex l) as [w|] eqn:E1; [|discriminate].
  destruct (read_words ls) as [ws'|] eqn:E2; [|discriminate].
  constructor; [|exact (IH _ eq_refl)].
  destruct (is_blank l) eqn:B; [|reflexivity].
  destruct l as [|c r]; [discriminate E1|]. rewrite (blank_no_hex (c :: r) eq_refl B) in E1. discriminate.
Qed.

Lemma strip_indent l : line_ok l -> strip2 (indent_line l) = l.
Proof.
  intros [->|H]; [reflexivity|]. unfold indent_line. rewrite H. reflexivity.
Qed.

Lemma indent_not_header l : line_ok l -> text_eqb (indent_line l) CODE_H = false.
Proof.
  intros [->|H]; [reflexivity|]. unfold indent_line. rewrite H. reflexivity.
Qed.

Lemma break_at_app h a r : Forall (fun l => text_eqb l h = false) a -> text_eqb h h = true ->
  break_at h (a ++ h :: r) = Some (a, r).
Proof.
  intros Ha Hh. induction Ha as [|l a Hl _ IH]; cbn [app break_at].
  - now rewrite Hh.
  - now rewrite Hl, IH.
Qed.

Lemma map_strip_indent ls : Forall line_ok ls -> map strip2 (map indent_line ls) = ls.
Proof. induction 1 as [|l ls Hl _ IH]; [reflexivity|]. cbn [map]. now rewrite strip_indent, IH. Qed.

Theorem read_full_listing ds cells ws :
  1 <= ds -> ds + Z.of_nat (length cells) <= 65536 -> Forall word cells -> ws <> [] -> Forall word ws ->
  read_full (full_listing ds cells ws) = Some (image_of ds cells, ws).
Proof.
  intros Hds Hlen Hcells Hne Hws.
  pose proof (read_data_listing ds cells Hds Hlen Hcells) as HD. unfold read_image in HD.
  pose proof (read_code_listing ws Hne Hws) as HC. unfold read_code in HC.
  pose proof (image_runs_lines_ok _ _ HD) as OKD.
  assert (OKC : Forall line_ok (lines (code_listing ws))).
  { eapply Forall_impl; [|exact (read_words_lines_ok _ _ HC)]. intros l Hl. now right. }
  unfold read_full. rewrite lines_full.
  change (text_eqb DATA_H DATA_H) with true. cbv iota.
  rewrite break_at_app; [| |reflexivity].
  - rewrite !map_strip_indent by assumption. now rewrite HD, HC.
  - apply Forall_forall. intros l Hl. apply in_map_iff in Hl. destruct Hl as (l0 & <- & Hl0).
    rewrite Forall_forall in OKD. now apply indent_not_header, OKD.
Qed.
