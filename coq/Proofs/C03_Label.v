(* C03_Label.v — SETRF, the label forms of the register branches and of CALL, OPCODE. *)
From Coq Require Import ZArith List Bool String Lia ZifyBool.
From Hera.Lib Require Import Py Machine Word16.
From Hera.Gen Require Import Utils Vm Ops Convert.
From Hera.Spec Require Import ISA Wf PseudoSpec.
From Hera.Model Require Import OpRep InstrOf Bitvec.
From Hera.Proofs Require Import VmLemmas Tactics SpecLemmas C01_ALU C01_MUL C01_Shift C01_Misc C01_Branch
     C01_All C02_Step C03_Pseudo.
Import ListNotations.
Open Scope Z_scope.

Ltac Zify.zify_post_hook ::= Z.to_euclidean_division_equations.
Arguments to_u16 : simpl never.
Arguments Z.modulo : simpl never.
Arguments Z.div : simpl never.

Lemma run_ops_app l1 l2 s s1 : run_ops l1 s = Ok (tt, s1) -> run_ops (l1 ++ l2) s = run_ops l2 s1.
Proof.
  revert s. induction l1 as [|o t IH]; intros s H; cbn [run_ops app] in *.
  - unfold ret in H. now injection H as ->.
  - unfold bind in *. destruct (exec (o_cls o) (o_args o) s) as [[[] s2]|e]; [|discriminate H]. now apply IH.
Qed.

Lemma arch_eq_sym a b : arch_eq a b -> arch_eq b a.
Proof. unfold arch_eq. intuition congruence. Qed.
Lemma arch_eq_trans a b c : arch_eq a b -> arch_eq b c -> arch_eq a c.
Proof. unfold arch_eq. intuition congruence. Qed.

Lemma arch_eq_ps_FLAGS a s1 s2 : arch_eq s1 s2 -> arch_eq (ps_FLAGS a s1) (ps_FLAGS a s2).
Proof.
  intros (Hr & Hp & Hd & H1 & H2 & H3 & H4 & H5 & Hm & Hh & He & Ho & Hw & Hlc & Hc).
  unfold ps_FLAGS, flags_of_value, adv, set_zs, getreg. rewrite Hr.
  unfold arch_eq. cbn. rewrite Hp. repeat split; assumption.
Qed.

(* ---- SETRF ------------------------------------------------------------------------------------ *)
Theorem SETRF_meaning d v s : wf_vm s -> reg_ix d -> -32768 <= v < 65536 ->
  exists ops s', convert_full (mkop O_SETRF [R d; N v]) = Ok ops /\ List.length ops = 4%nat /\
                 run_ops ops s = Ok (tt, s') /\ arch_eq s' (ps_SETRF d v s) /\ (d <> 15 -> sp_quiet s' s).
Proof.
  intros W Hd Hv.
  destruct (SET_run d v s W Hd Hv) as (s1 & E1 & W1 & A1 & Q1).
  destruct (FLAGS_meaning d s1 W1 Hd) as (s2 & _ & E2 & ->).
  eexists; eexists. split.
  - unfold convert_full. cbn [o_cls]. unfold convert. cbn [o_cls]. unfold convert_SETRF.
    cbn [o_toks]. rewrite convert_SET_ok by exact Hv. cbn [rbind]. toks_simpl.
    unfold convert_FLAGS. toks_simpl. reflexivity.
  - split; [reflexivity|]. split.
    + cbn [app]. change ([?a; ?b; ?c; ?e]) with ([a; b] ++ [c; e]).
      erewrite run_ops_app by exact E1. exact E2.
    + split.
      * eapply arch_eq_trans; [apply arch_eq_ps_FLAGS; exact A1|].
        unfold ps_FLAGS, ps_SETRF, ps_SET. pose proof (wf_r _ W) as [Hl _].
        change (getreg (adv 2 ?x) d) with (getreg x d).
        destruct (Z.eq_dec d 0) as [->|Hn].
        -- rewrite setreg_R0. change (0 =? 0) with true. cbv iota. rewrite (getreg_0 s W).
           unfold arch_eq, flags_of_value, adv, set_zs. cbn. repeat split; lia.
        -- rewrite getreg_setreg_same by assumption.
           replace (d =? 0) with false by lia.
           unfold arch_eq, flags_of_value, adv, set_zs. cbn. autorewrite with spec.
           repeat split; try reflexivity. lia.
      * intros H15. destruct (Q1 H15) as (Qo & Qw & Qv).
        unfold sp_quiet, ps_FLAGS, flags_of_value, adv, set_zs. cbn. repeat split; assumption.
Qed.

(* ---- B*(label) ---------------------------------------------------------------------------------- *)
Lemma holds_adv_setreg c n k v s : holds c (adv n (setreg k v s)) = holds c s.
Proof.
  unfold holds, adv. cbn [f_s f_z f_v f_c upd_pc]. now rewrite f_s_setreg, f_z_setreg, f_v_setreg, f_c_setreg.
Qed.

Lemma next_adv n x : next (adv n x) = adv (n + 1) x.
Proof. destruct x. unfold next, adv. msimpl. st_eq. Qed.

Lemma convert_branch_label c l : 0 <= l < 65536 ->
  convert_full (mkop (cond_regbranch c) [N l])
  = Ok [mkop O_SETLO [R 11; N (l mod 256)]; mkop O_SETHI [R 11; N (l / 256)]; mkop (cond_regbranch c) [R 11]].
Proof.
  intros Hl.
  destruct c; cbv beta iota delta [convert_full convert o_cls cond_regbranch];
    match goal with |- ?f _ = _ => unfold f end; toks_simpl; unfold py_band, py_shr; cbn [as_int];
    rewrite land_255, shiftr_div by lia; reflexivity.
Qed.

Lemma instr_of_regbranch c b : instr_of (cond_regbranch c) [b] = Some (I_B c b).
Proof. destruct c; reflexivity. Qed.

Theorem branch_label_meaning c l s : wf_vm s -> 0 <= l < 65536 ->
  run_ops [mkop O_SETLO [R 11; N (l mod 256)]; mkop O_SETHI [R 11; N (l / 256)];
           mkop (cond_regbranch c) [R 11]] s
  = Ok (tt, ps_BRANCH c l s).
Proof.
  intros W Hl. cbn [run_ops o_cls o_args o_toks map t_val R N tok_reg tok_int].
  assert (H11 : reg_ix 11) by (unfold reg_ix; lia).
  assert (Hlo : 0 <= l mod 256 < 256) by lia. assert (Hhi : 0 <= l / 256 < 256) by lia.
  change (exec O_SETLO) with exec_SETLO. change (exec O_SETHI) with exec_SETHI.
  mstep ltac:(apply exec_SETLO_ok; [exact W|exact H11|lia]).
  assert (W1 : wf_vm (step_SETLO 11 (l mod 256) s)) by wf_after W (I_SETLO 11 (l mod 256)).
  mstep ltac:(apply exec_SETHI_ok; [exact W1|exact H11|lia]).
  assert (W2 : wf_vm (step_SETHI 11 (l / 256) (step_SETLO 11 (l mod 256) s))) by wf_after W1 (I_SETHI 11 (l / 256)).
  destruct (exec_exact (cond_regbranch c) [11] (I_B c 11) _ W2 (instr_of_regbranch c 11) eq_refl eq_refl)
    as (mc & mv & _ & _ & E).
  cbn [map] in E. mstep ltac:(exact E). unfold ret. do 2 f_equal.
  cbn [step_with]. rewrite (set_prefix 11 (l mod 256) (l / 256) s W) by lia.
  replace (256 * (l / 256) + l mod 256) with l by lia.
  unfold step_regbranch, ps_BRANCH. rewrite holds_adv_setreg.
  destruct (holds c s); [|rewrite next_adv; reflexivity].
  pose proof (wf_r _ W) as [Hlen _].
  change (getreg (adv 2 ?x) 11) with (getreg x 11).
  rewrite getreg_setreg_same by (assumption || lia). reflexivity.
Qed.

(* ---- CALL(Ra, label) ------------------------------------------------------------------------------ *)
Theorem call_label_meaning a l s : wf_vm s -> reg_ix a -> a <> 13 -> a <> 14 -> 0 <= l < 65536 ->
  convert_full (mkop O_CALL [R a; N l])
  = Ok [mkop O_SETLO [R 13; N (l mod 256)]; mkop O_SETHI [R 13; N (l / 256)]; mkop O_CALL [R a; R 13]]
  /\ run_ops [mkop O_SETLO [R 13; N (l mod 256)]; mkop O_SETHI [R 13; N (l / 256)]; mkop O_CALL [R a; R 13]] s
     = Ok (tt, ps_CALL a l s).
Proof.
  intros W Ha Ha13 Ha14 Hl. split.
  - cbv beta iota delta [convert_full convert o_cls]. unfold convert_CALL. toks_simpl.
    change (tok_reg (PI 13)) with (R 13).
    rewrite (convert_SET_ok 13 l) by lia. unfold rbind, rret. cbn [app].
    replace (l mod 65536) with l by lia. reflexivity.
  - expose_exec.
    assert (H13 : reg_ix 13) by (unfold reg_ix; lia).
    mstep ltac:(apply exec_SETLO_ok; [exact W|exact H13|lia]).
    assert (W1 : wf_vm (step_SETLO 13 (l mod 256) s)) by wf_after W (I_SETLO 13 (l mod 256)).
    mstep ltac:(apply exec_SETHI_ok; [exact W1|exact H13|lia]).
    assert (W2 : wf_vm (step_SETHI 13 (l / 256) (step_SETLO 13 (l mod 256) s))) by wf_after W1 (I_SETHI 13 (l / 256)).
    mstep ltac:(apply exec_CALL_ok; [exact W2|exact Ha|exact H13|lia..]).
    unfold ret. do 2 f_equal. unfold ps_CALL.
    rewrite (set_prefix 13 (l mod 256) (l / 256) s W) by lia.
    replace (256 * (l / 256) + l mod 256) with l by lia. reflexivity.
Qed.

(* ---- OPCODE(w): the instruction the word decodes to ------------------------------------------------- *)
Theorem opcode_meaning w o : disassemble w false = Ok o -> convert_full (mkop O_OPCODE [N w]) = Ok [o].
Proof.
  intros D. unfold convert_full. cbn [o_cls o_args o_toks map t_val N tok_int].
  unfold disassemble, disassemble_with in *.
  destruct ((0 <=? w) && (w <? 65536)); [|discriminate D].
  destruct (first_match decode_table (bits_msb 16 w)) as [[c m]|]; [|discriminate D].
  cbn [rbind]. unfold rbind. rewrite D. reflexivity.
Qed.
