(* C06_Image.v — the data image `hera assemble` emits holds exactly the cells the data
   statements write when the interpreter executes them. *)
From Coq Require Import ZArith List Bool String Lia.
From Hera.Lib Require Import Py Machine Word16.
From Hera.Gen Require Import Utils Vm Ops Tables.
From Hera.Spec Require Import ISA Wf.
From Hera.Model Require Import OpRep InstrOf Bitvec Run.
From Hera.Proofs Require Import VmLemmas Tactics SpecLemmas C01_ALU C01_Misc C01_All C02_Step C02_Exec C02_Run C02_Init.
Import ListNotations.
Open Scope Z_scope.

Ltac Zify.zify_post_hook ::= Z.to_euclidean_division_equations.

(* the cells a data statement stands for *)
Definition cells_of (o : rop) : list Z :=
  match r_op o, r_args o with
  | O_INTEGER, [PI v] => [v mod 65536]
  | O_LP_STRING, [PS str] => zlen str :: str
  | O_DSKIP, [PI n] => repeat 0 (Z.to_nat n)
  | _, _ => []
  end.

(* pairs of bytes, high byte first, as 16-bit cells *)
Fixpoint bytes_to_cells (b : list Z) : list Z :=
  match b with
  | hi :: lo :: t => 256 * hi + lo :: bytes_to_cells t
  | _ => []
  end.

Lemma lp_bytes_cells s : Forall word s -> bytes_to_cells (lp_bytes s) = s.
Proof.
  induction 1 as [|c t Hc _ IH]; cbn [lp_bytes bytes_to_cells]; [reflexivity|].
  rewrite IH. f_equal. unfold word in Hc. lia.
Qed.

Lemma repeat_zero_cells (n : nat) : bytes_to_cells (repeat 0 (n + n)) = repeat 0 n.
Proof.
  induction n as [|n IH]; [reflexivity|].
  replace (S n + S n)%nat with (S (S (n + n))) by lia. cbn [repeat bytes_to_cells]. now rewrite IH.
Qed.

(* assembler side: the bytes of a data statement are its cells *)
Theorem assemble_data_cells (o : op) (r : rop) :
  r_op r = o_cls o -> r_args r = o_args o -> data_op_ok r -> zlen (cells_of r) <= 65536 ->
  exists b, assemble o = Ok (Some b) /\ bytes_to_cells b = cells_of r.
Proof.
  intros Hc Ha Hok Hlen. unfold data_op_ok, cells_of in *. rewrite Hc, Ha in *. unfold assemble.
  destruct (o_cls o); try contradiction; cbn [is_debugging_op];
    destruct (o_args o) as [|[| |v|str|] [|]]; try contradiction.
  - (* DSKIP *) eexists. split; [reflexivity|].
    replace (Z.to_nat (2 * v)) with (Z.to_nat v + Z.to_nat v)%nat by lia. apply repeat_zero_cells.
  - (* INTEGER *) rewrite to_u16_val by lia. cbn [rbind as_int]. eexists. split; [reflexivity|].
    unfold two_bytes. cbn [bytes_to_cells]. f_equal. lia.
  - (* LP_STRING *) eexists. split; [reflexivity|]. cbn [bytes_to_cells]. rewrite lp_bytes_cells by exact Hok.
    f_equal. unfold zlen in *. cbn [List.length] in Hlen. lia.
Qed.

(* ---- interpreter side ------------------------------------------------------------------------- *)
Definition mem_zero_from (s : vm) (a0 : Z) : Prop := forall a, a0 <= a -> mem_read (mem s) a = 0.

Lemma read_after_write s a v b d : wf_vm s -> 0 <= a -> 0 <= b ->
  mem_read (mem (upd_dc d (upd_mem (mem_write (mem s) a v) s))) b
  = if a =? b then v else mem_read (mem s) b.
Proof.
  intros W Ha Hb. cbn [mem upd_dc upd_mem]. destruct (a =? b) eqn:E.
  - apply Z.eqb_eq in E. subst b. now apply mem_read_write_same.
  - apply mem_read_write_other; [exact Ha|exact Hb|lia|apply (wf_m _ W)].
Qed.

Lemma chars_loop_mem str : Forall word str -> forall s, wf_vm s -> 0 <= dc s -> dc s + zlen str <= 65536 ->
  mem_zero_from s (dc s) ->
  exists s', for_chars str (fun c =>
               v_7 <- get_dc ;; n_8 <- py_ord c ;; vm_store_memory v_7 n_8 ;;;
               v_10 <- get_dc ;; set_dc (py_add v_10 (PI 1)) ;;; ret tt) s = Ok (tt, s') /\
             wf_vm s' /\ dc s' = dc s + zlen str /\
             (forall k, 0 <= k < zlen str -> mem_read (mem s') (dc s + k) = nth (Z.to_nat k) str 0) /\
             (forall a, 0 <= a < dc s -> mem_read (mem s') a = mem_read (mem s) a) /\
             mem_zero_from s' (dc s + zlen str).
Proof.
  induction 1 as [|c t Hc _ IH]; intros s W Hd Hfit Hz; cbn [for_chars].
  - eexists. split; [reflexivity|]. split; [exact W|]. unfold zlen. cbn [List.length Z.of_nat].
    split; [lia|]. split; [intros k Hk; lia|]. split; [reflexivity|]. rewrite Z.add_0_r. exact Hz.
  - unfold zlen in *. cbn [List.length] in Hfit. pose proof (wf_m _ W) as [[Hm _] _].
    mstep ltac:(erewrite bind_Ok by reflexivity; erewrite bind_Ok by reflexivity;
                erewrite bind_Ok by (apply vm_store_memory_ok; [lia|exact Hm]);
                erewrite bind_Ok by reflexivity; erewrite bind_Ok by reflexivity; reflexivity).
    match goal with |- context [for_chars _ _ ?st] => set (s1 := st) end.
    assert (E1 : s1 = upd_dc (dc s + 1) (upd_mem (mem_write (mem s) (dc s) c) s)) by reflexivity.
    assert (W1 : wf_vm s1).
    { rewrite E1. apply wf_upd_dc, wf_upd_mem; [exact W|].
      apply wf_mem_write; [apply (wf_m _ W)|lia|exact Hc]. }
    assert (D1 : dc s1 = dc s + 1) by reflexivity.
    assert (Z1 : mem_zero_from s1 (dc s1)).
    { intros a Ha. rewrite E1, read_after_write by (assumption || lia).
      replace (dc s =? a) with false by (rewrite D1 in Ha; lia). apply Hz. rewrite D1 in Ha. lia. }
    destruct (IH s1 W1 ltac:(lia) ltac:(lia) Z1) as (s' & E & W' & Hd' & Hk' & Ha' & Hz').
    rewrite E. eexists. split; [reflexivity|]. split; [exact W'|]. cbn [List.length].
    split; [lia|]. split; [|split].
    + intros k Hk. destruct (Z.eq_dec k 0) as [->|Hn].
      * rewrite Z.add_0_r. rewrite Ha' by lia. rewrite E1, read_after_write by (assumption || lia).
        now rewrite Z.eqb_refl.
      * replace (dc s + k) with (dc s1 + (k - 1)) by lia. rewrite Hk' by lia.
        replace (Z.to_nat k) with (S (Z.to_nat (k - 1))) by lia. reflexivity.
    + intros a Ha. rewrite Ha' by lia. rewrite E1, read_after_write by (assumption || lia).
      now replace (dc s =? a) with false by lia.
    + intros a Ha. apply Hz'. lia.
Qed.

Theorem exec_data_mem o s : data_op_ok o -> wf_vm s -> 0 <= dc s -> dc s + data_size o <= 65536 ->
  mem_zero_from s (dc s) ->
  exists s', exec (r_op o) (r_args o) s = Ok (tt, s') /\ wf_vm s' /\ dc s' = dc s + data_size o /\
             (forall k, 0 <= k < data_size o -> mem_read (mem s') (dc s + k) = nth (Z.to_nat k) (cells_of o) 0) /\
             (forall a, 0 <= a < dc s -> mem_read (mem s') a = mem_read (mem s) a) /\
             mem_zero_from s' (dc s + data_size o).
Proof.
  destruct o as [op args loc]. unfold data_op_ok, data_size, cells_of. cbn [r_op r_args].
  intros Hok W Hd Hfit Hz.
  destruct op; try contradiction;
    destruct args as [|[| |v|str|] [|]]; try contradiction; cbv beta iota delta [exec].
  - (* DSKIP: nothing is written; the skipped cells are still zero *)
    unfold exec_DSKIP. astep. mstep reflexivity. mstep reflexivity.
    eexists. split; [reflexivity|]. split; [apply wf_upd_dc, W|]. split; [reflexivity|].
    split; [|split].
    + intros k Hk. cbn [mem upd_dc]. rewrite Hz by lia.
      symmetry. clear. generalize (Z.to_nat k). induction (Z.to_nat v) as [|n IH]; intros [|m]; cbn; auto.
    + intros a Ha. reflexivity.
    + intros a Ha. cbn [mem upd_dc]. apply Hz. lia.
  - (* INTEGER *)
    unfold exec_INTEGER. mstep reflexivity. astep.
    mstep ltac:(apply to_u16_word; lia).
    pose proof (wf_m _ W) as [[Hm _] _].
    mstep ltac:(apply vm_store_memory_ok; [lia|exact Hm]).
    mstep reflexivity. mstep reflexivity.
    eexists. split; [reflexivity|]. split.
    { apply wf_upd_dc, wf_upd_mem; [exact W|]. apply wf_mem_write; [apply (wf_m _ W)|lia|apply mod_word]. }
    split; [reflexivity|]. split; [|split].
    + intros k Hk. assert (k = 0) by lia. subst k. rewrite Z.add_0_r.
      pynorm. rewrite read_after_write by (assumption || lia). now rewrite Z.eqb_refl.
    + intros a Ha. pynorm. rewrite read_after_write by (assumption || lia). now replace (dc s =? a) with false by lia.
    + intros a Ha. pynorm. rewrite read_after_write by (assumption || lia).
      replace (dc s =? a) with false by lia. apply Hz. lia.
  - (* LP_STRING *)
    unfold exec_LP_STRING. mstep reflexivity. astep. mstep reflexivity.
    pose proof (wf_m _ W) as [[Hm _] _].
    assert (Hzl : 0 <= zlen str) by (unfold zlen; lia).
    mstep ltac:(apply vm_store_memory_ok; [lia|exact Hm]).
    mstep reflexivity. mstep reflexivity. astep. mstep reflexivity.
    match goal with |- exists _, (bind (for_chars _ _) _) ?st = _ /\ _ => set (s1 := st) end.
    assert (E1 : s1 = upd_dc (dc s + 1) (upd_mem (mem_write (mem s) (dc s) (zlen str)) s)) by reflexivity.
    assert (W1 : wf_vm s1).
    { rewrite E1. apply wf_upd_dc, wf_upd_mem; [exact W|].
      apply wf_mem_write; [apply (wf_m _ W)|lia|unfold word; lia]. }
    assert (D1 : dc s1 = dc s + 1) by reflexivity.
    assert (Z1 : mem_zero_from s1 (dc s1)).
    { intros a Ha. rewrite E1, read_after_write by (assumption || lia).
      replace (dc s =? a) with false by (rewrite D1 in Ha; lia). apply Hz. rewrite D1 in Ha. lia. }
    destruct (chars_loop_mem str Hok s1 W1 ltac:(lia) ltac:(lia) Z1) as (s' & E & W' & Hd' & Hk' & Ha' & Hz').
    mstep ltac:(exact E).
    eexists. split; [reflexivity|]. split; [exact W'|]. split; [lia|]. split; [|split].
    + intros k Hk. destruct (Z.eq_dec k 0) as [->|Hn].
      * rewrite Z.add_0_r. rewrite Ha' by lia. rewrite E1, read_after_write by (assumption || lia).
        now rewrite Z.eqb_refl.
      * replace (dc s + k) with (dc s1 + (k - 1)) by lia. rewrite Hk' by lia.
        replace (Z.to_nat k) with (S (Z.to_nat (k - 1))) by lia. reflexivity.
    + intros a Ha. rewrite Ha' by lia. rewrite E1, read_after_write by (assumption || lia).
      now replace (dc s =? a) with false by lia.
    + intros a Ha. apply Hz'. lia.
Qed.
