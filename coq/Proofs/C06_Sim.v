(* C06_Sim.v — the interpreter, executing the operations of an accepted program, refines the
   independent word-level machine that decodes the ASSEMBLED words with the specification's own
   decoder and applies the specification's step function; and the assembled data image holds
   exactly the cells the data statements write. *)
From Coq Require Import ZArith List Bool String Lia.
From Hera.Lib Require Import Py Machine Word16.
From Hera.Gen Require Import Utils Vm Ops Tables.
From Hera.Spec Require Import ISA Wf EncTable.
From Hera.Model Require Import OpRep InstrOf Bitvec Run.
From Hera.Proofs Require Import VmLemmas Tactics SpecLemmas C01_ALU C01_Misc C01_All C02_Step C02_Exec C02_Run
     C05_Sweep C05_Codec C06_Decode.
Import ListNotations.
Open Scope Z_scope.

(* byte operands are read through their 8-bit pattern: the canonical form means the same *)
Lemma step_canon mc mv i s : step_with mc mv (canon i) s = step_with mc mv i s.
Proof.
  destruct i; cbn [canon step_with]; try reflexivity.
  - unfold step_SETLO, byte_of. now rewrite Z.mod_mod by lia.
  - unfold step_SETHI, byte_of. now rewrite Z.mod_mod by lia.
  - destruct c; unfold step_BRR, step_relbranch, byte_of; now rewrite Z.mod_mod by lia.
Qed.
Lemma constrained_canon i s : constrained (canon i) s = constrained i s.
Proof. destruct i; reflexivity. Qed.

(* a code operation of the interpreter's program, and the instruction it denotes *)
Definition denotes (o : rop) (i : instr) : Prop :=
  exists zs, r_args o = map PI zs /\ instr_of (r_op o) zs = Some i /\ valid_instr i = true /\
             runnable i = true.

(* one step of the word-level machine (relational where the definition leaves a point open) *)
Definition wstep_ok (ws : list Z) (s s' : vm) : Prop :=
  exists i, decode_word (nth (Z.to_nat (pc s)) ws 0) = Some i /\
            (constrained i s = true ->
             exists mc mv, is_bool mc /\ is_bool mv /\ s' = step_with mc mv i s).

Lemma Forall2_len {A B} (R : A -> B -> Prop) l l' : Forall2 R l l' -> List.length l = List.length l'.
Proof. induction 1; cbn; congruence. Qed.

Lemma nth_map_word (instrs : list instr) k d :
  (k < List.length instrs)%nat -> nth k (map word_of instrs) 0 = word_of (nth k instrs d).
Proof.
  revert k; induction instrs as [|x t IH]; intros k H; [cbn in H; lia|].
  destruct k as [|k]; [reflexivity|]. cbn [map nth]. apply IH. cbn in H. lia.
Qed.

(* Each iteration of the interpreter loop on the program's operations is — after tagging the state
   with the operation's source location, which only diagnostics read — a step the word-level
   machine may take on the ASSEMBLED words; and the loop ends exactly when that machine ends. *)
Theorem asm_refines code instrs s s' :
  Forall2 denotes code instrs -> zlen code <= 65535 -> wf_vm s ->
  loop_step code s = Ok (Some s') ->
  exists l, wstep_ok (map word_of instrs) (upd_location l s) s' /\ wf_vm s'.
Proof.
  intros F Hlen W E.
  assert (C : code_ok code).
  { split; [|exact Hlen]. clear -F.
    induction F as [|o i code instrs (zs & A & I & V & R) _ IH]; constructor; [|exact IH].
    left. exists zs, i. repeat split; assumption. }
  pose proof (fetch_in_program code s s' C W E) as Hp.
  destruct (run_guard_ok code s W) as (g & Eg & Tg).
  unfold loop_step in E. rewrite Eg in E.
  destruct (truthy g); [|discriminate E].
  unfold fetch_exec in E.
  destruct (nth_in_code code (pc s) Hp) as [Egt Hin].
  erewrite bind_Ok in E by reflexivity.
  erewrite bind_Ok in E by (unfold lift; rewrite Egt; reflexivity).
  erewrite bind_Ok in E by reflexivity.
  set (o := nth (Z.to_nat (pc s)) code dummy_rop) in *.
  assert (Hk : (Z.to_nat (pc s) < List.length code)%nat) by (unfold zlen in Hp; lia).
  assert (Hli : List.length code = List.length instrs) by (eapply Forall2_len; exact F).
  pose (i := nth (Z.to_nat (pc s)) instrs I_RTI).
  assert (D : denotes o i).
  { clear -F Hk. subst o i. revert Hk. generalize (Z.to_nat (pc s)) as k.
    induction F as [|x y l l' Hxy _ IH]; intros [|k] Hk; cbn in *; try lia; [exact Hxy|apply IH; lia]. }
  destruct D as (zs & A & I & V & R).
  rewrite A in E.
  set (s1 := upd_location (r_loc o) s) in *.
  assert (W1 : wf_vm s1) by (apply wf_upd_location, W).
  assert (Hpc : pc_ok s1) by (unfold pc_ok; cbn; lia).
  destruct (exec_wf (r_op o) zs i s1 W1 Hpc I V R) as (s3 & E3 & W3 & _).
  rewrite E3 in E. injection E as <-.
  exists (r_loc o). split; [|exact W3].
  exists (canon i). split.
  - change (pc (upd_location (r_loc o) s)) with (pc s).
    rewrite (nth_map_word instrs _ I_RTI) by lia. apply decode_word_encode, V.
  - rewrite constrained_canon. intros Hc.
    destruct (exec_exact (r_op o) zs i s1 W1 I V Hc) as (mc & mv & Bc & Bv & Ee).
    rewrite Ee in E3. injection E3 as <-.
    exists mc, mv. split; [exact Bc|]. split; [exact Bv|]. now rewrite step_canon.
Qed.

(* the loop ends exactly when the machine has halted or the program counter is outside the words *)
Theorem asm_ends code instrs s :
  Forall2 denotes code instrs -> zlen code <= 65535 -> wf_vm s ->
  (loop_step code s = Ok None <->
   flag (halted s) = true \/ pc s < 0 \/ zlen (map word_of instrs) <= pc s).
Proof.
  intros F Hlen W.
  assert (C : code_ok code).
  { split; [|exact Hlen]. clear -F.
    induction F as [|o i code instrs (zs & A & I & V & R) _ IH]; constructor; [|exact IH].
    left. exists zs, i. repeat split; assumption. }
  assert (Hl : zlen (map word_of instrs) = zlen code).
  { unfold zlen. rewrite map_length. f_equal. symmetry. eapply Forall2_len; exact F. }
  rewrite Hl.
  destruct (loop_step_ok code s C W) as [[G E] | (G & Hp & s' & E & _)]; rewrite E; unfold guard_true in G.
  - split; [intros _|reflexivity]. destruct (flag (halted s)); [now left|right]. cbn [negb andb] in G. lia.
  - split; [discriminate|]. intros [H|H]; [rewrite H in G; discriminate G|lia].
Qed.
