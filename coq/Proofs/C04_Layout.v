(* C04_Layout.v — the two passes of the preprocessor stay in lockstep over a whole program:
   after any prefix of the source, the program counter get_labels has reached (the value it gives
   a LABEL met there) equals the number of instructions convert_ops has emitted (the index the
   next instruction will get).  Hence every label denotes the index of the next emitted
   instruction, in every mode (debugging operations are skipped by both passes when stripped). *)
From Coq Require Import ZArith List Bool String Lia.
From Hera.Lib Require Import Py.
From Hera.Gen Require Import Utils Ops Tables Convert.
From Hera.Model Require Import OpRep Bitvec Preproc.
From Hera.Proofs Require Import C04_Oplen.
Import ListNotations.
Open Scope Z_scope.

Lemma relbranch_len c ts l : is_relative_branch c = true -> convert_full (mkop c ts) = Ok l -> zlen l = 1.
Proof.
  intros H E. destruct c; try discriminate H;
    cbv beta iota delta [convert_full convert o_cls] in E;
    match type of E with ?f _ = _ => unfold f, rret in E end; injection E as <-; reflexivity.
Qed.

Lemma relbranch_oplen c ts : is_relative_branch c = true -> operation_length (mkop c ts) = 1.
Proof. intros H. destruct c; try discriminate H; reflexivity. Qed.

(* an operation whose own type-check is clean (with whatever constants were in scope) *)
Definition clean_op (o : op) : Prop := exists st0, has_errors (default_typecheck o st0) = false.

(* what each pass adds to its program counter for one operation *)
Definition labels_delta (c : csettings) (o : op) : Z :=
  match o_cls o with
  | O_LABEL | O_DLABEL | O_CONSTANT | O_INTEGER | O_LP_STRING | O_DSKIP => 0
  | cl => if strips_debug c && is_debugging_op cl then 0 else operation_length o
  end.

Lemma get_labels_pc c g o : gl_pc (get_labels_step c g o) = gl_pc g + labels_delta c o.
Proof.
  unfold get_labels_step, labels_delta.
  destruct (o_cls o);
    repeat match goal with
           | |- context [match ?x with _ => _ end] => destruct x; cbn [gl_pc gl_dc gl_st gl_consts gl_msgs]
           end; cbn [gl_pc]; lia.
Qed.

Definition convert_delta (o : op) : Z :=
  if is_data_op (o_cls o) then 0 else if opname_eqb (o_cls o) O_LABEL then 0 else operation_length o.

Lemma general_path st cg i cls toks cg' : clean_op (mkop cls toks) ->
  (ts <~ subst_tokens toks st ;;
   new <~ convert_full (mkop cls ts) ;;
   Ok (mkcv (cv_out cg ++ map (fun n => mkcop n i) new)
            (if is_data_op cls then cv_pc cg else cv_pc cg + zlen new) (cv_msgs cg)))%R = Ok cg' ->
  cv_pc cg' = cv_pc cg + convert_delta (mkop cls toks).
Proof.
  intros [st0 Hc] E. unfold rbind in E.
  destruct (subst_tokens toks st) as [ts|] eqn:S; [|discriminate E].
  destruct (convert_full (mkop cls ts)) as [new|] eqn:C; [|discriminate E].
  injection E as <-. cbn [cv_pc]. unfold convert_delta. cbn [o_cls].
  destruct (is_data_op cls) eqn:D; [lia|].
  destruct (opname_eqb cls O_LABEL) eqn:L.
  - assert (cls = O_LABEL) as -> by (destruct cls; try discriminate L; reflexivity).
    cbv beta iota delta [convert_full convert o_cls convert_LABEL rret] in C. injection C as <-. cbn. lia.
  - assert (CC : counts_as_code cls = true) by (destruct cls; try discriminate D; try discriminate L; reflexivity).
    rewrite (oplen_eq_convert cls toks st0 st ts new CC Hc S C). lia.
Qed.

Lemma convert_step_pc st cg i o cg' : clean_op o ->
  convert_step st (Ok cg) (i, o) = Ok cg' -> cv_pc cg' = cv_pc cg + convert_delta o.
Proof.
  intros Hc E. destruct o as [cls toks]. unfold convert_step in E. cbn [rbind o_cls o_toks] in E.
  destruct (is_relative_branch cls) eqn:R.
  - destruct toks as [|t rest]; [discriminate E|]. cbn [andb] in E.
    destruct (ttype_eqb (t_type t) T_SYMBOL) eqn:Sy.
    + destruct (dict_get st (t_val t)) as [[tv|tv|v]|] eqn:G; try discriminate E.
      * (* label *)
        assert (ND : is_data_op cls = false) by (destruct cls; try discriminate R; reflexivity).
        assert (NL : opname_eqb cls O_LABEL = false) by (destruct cls; try discriminate R; reflexivity).
        unfold convert_delta. cbn [o_cls]. rewrite ND, NL, (relbranch_oplen cls (t :: rest) R).
        rewrite ND in E.
        destruct ((tv - cv_pc cg <? -128) || (tv - cv_pc cg >=? 128)); unfold rbind in E;
          match type of E with context [convert_full ?x] => destruct (convert_full x) as [new|] eqn:C; [|discriminate E] end;
          injection E as <-; cbn [cv_pc]; rewrite (relbranch_len cls _ new R C); lia.
      * assert (ND : is_data_op cls = false) by (destruct cls; try discriminate R; reflexivity).
        assert (NL : opname_eqb cls O_LABEL = false) by (destruct cls; try discriminate R; reflexivity).
        unfold convert_delta. cbn [o_cls]. rewrite ND, NL, (relbranch_oplen cls (t :: rest) R).
        rewrite ND in E.
        destruct ((tv - cv_pc cg <? -128) || (tv - cv_pc cg >=? 128)); unfold rbind in E;
          match type of E with context [convert_full ?x] => destruct (convert_full x) as [new|] eqn:C; [|discriminate E] end;
          injection E as <-; cbn [cv_pc]; rewrite (relbranch_len cls _ new R C); lia.
      * eapply general_path; [exact Hc|exact E].
    + eapply general_path; [exact Hc|exact E].
  - cbn [andb] in E. eapply general_path; [exact Hc|exact E].
Qed.

Lemma delta_eq c o : strips_debug c && is_debugging_op (o_cls o) = false -> labels_delta c o = convert_delta o.
Proof.
  intros H. unfold labels_delta, convert_delta.
  destruct (o_cls o); cbn [is_debugging_op] in *; rewrite ?H, ?andb_false_r; reflexivity.
Qed.

(* the operations convert_ops sees: numbered, debugging operations removed when the mode strips them *)
Definition srcs (c : csettings) (ops : list op) (i : nat) : list (nat * op) :=
  let e := enumerate ops i in
  if strips_debug c then filter (fun io => negb (is_debugging_op (o_cls (snd io)))) e else e.

Lemma srcs_cons c o t i :
  srcs c (o :: t) i = if strips_debug c && is_debugging_op (o_cls o) then srcs c t (S i) else (i, o) :: srcs c t (S i).
Proof.
  unfold srcs. cbn [enumerate]. destruct (strips_debug c); cbn [andb filter snd]; [|reflexivity].
  destruct (is_debugging_op (o_cls o)); reflexivity.
Qed.

Lemma fold_raise st l e : fold_left (convert_step st) l (Raise e) = Raise e.
Proof. induction l as [|x t IH]; cbn [fold_left]; [reflexivity|]. cbn [convert_step rbind]. apply IH. Qed.

Lemma get_labels_debug_skip c g o : strips_debug c && is_debugging_op (o_cls o) = true ->
  gl_pc (get_labels_step c g o) = gl_pc g.
Proof.
  intros H. rewrite get_labels_pc. unfold labels_delta.
  destruct (o_cls o); cbn [is_debugging_op] in *; rewrite ?andb_false_r in H; try discriminate H; rewrite ?H; lia.
Qed.

Theorem lockstep c st ops : Forall clean_op ops -> forall i g cg cgf,
  gl_pc g = cv_pc cg ->
  fold_left (convert_step st) (srcs c ops i) (Ok cg) = Ok cgf ->
  gl_pc (fold_left (get_labels_step c) ops g) = cv_pc cgf.
Proof.
  induction 1 as [|o t Ho Ht IH]; intros i g cg cgf E F.
  - cbn in F. unfold srcs in F. cbn in F. destruct (strips_debug c); cbn in F; injection F as <-; exact E.
  - cbn [fold_left]. rewrite srcs_cons in F.
    destruct (strips_debug c && is_debugging_op (o_cls o)) eqn:D.
    + apply (IH (S i) _ cg cgf); [rewrite (get_labels_debug_skip c g o D); exact E|exact F].
    + cbn [fold_left] in F.
      destruct (convert_step st (Ok cg) (i, o)) as [cg1|e] eqn:S1; [|rewrite fold_raise in F; discriminate F].
      apply (IH (S i) _ cg1 cgf); [|exact F].
      rewrite get_labels_pc, (convert_step_pc st cg i o cg1 Ho S1), (delta_eq c o D). lia.
Qed.

(* ---- what convert() emits for a data statement is data, for anything else instructions ------------- *)
Lemma convert_class c ts l :
  negb (opname_eqb c O_OPCODE) = true ->
  List.length ts = List.length (P_of c) ->
  convert_full (mkop c ts) = Ok l ->
  Forall (fun r => is_data_op (o_cls r) = is_data_op c) l.
Proof.
  intros Hc Hlen Hl.
  destruct c; try discriminate Hc;
    try (cbv beta iota delta [convert_full convert o_cls] in Hl;
         match type of Hl with ?f _ = _ => unfold f, rret in Hl end;
         injection Hl as <-; repeat constructor).
  all: cbn [P_of List.length] in Hlen;
       destruct ts as [|[ty1 v1] [|[ty2 v2] [|t3 ts]]]; try discriminate Hlen;
       cbv beta iota delta [convert_full convert o_cls o_args o_toks map t_val
                       convert_SET convert_CMP convert_SETRF convert_FLAGS convert_CALL convert_NEG convert_NOT
                       convert_CALL_via_AbstractOperation
                       convert_BR convert_BL convert_BGE convert_BLE convert_BG convert_BULE convert_BUG convert_BZ
                       convert_BNZ convert_BC convert_BNC convert_BS convert_BNS convert_BV convert_BNV
                       convert_BR_via_AbstractOperation convert_BL_via_AbstractOperation
                       convert_BGE_via_AbstractOperation convert_BLE_via_AbstractOperation
                       convert_BG_via_AbstractOperation convert_BULE_via_AbstractOperation
                       convert_BUG_via_AbstractOperation convert_BZ_via_AbstractOperation
                       convert_BNZ_via_AbstractOperation convert_BC_via_AbstractOperation
                       convert_BNC_via_AbstractOperation convert_BS_via_AbstractOperation
                       convert_BNS_via_AbstractOperation convert_BV_via_AbstractOperation
                       convert_BNV_via_AbstractOperation
                       tokens_at oargs_at rbind rret t_type t_val py_getitem as_int] in Hl;
       cbn [zlen List.length norm_index nth Z.to_nat Z.of_nat Z.ltb Z.add Z.compare Pos.compare Pos.compare_cont
            Pos.of_succ_nat Pos.succ] in Hl;
       try change (Pos.to_nat 1) with 1%nat in Hl; cbv beta iota in Hl;
       try discriminate Hl.
  all: try (destruct ty1; cbn [ttype_eqb] in Hl).
  all: try (destruct ty2; cbn [ttype_eqb] in Hl).
  all: repeat match type of Hl with
         | context [to_u16 ?x] => destruct (to_u16 x); [|discriminate Hl]
         end;
       try discriminate Hl; try (injection Hl as <-; repeat constructor).
Qed.

Lemma first_match_in tbl bits c m : first_match tbl bits = Some (c, m) -> In c (map (fun x => fst (fst x)) tbl).
Proof.
  induction tbl as [|[[c0 p] ini] t IH]; cbn [first_match]; [discriminate|].
  destruct (fill_args p bits ini).
  - intros H. injection H as <- _. left. reflexivity.
  - intros H. right. apply IH, H.
Qed.

Lemma class_disassemble_cls c m r : class_disassemble c m = Ok r -> o_cls r = c.
Proof.
  unfold class_disassemble. destruct c; try (intros H; injection H as <-; reflexivity).
  all: destruct m as [|a0 [|a1 [|a2 m']]]; intros H; try discriminate H; injection H as <-; reflexivity.
Qed.

Lemma decode_table_code : forallb (fun x => negb (is_data_op (fst (fst x)))) decode_table = true.
Proof. vm_compute. reflexivity. Qed.

Lemma disassemble_code v r : disassemble v true = Ok r -> is_data_op (o_cls r) = false.
Proof.
  unfold disassemble, disassemble_with. destruct ((0 <=? v) && (v <? 65536)); [|discriminate].
  destruct (first_match decode_table (bits_msb 16 v)) as [[c m]|] eqn:F.
  - intros H. rewrite (class_disassemble_cls c m r H).
    pose proof (first_match_in _ _ _ _ F) as I. apply in_map_iff in I as (x & <- & Hx).
    pose proof (proj1 (forallb_forall _ _) decode_table_code x Hx) as N. now apply negb_true_iff in N.
  - intros H. injection H as <-. reflexivity.
Qed.

Lemma convert_class_all c ts l : List.length ts = List.length (P_of c) ->
  convert_full (mkop c ts) = Ok l -> Forall (fun r => is_data_op (o_cls r) = is_data_op c) l.
Proof.
  intros Hlen Hl. destruct (opname_eqb c O_OPCODE) eqn:E.
  - assert (c = O_OPCODE) as -> by (destruct c; try discriminate E; reflexivity).
    unfold convert_full, o_args in Hl. cbn [o_cls o_toks] in Hl.
    destruct (map t_val ts) as [|a rest]; [discriminate Hl|]. destruct a as [|b|v|s|f]; try discriminate Hl.
    unfold rbind in Hl. destruct (disassemble v true) as [r|] eqn:D; [|discriminate Hl].
    injection Hl as <-. constructor; [|constructor]. rewrite (disassemble_code v r D). reflexivity.
  - apply (convert_class c ts l); [now rewrite E|exact Hlen|exact Hl].
Qed.

(* ---- the program counter of convert_ops counts the instructions emitted so far ---------------------- *)
Lemma Forall2_len {A B} (R : A -> B -> Prop) l1 l2 : Forall2 R l1 l2 -> List.length l1 = List.length l2.
Proof. induction 1; cbn; congruence. Qed.

Lemma subst_tokens_len ts st ts' : subst_tokens ts st = Ok ts' -> List.length ts' = List.length ts.
Proof. intros H. symmetry. exact (Forall2_len _ _ _ (subst_tokens_shape _ _ _ H)). Qed.

Lemma clean_len o : clean_op o -> List.length (o_toks o) = List.length (P_of (o_cls o)).
Proof. intros [st0 H]. symmetry. exact (Forall2_len _ _ _ (typecheck_clean _ _ H)). Qed.

Lemma convert_step_shape st cg i o cg' : clean_op o -> convert_step st (Ok cg) (i, o) = Ok cg' ->
  exists ts' new, List.length ts' = List.length (o_toks o) /\ convert_full (mkop (o_cls o) ts') = Ok new /\
    cv_out cg' = cv_out cg ++ map (fun n => mkcop n i) new /\
    cv_pc cg' = (if is_data_op (o_cls o) then cv_pc cg else cv_pc cg + zlen new).
Proof.
  intros Hc E. destruct o as [cls toks]. cbn [o_cls o_toks].
  assert (G : forall cg', (ts <~ subst_tokens toks st ;; new <~ convert_full (mkop cls ts) ;;
               Ok (mkcv (cv_out cg ++ map (fun n => mkcop n i) new)
                        (if is_data_op cls then cv_pc cg else cv_pc cg + zlen new) (cv_msgs cg)))%R = Ok cg' ->
            exists ts' new, List.length ts' = List.length toks /\ convert_full (mkop cls ts') = Ok new /\
              cv_out cg' = cv_out cg ++ map (fun n => mkcop n i) new /\
              cv_pc cg' = (if is_data_op cls then cv_pc cg else cv_pc cg + zlen new)).
  { intros cgx Ex. unfold rbind in Ex.
    destruct (subst_tokens toks st) as [ts|] eqn:S; [|discriminate Ex].
    destruct (convert_full (mkop cls ts)) as [new|] eqn:C; [|discriminate Ex].
    injection Ex as <-. exists ts, new. repeat split; [exact (subst_tokens_len _ _ _ S)|exact C]. }
  unfold convert_step in E. cbn [rbind o_cls o_toks] in E.
  destruct (is_relative_branch cls) eqn:R.
  - destruct toks as [|t rest]; [discriminate E|]. cbn [andb] in E.
    destruct (ttype_eqb (t_type t) T_SYMBOL) eqn:Sy; [|apply G, E].
    destruct (dict_get st (t_val t)) as [[tv|tv|v]|] eqn:D; try discriminate E; try (apply G, E).
    all: destruct ((tv - cv_pc cg <? -128) || (tv - cv_pc cg >=? 128)); unfold rbind in E;
      match type of E with context [convert_full (mkop ?k ?x)] => destruct (convert_full (mkop k x)) as [new|] eqn:C; [|discriminate E];
        injection E as <-; exists x, new; repeat split; try reflexivity; try exact C
      end.
  - cbn [andb] in E. apply G, E.
Qed.

Definition code_cop (co : cop) : bool := negb (is_data_op (o_cls (c_op co))).
Definition counts_code (cg : cvstate) : Prop := cv_pc cg = Z.of_nat (List.length (filter code_cop (cv_out cg))).

Lemma convert_step_counts st cg i o cg' : clean_op o -> convert_step st (Ok cg) (i, o) = Ok cg' ->
  counts_code cg -> counts_code cg'.
Proof.
  intros Hc E I. destruct (convert_step_shape st cg i o cg' Hc E) as (ts' & new & L & C & O & P).
  unfold counts_code in *. rewrite O, P, filter_app, app_length, I.
  pose proof (convert_class_all (o_cls o) ts' new ltac:(rewrite L; apply clean_len, Hc) C) as F.
  assert (K : List.length (filter code_cop (map (fun n => mkcop n i) new))
              = if is_data_op (o_cls o) then 0%nat else List.length new).
  { clear -F. induction F as [|n t Hn _ IH]; [destruct (is_data_op (o_cls o)); reflexivity|].
    cbn [map filter]. unfold code_cop at 1. cbn [c_op]. rewrite Hn.
    destruct (is_data_op (o_cls o)); cbn [negb List.length]; rewrite IH; reflexivity. }
  rewrite K. unfold zlen. destruct (is_data_op (o_cls o)); lia.
Qed.

Theorem convert_counts st c ops : Forall clean_op ops -> forall i cg cgf,
  counts_code cg -> fold_left (convert_step st) (srcs c ops i) (Ok cg) = Ok cgf -> counts_code cgf.
Proof.
  induction 1 as [|o t Ho Ht IH]; intros i cg cgf I F.
  - unfold srcs in F. cbn in F. destruct (strips_debug c); cbn in F; injection F as <-; exact I.
  - rewrite srcs_cons in F. destruct (strips_debug c && is_debugging_op (o_cls o)).
    + apply (IH (S i) cg cgf I F).
    + cbn [fold_left] in F.
      destruct (convert_step st (Ok cg) (i, o)) as [cg1|e] eqn:S1; [|rewrite fold_raise in F; discriminate F].
      apply (IH (S i) cg1 cgf); [eapply convert_step_counts; eassumption|exact F].
Qed.

(* ---- every label is the index of the next emitted instruction ---------------------------------------- *)
Theorem label_is_next_instruction c st pre name cgp :
  Forall clean_op pre ->
  fold_left (convert_step st) (srcs c pre 0) (Ok (mkcv [] 0 [])) = Ok cgp ->
  let g := fold_left (get_labels_step c) pre (mkgl [] [] 0 (cs_data_start c) []) in
  dict_get (gl_st (get_labels_step c g (mkop O_LABEL [tok_sym name]))) name
  = Some (SLabel (Z.of_nat (List.length (filter code_cop (cv_out cgp))))).
Proof.
  intros Hc F g. rewrite gl_LABEL. f_equal. f_equal.
  unfold g. rewrite (lockstep c st pre Hc 0 (mkgl [] [] 0 (cs_data_start c) []) (mkcv [] 0 []) cgp eq_refl F).
  exact (convert_counts st c pre Hc 0 (mkcv [] 0 []) cgp eq_refl F).
Qed.

(* the same for the prefix of a longer program: converting the whole program succeeded, so
   converting the prefix did *)
Lemma fold_ok_prefix st l1 l2 acc r : fold_left (convert_step st) (l1 ++ l2) acc = Ok r ->
  exists r1, fold_left (convert_step st) l1 acc = Ok r1.
Proof.
  rewrite fold_left_app. destruct (fold_left (convert_step st) l1 acc) as [r1|e]; [eexists; reflexivity|].
  rewrite fold_raise. discriminate.
Qed.

Lemma enumerate_app {A} (l1 l2 : list A) i : enumerate (l1 ++ l2) i = enumerate l1 i ++ enumerate l2 (i + List.length l1).
Proof.
  revert i. induction l1 as [|x t IH]; intros i; cbn [app enumerate List.length].
  - now rewrite Nat.add_0_r.
  - rewrite IH. do 3 f_equal. lia.
Qed.

Lemma srcs_app c l1 l2 i : srcs c (l1 ++ l2) i = srcs c l1 i ++ srcs c l2 (i + List.length l1).
Proof. unfold srcs. rewrite enumerate_app. destruct (strips_debug c); [apply filter_app|reflexivity]. Qed.

Theorem layout c st ops pre name post cgf :
  ops = pre ++ mkop O_LABEL [tok_sym name] :: post ->
  Forall clean_op ops ->
  fold_left (convert_step st) (srcs c ops 0) (Ok (mkcv [] 0 [])) = Ok cgf ->
  exists cgp, fold_left (convert_step st) (srcs c pre 0) (Ok (mkcv [] 0 [])) = Ok cgp /\
    (* the instructions emitted for the operations before the label are a prefix of the output *)
    (exists rest, cv_out cgf = cv_out cgp ++ rest) /\
    let g := fold_left (get_labels_step c) pre (mkgl [] [] 0 (cs_data_start c) []) in
    dict_get (gl_st (get_labels_step c g (mkop O_LABEL [tok_sym name]))) name
    = Some (SLabel (Z.of_nat (List.length (filter code_cop (cv_out cgp))))).
Proof.
  intros -> Hc F. rewrite srcs_app in F.
  destruct (fold_ok_prefix _ _ _ _ _ F) as [cgp P]. exists cgp. split; [exact P|]. split.
  - rewrite fold_left_app, P in F. clear -F.
    revert cgp F. generalize (srcs c (mkop O_LABEL [tok_sym name] :: post) (0 + List.length pre)).
    induction l as [|[i o] t IH]; intros cgp F; cbn [fold_left] in F.
    + injection F as <-. exists []. now rewrite app_nil_r.
    + destruct (convert_step st (Ok cgp) (i, o)) as [cg1|e] eqn:S1; [|rewrite fold_raise in F; discriminate F].
      destruct (IH cg1 F) as [rest R].
      assert (exists mid, cv_out cg1 = cv_out cgp ++ mid) as [mid M].
      { clear -S1. unfold convert_step in S1. cbn [rbind] in S1.
        repeat match type of S1 with
               | (match ?x with _ => _ end) = _ => destruct x; try discriminate S1
               | (if ?x then _ else _) = _ => destruct x; try discriminate S1
               | rbind ?x _ = _ => unfold rbind in S1
               end;
          injection S1 as <-; cbn [cv_out]; eexists; reflexivity. }
      exists (mid ++ rest). rewrite R, M. now rewrite app_assoc.
  - apply (label_is_next_instruction c st pre name cgp); [|exact P].
    apply Forall_app in Hc. exact (proj1 Hc).
Qed.

(* ---- a program the checker accepts consists of clean operations --------------------------------------- *)
Lemma has_errors_app a b : has_errors (a ++ b) = has_errors a || has_errors b.
Proof. unfold has_errors. apply existsb_app. Qed.

Lemma op_clean o st ao : has_errors (op_typecheck o st ao) = false -> clean_op o.
Proof.
  intros H. exists st. unfold op_typecheck in H.
  destruct (o_cls o); try exact H;
    repeat (rewrite has_errors_app in H; apply orb_false_iff in H as [H ?]); try exact H.
  (* OPCODE *)
  destruct (has_errors (default_typecheck o st)) eqn:B; [congruence|reflexivity].
Qed.

Lemma typecheck_fold_clean c ops : forall t,
  has_errors (tc_msgs (fold_left (typecheck_step c) ops t)) = false ->
  has_errors (tc_msgs t) = false /\ Forall clean_op ops.
Proof.
  induction ops as [|o r IH]; intros t H; cbn [fold_left] in H; [split; [exact H|constructor]|].
  destruct (IH _ H) as [H1 F]. unfold typecheck_step in H1. cbv zeta in H1. cbn [tc_msgs] in H1.
  rewrite !has_errors_app in H1. repeat (apply orb_false_iff in H1 as [H1 ?]).
  split; [exact H1|]. constructor; [|exact F].
  match goal with X : has_errors (op_typecheck o _ _) || _ = false |- _ => apply orb_false_iff in X as [X _]; exact (op_clean _ _ _ X) end.
Qed.

Theorem accepted_is_clean c ops st msgs : typecheck c ops = (st, msgs) -> has_errors msgs = false ->
  Forall clean_op ops.
Proof.
  unfold typecheck. destruct (get_labels c ops) as [st0 m1]. intros E H. injection E as _ <-.
  exact (proj2 (typecheck_fold_clean c ops _ H)).
Qed.
