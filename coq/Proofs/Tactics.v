(* Tactics.v — shared proof automation for the instruction-level theorems. *)
From Coq Require Import ZArith List Bool String Lia ZifyBool.
From Hera.Lib Require Import Py Machine Word16.
From Hera.Gen Require Import Utils Vm.
From Hera.Spec Require Import ISA Wf.
From Hera.Proofs Require Import VmLemmas.
Import ListNotations.
Open Scope Z_scope.

Ltac Zify.zify_post_hook ::= Z.to_euclidean_division_equations.

Lemma from_u16_PI x : from_u16 (PI x) = PI (if x >=? 32768 then - (65536 - x) else x).
Proof. unfold from_u16. msimpl. destruct (x >=? 32768); reflexivity. Qed.

Ltac destruct_ifs :=
  repeat match goal with
         | |- context [if ?c then _ else _] => destruct c eqn:?
         end.

(* structural equality of results/states down to the arithmetic leaves, closed by lia *)
Ltac st_eq :=
  try reflexivity;
  lazymatch goal with
  | |- Ok _ = Ok _ => f_equal; st_eq
  | |- (_, _) = (_, _) => f_equal; st_eq
  | |- mkvm _ _ _ _ _ _ _ _ _ _ _ _ _ _ _ _ _ _ _ _ _ _ = _ => f_equal; st_eq
  | |- mkmem _ _ = _ => f_equal; st_eq
  | |- PB _ = PB _ => f_equal; st_eq
  | |- PI _ = PI _ => f_equal; st_eq
  | |- list_set _ _ _ = list_set _ _ _ => f_equal; st_eq
  | |- _ :: _ = _ :: _ => f_equal; st_eq
  | |- @eq bool _ _ => destruct_ifs; lia
  | |- @eq Z _ _ => destruct_ifs; lia
  end.

Lemma to_u16_val x : -32768 <= x < 65536 -> to_u16 (PI x) = Ok (PI (x mod 65536)).
Proof.
  intros H. unfold to_u16, rret, rraise. msimpl.
  destruct (x >=? 65536) eqn:E1; [lia|].
  destruct (x <? -32768) eqn:E2; [lia|]. cbn [negb].
  destruct (x <? 0) eqn:E3; cbn [negb]; st_eq.
Qed.

Lemma to_u16_word x s : -32768 <= x < 65536 ->
  lift (to_u16 (PI x)) s = Ok (PI (x mod 65536), s).
Proof. intros H. unfold lift. now rewrite to_u16_val. Qed.

Ltac norm_words :=
  rewrite ?land_65535, ?land_255, ?land_1, ?from_u16_PI.

Ltac bsimpl := cbn [andb orb negb xorb Z.b2z fst snd].

(* the flags of a well-formed state are booleans *)
Definition wf_flags (s : vm) : Prop :=
  is_bool (f_s s) /\ is_bool (f_z s) /\ is_bool (f_v s) /\ is_bool (f_c s) /\ is_bool (f_cb s).

Lemma wf_vm_flags s : wf_vm s -> wf_flags s.
Proof. intros []. repeat split; assumption. Qed.

(* expose a state as an explicit record whose flags are PB _ *)
Ltac expose_state s Hf :=
  let r := fresh "r" in let p := fresh "p" in let d := fresh "d" in
  let fs := fresh "fs" in let fz := fresh "fz" in let fv := fresh "fv" in
  let fc := fresh "fc" in let fcb := fresh "fcb" in
  destruct s as [r p d fs fz fv fc fcb ? ? ? ? ? ? ? ? ? ? ? ? ? ?];
  destruct Hf as ([bs ?] & [bz ?] & [bv ?] & [bc ?] & [bcb ?]);
  cbn [f_s f_z f_v f_c f_cb] in *; subst fs fz fv fc fcb.

(* one monadic step whose result is known by a lemma or by computation *)
Ltac mstep tac := erewrite bind_Ok by tac; cbv zeta; proj_simpl.

(* expose the integer / boolean content of pv expressions built from literals *)
Ltac pynorm :=
  unfold py_add, py_sub, py_mul, py_neg, py_floordiv, py_mod, py_shl, py_shr, py_band, py_bor,
         py_bxor, py_lt, py_le, py_gt, py_ge, py_eq, py_ne, py_not, py_bool, py_int;
  cbn [as_int truthy py_eqb].

(* equality of two states built by the same tower of updates: peel the tower, prove the
   leaves by arithmetic *)
Ltac S_eq :=
  try reflexivity;
  lazymatch goal with
  | |- Ok _ = Ok _ => f_equal; S_eq
  | |- (_, _) = (_, _) => f_equal; S_eq
  | |- upd_regs _ _ = upd_regs _ _ => f_equal; S_eq
  | |- upd_pc _ _ = upd_pc _ _ => f_equal; S_eq
  | |- upd_dc _ _ = upd_dc _ _ => f_equal; S_eq
  | |- upd_f_s _ _ = upd_f_s _ _ => f_equal; S_eq
  | |- upd_f_z _ _ = upd_f_z _ _ => f_equal; S_eq
  | |- upd_f_v _ _ = upd_f_v _ _ => f_equal; S_eq
  | |- upd_f_c _ _ = upd_f_c _ _ => f_equal; S_eq
  | |- upd_f_cb _ _ = upd_f_cb _ _ => f_equal; S_eq
  | |- upd_mem _ _ = upd_mem _ _ => f_equal; S_eq
  | |- upd_halted _ _ = upd_halted _ _ => f_equal; S_eq
  | |- upd_ers _ _ = upd_ers _ _ => f_equal; S_eq
  | |- upd_out _ _ = upd_out _ _ => f_equal; S_eq
  | |- upd_swarning_count _ _ = upd_swarning_count _ _ => f_equal; S_eq
  | |- setreg _ _ _ = setreg _ _ _ => f_equal; S_eq
  | |- set_zs _ _ = set_zs _ _ => f_equal; S_eq
  | |- mem_write _ _ _ = mem_write _ _ _ => f_equal; S_eq
  | |- mem_read _ _ = mem_read _ _ => f_equal; S_eq
  | |- PB _ = PB _ => f_equal; S_eq
  | |- PI _ = PI _ => f_equal; S_eq
  | |- _ :: _ = _ :: _ => f_equal; S_eq
  | |- _ ++ _ = _ ++ _ => f_equal; S_eq
  | |- @eq bool _ _ => destruct_ifs; lia
  | |- @eq Z _ _ => destruct_ifs; lia
  end.
