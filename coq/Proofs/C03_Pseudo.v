(* C03_Pseudo.v — each pseudo-operation's expansion (Gen/Convert.v, regenerated from the
   convert methods of hera/op.py), executed by the code model, has exactly the documented
   effect as a whole. *)
From Coq Require Import ZArith List Bool String Lia ZifyBool.
From Hera.Lib Require Import Py Machine Word16.
From Hera.Gen Require Import Utils Vm Ops Convert.
From Hera.Spec Require Import ISA Wf PseudoSpec.
From Hera.Model Require Import OpRep InstrOf Bitvec.
From Hera.Proofs Require Import VmLemmas Tactics SpecLemmas C01_ALU C01_MUL C01_Shift C01_Misc C01_Branch
     C01_All C02_Step.
Import ListNotations.
Open Scope Z_scope.

Ltac Zify.zify_post_hook ::= Z.to_euclidean_division_equations.
Arguments to_u16 : simpl never.
Arguments Z.modulo : simpl never.
Arguments Z.div : simpl never.

(* executing a list of (real) operations one after the other *)
Fixpoint run_ops (ops : list op) : M unit :=
  match ops with
  | [] => ret tt
  | o :: t => bind (exec (o_cls o) (o_args o)) (fun _ => run_ops t)
  end.

Lemma list_set_twice {A} (l : list A) n x y : list_set (list_set l n x) n y = list_set l n y.
Proof. revert n; induction l as [|h t IH]; intros [|n]; cbn; auto. now rewrite IH. Qed.

Lemma regs_setreg_twice d x y s : regs (setreg d y (setreg d x s)) = regs (setreg d y s).
Proof. rewrite !regs_setreg. destruct (d =? 0); [reflexivity|]. apply list_set_twice. Qed.

(* normalise projections of towers of updates *)
Ltac pnorm :=
  repeat (progress (autorewrite with spec;
                    cbn [regs pc dc f_s f_z f_v f_c f_cb mem halted ers op_count warned_ovf warned_swi
                         warned_rti warning_count swarning_count location input_buffer input_pos out cfg
                         upd_regs upd_pc upd_dc upd_f_s upd_f_z upd_f_v upd_f_c upd_f_cb upd_mem
                         upd_halted upd_ers upd_op_count upd_warned_ovf upd_warning_count
                         upd_swarning_count upd_location upd_out set_zs next adv])).

Ltac wf_after W i :=
  apply (step_wf_spec (PB false) (PB false) i);
  [ exact W | eexists; reflexivity | eexists; reflexivity
  | cbn [valid_instr]; unfold reg_ok, in_range, reg_ix in *; lia
  | exact I ].

Ltac expose_exec := cbn [run_ops o_cls o_args o_toks map t_val R N tok_reg tok_int]; cbv beta iota delta [exec].

(* operand access on concrete operand lists *)
Lemma toks1_0 c a : tokens_at (mkop c [a]) 0 = Ok a.              Proof. reflexivity. Qed.
Lemma toks2_0 c a b : tokens_at (mkop c [a; b]) 0 = Ok a.         Proof. reflexivity. Qed.
Lemma toks2_1 c a b : tokens_at (mkop c [a; b]) 1 = Ok b.         Proof. reflexivity. Qed.
Lemma oargs1_0 c a : oargs_at (mkop c [a]) 0 = Ok (t_val a).      Proof. reflexivity. Qed.
Lemma oargs2_0 c a b : oargs_at (mkop c [a; b]) 0 = Ok (t_val a). Proof. reflexivity. Qed.
Lemma oargs2_1 c a b : oargs_at (mkop c [a; b]) 1 = Ok (t_val b). Proof. reflexivity. Qed.
Ltac toks_simpl :=
  rewrite ?toks1_0, ?toks2_0, ?toks2_1, ?oargs1_0, ?oargs2_0, ?oargs2_1;
  cbn [rbind rret t_val t_type R N tok_reg tok_int ttype_eqb].

(* ---- SET ------------------------------------------------------------------------------------ *)
Lemma convert_SET_ok d v : -32768 <= v < 65536 ->
  convert_SET (mkop O_SET [R d; N v]) =
  Ok [mkop O_SETLO [R d; N ((v mod 65536) mod 256)]; mkop O_SETHI [R d; N ((v mod 65536) / 256)]].
Proof.
  intros Hv. unfold convert_SET. toks_simpl.
  rewrite to_u16_val by lia. cbn [rbind]. unfold py_band, py_shr. cbn [as_int].
  rewrite land_255, shiftr_div by lia. reflexivity.
Qed.

Lemma SET_run d v s : wf_vm s -> reg_ix d -> -32768 <= v < 65536 ->
  exists s', run_ops [mkop O_SETLO [R d; N ((v mod 65536) mod 256)];
                      mkop O_SETHI [R d; N ((v mod 65536) / 256)]] s = Ok (tt, s')
             /\ wf_vm s' /\ arch_eq s' (ps_SET d v s) /\ (d <> 15 -> sp_quiet s' s).
Proof.
  intros W Hd Hv. expose_exec.
  set (lo := (v mod 65536) mod 256). set (hi := (v mod 65536) / 256).
  assert (Hlo : 0 <= lo < 256) by (subst lo; lia).
  assert (Hhi : 0 <= hi < 256) by (subst hi; lia).
  mstep ltac:(apply exec_SETLO_ok; [exact W|exact Hd|lia]).
  assert (W1 : wf_vm (step_SETLO d lo s)) by wf_after W (I_SETLO d lo).
  mstep ltac:(apply exec_SETHI_ok; [exact W1|exact Hd|lia]).
  assert (W2 : wf_vm (step_SETHI d hi (step_SETLO d lo s))) by wf_after W1 (I_SETHI d hi).
  eexists. split; [reflexivity|]. split; [exact W2|].
  unfold step_SETHI, step_SETLO, ps_SET, byte_of, sext8.
  pose proof (wf_r _ W) as [Hl _].
  split.
  - unfold arch_eq. pnorm. repeat split; try reflexivity; try lia.
    destruct (Z.eq_dec d 0) as [->|Hd0]; [reflexivity|].
    rewrite !regs_setreg. change (d =? 0) with (d =? 0).
    destruct (d =? 0) eqn:E0; [lia|].
    change (regs (next (setreg d ((if lo mod 256 <? 128 then lo mod 256 else lo mod 256 - 256) mod 65536) s)))
      with (regs (setreg d ((if lo mod 256 <? 128 then lo mod 256 else lo mod 256 - 256) mod 65536) s)).
    rewrite regs_setreg, E0, list_set_twice. f_equal.
    change (getreg (next ?x) d) with (getreg x d).
    rewrite getreg_setreg_same by assumption.
    subst lo hi. destruct_ifs; lia.
  - intros H15. unfold sp_quiet, setreg, next.
    destruct (d =? 0) eqn:E0; [repeat split|].
    replace (d =? 15) with false by lia. cbn [andb]. repeat split.
Qed.

Theorem SET_meaning d v s : wf_vm s -> reg_ix d -> -32768 <= v < 65536 ->
  exists ops s', convert_full (mkop O_SET [R d; N v]) = Ok ops /\ List.length ops = 2%nat /\
                 run_ops ops s = Ok (tt, s') /\ wf_vm s' /\
                 arch_eq s' (ps_SET d v s) /\ (d <> 15 -> sp_quiet s' s).
Proof.
  intros W Hd Hv. destruct (SET_run d v s W Hd Hv) as (s' & E & W' & A & Q).
  eexists; exists s'. split; [unfold convert_full; cbn [o_cls]; unfold convert; cbn [o_cls]; apply convert_SET_ok; exact Hv|].
  split; [reflexivity|]. split; [exact E|]. split; [exact W'|]. split; assumption.
Qed.

(* ---- single-instruction pseudo-ops: CON COFF CBON CCBOFF HALT NOP MOVE ------------------------ *)
Theorem CON_meaning s : wf_vm s ->
  exists s', convert_full (mkop O_CON []) = Ok [mkop O_FON [N 8]] /\
             run_ops [mkop O_FON [N 8]] s = Ok (tt, s') /\ s' = ps_CON s.
Proof.
  intros W. eexists. split; [reflexivity|]. expose_exec.
  mstep ltac:(apply exec_FON_ok; [exact W|lia]). split; [reflexivity|].
  pose proof (wf_vm_flags _ W) as Hf. clear W. expose_state s Hf.
  unfold step_FON, ps_CON, adv, next, flag. cbn. destruct bs, bz, bv, bc, bcb; reflexivity.
Qed.

Theorem COFF_meaning s : wf_vm s ->
  exists s', convert_full (mkop O_COFF []) = Ok [mkop O_FOFF [N 8]] /\
             run_ops [mkop O_FOFF [N 8]] s = Ok (tt, s') /\ s' = ps_COFF s.
Proof.
  intros W. eexists. split; [reflexivity|]. expose_exec.
  mstep ltac:(apply exec_FOFF_ok; [exact W|lia]). split; [reflexivity|].
  pose proof (wf_vm_flags _ W) as Hf. clear W. expose_state s Hf.
  unfold step_FOFF, ps_COFF, adv, next, flag. cbn. destruct bs, bz, bv, bc, bcb; reflexivity.
Qed.

Theorem CBON_meaning s : wf_vm s ->
  exists s', convert_full (mkop O_CBON []) = Ok [mkop O_FON [N 16]] /\
             run_ops [mkop O_FON [N 16]] s = Ok (tt, s') /\ s' = ps_CBON s.
Proof.
  intros W. eexists. split; [reflexivity|]. expose_exec.
  mstep ltac:(apply exec_FON_ok; [exact W|lia]). split; [reflexivity|].
  pose proof (wf_vm_flags _ W) as Hf. clear W. expose_state s Hf.
  unfold step_FON, ps_CBON, adv, next, flag. cbn. destruct bs, bz, bv, bc, bcb; reflexivity.
Qed.

Theorem CCBOFF_meaning s : wf_vm s ->
  exists s', convert_full (mkop O_CCBOFF []) = Ok [mkop O_FOFF [N 24]] /\
             run_ops [mkop O_FOFF [N 24]] s = Ok (tt, s') /\ s' = ps_CCBOFF s.
Proof.
  intros W. eexists. split; [reflexivity|]. expose_exec.
  mstep ltac:(apply exec_FOFF_ok; [exact W|lia]). split; [reflexivity|].
  pose proof (wf_vm_flags _ W) as Hf. clear W. expose_state s Hf.
  unfold step_FOFF, ps_CCBOFF, adv, next, flag. cbn. destruct bs, bz, bv, bc, bcb; reflexivity.
Qed.

Theorem HALT_meaning s : wf_vm s ->
  exists s', convert_full (mkop O_HALT []) = Ok [mkop O_BRR [N 0]] /\
             run_ops [mkop O_BRR [N 0]] s = Ok (tt, s') /\ s' = ps_HALT s.
Proof.
  intros W. eexists. split; [reflexivity|]. expose_exec.
  mstep ltac:(apply exec_BRR_ok; [exact W|lia]). split; reflexivity.
Qed.

Theorem NOP_meaning s : wf_vm s ->
  exists s', convert_full (mkop O_NOP []) = Ok [mkop O_BRR [N 1]] /\
             run_ops [mkop O_BRR [N 1]] s = Ok (tt, s') /\ s' = ps_NOP s.
Proof.
  intros W. eexists. split; [reflexivity|]. expose_exec.
  mstep ltac:(apply exec_BRR_ok; [exact W|lia]). split; reflexivity.
Qed.

Lemma lor_0_r_word x : Z.lor x 0 = x. Proof. apply Z.lor_0_r. Qed.

Theorem MOVE_meaning a b s : wf_vm s -> reg_ix a -> reg_ix b ->
  exists s', convert_full (mkop O_MOVE [R a; R b]) = Ok [mkop O_OR [R a; R b; R 0]] /\
             run_ops [mkop O_OR [R a; R b; R 0]] s = Ok (tt, s') /\ s' = ps_MOVE a b s.
Proof.
  intros W Ha Hb. eexists. split; [reflexivity|]. expose_exec.
  assert (H0 : reg_ix 0) by (unfold reg_ix; lia).
  mstep ltac:(apply exec_OR_ok; assumption). split; [reflexivity|].
  unfold step_OR, alu3, f_OR, ps_MOVE, adv. cbn [fst snd].
  assert (E0 : getreg s 0 = 0) by (destruct W as [[_ [_ H]] _ _ _ _ _ _ _ _]; exact H).
  rewrite E0, Z.lor_0_r. reflexivity.
Qed.

(* ---- CMP / NEG / FLAGS ---------------------------------------------------------------------- *)
Lemma getreg_0 s : wf_vm s -> getreg s 0 = 0.
Proof. intros [[_ [_ H]] _ _ _ _ _ _ _ _]. exact H. Qed.

(* facts about the state after FON(8) / FOFF(8) *)
Lemma FON8_state s : wf_vm s -> step_FON 8 s = adv 1 (upd_f_c (PB true) s).
Proof.
  intros W. pose proof (wf_vm_flags _ W) as Hf. clear W. expose_state s Hf.
  unfold step_FON, adv, next, flag. cbn. destruct bs, bz, bv, bc, bcb; reflexivity.
Qed.
Lemma FOFF8_state s : wf_vm s -> step_FOFF 8 s = adv 1 (upd_f_c (PB false) s).
Proof.
  intros W. pose proof (wf_vm_flags _ W) as Hf. clear W. expose_state s Hf.
  unfold step_FOFF, adv, next, flag. cbn. destruct bs, bz, bv, bc, bcb; reflexivity.
Qed.

Theorem CMP_meaning a b s : wf_vm s -> reg_ix a -> reg_ix b ->
  exists s', convert_full (mkop O_CMP [R a; R b]) = Ok [mkop O_FON [N 8]; mkop O_SUB [R 0; R a; R b]] /\
             run_ops [mkop O_FON [N 8]; mkop O_SUB [R 0; R a; R b]] s = Ok (tt, s') /\ s' = ps_CMP a b s.
Proof.
  intros W Ha Hb. eexists. split; [reflexivity|]. expose_exec.
  assert (H0 : reg_ix 0) by (unfold reg_ix; lia).
  mstep ltac:(apply exec_FON_ok; [exact W|lia]).
  assert (W1 : wf_vm (step_FON 8 s)) by wf_after W (I_FON 8).
  mstep ltac:(apply exec_SUB_ok; assumption). split; [reflexivity|].
  rewrite (FON8_state s W).
  unfold step_SUB, alu3, f_SUB, ps_CMP, sub_flags, adv, next, bin, flag, set_zs. cbn [fst snd].
  rewrite setreg_R0. unfold getreg. pnorm.
  set (x := nth (Z.to_nat a) (regs s) 0). set (y := nth (Z.to_nat b) (regs s) 0). clearbody x y.
  destruct s. msimpl. rewrite !Z.sub_0_r. st_eq.
Qed.


(* brute-force comparison of two update towers on an exposed state: unfold setreg, split on
   every condition, compare the records field by field *)
Ltac towers_eq :=
  unfold setreg, flag; msimpl; rewrite ?Z.sub_0_r, ?Z.add_0_r;
  repeat match goal with |- context [if ?c then _ else _] => destruct c eqn:? end;
  msimpl; st_eq.

Theorem NEG_meaning d a s : wf_vm s -> reg_ix d -> reg_ix a ->
  exists s', convert_full (mkop O_NEG [R d; R a]) = Ok [mkop O_FON [N 8]; mkop O_SUB [R d; R 0; R a]] /\
             run_ops [mkop O_FON [N 8]; mkop O_SUB [R d; R 0; R a]] s = Ok (tt, s') /\ s' = ps_NEG d a s.
Proof.
  intros W Hd Ha. eexists. split; [reflexivity|]. expose_exec.
  assert (H0 : reg_ix 0) by (unfold reg_ix; lia).
  mstep ltac:(apply exec_FON_ok; [exact W|lia]).
  assert (W1 : wf_vm (step_FON 8 s)) by wf_after W (I_FON 8).
  mstep ltac:(apply exec_SUB_ok; assumption). split; [reflexivity|].
  rewrite (FON8_state s W).
  unfold step_SUB, alu3, f_SUB, ps_NEG, sub_flags, adv, next, bin, set_zs. cbn [fst snd].
  unfold getreg. pnorm.
  pose proof (getreg_0 s W) as E0. unfold getreg in E0. cbn [Z.to_nat] in *. rewrite E0.
  set (y := nth (Z.to_nat a) (regs s) 0). clearbody y.
  pose proof (wf_vm_flags _ W) as Hf. clear W W1 E0. expose_state s Hf.
  towers_eq.
Qed.

Theorem FLAGS_meaning a s : wf_vm s -> reg_ix a ->
  exists s', convert_full (mkop O_FLAGS [R a]) = Ok [mkop O_FOFF [N 8]; mkop O_ADD [R 0; R a; R 0]] /\
             run_ops [mkop O_FOFF [N 8]; mkop O_ADD [R 0; R a; R 0]] s = Ok (tt, s') /\ s' = ps_FLAGS a s.
Proof.
  intros W Ha. eexists. split; [reflexivity|]. expose_exec.
  assert (H0 : reg_ix 0) by (unfold reg_ix; lia).
  mstep ltac:(apply exec_FOFF_ok; [exact W|lia]).
  assert (W1 : wf_vm (step_FOFF 8 s)) by wf_after W (I_FOFF 8).
  mstep ltac:(apply exec_ADD_ok; assumption). split; [reflexivity|].
  rewrite (FOFF8_state s W).
  unfold step_ADD, alu3, f_ADD, ps_FLAGS, flags_of_value, adv, next, cin, set_zs. cbn [fst snd].
  rewrite setreg_R0. unfold getreg. pnorm.
  pose proof (getreg_0 s W) as E0. unfold getreg in E0. cbn [Z.to_nat] in *. rewrite E0.
  pose proof (getreg_word s a W Ha) as Hx. unfold getreg in Hx.
  set (x := nth (Z.to_nat a) (regs s) 0) in *. clearbody x. unfold word in Hx.
  pose proof (wf_vm_flags _ W) as Hf. clear W W1 E0. expose_state s Hf.
  unfold fits16s, sgn16. towers_eq.
Qed.

(* ---- SETLO;SETHI on a register other than R0 / SP: an exact 16-bit load ---------------------- *)
Lemma set_prefix k lo hi s : wf_vm s -> 0 < k < 15 -> 0 <= lo < 256 -> 0 <= hi < 256 ->
  step_SETHI k hi (step_SETLO k lo s) = adv 2 (setreg k (256 * hi + lo) s).
Proof.
  intros W Hk Hlo Hhi. pose proof (wf_r _ W) as [Hl _].
  unfold step_SETHI, step_SETLO, next, adv, byte_of, sext8.
  assert (Hg : getreg (upd_pc (pc (setreg k ((if lo mod 256 <? 128 then lo mod 256 else lo mod 256 - 256) mod 65536) s) + 1)
                         (setreg k ((if lo mod 256 <? 128 then lo mod 256 else lo mod 256 - 256) mod 65536) s)) k
               = (if lo mod 256 <? 128 then lo mod 256 else lo mod 256 - 256) mod 65536).
  { change (getreg (upd_pc ?p ?x) k) with (getreg x k).
    apply getreg_setreg_same; [exact Hl|unfold reg_ix; lia|lia]. }
  rewrite Hg. clear Hg.
  assert (Ev : 256 * (hi mod 256) + ((if lo mod 256 <? 128 then lo mod 256 else lo mod 256 - 256) mod 65536) mod 256
               = 256 * hi + lo) by (destruct_ifs; lia).
  rewrite Ev. clear Ev.
  set (m := (if lo mod 256 <? 128 then lo mod 256 else lo mod 256 - 256) mod 65536). clearbody m.
  unfold setreg. replace (k =? 0) with false by lia. replace (k =? 15) with false by lia. cbn [andb].
  destruct s. msimpl. rewrite list_set_twice. st_eq.
Qed.

Lemma lxor_65535 x : word x -> Z.lxor 65535 x = 65535 - x.
Proof.
  intros Hx.
  assert (H := range_forall (fun w => Z.lxor 65535 w =? 65535 - w) 0 65536).
  apply Z.eqb_eq. apply H; [vm_compute; reflexivity | exact Hx].
Qed.

Theorem NOT_meaning d a s : wf_vm s -> reg_ix d -> reg_ix a -> a <> 11 ->
  exists s', convert_full (mkop O_NOT [R d; R a])
               = Ok [mkop O_SETLO [R 11; N 255]; mkop O_SETHI [R 11; N 255]; mkop O_XOR [R d; R 11; R a]] /\
             run_ops [mkop O_SETLO [R 11; N 255]; mkop O_SETHI [R 11; N 255]; mkop O_XOR [R d; R 11; R a]] s
               = Ok (tt, s') /\ s' = ps_NOT d a s.
Proof.
  intros W Hd Ha Hn. eexists. split; [reflexivity|]. expose_exec.
  assert (H11 : reg_ix 11) by (unfold reg_ix; lia).
  mstep ltac:(apply exec_SETLO_ok; [exact W|exact H11|lia]).
  assert (W1 : wf_vm (step_SETLO 11 255 s)) by wf_after W (I_SETLO 11 255).
  mstep ltac:(apply exec_SETHI_ok; [exact W1|exact H11|lia]).
  assert (W2 : wf_vm (step_SETHI 11 255 (step_SETLO 11 255 s))) by wf_after W1 (I_SETHI 11 255).
  mstep ltac:(apply exec_XOR_ok; assumption). split; [reflexivity|].
  rewrite (set_prefix 11 255 255 s W) by lia. change (256 * 255 + 255) with 65535.
  pose proof (wf_r _ W) as [Hl _].
  unfold step_XOR, alu3, f_XOR, ps_NOT, adv, next. cbn [fst snd].
  change (getreg (upd_pc ?p ?x)) with (getreg x).
  rewrite (getreg_setreg_same 11 65535 s Hl H11) by lia.
  rewrite (getreg_setreg_other 11 a 65535 s H11 Ha) by lia.
  rewrite (lxor_65535 _ (getreg_word s a W Ha)).
  set (x := getreg s a). clearbody x.
  unfold set_zs.
  pose proof (wf_vm_flags _ W) as Hf. clear W W1 W2. expose_state s Hf.
  unfold setreg at 2 4. change (11 =? 0) with false. change (11 =? 15) with false. cbn [andb].
  towers_eq.
Qed.
