(* C19_Routines.v — the register-convention library routines `size` and `ord`, as instruction
   sequences of the specification machine: what they compute and what they leave untouched, for
   every machine state.  The instruction lists are compared with what the real parser and
   preprocessor produce from hera/stdlib.py by the C19 correspondence. *)
From Coq Require Import ZArith List Bool Lia.
From Hera.Lib Require Import Py Machine Word16.
From Hera.Spec Require Import ISA Wf.
From Hera.Proofs Require Import SpecLemmas.
Import ListNotations.
Open Scope Z_scope.

Definition size_reg_code : list instr := [I_LOAD 1 0 1; I_RETURN 12 13].
Definition ord_reg_code : list instr := [I_LOAD 1 1 1; I_RETURN 12 13].

Definition run_list (l : list instr) (s : vm) : vm := fold_left (fun st i => step i st) l s.

Lemma getreg_return_warning s g r : getreg (return_warning s g) r = getreg s r.
Proof.
  unfold return_warning. destruct (warn_return_on (cfg s)); [|reflexivity].
  destruct (rev (ers s)) as [|[a e] t]; [reflexivity|]. destruct (e =? g); reflexivity.
Qed.
Lemma mem_return_warning s g : mem (return_warning s g) = mem s.
Proof.
  unfold return_warning. destruct (warn_return_on (cfg s)); [|reflexivity].
  destruct (rev (ers s)) as [|[a e] t]; [reflexivity|]. destruct (e =? g); reflexivity.
Qed.
Lemma regs_len_return_warning s g : List.length (regs (return_warning s g)) = List.length (regs s).
Proof.
  unfold return_warning. destruct (warn_return_on (cfg s)); [|reflexivity].
  destruct (rev (ers s)) as [|[a e] t]; [reflexivity|]. destruct (e =? g); reflexivity.
Qed.

(* LOAD(R1, k, R1); RETURN(FP_alt, PC_ret): R1 := memory[R1 + k]; back to the caller; the
   frame pointer the caller saved in FP_alt is restored; nothing else changes *)
Theorem load_return_contract k s : List.length (regs s) = 16%nat ->
  let s' := run_list [I_LOAD 1 k 1; I_RETURN 12 13] s in
  getreg s' 1 = mem_read (mem s) ((getreg s 1 + k) mod 65536) /\
  pc s' = getreg s 13 /\                                  (* returns to its caller *)
  getreg s' 14 = getreg s 12 /\                           (* the caller's frame pointer is back *)
  getreg s' 15 = getreg s 15 /\                           (* stack pointer untouched *)
  mem s' = mem s /\
  (forall r, 2 <= r <= 11 -> getreg s' r = getreg s r).
Proof.
  intros L. cbn [run_list fold_left]. unfold step. cbn [step_with].
  unfold step_LOAD, ea, next. set (v := mem_read (mem s) ((getreg s 1 + k) mod 65536)).
  set (s1 := upd_pc _ (setreg 1 v (set_zs v s))).
  assert (L1 : List.length (regs s1) = 16%nat) by (unfold s1; cbn [regs upd_pc]; apply regs_len_setreg; exact L).
  assert (G1 : forall r, reg_ix r -> r <> 1 -> getreg s1 r = getreg s r).
  { intros r Hr Hn. unfold s1, getreg. cbn [regs upd_pc]. fold (getreg (setreg 1 v (set_zs v s)) r).
    rewrite getreg_setreg_other by (unfold reg_ix in *; lia). reflexivity. }
  assert (G11 : getreg s1 1 = v).
  { unfold s1, getreg. cbn [regs upd_pc]. fold (getreg (setreg 1 v (set_zs v s)) 1).
    apply getreg_setreg_same; [exact L|unfold reg_ix; lia|lia]. }
  assert (M1 : mem s1 = mem s) by (unfold s1; cbn [mem upd_pc]; rewrite mem_setreg; reflexivity).
  unfold step_RETURN, swap_call. rewrite !getreg_return_warning.
  set (s2 := return_warning s1 (getreg s1 13)).
  assert (L2 : List.length (regs s2) = 16%nat) by (unfold s2; rewrite regs_len_return_warning; exact L1).
  assert (RI : forall r, 0 <= r < 16 -> reg_ix r) by (intros; unfold reg_ix; lia).
  set (t1 := setreg 13 (pc s2 + 1) s2). set (t2 := setreg 14 (getreg s1 12) t1). set (t3 := setreg 12 (getreg s1 14) t2).
  assert (Lt1 : List.length (regs t1) = 16%nat) by (apply regs_len_setreg, L2).
  assert (Lt2 : List.length (regs t2) = 16%nat) by (apply regs_len_setreg, Lt1).
  assert (Q : forall r, reg_ix r -> r <> 12 -> r <> 13 -> r <> 14 -> getreg t3 r = getreg s1 r).
  { intros r Hr N12 N13 N14. unfold t3, t2, t1.
    rewrite !getreg_setreg_other by (try apply RI; try lia; assumption).
    unfold s2. apply getreg_return_warning. }
  cbn [pc upd_pc mem]. fold t1 t2 t3.
  assert (G14 : getreg (upd_pc (getreg s1 13) t3) 14 = getreg s1 12).
  { change (getreg (upd_pc (getreg s1 13) t3) 14) with (getreg t3 14). unfold t3.
    rewrite getreg_setreg_other by (try apply RI; lia). unfold t2. apply getreg_setreg_same; [exact Lt1|apply RI; lia|lia]. }
  repeat split.
  - change (getreg (upd_pc (getreg s1 13) t3) 1) with (getreg t3 1). rewrite Q by (try apply RI; lia). exact G11.
  - apply G1; [apply RI; lia|lia].
  - rewrite G14. apply G1; [apply RI; lia|lia].
  - change (getreg (upd_pc (getreg s1 13) t3) 15) with (getreg t3 15). rewrite Q by (try apply RI; lia). apply G1; [apply RI; lia|lia].
  - change (mem (upd_pc (getreg s1 13) t3)) with (mem t3). unfold t3, t2, t1. rewrite !mem_setreg. unfold s2. rewrite mem_return_warning. exact M1.
  - intros r Hr. change (getreg (upd_pc (getreg s1 13) t3) r) with (getreg t3 r). rewrite Q by (try apply RI; lia). apply G1; [apply RI; lia|lia].
Qed.

Corollary size_reg_contract s : List.length (regs s) = 16%nat ->
  let s' := run_list size_reg_code s in
  getreg s' 1 = mem_read (mem s) (getreg s 1 mod 65536) /\ pc s' = getreg s 13 /\
  getreg s' 14 = getreg s 12 /\ getreg s' 15 = getreg s 15 /\ mem s' = mem s /\
  (forall r, 2 <= r <= 11 -> getreg s' r = getreg s r).
Proof. intros L. pose proof (load_return_contract 0 s L) as H. rewrite Z.add_0_r in H. exact H. Qed.

Corollary ord_reg_contract s : List.length (regs s) = 16%nat ->
  let s' := run_list ord_reg_code s in
  getreg s' 1 = mem_read (mem s) ((getreg s 1 + 1) mod 65536) /\ pc s' = getreg s 13 /\
  getreg s' 14 = getreg s 12 /\ getreg s' 15 = getreg s 15 /\ mem s' = mem s /\
  (forall r, 2 <= r <= 11 -> getreg s' r = getreg s r).
Proof. exact (load_return_contract 1 s). Qed.
