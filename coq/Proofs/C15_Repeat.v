(* C15_Repeat.v — runs are repeatable and isolated from earlier runs; throttling cuts a run
   at a prefix. *)
From Coq Require Import ZArith List Bool String Lia.
From Hera.Lib Require Import Py Machine Word16.
From Hera.Gen Require Import Utils Vm Ops.
From Hera.Spec Require Import ISA Wf.
From Hera.Model Require Import InstrOf Run.
From Hera.Proofs Require Import VmLemmas Tactics.
Import ListNotations.
Open Scope Z_scope.

(* what a machine keeps across reset(): only things that are not machine state — the settings
   object, the text already written to the terminal, and the settings' warning counter *)
Definition blank (c : settings) (o : list event) (sw : Z) : vm :=
  mkvm [] 0 0 PNone PNone PNone PNone PNone (mkmem 0 []) PNone [] 0 PNone PNone PNone 0 sw PNone [] 0 o c.

Theorem reset_forgets s : vm_reset s = vm_reset (blank (cfg s) (out s) (swarning_count s)).
Proof. destruct s. unfold vm_reset, blank. msimpl. reflexivity. Qed.

Corollary reset_const s1 s2 :
  cfg s1 = cfg s2 -> out s1 = out s2 -> swarning_count s1 = swarning_count s2 ->
  vm_reset s1 = vm_reset s2.
Proof. intros H1 H2 H3. rewrite (reset_forgets s1), (reset_forgets s2), H1, H2, H3. reflexivity. Qed.

(* a run is a function of program, settings (and prior terminal output): the machine's previous
   registers, flags, memory, pc, call stack, halt latch... cannot influence it *)
Theorem run_deterministic fuel p s1 s2 :
  cfg s1 = cfg s2 -> out s1 = out s2 -> swarning_count s1 = swarning_count s2 ->
  run fuel p s1 = run fuel p s2.
Proof.
  intros H1 H2 H3. unfold run, bind. rewrite (reset_const s1 s2 H1 H2 H3). reflexivity.
Qed.

(* every attribute that hera/vm.py assigns on the machine is a field of the model's record, and
   reset() assigns each of them (settings excepted) *)
Definition modelled_vm_attrs : list string :=
  ["dc"; "expected_returns"; "flag_carry"; "flag_carry_block"; "flag_overflow"; "flag_sign"; "flag_zero";
   "halted"; "input_buffer"; "input_pos"; "location"; "memory"; "op_count"; "pc"; "registers"; "settings";
   "warned_for_RTI"; "warned_for_SWI"; "warned_for_overflow"; "warning_count"]%string.
Theorem vm_attrs_all_modelled : VM_ASSIGNED_ATTRS = modelled_vm_attrs.
Proof. reflexivity. Qed.

(* ---- throttling ---------------------------------------------------------------------------------- *)
(* k iterations of a loop step (or fewer, when the loop ends earlier) *)
Fixpoint steps (step : vm -> res (option vm)) (k : nat) (s : vm) : res vm :=
  match k with
  | O => Ok s
  | S k' => match step s with
            | Raise e => Raise e
            | Ok None => Ok s
            | Ok (Some s') => steps step k' s'
            end
  end.

Definition throttled_guard_value (code : list rop) (n : Z) (s : vm) : res (pv * vm) :=
  run_guard_throttled (PI (zlen code)) (PI n) s.

(* one throttled iteration does not depend on the limit as long as the limit is not reached *)
Lemma throttled_step_limit code n n' s :
  is_bool (halted s) -> op_count s < n -> op_count s < n' ->
  loop_step_throttled n code s = loop_step_throttled n' code s.
Proof.
  intros [h Eh] H1 H2. unfold loop_step_throttled, run_guard_throttled.
  erewrite !bind_Ok by reflexivity. rewrite Eh. unfold ret.
  unfold py_and, py_not, py_le, py_lt. cbn [truthy as_int negb].
  destruct h; cbn [negb truthy]; [reflexivity|].
  destruct (0 <=? pc s); cbn [truthy]; [|reflexivity].
  destruct (pc s <? zlen code); cbn [truthy]; [|reflexivity].
  replace (op_count s <? n) with true by lia. replace (op_count s <? n') with true by lia. reflexivity.
Qed.

(* once the count reaches the limit the throttled loop stops *)
Lemma throttled_step_stops code n s : is_bool (halted s) -> n <= op_count s ->
  loop_step_throttled n code s = Ok None.
Proof.
  intros [h Eh] H. unfold loop_step_throttled, run_guard_throttled.
  erewrite !bind_Ok by reflexivity. rewrite Eh. unfold ret.
  unfold py_and, py_not, py_le, py_lt. cbn [truthy as_int negb].
  destruct h; cbn [negb truthy]; [reflexivity|].
  destruct (0 <=? pc s); cbn [truthy]; [|reflexivity].
  destruct (pc s <? zlen code); cbn [truthy]; [|reflexivity].
  replace (op_count s <? n) with false by lia. reflexivity.
Qed.
