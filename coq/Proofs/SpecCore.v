(* SpecCore.v — the observable core of the specification machine: registers, memory, program
   counter and the five flags evolve on their own; the bookkeeping of hera-py (warnings, call
   stack, operation count, location) never feeds back into them.  [cstep] is that evolution
   with the register file as a function, so that instruction sequences can be executed
   symbolically by computation; [sim_step] ties it to Spec.ISA.step for every state. *)
From Coq Require Import ZArith List Bool Lia.
From Hera.Lib Require Import Py Machine Word16.
From Hera.Spec Require Import ISA Wf.
From Hera.Proofs Require Import SpecLemmas.
Import ListNotations.
Open Scope Z_scope.

Record core := mkcore {
  cr : Z -> Z; cmem : pmem; cpc : Z; cS : bool; cZ : bool; cV : bool; cC : bool; cCB : bool }.

Definition with_r f (c : core) := mkcore f (cmem c) (cpc c) (cS c) (cZ c) (cV c) (cC c) (cCB c).
Definition with_mem m (c : core) := mkcore (cr c) m (cpc c) (cS c) (cZ c) (cV c) (cC c) (cCB c).
Definition with_pc p (c : core) := mkcore (cr c) (cmem c) p (cS c) (cZ c) (cV c) (cC c) (cCB c).
Definition with_S b (c : core) := mkcore (cr c) (cmem c) (cpc c) b (cZ c) (cV c) (cC c) (cCB c).
Definition with_Z b (c : core) := mkcore (cr c) (cmem c) (cpc c) (cS c) b (cV c) (cC c) (cCB c).
Definition with_V b (c : core) := mkcore (cr c) (cmem c) (cpc c) (cS c) (cZ c) b (cC c) (cCB c).
Definition with_C b (c : core) := mkcore (cr c) (cmem c) (cpc c) (cS c) (cZ c) (cV c) b (cCB c).
Definition with_CB b (c : core) := mkcore (cr c) (cmem c) (cpc c) (cS c) (cZ c) (cV c) (cC c) b.

Definition cset (i v : Z) (c : core) : core :=
  if i =? 0 then c else with_r (fun j => if j =? i then v else cr c j) c.
Definition czs (v : Z) (c : core) : core := with_S (32768 <=? v) (with_Z (v =? 0) c).
Definition cnext (c : core) : core := with_pc (cpc c + 1) c.
Definition ccin (c : core) : Z := if cC c && negb (cCB c) then 1 else 0.
Definition cbin (c : core) : Z := if negb (cC c) && negb (cCB c) then 1 else 0.

Definition calu3 (f : Z -> Z -> core -> Z * core) (d a b : Z) (c : core) : core :=
  let p := f (cr c a) (cr c b) c in cnext (cset d (fst p) (czs (fst p) (snd p))).
Definition cf_ADD (x y : Z) (c : core) :=
  let sum := x + y + ccin c in
  (sum mod 65536, with_V (negb (fits16s (sgn16 x + sgn16 y + ccin c))) (with_C (65536 <=? sum) c)).
Definition cf_SUB (x y : Z) (c : core) :=
  let diff := x - y - cbin c in
  (diff mod 65536, with_V (negb (fits16s (sgn16 x - sgn16 y - cbin c))) (with_C (0 <=? diff) c)).

Definition cholds (k : cond) (c : core) : bool :=
  let S := cS c in let Zf := cZ c in let V := cV c in let C := cC c in
  match k with
  | cBR => true | cBL => xorb S V | cBGE => negb (xorb S V) | cBLE => xorb S V || Zf
  | cBG => negb (xorb S V || Zf) | cBULE => negb C || Zf | cBUG => C && negb Zf
  | cBZ => Zf | cBNZ => negb Zf | cBC => C | cBNC => negb C | cBS => S | cBNS => negb S
  | cBV => V | cBNV => negb V
  end.

Definition cswap (a b : Z) (c : core) : core :=
  with_pc (cr c b) (cset a (cr c 14) (cset 14 (cr c a) (cset b (cpc c + 1) c))).

(* the instructions the library routines are written with; None = not covered here *)
Definition cstep (i : instr) (c : core) : option core :=
  match i with
  | I_SETLO d v => Some (cnext (cset d (sext8 (byte_of v) mod 65536) c))
  | I_SETHI d v => Some (cnext (cset d (256 * byte_of v + cr c d mod 256) c))
  | I_AND d a b => Some (calu3 (fun x y c => (Z.land x y, c)) d a b c)
  | I_OR d a b => Some (calu3 (fun x y c => (Z.lor x y, c)) d a b c)
  | I_XOR d a b => Some (calu3 (fun x y c => (Z.lxor x y, c)) d a b c)
  | I_ADD d a b => Some (calu3 cf_ADD d a b c)
  | I_SUB d a b => Some (calu3 cf_SUB d a b c)
  | I_INC d v =>
      let x := cr c d in let r := (x + v) mod 65536 in
      Some (cnext (with_C (65536 <=? x + v) (with_V (negb (fits16s (sgn16 x + v))) (czs r (cset d r c)))))
  | I_DEC d v =>
      let x := cr c d in let r := (x - v) mod 65536 in
      Some (cnext (with_C (0 <=? x - v) (with_V (negb (fits16s (sgn16 x - v))) (czs r (cset d r c)))))
  | I_FON v =>
      Some (cnext (with_CB (cCB c || bit v 4) (with_C (cC c || bit v 3) (with_V (cV c || bit v 2)
              (with_Z (cZ c || bit v 1) (with_S (cS c || bit v 0) c))))))
  | I_FOFF v =>
      Some (cnext (with_CB (cCB c && negb (bit v 4)) (with_C (cC c && negb (bit v 3)) (with_V (cV c && negb (bit v 2))
              (with_Z (cZ c && negb (bit v 1)) (with_S (cS c && negb (bit v 0)) c))))))
  | I_LOAD d o b =>
      let r := mem_read (cmem c) ((cr c b + o) mod 65536) in Some (cnext (cset d r (czs r c)))
  | I_STORE d o b =>
      Some (cnext (with_mem (mem_write (cmem c) ((cr c b + o) mod 65536) (cr c d)) c))
  | I_B k b => Some (if cholds k c then with_pc (cr c b) c else cnext c)
  | I_BREL cBR o => None
  | I_BREL k o => Some (if cholds k c then with_pc (cpc c + sext8 (byte_of o)) c else cnext c)
  | I_CALL a b => Some (cswap a b c)
  | I_RETURN a b => Some (cswap a b c)
  | _ => None
  end.

(* ---- the simulation ------------------------------------------------------------------------------ *)
Definition sim (s : vm) (c : core) : Prop :=
  List.length (regs s) = 16%nat /\ (forall j, 0 <= j < 16 -> getreg s j = cr c j) /\
  mem s = cmem c /\ pc s = cpc c /\ flag (f_s s) = cS c /\ flag (f_z s) = cZ c /\
  flag (f_v s) = cV c /\ flag (f_c s) = cC c /\ flag (f_cb s) = cCB c.

Definition core_of (s : vm) : core :=
  mkcore (getreg s) (mem s) (pc s) (flag (f_s s)) (flag (f_z s)) (flag (f_v s)) (flag (f_c s)) (flag (f_cb s)).
Lemma sim_core_of s : List.length (regs s) = 16%nat -> sim s (core_of s).
Proof. intros L. repeat split; auto. Qed.

Ltac unsim H := destruct H as (HL & HR & HM & HP & HS & HZ & HV & HC & HCB).

Lemma sim_setreg s c i v : sim s c -> 0 <= i < 16 -> sim (setreg i v s) (cset i v c).
Proof.
  intros H Hi. unsim H. unfold cset. destruct (i =? 0) eqn:E0.
  - assert (i = 0) by lia. subst. unfold setreg. cbn. repeat split; auto.
  - unfold sim. autorewrite with spec. cbn [cr cmem cpc cS cZ cV cC cCB with_r].
    split; [apply regs_len_setreg, HL|]. split; [|repeat split; auto].
    intros j Hj. destruct (j =? i) eqn:E.
    + assert (j = i) by lia. subst. apply getreg_setreg_same; [exact HL|unfold reg_ix; lia|lia].
    + rewrite getreg_setreg_other by (unfold reg_ix; lia). apply HR, Hj.
Qed.

Lemma sim_set_zs s c v : sim s c -> sim (set_zs v s) (czs v c).
Proof. intros H. unsim H. repeat split; auto. Qed.
Lemma sim_next s c : sim s c -> sim (next s) (cnext c).
Proof. intros H. unsim H. unfold next, cnext. repeat split; auto. cbn. congruence. Qed.
Lemma sim_upd_pc s c x y : sim s c -> x = y -> sim (upd_pc x s) (with_pc y c).
Proof. intros H E. unsim H. repeat split; auto. Qed.
Lemma sim_upd_mem s c m m' : sim s c -> m = m' -> sim (upd_mem m s) (with_mem m' c).
Proof. intros H E. unsim H. repeat split; auto. Qed.
Lemma sim_upd_S s c b b' : sim s c -> b = b' -> sim (upd_f_s (PB b) s) (with_S b' c).
Proof. intros H E. unsim H. repeat split; auto. Qed.
Lemma sim_upd_Z s c b b' : sim s c -> b = b' -> sim (upd_f_z (PB b) s) (with_Z b' c).
Proof. intros H E. unsim H. repeat split; auto. Qed.
Lemma sim_upd_V s c b b' : sim s c -> b = b' -> sim (upd_f_v (PB b) s) (with_V b' c).
Proof. intros H E. unsim H. repeat split; auto. Qed.
Lemma sim_upd_C s c b b' : sim s c -> b = b' -> sim (upd_f_c (PB b) s) (with_C b' c).
Proof. intros H E. unsim H. repeat split; auto. Qed.
Lemma sim_upd_CB s c b b' : sim s c -> b = b' -> sim (upd_f_cb (PB b) s) (with_CB b' c).
Proof. intros H E. unsim H. repeat split; auto. Qed.
Lemma sim_upd_ers s c x : sim s c -> sim (upd_ers x s) c.
Proof. intros H. unsim H. repeat split; auto. Qed.

Lemma sim_return_warning s c g : sim s c -> sim (return_warning s g) c.
Proof.
  intros H. unfold return_warning. destruct (warn_return_on (cfg s)); [|exact H].
  unsim H. destruct (rev (ers s)) as [|[a e] t]; [repeat split; auto|].
  destruct (e =? g); repeat split; auto.
Qed.

Lemma sim_cin s c : sim s c -> cin s = ccin c.
Proof. intros H. unsim H. unfold cin, ccin. rewrite HC, HCB. reflexivity. Qed.
Lemma sim_bin s c : sim s c -> bin s = cbin c.
Proof. intros H. unsim H. unfold bin, cbin. rewrite HC, HCB. reflexivity. Qed.
Lemma sim_holds s c k : sim s c -> holds k s = cholds k c.
Proof. intros H. unsim H. unfold holds, cholds. rewrite HS, HZ, HV, HC. reflexivity. Qed.
Lemma sim_reg s c j : sim s c -> 0 <= j < 16 -> getreg s j = cr c j.
Proof. intros H. unsim H. apply HR. Qed.
Lemma sim_pc s c : sim s c -> pc s = cpc c.
Proof. intros H. unsim H. exact HP. Qed.
Lemma sim_mem s c : sim s c -> mem s = cmem c.
Proof. intros H. unsim H. exact HM. Qed.

Lemma sim_swap s c a b : sim s c -> 0 <= a < 16 -> 0 <= b < 16 -> sim (swap_call a b s) (cswap a b c).
Proof.
  intros H Ha Hb. unfold swap_call, cswap.
  rewrite (sim_reg s c a H Ha), (sim_reg s c b H Hb), (sim_reg s c 14 H) by lia. rewrite (sim_pc s c H).
  apply sim_upd_pc; [|reflexivity]. repeat apply sim_setreg; try lia. exact H.
Qed.

Lemma rok r : reg_ok r = true -> 0 <= r < 16.
Proof. unfold reg_ok. lia. Qed.

Ltac regs_in :=
  repeat match goal with
         | H : _ && _ = true |- _ => apply andb_prop in H; destruct H
         | H : reg_ok _ = true |- _ => apply rok in H
         end.

Theorem sim_step i s c c' : sim s c -> valid_instr i = true -> cstep i c = Some c' -> sim (step i s) c'.
Proof.
  intros H Hv E. destruct i; cbn [cstep] in E; try discriminate E; cbn [valid_instr] in Hv; regs_in;
    unfold step; cbn [step_with].
  - (* SETLO *) injection E as <-. unfold step_SETLO. apply sim_next, sim_setreg; auto.
  - (* SETHI *) injection E as <-. unfold step_SETHI. rewrite (sim_reg s c d H) by lia. apply sim_next, sim_setreg; auto.
  - (* AND *) injection E as <-. unfold step_AND, alu3, calu3, f_AND. cbn [fst snd].
    rewrite (sim_reg s c a H), (sim_reg s c b H) by lia. apply sim_next, sim_setreg; auto. apply sim_set_zs, H.
  - injection E as <-. unfold step_OR, alu3, calu3, f_OR. cbn [fst snd].
    rewrite (sim_reg s c a H), (sim_reg s c b H) by lia. apply sim_next, sim_setreg; auto. apply sim_set_zs, H.
  - injection E as <-. unfold step_XOR, alu3, calu3, f_XOR. cbn [fst snd].
    rewrite (sim_reg s c a H), (sim_reg s c b H) by lia. apply sim_next, sim_setreg; auto. apply sim_set_zs, H.
  - (* ADD *) injection E as <-. unfold step_ADD, alu3, calu3, f_ADD, cf_ADD. cbn [fst snd].
    rewrite (sim_reg s c a H), (sim_reg s c b H), (sim_cin s c H) by lia.
    apply sim_next, sim_setreg; auto. apply sim_set_zs, sim_upd_V; [|reflexivity]. apply sim_upd_C; [exact H|reflexivity].
  - (* SUB *) injection E as <-. unfold step_SUB, alu3, calu3, f_SUB, cf_SUB. cbn [fst snd].
    rewrite (sim_reg s c a H), (sim_reg s c b H), (sim_bin s c H) by lia.
    apply sim_next, sim_setreg; auto. apply sim_set_zs, sim_upd_V; [|reflexivity]. apply sim_upd_C; [exact H|reflexivity].
  - (* INC *) injection E as <-. unfold step_INC. rewrite (sim_reg s c d H) by lia.
    apply sim_next, sim_upd_C; [|reflexivity]. apply sim_upd_V; [|reflexivity]. apply sim_set_zs, sim_setreg; auto.
  - (* DEC *) injection E as <-. unfold step_DEC. rewrite (sim_reg s c d H) by lia.
    apply sim_next, sim_upd_C; [|reflexivity]. apply sim_upd_V; [|reflexivity]. apply sim_set_zs, sim_setreg; auto.
  - (* FON *) injection E as <-. unfold step_FON. pose proof H as H'. unsim H'.
    apply sim_next, sim_upd_CB; [|congruence]. apply sim_upd_C; [|congruence]. apply sim_upd_V; [|congruence].
    apply sim_upd_Z; [|congruence]. apply sim_upd_S; [exact H|congruence].
  - (* FOFF *) injection E as <-. unfold step_FOFF. pose proof H as H'. unsim H'.
    apply sim_next, sim_upd_CB; [|congruence]. apply sim_upd_C; [|congruence]. apply sim_upd_V; [|congruence].
    apply sim_upd_Z; [|congruence]. apply sim_upd_S; [exact H|congruence].
  - (* LOAD *) injection E as <-. unfold step_LOAD, ea. rewrite (sim_reg s c b H), (sim_mem s c H) by lia.
    apply sim_next, sim_setreg; auto. apply sim_set_zs, H.
  - (* STORE *) injection E as <-. unfold step_STORE, ea. rewrite (sim_reg s c b H), (sim_reg s c d H), (sim_mem s c H) by lia.
    apply sim_next, sim_upd_mem; [exact H|reflexivity].
  - (* B *) injection E as <-. unfold step_regbranch. rewrite (sim_holds s c c0 H), (sim_reg s c b H) by lia.
    destruct (cholds c0 c); [apply sim_upd_pc; [exact H|reflexivity]|apply sim_next, H].
  - (* BREL *) destruct c0; try discriminate E; injection E as <-; unfold step_relbranch;
      rewrite (sim_holds s c _ H), (sim_pc s c H); cbn [cholds];
      (match goal with |- sim (if ?b then _ else _) _ => destruct b end;
       [apply sim_upd_pc; [exact H|reflexivity]|apply sim_next, H]).
  - (* CALL *) injection E as <-. unfold step_CALL.
    assert (X : forall x, sim (upd_ers x s) c) by (intros; apply sim_upd_ers, H).
    specialize (X (ers s ++ [(getreg s b, pc s + 1)])). apply sim_swap; auto.
  - (* RETURN *) injection E as <-. unfold step_RETURN. apply sim_swap; auto. apply sim_return_warning, H.
Qed.

(* ---- running code placed at an address ---------------------------------------------------------------- *)
Definition fetch (base : Z) (code : list instr) (p : Z) : option instr :=
  if (base <=? p) then nth_error code (Z.to_nat (p - base)) else None.

(* n instructions of the specification machine, fetched from [code] at [base]; stops (None) when
   the program counter leaves the code *)
Fixpoint run_at (base : Z) (code : list instr) (n : nat) (s : vm) : option vm :=
  match n with
  | O => Some s
  | S k => match fetch base code (pc s) with Some i => run_at base code k (step i s) | None => None end
  end.
Fixpoint crun_at (base : Z) (code : list instr) (n : nat) (c : core) : option core :=
  match n with
  | O => Some c
  | S k => match fetch base code (cpc c) with
           | Some i => match cstep i c with Some c1 => crun_at base code k c1 | None => None end
           | None => None
           end
  end.

Lemma fetch_in base code p i : fetch base code p = Some i -> In i code.
Proof. unfold fetch. destruct (base <=? p); [|discriminate]. apply nth_error_In. Qed.

Theorem sim_run base code : Forall (fun i => valid_instr i = true) code ->
  forall n s c c', sim s c -> crun_at base code n c = Some c' ->
  exists s', run_at base code n s = Some s' /\ sim s' c'.
Proof.
  intros V. induction n as [|k IH]; intros s c c' H E.
  - injection E as <-. exists s. split; [reflexivity|exact H].
  - cbn [crun_at] in E. cbn [run_at]. rewrite (sim_pc s c H).
    destruct (fetch base code (cpc c)) as [i|] eqn:F; [|discriminate E].
    destruct (cstep i c) as [c1|] eqn:Ec; [|discriminate E].
    apply (IH (step i s) c1 c'); [|exact E].
    apply (sim_step i s c c1 H); [|exact Ec].
    apply (proj1 (Forall_forall _ _) V i), (fetch_in _ _ _ _ F).
Qed.

(* ---- symbolic execution of [crun_at] ------------------------------------------------------------------- *)
Lemma crun_step base code n c k i c1 :
  cpc c = base + Z.of_nat k -> nth_error code k = Some i -> cstep i c = Some c1 ->
  crun_at base code (S n) c = crun_at base code n c1.
Proof.
  intros P F E. cbn [crun_at]. unfold fetch. rewrite P.
  destruct (base <=? base + Z.of_nat k) eqn:L; [|lia].
  replace (Z.to_nat (base + Z.of_nat k - base)) with k by lia. rewrite F, E. reflexivity.
Qed.

Ltac pclosed p := match p with xH => idtac | xO ?q => pclosed q | xI ?q => pclosed q end.
Ltac zlit t := match t with Z0 => idtac | Zpos ?p => pclosed p | Zneg ?p => pclosed p end.
(* evaluate arithmetic on literals *)
Ltac zeval :=
  repeat match goal with
         | |- context [?a mod ?b] => zlit a; zlit b; let v := eval vm_compute in (a mod b) in change (a mod b) with v
         | |- context [?a / ?b] => zlit a; zlit b; let v := eval vm_compute in (a / b) in change (a / b) with v
         | |- context [?a * ?b] => zlit a; zlit b; let v := eval vm_compute in (a * b) in change (a * b) with v
         | |- context [?a + ?b] => zlit a; zlit b; let v := eval vm_compute in (a + b) in change (a + b) with v
         | |- context [?a - ?b] => zlit a; zlit b; let v := eval vm_compute in (a - b) in change (a - b) with v
         | |- context [Z.lor ?a ?b] => zlit a; zlit b; let v := eval vm_compute in (Z.lor a b) in change (Z.lor a b) with v
         | |- context [?a <=? ?b] => zlit a; zlit b; let v := eval vm_compute in (a <=? b) in change (a <=? b) with v
         | |- context [?a =? ?b] => zlit a; zlit b; let v := eval vm_compute in (a =? b) in change (a =? b) with v
         | |- context [sgn16 ?a] => zlit a; let v := eval vm_compute in (sgn16 a) in change (sgn16 a) with v
         | |- context [fits16s ?a] => zlit a; let v := eval vm_compute in (fits16s a) in change (fits16s a) with v
         end.

Ltac cnorm :=
  cbv [calu3 cf_ADD cf_SUB cnext cset czs with_r with_mem with_pc with_S with_Z with_V with_C with_CB
       cr cmem cpc cS cZ cV cC cCB fst snd cbin ccin cholds cswap];
  cbn [Z.eqb Pos.eqb];
  repeat match goal with
         | |- context [bit (Zpos ?a) ?b] => let v := eval vm_compute in (bit (Zpos a) b) in change (bit (Zpos a) b) with v
         | |- context [sext8 (byte_of (Zpos ?a))] =>
             let v := eval vm_compute in (sext8 (byte_of (Zpos a))) in change (sext8 (byte_of (Zpos a))) with v
         | |- context [sext8 (byte_of 0)] => change (sext8 (byte_of 0)) with 0
         | |- context [byte_of (Zpos ?a)] => let v := eval vm_compute in (byte_of (Zpos a)) in change (byte_of (Zpos a)) with v
         | |- context [byte_of 0] => change (byte_of 0) with 0
         end;
  rewrite ?orb_true_r, ?orb_false_r, ?andb_true_r, ?andb_false_r;
  cbn [orb andb negb Z.eqb Pos.eqb]; zeval; cbn [orb andb negb].

Ltac cgo k :=
  erewrite (crun_step _ _ _ _ k); [ | cnorm; try lia | reflexivity | reflexivity ]; cnorm.

Lemma set_value x : 0 <= x < 65536 ->
  256 * byte_of (x / 256) + (sext8 (byte_of (x mod 256)) mod 65536) mod 256 = x.
Proof.
  intros H. unfold byte_of, sext8. destruct (x mod 256 mod 256 <? 128) eqn:E;
    Z.to_euclidean_division_equations; lia.
Qed.


(* ---- memory reads after writes (well-formed memory) -------------------------------------------------------- *)
Lemma mrw_same m a v : 0 <= a -> mem_read (mem_write m a v) a = v.
Proof.
  intros Ha. unfold mem_read, mem_write. cbn [mlen cells cells_get]. rewrite Z.eqb_refl.
  destruct (a <? Z.max (mlen m) (a + 1)) eqn:E; [reflexivity|lia].
Qed.
Lemma mrw_other m a b v :
  0 <= a -> 0 <= b -> a <> b -> wf_mem m -> mem_read (mem_write m a v) b = mem_read m b.
Proof.
  intros Ha Hb Hab [Hlen Hcells]. unfold mem_read, mem_write. cbn [mlen cells cells_get].
  destruct (a =? b) eqn:E; [lia|].
  destruct (b <? mlen m) eqn:E1.
  - destruct (b <? Z.max (mlen m) (a + 1)) eqn:E2; [reflexivity|lia].
  - destruct (b <? Z.max (mlen m) (a + 1)) eqn:E2; [|reflexivity].
    clear E2. induction (cells m) as [|[k w] t IH]; [reflexivity|].
    inversion Hcells as [|? ? [Hk _] Ht]; subst. cbn [cells_get fst] in *.
    destruct (k =? b) eqn:E3; [lia|]. apply IH. exact Ht.
Qed.
Lemma wf_mw m a v : wf_mem m -> 0 <= a < 65536 -> word v -> wf_mem (mem_write m a v).
Proof.
  intros [Hl Hc] Ha Hv. unfold mem_write. split; cbn [mlen cells]; [lia|].
  constructor; [cbn; split; [lia|exact Hv]|].
  eapply Forall_impl; [|exact Hc]. cbv beta. intros kv [H1 H2]. split; [lia|exact H2].
Qed.
Lemma mr_word m a : wf_mem m -> word (mem_read m a).
Proof.
  intros [_ Hc]. unfold mem_read, word. destruct (a <? mlen m); [|lia].
  induction (cells m) as [|[k w] t IH]; cbn [cells_get]; [lia|].
  inversion Hc as [|? ? [_ Hw] Ht]; subst. destruct (k =? a); [exact Hw|apply IH, Ht].
Qed.
