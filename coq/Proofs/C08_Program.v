(* C08_Program.v — from one accepted operation to accepted programs: the names a program declares are
   strings, the symbol table the preprocessor substitutes from contains, unchanged, everything each
   operation was type-checked against. *)
From Coq Require Import ZArith List Bool String Lia.
From Hera.Lib Require Import Py.
From Hera.Gen Require Import Utils Ops Tables Convert.
From Hera.Model Require Import OpRep Preproc.
From Hera.Proofs Require Import C04_Oplen C04_Layout C08_Safe C08_Symtab.
Import ListNotations.
Open Scope Z_scope.

(* a clean declaring operation written with parser tokens names a string *)
Lemma clean_decl_ps o : clean_op o -> Forall tok_wf (o_toks o) -> declares_symbol (o_cls o) = true ->
  exists s r, o_args o = PS s :: r.
Proof.
  intros [st0 H] W D. pose proof (typecheck_clean _ _ H) as F. unfold o_args.
  destruct (o_cls o); try discriminate D; cbn [P_of] in F;
    inversion F as [|p t ps ts Hc Fr Ep Et]; subst;
    rewrite <- Et in W; inversion W as [|? ? Wt Wr]; subst;
    cbn [check_arg] in Hc; unfold lift_str, check_label in Hc;
    destruct t as [ty v]; cbn [t_type t_val] in *; destruct ty; try discriminate Hc;
    unfold tok_wf in Wt; cbn [t_type t_val] in Wt; destruct v; try contradiction;
    cbn [map t_val]; eexists; eexists; reflexivity.
Qed.

Lemma clean_names_ps ops : Forall clean_op ops -> Forall (fun o => Forall tok_wf (o_toks o)) ops -> names_ps ops.
Proof.
  unfold names_ps. intros C W. induction C as [|o r Ho Hr IH]; [constructor|].
  inversion W as [|? ? Wo Wr]; subst. constructor; [|exact (IH Wr)].
  intros D. exact (clean_decl_ps o Ho Wo D).
Qed.

(* ---- the theorem, for whole programs ---------------------------------------------------------------------- *)
(* In a program the checker accepts, the symbol table in force when the k-th operation is type-checked is
   contained in the final one (bindings never change, none disappears): the integer the preprocessor
   substitutes for a symbol is the one the range checks were made against. *)
Theorem accepted_symtab_stable c ops st msgs :
  Forall (fun o => Forall tok_wf (o_toks o)) ops ->
  typecheck c ops = (st, msgs) -> has_errors msgs = false ->
  forall a b, ops = a ++ b ->
    ext (tc_st (fold_left (typecheck_step c) a
                  (mktc (fst (get_labels c ops)) false (check_redecl ops [] ++ snd (get_labels c ops))))) st.
Proof.
  intros W T H a b E.
  pose proof (accepted_is_clean c ops st msgs T H) as C.
  pose proof (clean_names_ps ops C W) as N.
  assert (R : has_errors (check_redecl ops []) = false).
  { unfold typecheck in T. destruct (get_labels c ops) as [st0 m1]. injection T as _ <-.
    destruct (typecheck_fold_clean c ops _ H) as [H1 _]. cbn [tc_msgs] in H1.
    rewrite has_errors_app in H1. apply orb_false_iff in H1. exact (proj1 H1). }
  exact (typecheck_symtab_stable c ops st msgs N R T a b E).
Qed.
