(* C08_Program.v — from one accepted operation to accepted programs: the names a program declares are
   strings, the symbol table the preprocessor substitutes from contains, unchanged, everything each
   operation was type-checked against. *)
From Coq Require Import ZArith List Bool String Lia.
From Hera.Lib Require Import Py.
From Hera.Gen Require Import Utils Ops Tables Convert.
From Hera.Model Require Import OpRep InstrOf Bitvec Preproc.
From Hera.Proofs Require Import C04_Oplen C04_Layout C04_Bounds C08_Safe C08_Symtab.
Import ListNotations.
Open Scope Z_scope.

(* a clean declaring operation written with parser tokens names a string *)
Lemma clean_decl_ps o : clean_op o -> Forall tok_wf (o_toks o) -> declares_symbol (o_cls o) = true ->
  exists s r, o_args o = PS s :: r.
Proof.
  intros [st0 H] W D. pose proof (typecheck_clean _ _ H) as F. unfold o_args.
  destruct (o_cls o); try discriminate D; cbn [P_of] in F;
    inversion F as [|p t ps ts Hc Fr Ep Et]; subst;
    rewrite <- Et in W; inversion W as [|? ? Wt Wr]; subst;
    cbn [check_arg] in Hc; unfold lift_str, check_label in Hc;
    destruct t as [ty v]; cbn [t_type t_val] in *; destruct ty; try discriminate Hc;
    unfold tok_wf in Wt; cbn [t_type t_val] in Wt; destruct v; try contradiction;
    cbn [map t_val]; eexists; eexists; reflexivity.
Qed.

Lemma clean_names_ps ops : Forall clean_op ops -> Forall (fun o => Forall tok_wf (o_toks o)) ops -> names_ps ops.
Proof.
  unfold names_ps. intros C W. induction C as [|o r Ho Hr IH]; [constructor|].
  inversion W as [|? ? Wo Wr]; subst. constructor; [|exact (IH Wr)].
  intros D. exact (clean_decl_ps o Ho Wo D).
Qed.

(* ---- the theorem, for whole programs ---------------------------------------------------------------------- *)
(* In a program the checker accepts, the symbol table in force when the k-th operation is type-checked is
   contained in the final one (bindings never change, none disappears): the integer the preprocessor
   substitutes for a symbol is the one the range checks were made against. *)
Theorem accepted_symtab_stable c ops st msgs :
  Forall (fun o => Forall tok_wf (o_toks o)) ops ->
  typecheck c ops = (st, msgs) -> has_errors msgs = false ->
  forall a b, ops = a ++ b ->
    ext (tc_st (fold_left (typecheck_step c) a
                  (mktc (fst (get_labels c ops)) false (check_redecl ops [] ++ snd (get_labels c ops))))) st.
Proof.
  intros W T H a b E.
  pose proof (accepted_is_clean c ops st msgs T H) as C.
  pose proof (clean_names_ps ops C W) as N.
  assert (R : has_errors (check_redecl ops []) = false).
  { unfold typecheck in T. destruct (get_labels c ops) as [st0 m1]. injection T as _ <-.
    destruct (typecheck_fold_clean c ops _ H) as [H1 _]. cbn [tc_msgs] in H1.
    rewrite has_errors_app in H1. apply orb_false_iff in H1. exact (proj1 H1). }
  exact (typecheck_symtab_stable c ops st msgs N R T a b E).
Qed.

(* ---- what is accepted against a smaller table is accepted against a larger one --------------------------- *)
Lemma check_arg_ext p t st st' : ext st st' -> check_arg p t st = None -> check_arg p t st' = None.
Proof.
  intros E. unfold check_arg, lift_str, check_register_or_label, check_in_range.
  destruct p; try (intros H; exact H);
    destruct (t_type t); try (intros H; exact H);
    destruct (dict_get st (t_val t)) as [sv|] eqn:G; try discriminate;
    rewrite (E _ _ G); intros H; exact H.
Qed.

Lemma check_args_ext ps ts st st' : ext st st' ->
  Forall2 (fun p t => check_arg p t st = None) ps ts -> Forall2 (fun p t => check_arg p t st' = None) ps ts.
Proof. intros E F. induction F; constructor; [eapply check_arg_ext; eassumption|assumption]. Qed.

Lemma op_tc_default o st ao : has_errors (op_typecheck o st ao) = false -> has_errors (default_typecheck o st) = false.
Proof.
  intros H. unfold op_typecheck in H.
  destruct (o_cls o); try exact H;
    repeat (rewrite has_errors_app in H; apply orb_false_iff in H as [H ?]); try exact H.
  destruct (has_errors (default_typecheck o st)) eqn:B; [congruence|reflexivity].
Qed.

(* type checking never binds a code label: those of the final table are those of the label pass *)
Lemma tc_fold_labels c ops : forall t k v,
  dict_get (tc_st (fold_left (typecheck_step c) ops t)) k = Some (SLabel v) -> dict_get (tc_st t) k = Some (SLabel v).
Proof.
  induction ops as [|o r IH]; intros t k v H; cbn [fold_left] in H; [exact H|].
  apply IH in H. unfold typecheck_step in H. cbv zeta in H. cbn [tc_st] in H.
  destruct (o_cls o); try exact H.
  destruct (o_args o) as [|a1 l1]; try exact H.
  destruct a1 as [|b1|z1|name|f1]; try exact H.
  destruct l1 as [|a2 l2]; try exact H.
  destruct a2 as [|b2|w|other|f2]; try exact H; (destruct l2 as [|a3 l3]; try exact H).
  - apply get_set_cases in H as [H|H]; [discriminate H|exact H].
  - destruct (dict_get (tc_st t) (PS other)) as [[w|w|w]|]; try exact H.
    apply get_set_cases in H as [H|H]; [discriminate H|exact H].
Qed.

Lemma accepted_labels_ok c ops st msgs : typecheck c ops = (st, msgs) -> has_errors msgs = false -> st_wf_labels st.
Proof.
  unfold typecheck. destruct (get_labels c ops) as [st0 m1] eqn:G. intros T H. injection T as <- <-.
  destruct (typecheck_fold_clean c ops _ H) as [H1 _]. cbn [tc_msgs] in H1.
  rewrite has_errors_app in H1. apply orb_false_iff in H1 as [_ H1].
  intros k v E. apply tc_fold_labels in E. cbn [tc_st] in E.
  pose proof (labels_in_range c ops st0 m1 G H1 k v E). lia.
Qed.

Lemma check_arglist_ext st st' : ext st st' -> forall ps ts i,
  has_errors (check_arglist ps ts st i) = false -> has_errors (check_arglist ps ts st' i) = false.
Proof.
  intros E. induction ps as [|p ps IH]; intros [|t ts] i H; cbn [check_arglist] in *; try reflexivity.
  destruct (check_arg p t st) eqn:C.
  - destruct a; cbn in H; discriminate H.
  - rewrite (check_arg_ext p t st st' E C). apply IH, H.
Qed.

Lemma default_tc_ext o st st' : ext st st' ->
  has_errors (default_typecheck o st) = false -> has_errors (default_typecheck o st') = false.
Proof.
  intros E. unfold default_typecheck. rewrite !has_errors_app. intros H. apply orb_false_iff in H as [H1 H2].
  rewrite H1. cbn [orb]. eapply check_arglist_ext; eassumption.
Qed.

From Hera.Proofs Require Import C09_Checker.

(* the k-th operation of an accepted program passed its own type check, against the table of that moment *)
Lemma accepted_at_position c ops st msgs a o b :
  typecheck c ops = (st, msgs) -> has_errors msgs = false -> ops = a ++ o :: b ->
  has_errors (default_typecheck o (tc_st (fold_left (typecheck_step c) a
     (mktc (fst (get_labels c ops)) false (check_redecl ops [] ++ snd (get_labels c ops)))))) = false.
Proof.
  intros T H E. unfold typecheck in T. destruct (get_labels c ops) as [st0 m1]. cbn [fst snd]. injection T as _ <-.
  set (t0 := mktc st0 false (check_redecl ops [] ++ m1)) in *.
  rewrite E, fold_left_app in H.
  apply (proj1 (fold_clean c (o :: b) _)) in H as [_ S]. cbn [steps_clean] in S. destruct S as [S _].
  apply typecheck_step_exact in S as (S & _). exact (op_tc_default _ _ _ S).
Qed.

(* THE PROGRAM-LEVEL THEOREM.  In a program the checker accepts, every operation that expands to machine
   instructions is substituted from the final symbol table without a missing symbol, expands without raising,
   and every instruction it expands to has operands that fit their machine fields.  (Relative branches whose
   operand names a label take the other path of convert_ops: C08_rel_label_valid.) *)
Theorem accepted_program_op_valid c ops st msgs a o b :
  Forall (fun o => Forall tok_wf (o_toks o)) ops ->
  typecheck c ops = (st, msgs) -> has_errors msgs = false -> ops = a ++ o :: b ->
  expands_to_instructions (o_cls o) = true ->
  rel_symbol_is_constant (o_cls o) (o_toks o) st ->
  exists ts' l, subst_tokens (o_toks o) st = Ok ts' /\ convert_full (mkop (o_cls o) ts') = Ok l /\ Forall is_valid_real l.
Proof.
  intros W T H E X R.
  pose proof (accepted_at_position c ops st msgs a o b T H E) as A.
  pose proof (accepted_symtab_stable c ops st msgs W T H a (o :: b) E) as S.
  pose proof (default_tc_ext o _ st S A) as A'.
  pose proof (accepted_labels_ok c ops st msgs T H) as L.
  assert (Wo : Forall tok_wf (o_toks o)).
  { rewrite E in W. apply Forall_app in W as [_ W]. inversion W; assumption. }
  destruct o as [cls ts]. cbn [o_cls o_toks] in *.
  destruct (accepted_op_converts cls ts st X Wo L A') as (ts' & l & E1 & E2).
  exists ts', l. split; [exact E1|]. split; [exact E2|].
  exact (accepted_op_valid cls ts st ts' l X Wo L A' R E1 E2).
Qed.
