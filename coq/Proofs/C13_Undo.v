(* C13_Undo.v — undo and restart restore state faithfully. *)
From Coq Require Import ZArith List Bool String Lia.
From Hera.Lib Require Import Py Machine.
From Hera.Gen Require Import Utils Vm Ops DebugTables.
From Hera.Spec Require Import Wf.
From Hera.Model Require Import Run Debugger.
From Hera.Proofs Require Import C15_Repeat.
Import ListNotations.
Open Scope Z_scope.

(* ---- the Python objects really are duplicated (facts regenerated from the source) -------------------- *)
Fixpoint str_in (x : string) (l : list string) : bool :=
  match l with [] => false | y :: t => String.eqb x y || str_in x t end.
Definition str_incl (a b : list string) : bool := forallb (fun x => str_in x b) a.

(* every attribute of the machine that holds a mutable container is given a fresh copy by
   VirtualMachine.copy(); Debugger.save() duplicates the machine and the breakpoint table; the
   other attribute commands rebind (`calls`) is an immutable int; and exactly the state-changing
   handlers are wrapped in @mutates (which calls save() first) *)
Theorem snapshots_are_independent :
  str_incl VM_CONTAINER_ATTRS VM_COPIED_ATTRS = true /\
  str_incl ["vm"; "breakpoints"]%string DEBUGGER_SAVE_COPIES = true /\
  str_incl DEBUGGER_MUTATED_ATTRS ["breakpoints"; "calls"]%string = true /\
  SHELL_MUTATING_HANDLERS =
    ["assign"; "break"; "clear"; "continue"; "execute"; "goto"; "next"; "off"; "on"; "restart"; "step"]%string /\
  str_in "undo" SHELL_MUTATING_HANDLERS = false.
Proof. repeat split; reflexivity. Qed.

(* ---- value level: undo ------------------------------------------------------------------------------- *)
Theorem undo_restores f s s1 : mutate f s = Ok s1 -> undo s1 = s.
Proof.
  unfold mutate, undo. destruct (f (s_cur s)) as [d'|]; [|discriminate].
  intros E. injection E as <-. destruct s. reflexivity.
Qed.

Fixpoint mutate_all (fs : list (dstate -> res dstate)) (s : session) : res session :=
  match fs with
  | [] => Ok s
  | f :: t => match mutate f s with Ok s' => mutate_all t s' | Raise e => Raise e end
  end.
Fixpoint undo_n (n : nat) (s : session) : session :=
  match n with O => s | S k => undo_n k (undo s) end.

(* repeated undo walks back command by command to the start of the session, and then has nothing
   left to undo *)
Theorem undo_walks_back fs : forall s s', mutate_all fs s = Ok s' -> undo_n (List.length fs) s' = s.
Proof.
  induction fs as [|f t IH]; intros s s' E; cbn [mutate_all List.length undo_n] in *.
  - now injection E as <-.
  - destruct (mutate f s) as [s1|] eqn:M; [|discriminate E].
    assert (H : undo_n (List.length t) s' = s1) by (apply IH, E).
    (* undo_n (S n) s' = undo (undo_n n s') *)
    assert (C : forall n x, undo_n (S n) x = undo (undo_n n x)).
    { induction n as [|n IHn]; intros x; [reflexivity|]. cbn [undo_n] in *. apply IHn. }
    change (undo_n (List.length t) (undo s')) with (undo_n (S (List.length t)) s').
    rewrite C, H. eapply undo_restores, M.
Qed.

Theorem undo_nothing d : undo (mksess d []) = mksess d [].
Proof. reflexivity. Qed.

(* ---- restart ------------------------------------------------------------------------------------------ *)
(* restart puts the machine in the state of a freshly started session (reset, then the data
   statements), whatever it held; breakpoints are kept and the step-over bookkeeping cleared *)
Theorem restart_fresh data d d' fresh :
  do_restart data d = Ok d' ->
  cfg fresh = cfg (d_vm d) -> out fresh = out (d_vm d) -> swarning_count fresh = swarning_count (d_vm d) ->
  d_init data fresh = Ok (d_vm d') /\ d_bps d' = d_bps d /\ d_calls d' = 0.
Proof.
  unfold do_restart, d_init, bind. intros E H1 H2 H3.
  rewrite (reset_const fresh (d_vm d) H1 H2 H3).
  destruct (vm_reset (d_vm d)) as [[[] s1]|]; [|discriminate E].
  destruct (exec_all data s1) as [[[] s2]|]; [|discriminate E].
  injection E as <-. repeat split.
Qed.


(* ---- the same at the level of shell commands ----------------------------------------------------------- *)
From Hera.Model Require Import MiniParser Session.
Lemma sess_step_mutate fuel code data st c : c <> CUndo -> c <> CNop ->
  exists f, forall s, sess_step fuel code data st c s = mutate f s.
Proof.
  intros NU NN. destruct c; try (exfalso; congruence); eexists; intros s; reflexivity.
Qed.
Theorem session_undo fuel code data st c s s1 :
  c <> CUndo -> c <> CNop ->
  sess_step fuel code data st c s = Ok s1 ->
  sess_step fuel code data st CUndo s1 = Ok s.
Proof.
  intros NU NN E. destruct (sess_step_mutate fuel code data st c NU NN) as [f Hf].
  rewrite Hf in E. change (Ok (undo s1) = Ok s). f_equal. exact (undo_restores f s s1 E).
Qed.
