(* C18_Cli.v — decision rules of the argument parser (Model/Cli.v): what is accepted is
   well-formed, what is malformed is a usage error. *)
From Coq Require Import ZArith List Bool String Ascii Lia.
From Hera.Gen Require Import CliTables.
From Hera.Model Require Import Cli.
Import ListNotations.
Open Scope string_scope.

Section Rules.
  Variable iv : string -> bool.

  (* an accepted argument vector: exactly one path, none of the informational flags, every
     mode-specific flag compatible with the chosen mode, not both --quiet and --verbose, and a
     well-formed --init string *)
  Theorem run_wellformed argv mode path flags : parse_args iv argv = Run mode path flags ->
    mode = mode_of flags /\
    fhas "--help" flags = false /\ fhas "--version" flags = false /\ fhas "--credits" flags = false /\
    (forall pf, In pf CLI_PICKY_FLAGS -> fhas (fst pf) flags = true -> in_list mode (snd pf) = true) /\
    (fhas "--quiet" flags && fhas "--verbose" flags = false) /\
    (forall s, fget "--init" flags = Some (FStr s) -> iv s = true).
  Proof.
    unfold parse_args. destruct (scan argv false [] []) as [why|[fl pos]]; [discriminate|].
    unfold info_flag.
    destruct (fhas "--help" fl) eqn:H1; [destruct (_ && _); discriminate|].
    destruct (fhas "--version" fl) eqn:H2; [destruct (_ && _); discriminate|].
    destruct (fhas "--credits" fl) eqn:H3; [destruct (_ && _); discriminate|].
    destruct pos as [|p [|q r]]; try discriminate.
    destruct (find _ CLI_PICKY_FLAGS) as [pf|] eqn:F; [discriminate|].
    destruct (fhas "--quiet" fl && fhas "--verbose" fl) eqn:QV; [discriminate|].
    intros E.
    assert (R : mode = mode_of fl /\ flags = fl /\ (forall s, fget "--init" fl = Some (FStr s) -> iv s = true)).
    { destruct (fget "--init" fl) as [[| |s]|] eqn:G; try (injection E as <- <- <-; repeat split; intros; discriminate).
      destruct (iv s) eqn:V; [|discriminate]. injection E as <- <- <-. repeat split. intros s' Hs. injection Hs as <-. exact V. }
    destruct R as (-> & -> & RI).
    split; [reflexivity|]. split; [exact H1|]. split; [exact H2|]. split; [exact H3|]. split; [|split; [exact QV|exact RI]].
    intros pf Hin Hhas. pose proof (find_none _ _ F pf Hin) as N. cbn beta in N. rewrite Hhas in N.
    destruct (in_list (mode_of fl) (snd pf)); [reflexivity|discriminate N].
  Qed.

  (* an argument that looks like a flag but is none is refused on the spot *)
  Theorem unknown_flag_rejected a r flags pos :
    let l := short_to_long a in
    String.eqb l "--" = false -> in_list l CLI_FLAGS = false ->
    prefix "--throttle" l = false -> prefix "--init=" l = false ->
    prefix "-" l = true -> Nat.ltb 1 (String.length l) = true ->
    scan (a :: r) false flags pos = inl ("Unrecognized flag: " ++ a).
  Proof. intros l H1 H2 H3 H4 H5 H6. cbn [scan]. fold l. rewrite H1, H2, H3, H4, H5, H6. reflexivity. Qed.

  (* in particular a flag that merely begins with --init (defect D54: `--initx` used to be taken for `--init=`) *)
  Example initx_rejected r flags pos : scan ("--initx" :: r) false flags pos = inl "Unrecognized flag: --initx".
  Proof. reflexivity. Qed.

  (* a --throttle value that is not a decimal number is refused, in both syntaxes *)
  Theorem bad_throttle_rejected v r flags pos : parse_throttle v = None ->
    scan ("--throttle" :: v :: r) false flags pos = inl "--throttle takes one integer argument." /\
    scan (("--throttle=" ++ v) :: r) false flags pos = inl "--throttle takes one integer argument.".
  Proof.
    intros H. split.
    - cbn [scan]. change (short_to_long "--throttle") with "--throttle".
      change (String.eqb "--throttle" "--") with false. cbv iota.
      change (in_list "--throttle" CLI_FLAGS) with true. cbn [negb andb].
      change (String.eqb "--throttle" "--throttle") with true. cbv iota. rewrite H. reflexivity.
    - cbn [scan].
      assert (S2L : short_to_long ("--throttle=" ++ v) = "--throttle=" ++ v) by reflexivity.
      rewrite S2L.
      assert (NE : String.eqb ("--throttle=" ++ v) "--" = false) by reflexivity. rewrite NE.
      assert (NF : in_list ("--throttle=" ++ v) CLI_FLAGS = false).
      { unfold in_list, CLI_FLAGS. cbn [existsb]. 
        repeat match goal with |- context [String.eqb ?a ?b] =>
                 let e := eval cbn in (String.eqb a b) in change (String.eqb a b) with e end.
        reflexivity. }
      rewrite NF. cbn [negb andb].
      assert (P1 : prefix "--throttle" ("--throttle=" ++ v) = true) by reflexivity. rewrite P1.
      assert (P2 : prefix "--throttle=" ("--throttle=" ++ v) = true) by (destruct v; reflexivity). rewrite P2.
      assert (D : drop 11 ("--throttle=" ++ v) = v).
      { unfold drop. cbn [append String.length]. replace (S (S (S (S (S (S (S (S (S (S (S (String.length v))))))))))) - 11)%nat
          with (String.length v) by lia. cbn [substring].
        clear. induction v as [|c t IH]; cbn [substring String.length]; [reflexivity|]. now rewrite IH. }
      rewrite D, H. reflexivity.
  Qed.

  (* the number an accepted --throttle carries is a natural number *)
  Lemma dec_value_nonneg s : forall acc, (0 <= acc)%Z -> (0 <= dec_value acc s)%Z.
  Proof. induction s as [|c t IH]; intros acc H; cbn [dec_value]; [exact H|]. apply IH. lia. Qed.
  Theorem throttle_is_natural v n : parse_throttle v = Some n -> (0 <= n)%Z.
  Proof.
    unfold parse_throttle. destruct v as [|c t]; [discriminate|]. destruct (all_dec _); [|discriminate].
    intros H. injection H as <-. apply dec_value_nonneg. lia.
  Qed.

  (* after a bare --, every further argument is a positional argument taken as written (further -- are skipped):
     nothing is read as a flag, and -h / -v / -q are not expanded *)
  Lemma stl_dashdash a : String.eqb (short_to_long a) "--" = String.eqb a "--".
  Proof.
    unfold short_to_long.
    destruct (String.eqb a "-h") eqn:E1; [apply String.eqb_eq in E1; subst; reflexivity|].
    destruct (String.eqb a "-v") eqn:E2; [apply String.eqb_eq in E2; subst; reflexivity|].
    destruct (String.eqb a "-q") eqn:E3; [apply String.eqb_eq in E3; subst; reflexivity|].
    reflexivity.
  Qed.
  Theorem after_dashdash_literal argv : forall flags pos,
    scan argv true flags pos = inr (flags, (pos ++ filter (fun a => negb (String.eqb a "--")) argv)%list).
  Proof.
    induction argv as [|a r IH]; intros flags pos; cbn [scan filter].
    - rewrite app_nil_r. reflexivity.
    - rewrite stl_dashdash. destruct (String.eqb a "--") eqn:E; cbn [negb andb].
      + apply IH.
      + rewrite IH, <- app_assoc. reflexivity.
  Qed.
End Rules.
