(* C18_Syntax.v — the two spellings of a valued flag mean the same thing: where the flag loop meets
   `--throttle=v` it continues exactly as it would on the two arguments `--throttle v`, and likewise
   for `--init` (Model/Cli.v). *)
From Coq Require Import ZArith List Bool String Ascii Lia Arith.
From Hera.Gen Require Import CliTables.
From Hera.Model Require Import Cli.
Import ListNotations.
Open Scope string_scope.

Lemma substring_all s : substring 0 (String.length s) s = s.
Proof. induction s as [|c r IH]; cbn [substring String.length]; [reflexivity|now rewrite IH]. Qed.

Lemma drop_throttle v : drop 11 ("--throttle=" ++ v) = v.
Proof. unfold drop. cbn [append String.length Nat.sub substring]. rewrite Nat.sub_0_r. apply substring_all. Qed.
Lemma drop_init v : drop 7 ("--init=" ++ v) = v.
Proof. unfold drop. cbn [append String.length Nat.sub substring]. rewrite Nat.sub_0_r. apply substring_all. Qed.

Section Syntax.
  Variable iv : string -> bool.

  Theorem throttle_spellings_agree v r flags pos :
    scan (("--throttle=" ++ v) :: r) false flags pos = scan ("--throttle" :: v :: r) false flags pos.
  Proof.
    cbn [scan]. 
    assert (S1 : short_to_long ("--throttle=" ++ v) = "--throttle=" ++ v) by reflexivity.
    rewrite S1.
    assert (E1 : String.eqb ("--throttle=" ++ v) "--" = false) by reflexivity. rewrite E1.
    assert (E2 : in_list ("--throttle=" ++ v) CLI_FLAGS = false) by reflexivity. rewrite E2.
    assert (E3 : prefix "--throttle" ("--throttle=" ++ v) = true) by reflexivity.
    assert (E4 : prefix "--throttle=" ("--throttle=" ++ v) = true) by (destruct v; reflexivity).
    cbn [negb andb]. rewrite E3, E4, drop_throttle.
    change (short_to_long "--throttle") with "--throttle".
    change (String.eqb "--throttle" "--") with false.
    change (in_list "--throttle" CLI_FLAGS) with true. cbn [negb andb].
    change (String.eqb "--throttle" "--throttle") with true. cbv iota.
    reflexivity.
  Qed.

  Theorem init_spellings_agree v r flags pos :
    scan (("--init=" ++ v) :: r) false flags pos = scan ("--init" :: v :: r) false flags pos.
  Proof.
    cbn [scan].
    assert (S1 : short_to_long ("--init=" ++ v) = "--init=" ++ v) by reflexivity. rewrite S1.
    assert (E1 : String.eqb ("--init=" ++ v) "--" = false) by reflexivity. rewrite E1.
    assert (E2 : in_list ("--init=" ++ v) CLI_FLAGS = false) by reflexivity. rewrite E2.
    assert (E3 : prefix "--throttle" ("--init=" ++ v) = false) by reflexivity.
    assert (E4 : prefix "--init=" ("--init=" ++ v) = true) by (destruct v; reflexivity).
    cbn [negb andb]. rewrite E3, E4, drop_init.
    change (short_to_long "--init") with "--init".
    change (String.eqb "--init" "--") with false.
    change (in_list "--init" CLI_FLAGS) with true. cbn [negb andb].
    change (String.eqb "--init" "--throttle") with false.
    change (String.eqb "--init" "--init") with true. cbv iota.
    reflexivity.
  Qed.

  (* hence for whole argument vectors that begin with the flag *)
  Corollary throttle_spellings_parse v r :
    parse_args iv (("--throttle=" ++ v) :: r) = parse_args iv ("--throttle" :: v :: r).
  Proof. unfold parse_args. rewrite throttle_spellings_agree. reflexivity. Qed.
End Syntax.
