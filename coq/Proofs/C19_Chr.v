(* C19_Chr.v — a routine that calls another routine: the register-convention `chr` calls `malloc`.
   Code is looked up through a program map [prog : Z -> option instr] that contains both routines at
   their (arbitrary) addresses; the contract of the callee proved on its own instruction list
   ([malloc_reg_core]) is reused inside the caller's run.  Result: chr(c) returns a fresh two-cell
   block of the bump allocator holding the string [1; c], returns to its caller, restores FP and SP
   and the caller's R2..R8. *)
From Coq Require Import ZArith List Bool Lia.
From Hera.Lib Require Import Py Machine Word16.
From Hera.Spec Require Import ISA Wf.
From Hera.Proofs Require Import SpecLemmas SpecCore C19_Malloc C19_Memcpy.
Import ListNotations.
Open Scope Z_scope.

(* ---- running code found through a program map ------------------------------------------------------------ *)
Fixpoint crun_in (prog : Z -> option instr) (n : nat) (c : core) : option core :=
  match n with
  | O => Some c
  | S k => match prog (cpc c) with
           | Some i => match cstep i c with Some c1 => crun_in prog k c1 | None => None end
           | None => None
           end
  end.
Fixpoint run_in (prog : Z -> option instr) (n : nat) (s : vm) : option vm :=
  match n with
  | O => Some s
  | S k => match prog (pc s) with Some i => run_in prog k (step i s) | None => None end
  end.

Definition contains (prog : Z -> option instr) (base : Z) (code : list instr) : Prop :=
  forall p i, fetch base code p = Some i -> prog p = Some i.

Lemma contains_nth prog base code k i : contains prog base code -> 0 <= base ->
  nth_error code k = Some i -> prog (base + Z.of_nat k) = Some i.
Proof.
  intros H Hb E. apply H. unfold fetch. destruct (base <=? base + Z.of_nat k) eqn:L; [|lia].
  replace (Z.to_nat (base + Z.of_nat k - base)) with k by lia. exact E.
Qed.

(* a run of a routine on its own instruction list is a run in any program that contains the list *)
Lemma crun_at_in prog base code : contains prog base code ->
  forall n c c', crun_at base code n c = Some c' -> crun_in prog n c = Some c'.
Proof.
  intros H. induction n as [|k IH]; intros c c' E; [exact E|].
  cbn [crun_at] in E. cbn [crun_in]. destruct (fetch base code (cpc c)) as [i|] eqn:F; [|discriminate E].
  rewrite (H _ _ F). destruct (cstep i c) as [c1|]; [|discriminate E]. apply IH, E.
Qed.

Lemma crun_in_app prog n1 : forall n2 c c1 c2,
  crun_in prog n1 c = Some c1 -> crun_in prog n2 c1 = Some c2 -> crun_in prog (n1 + n2) c = Some c2.
Proof.
  induction n1 as [|k IH]; intros n2 c c1 c2 E1 E2.
  - injection E1 as <-. exact E2.
  - cbn [crun_in Nat.add] in *. destruct (prog (cpc c)) as [i|]; [|discriminate E1].
    destruct (cstep i c) as [c'|]; [|discriminate E1]. exact (IH n2 c' c1 c2 E1 E2).
Qed.

Lemma crun_in_step prog n c i c1 :
  prog (cpc c) = Some i -> cstep i c = Some c1 -> crun_in prog (S n) c = crun_in prog n c1.
Proof. intros P E. cbn [crun_in]. rewrite P, E. reflexivity. Qed.

Theorem sim_run_in prog : (forall p i, prog p = Some i -> valid_instr i = true) ->
  forall n s c c', sim s c -> crun_in prog n c = Some c' ->
  exists s', run_in prog n s = Some s' /\ sim s' c'.
Proof.
  intros V. induction n as [|k IH]; intros s c c' H E.
  - injection E as <-. exists s. split; [reflexivity|exact H].
  - cbn [crun_in] in E. cbn [run_in]. rewrite (sim_pc s c H).
    destruct (prog (cpc c)) as [i|] eqn:F; [|discriminate E].
    destruct (cstep i c) as [c1|] eqn:Ec; [|discriminate E].
    apply (IH (step i s) c1 c'); [|exact E]. apply (sim_step i s c c1 H); [apply (V _ _ F)|exact Ec].
Qed.

(* ---- chr, register convention ------------------------------------------------------------------------------- *)
Definition chr_reg_code (mbase : Z) : list instr :=
  [I_STORE 13 0 14; I_STORE 12 1 14; I_INC 15 2; I_STORE 1 4 14; I_STORE 2 5 14; I_OR 12 15 0; I_INC 15 5;
   I_SETLO 1 2; I_SETHI 1 0; I_SETLO 13 (mbase mod 256); I_SETHI 13 (mbase / 256); I_CALL 12 13;
   I_OR 2 1 0; I_DEC 15 5; I_SETLO 11 1; I_SETHI 11 0; I_STORE 11 0 2; I_LOAD 1 4 14; I_STORE 1 1 2;
   I_OR 1 2 0; I_LOAD 2 5 14; I_LOAD 13 0 14; I_LOAD 12 1 14; I_DEC 15 2; I_RETURN 12 13].

Lemma crun_in_step' prog base code n c k i c1 :
  contains prog base code -> 0 <= base ->
  cpc c = base + Z.of_nat k -> nth_error code k = Some i -> cstep i c = Some c1 ->
  crun_in prog (S n) c = crun_in prog n c1.
Proof. intros H Hb P F E. apply (crun_in_step prog n c i c1); [|exact E]. rewrite P. exact (contains_nth _ _ _ _ _ H Hb F). Qed.

Ltac igo H Hb k :=
  erewrite (crun_in_step' _ _ _ _ _ k _ _ H Hb); [ | cnorm; try lia | reflexivity | reflexivity ]; cnorm.

(* R0 is never written *)
Lemma cset_r0 i v c : cr (cset i v c) 0 = cr c 0.
Proof. unfold cset. destruct (i =? 0) eqn:E; [reflexivity|]. cbn [cr with_r]. destruct (0 =? i) eqn:E2; [lia|reflexivity]. Qed.
Lemma cstep_r0 i c c' : cstep i c = Some c' -> cr c' 0 = cr c 0.
Proof.
  destruct i; cbn [cstep]; intros E; try discriminate E; try (injection E as <-);
    unfold calu3, cnext, czs, cswap, cf_ADD, cf_SUB; cbn [cr with_pc with_S with_Z with_V with_C with_CB with_mem fst snd];
    rewrite ?cset_r0; try reflexivity.
  - destruct (cholds c0 c); reflexivity.
  - destruct c0; try discriminate E; injection E as <-;
      match goal with |- cr (if ?b then _ else _) 0 = _ => destruct b end; reflexivity.
Qed.
Lemma crun_at_r0 base code n : forall c c', crun_at base code n c = Some c' -> cr c' 0 = cr c 0.
Proof.
  induction n as [|k IH]; intros c c' E; [injection E as <-; reflexivity|].
  cbn [crun_at] in E. destruct (fetch base code (cpc c)) as [i|]; [|discriminate E].
  destruct (cstep i c) as [c1|] eqn:E1; [|discriminate E]. rewrite (IH _ _ E). exact (cstep_r0 _ _ _ E1).
Qed.

Lemma off_ne2 x j k : 0 <= j < 65536 -> 0 <= k < 65536 -> j <> k -> (x + j) mod 65536 <> (x + k) mod 65536.
Proof.
  intros Hj Hk N E. assert (X : (x + j - (x + k)) mod 65536 = 0).
  { rewrite Zminus_mod, E, Z.sub_diag. reflexivity. }
  replace (x + j - (x + k)) with (j - k) in X by lia.
  destruct (Z_lt_le_dec j k).
  - replace (j - k) with (-(k - j)) in X by lia. apply Z.mod_opp_l_z in X; [|lia].
    rewrite Z.opp_involutive, Z.mod_small in X by lia. lia.
  - rewrite Z.mod_small in X by lia. lia.
Qed.


Lemma mro m a b v : 0 <= a < 65536 -> 0 <= b < 65536 -> a <> b -> wf_mem m ->
  mem_read (mem_write m a v) b = mem_read m b.
Proof. intros Ha Hb N W. apply mrw_other; [lia|lia|exact N|exact W]. Qed.

(* chr(c): a fresh block [1; c] of the allocator.  The frame cells FP+0, FP+1, FP+4, FP+5 must lie outside the heap. *)
Lemma chr_reg_core prog cbase mbase r m fS fZ fV fC fCB p q :
  contains prog cbase (chr_reg_code mbase) -> contains prog mbase malloc_reg_code ->
  0 <= cbase -> cbase + 24 < 65536 -> 0 <= mbase < 65536 ->
  r 0 = 0 -> 0 <= r 1 < 65536 -> 0 <= r 2 < 65536 -> 0 <= r 12 < 65536 -> 0 <= r 13 < 65536 -> 0 <= r 15 < 65536 ->
  wf_mem m -> heap_ok (mem_read m heap_cell) ->
  (forall k, 0 <= k <= 5 -> (r 14 + k) mod 65536 < heap_cell \/ heap_end <= (r 14 + k) mod 65536) ->
  alloc (mem_read m heap_cell) 2 = Some (p, q) ->
  exists n c', crun_in prog n (mkcore r m cbase fS fZ fV fC fCB) = Some c' /\
    cr c' 1 = p /\ mem_read (cmem c') p = 1 /\ mem_read (cmem c') (p + 1) = r 1 /\
    mem_read (cmem c') heap_cell = q /\
    cpc c' = r 13 /\ cr c' 14 = r 12 /\ cr c' 15 = r 15 /\ cr c' 2 = r 2 /\
    (forall j, 3 <= j <= 8 -> cr c' j = r j) /\
    (forall b, 0 <= b < 65536 -> b <> heap_cell -> b <> p -> b <> p + 1 ->
       (forall k, 0 <= k <= 5 -> b <> (r 14 + k) mod 65536) -> mem_read (cmem c') b = mem_read m b).
Proof.
  intros HC HM Hcb Hcb2 Hmb R0 R1 R2 R12 R13 R15 WM HO Fr A.
  destruct (alloc_spec _ 2 _ _ HO ltac:(lia) A) as (Ep & Eq & Gp & Lp & _ & _). clear Ep HO.
  unfold heap_cell, heap_end in *.
  assert (Bp : 0 <= p < 65536) by lia. assert (Bp1 : 0 <= p + 1 < 65536) by lia.
  assert (BH : 0 <= 16384 < 65536) by lia. assert (Npp : p <> p + 1) by lia.
  assert (NHp : 16384 <> p) by lia. assert (NHp1 : 16384 <> p + 1) by lia.
  assert (Pm0 : (p + 0) mod 65536 = p) by (rewrite Z.add_0_r; apply Z.mod_small; lia).
  assert (Pm1 : (p + 1) mod 65536 = p + 1) by (apply Z.mod_small; lia).
  assert (S15 : ((((r 15 + 2) mod 65536 + 5) mod 65536 - 5) mod 65536 - 2) mod 65536 = r 15).
  { clear - R15. lia. }
  set (a0 := (r 14 + 0) mod 65536). set (a1 := (r 14 + 1) mod 65536).
  set (a4 := (r 14 + 4) mod 65536). set (a5 := (r 14 + 5) mod 65536).
  assert (B0 : 0 <= a0 < 65536) by (apply Z.mod_pos_bound; lia).
  assert (B1 : 0 <= a1 < 65536) by (apply Z.mod_pos_bound; lia).
  assert (B4 : 0 <= a4 < 65536) by (apply Z.mod_pos_bound; lia).
  assert (B5 : 0 <= a5 < 65536) by (apply Z.mod_pos_bound; lia).
  assert (N10 : a1 <> a0) by (apply off_ne2; lia). assert (N40 : a4 <> a0) by (apply off_ne2; lia).
  assert (N50 : a5 <> a0) by (apply off_ne2; lia). assert (N41 : a4 <> a1) by (apply off_ne2; lia).
  assert (N51 : a5 <> a1) by (apply off_ne2; lia). assert (N54 : a5 <> a4) by (apply off_ne2; lia).
  assert (O0 : a0 < 16384 \/ 49151 <= a0) by (apply Fr; lia).
  assert (O1 : a1 < 16384 \/ 49151 <= a1) by (apply Fr; lia).
  assert (O4 : a4 < 16384 \/ 49151 <= a4) by (apply Fr; lia).
  assert (O5 : a5 < 16384 \/ 49151 <= a5) by (apply Fr; lia).
  assert (H0 : a0 <> 16384) by (clear - O0; lia). assert (H1 : a1 <> 16384) by (clear - O1; lia).
  assert (H4 : a4 <> 16384) by (clear - O4; lia). assert (H5 : a5 <> 16384) by (clear - O5; lia).
  assert (P0 : p <> a0) by (clear - O0 Gp Lp; lia). assert (P1 : p <> a1) by (clear - O1 Gp Lp; lia).
  assert (P4 : p <> a4) by (clear - O4 Gp Lp; lia). assert (P5 : p <> a5) by (clear - O5 Gp Lp; lia).
  assert (Q0 : p + 1 <> a0) by (clear - O0 Gp Lp; lia). assert (Q1 : p + 1 <> a1) by (clear - O1 Gp Lp; lia).
  assert (Q4 : p + 1 <> a4) by (clear - O4 Gp Lp; lia). assert (Q5 : p + 1 <> a5) by (clear - O5 Gp Lp; lia).
  clear O0 O1 O4 O5.
  set (m1 := mem_write m a0 (r 13)). set (m2' := mem_write m1 a1 (r 12)). set (m3 := mem_write m2' a4 (r 1)).
  set (m4 := mem_write m3 a5 (r 2)).
  assert (W1 : wf_mem m1) by (apply wf_mw; [exact WM|exact B0|unfold word; lia]).
  assert (W2 : wf_mem m2') by (apply wf_mw; [exact W1|exact B1|unfold word; lia]).
  assert (W3 : wf_mem m3) by (apply wf_mw; [exact W2|exact B4|unfold word; lia]).
  assert (W4 : wf_mem m4) by (apply wf_mw; [exact W3|exact B5|unfold word; lia]).
  (* what the frame holds once the registers have been saved *)
  assert (Hh : mem_read m4 16384 = mem_read m 16384).
  { unfold m4. rewrite (mro m3 a5 16384 _ B5 BH H5 W3). unfold m3. rewrite (mro m2' a4 16384 _ B4 BH H4 W2).
    unfold m2'. rewrite (mro m1 a1 16384 _ B1 BH H1 W1). unfold m1. apply (mro m a0 16384 _ B0 BH H0 WM). }
  assert (F5 : mem_read m4 a5 = r 2) by (apply mrw_same; exact (proj1 B5)).
  assert (F4 : mem_read m4 a4 = r 1).
  { unfold m4. rewrite (mro m3 a5 a4 _ B5 B4 N54 W3). apply mrw_same. exact (proj1 B4). }
  assert (F1 : mem_read m4 a1 = r 12).
  { unfold m4. rewrite (mro m3 a5 a1 _ B5 B1 N51 W3). unfold m3. rewrite (mro m2' a4 a1 _ B4 B1 N41 W2).
    apply mrw_same. exact (proj1 B1). }
  assert (F0 : mem_read m4 a0 = r 13).
  { unfold m4. rewrite (mro m3 a5 a0 _ B5 B0 N50 W3). unfold m3. rewrite (mro m2' a4 a0 _ B4 B0 N40 W2).
    unfold m2'. rewrite (mro m1 a1 a0 _ B1 B0 N10 W1). apply mrw_same. exact (proj1 B0). }
  (* up to and including the CALL *)
  eassert (E1 : crun_in prog 12 (mkcore r m cbase fS fZ fV fC fCB) = Some _).
  { clear - HC Hcb Hcb2 Hmb.
    igo HC Hcb 0%nat. igo HC Hcb 1%nat. igo HC Hcb 2%nat. igo HC Hcb 3%nat. igo HC Hcb 4%nat. igo HC Hcb 5%nat.
    igo HC Hcb 6%nat. igo HC Hcb 7%nat. igo HC Hcb 8%nat. igo HC Hcb 9%nat. igo HC Hcb 10%nat.
    rewrite (set_value mbase) by lia. igo HC Hcb 11%nat. reflexivity. }
  fold a0 a1 a4 a5 in E1. fold m1 m2' m3 m4 in E1.
  match type of E1 with _ = Some (mkcore ?r' _ _ ?a ?b ?c ?d ?e) =>
    set (rm := r') in E1;
    destruct (malloc_reg_core mbase rm m4 a b c d e p q) as (n2 & c2 & E2 & M1 & M2 & M3 & M4 & M5 & M6 & M7 & M8)
  end.
  - subst rm. cbn [Z.eqb Pos.eqb]. exact R0.
  - subst rm. cbn [Z.eqb Pos.eqb]. clear. lia.
  - apply mr_word. exact W4.
  - subst rm. cbn [Z.eqb Pos.eqb]. unfold heap_cell. rewrite Hh. exact A.
  - specialize (M7 W4). specialize (M8 W4). unfold heap_cell in *.
    pose proof (crun_at_r0 _ _ _ _ _ E2) as M0. cbn [cr] in M0.
    apply (crun_at_in prog mbase malloc_reg_code HM) in E2.
    destruct c2 as [r2 m2 p2 gS gZ gV gC gCB]. cbn [cr cmem cpc] in *. subst p2.
    assert (R20 : r2 0 = 0) by (rewrite M0; subst rm; cbn [Z.eqb Pos.eqb]; exact R0).
    assert (R214 : r2 14 = r 14) by (rewrite M4; subst rm; cbn [Z.eqb Pos.eqb]; reflexivity).
    assert (R215 : r2 15 = ((r 15 + 2) mod 65536 + 5) mod 65536) by (rewrite M5; subst rm; cbn [Z.eqb Pos.eqb]; reflexivity).
    assert (Rpc : rm 13 = cbase + 12) by (subst rm; cbn [Z.eqb Pos.eqb]; clear; lia).
    assert (A5 : mem_read m2 a5 = r 2) by (rewrite (M7 a5 (proj1 B5) H5); exact F5).
    assert (A4 : mem_read m2 a4 = r 1) by (rewrite (M7 a4 (proj1 B4) H4); exact F4).
    assert (A1 : mem_read m2 a1 = r 12) by (rewrite (M7 a1 (proj1 B1) H1); exact F1).
    assert (A0 : mem_read m2 a0 = r 13) by (rewrite (M7 a0 (proj1 B0) H0); exact F0).
    set (m5 := mem_write m2 p 1). set (m6 := mem_write m5 (p + 1) (r 1)).
    assert (W5 : wf_mem m5) by (apply wf_mw; [exact M8|exact Bp|unfold word; clear; lia]).
    assert (W6 : wf_mem m6) by (apply wf_mw; [exact W5|exact Bp1|unfold word; exact R1]).
    (* the rest of chr *)
    eassert (E3 : crun_in prog 13 (mkcore r2 m2 (rm 13) gS gZ gV gC gCB) = Some _).
    { rewrite Rpc. clear - HC Hcb Hcb2 R20 M1 R214 Pm0 Pm1 A4 Bp B4 P4 M8.
      unfold a4 in A4, B4, P4.
      igo HC Hcb 12%nat. rewrite R20, M1, Z.lor_0_r. igo HC Hcb 13%nat. igo HC Hcb 14%nat. igo HC Hcb 15%nat.
      igo HC Hcb 16%nat. rewrite Pm0. igo HC Hcb 17%nat. rewrite R214.
      rewrite (mro m2 p ((r 14 + 4) mod 65536) _ Bp B4 P4 M8), A4.
      igo HC Hcb 18%nat. rewrite Pm1. igo HC Hcb 19%nat. rewrite R20, Z.lor_0_r.
      igo HC Hcb 20%nat. rewrite R214. igo HC Hcb 21%nat. rewrite R214.
      igo HC Hcb 22%nat. rewrite R214. igo HC Hcb 23%nat. igo HC Hcb 24%nat. reflexivity. }
    fold a0 a1 a4 a5 in E3. fold m5 in E3. fold m6 in E3.
    exists (12 + n2 + 13)%nat. eexists. split.
    { apply (crun_in_app _ _ _ _ _ _ (crun_in_app _ _ _ _ _ _ E1 E2) E3). }
    assert (Np1p : p + 1 <> p) by (clear; lia). assert (Np1H : p + 1 <> 16384) by (clear - NHp1; lia).
    assert (NpH : p <> 16384) by (clear - NHp; lia).
    assert (G0 : mem_read m6 a0 = r 13).
    { unfold m6. rewrite (mro m5 (p + 1) a0 _ Bp1 B0 Q0 W5). unfold m5. rewrite (mro m2 p a0 _ Bp B0 P0 M8). exact A0. }
    assert (G1 : mem_read m6 a1 = r 12).
    { unfold m6. rewrite (mro m5 (p + 1) a1 _ Bp1 B1 Q1 W5). unfold m5. rewrite (mro m2 p a1 _ Bp B1 P1 M8). exact A1. }
    assert (G5 : mem_read m6 a5 = r 2).
    { unfold m6. rewrite (mro m5 (p + 1) a5 _ Bp1 B5 Q5 W5). unfold m5. rewrite (mro m2 p a5 _ Bp B5 P5 M8). exact A5. }
    cbn [cr cmem cpc]. cbn [Z.eqb Pos.eqb]. rewrite G0, G1, G5, R215, S15.
    split; [reflexivity|]. split.
    { unfold m6. rewrite (mro m5 (p + 1) p _ Bp1 Bp Np1p W5). unfold m5. apply mrw_same. exact (proj1 Bp). }
    split. { unfold m6. apply mrw_same. exact (proj1 Bp1). }
    split.
    { unfold m6. rewrite (mro m5 (p + 1) 16384 _ Bp1 BH Np1H W5). unfold m5. rewrite (mro m2 p 16384 _ Bp BH NpH M8). exact M2. }
    split; [reflexivity|]. split; [reflexivity|]. split; [reflexivity|]. split; [reflexivity|]. split.
    { intros j Hj.
      repeat match goal with |- context [j =? ?x] => destruct (j =? x) eqn:E; [exfalso; clear - Hj E; lia|clear E] end.
      rewrite (M6 j) by (clear - Hj; lia). subst rm. cbv beta.
      repeat match goal with |- context [j =? ?x] => destruct (j =? x) eqn:E; [exfalso; clear - Hj E; lia|clear E] end.
      reflexivity. }
    intros b Hb NbH Nbp Nbp1 Nf.
    assert (K0 : a0 <> b) by (intros X; apply (Nf 0); [clear; lia|symmetry; exact X]).
    assert (K1 : a1 <> b) by (intros X; apply (Nf 1); [clear; lia|symmetry; exact X]).
    assert (K4 : a4 <> b) by (intros X; apply (Nf 4); [clear; lia|symmetry; exact X]).
    assert (K5 : a5 <> b) by (intros X; apply (Nf 5); [clear; lia|symmetry; exact X]).
    unfold m6. rewrite (mro m5 (p + 1) b _ Bp1 Hb (not_eq_sym Nbp1) W5).
    unfold m5. rewrite (mro m2 p b _ Bp Hb (not_eq_sym Nbp) M8).
    rewrite (M7 b (proj1 Hb) NbH).
    unfold m4. rewrite (mro m3 a5 b _ B5 Hb K5 W3). unfold m3. rewrite (mro m2' a4 b _ B4 Hb K4 W2).
    unfold m2'. rewrite (mro m1 a1 b _ B1 Hb K1 W1). unfold m1. apply (mro m a0 b _ B0 Hb K0 WM).
Qed.

Lemma chr_code_valid mbase : 0 <= mbase < 65536 -> Forall (fun i => valid_instr i = true) (chr_reg_code mbase).
Proof.
  intros H. unfold chr_reg_code. destruct (lo_hi_ok mbase H) as [A B].
  repeat constructor; cbn [valid_instr reg_ok]; rewrite ?A, ?B; reflexivity.
Qed.

(* the routine on the specification machine itself, in any program that holds chr and malloc somewhere *)
Theorem chr_reg_contract prog cbase mbase s p q :
  contains prog cbase (chr_reg_code mbase) -> contains prog mbase malloc_reg_code ->
  (forall a i, prog a = Some i -> valid_instr i = true) ->
  0 <= cbase -> cbase + 24 < 65536 -> 0 <= mbase < 65536 ->
  List.length (regs s) = 16%nat -> pc s = cbase -> getreg s 0 = 0 ->
  word (getreg s 1) -> word (getreg s 2) -> word (getreg s 12) -> word (getreg s 13) -> word (getreg s 15) ->
  wf_mem (mem s) -> heap_ok (mem_read (mem s) heap_cell) ->
  (forall k, 0 <= k <= 5 -> (getreg s 14 + k) mod 65536 < heap_cell \/ heap_end <= (getreg s 14 + k) mod 65536) ->
  alloc (mem_read (mem s) heap_cell) 2 = Some (p, q) ->
  exists n s', run_in prog n s = Some s' /\
    getreg s' 1 = p /\ mem_read (mem s') p = 1 /\ mem_read (mem s') (p + 1) = getreg s 1 /\
    mem_read (mem s') heap_cell = q /\
    pc s' = getreg s 13 /\ getreg s' 14 = getreg s 12 /\ getreg s' 15 = getreg s 15 /\ getreg s' 2 = getreg s 2 /\
    (forall j, 3 <= j <= 8 -> getreg s' j = getreg s j) /\
    (forall b, 0 <= b < 65536 -> b <> heap_cell -> b <> p -> b <> p + 1 ->
       (forall k, 0 <= k <= 5 -> b <> (getreg s 14 + k) mod 65536) -> mem_read (mem s') b = mem_read (mem s) b).
Proof.
  intros HC HM V Hcb Hcb2 Hmb L P R0 W1 W2 W12 W13 W15 WM HO Fr A.
  destruct (chr_reg_core prog cbase mbase (getreg s) (mem s) (flag (f_s s)) (flag (f_z s)) (flag (f_v s)) (flag (f_c s))
              (flag (f_cb s)) p q HC HM Hcb Hcb2 Hmb R0 W1 W2 W12 W13 W15 WM HO Fr A)
    as (n & c' & E & Q1 & Q2 & Q3 & Q4 & Q5 & Q6 & Q7 & Q8 & Q9 & Q10).
  pose proof (sim_core_of s L) as S0. unfold core_of in S0. rewrite P in S0.
  destruct (sim_run_in prog V n s _ c' S0 E) as (s' & Rn & S').
  exists n, s'. split; [exact Rn|].
  rewrite !(sim_reg s' c' _ S') by lia. rewrite (sim_pc s' c' S'), (sim_mem s' c' S').
  repeat split; try assumption.
  intros j Hj. rewrite (sim_reg s' c' j S') by lia. apply Q9, Hj.
Qed.

(* the hypotheses are satisfiable: malloc at address 0, chr right behind it, chr(65) called with an empty heap *)
Definition demo_prog : Z -> option instr := fetch 0 (malloc_reg_code ++ chr_reg_code 0).
Example chr_runs_somewhere :
  let c0 := mkcore (fun j => if j =? 1 then 65 else if j =? 13 then 777 else if j =? 15 then 100 else if j =? 14 then 100 else 0)
                   (mkmem 0 []) 20 false false false false true in
  exists c', crun_in demo_prog 45 c0 = Some c' /\ cr c' 1 = 16385 /\ cpc c' = 777 /\
             map (mem_read (cmem c')) [16384; 16385; 16386] = [16387; 1; 65] /\ cr c' 15 = 100.
Proof. eexists. split; [vm_compute; reflexivity|]. repeat split. Qed.
