(* C06_Listing.v — the text `hera assemble` prints reads back, with a strict reader of the format, as exactly
   the words and the data image that were printed (Model/Listing.v).  The single-number facts are the finite
   sweeps of C06_ListingSweep.v; the line structure is by induction. *)
From Coq Require Import ZArith List Bool Lia.
From Hera.Lib Require Import Word16.
From Hera.Model Require Import Listing.
From Hera.Proofs Require Import C06_ListingSweep.
Import ListNotations.
Open Scope Z_scope.

(* ---- lines ------------------------------------------------------------------------------------------- *)

Lemma lines_nonempty s : lines s <> [].
Proof.
  destruct s as [|c r]; simpl; [discriminate|].
  destruct (c =? NL); [discriminate|]. destruct (lines r); discriminate.
Qed.

Lemma lines_single a : nonl a = true -> lines a = [a].
Proof.
  induction a as [|c a IH]; simpl; intros H; [reflexivity|].
  apply andb_true_iff in H. destruct H as [Hc Ha].
  destruct (c =? NL); [discriminate|]. rewrite (IH Ha). reflexivity.
Qed.

Lemma lines_app a r : nonl a = true -> lines (a ++ NL :: r) = a :: lines r.
Proof.
  induction a as [|c a IH]; simpl; intros H.
  - reflexivity.
  - apply andb_true_iff in H. destruct H as [Hc Ha].
    destruct (c =? NL); [discriminate|]. rewrite (IH Ha). reflexivity.
Qed.

Lemma lines_join (f : Z -> list Z) ws :
  (forall w, In w ws -> nonl (f w) = true) -> ws <> [] -> lines (join_lines (map f ws)) = map f ws.
Proof.
  induction ws as [|w ws IH]; intros Hf Hne; [congruence|].
  destruct ws as [|w2 ws].
  - simpl. apply lines_single. apply Hf. now left.
  - change (join_lines (map f (w :: w2 :: ws))) with (f w ++ NL :: join_lines (map f (w2 :: ws))).
    rewrite lines_app by (apply Hf; now left).
    rewrite IH; [reflexivity| |discriminate].
    intros x Hx. apply Hf. now right.
Qed.

(* the lines of a listing that may be empty: join of no lines is the empty text, whose only line is empty *)
Lemma lines_join_any (f : Z -> list Z) ws :
  (forall w, In w ws -> nonl (f w) = true) ->
  lines (join_lines (map f ws)) = match ws with [] => [[]] | _ :: _ => map f ws end.
Proof.
  intros Hf. destruct ws as [|w ws]; [reflexivity|]. apply lines_join; [exact Hf|discriminate].
Qed.

(* ---- the code listing ---------------------------------------------------------------------------------- *)

Definition word (w : Z) : Prop := 0 <= w < 65536.

Lemma read_words_hex4 ws : Forall word ws -> read_words (map hex4 ws) = Some ws.
Proof.
  induction 1 as [|w ws Hw _ IH]; [reflexivity|]. cbn [map read_words].
  destruct (hex4_ok w Hw) as [Hp _]. rewrite Hp, IH. reflexivity.
Qed.

Lemma read_code_listing ws : ws <> [] -> Forall word ws -> read_code (code_listing ws) = Some ws.
Proof.
  intros Hne Hws. unfold read_code, code_listing.
  rewrite lines_join; [now apply read_words_hex4| |exact Hne].
  intros w Hw. rewrite Forall_forall in Hws. exact (proj2 (hex4_ok w (Hws w Hw))).
Qed.

(* ---- the data image ------------------------------------------------------------------------------------ *)

Lemma split_star_none s : nostar s = true -> split_star s = None.
Proof.
  induction s as [|c s IH]; simpl; intros H; [reflexivity|].
  apply andb_true_iff in H. destruct H as [Hc Hs].
  destruct (c =? STAR); [discriminate|]. now rewrite (IH Hs).
Qed.

Lemma split_star_app a b : nostar a = true -> split_star (a ++ STAR :: b) = Some (a, b).
Proof.
  induction a as [|c a IH]; simpl; intros H.
  - reflexivity.
  - apply andb_true_iff in H. destruct H as [Hc Ha].
    destruct (c =? STAR); [discriminate|]. now rewrite (IH Ha).
Qed.

Lemma image_line_cell w : 0 <= w <= 65536 -> image_line (hexmin w) = Some (1, w).
Proof.
  intros Hw. destruct (hexmin_ok w Hw) as (Hp & _ & Hs & _).
  unfold image_line. now rewrite (split_star_none _ Hs), Hp.
Qed.

Lemma image_line_zeros n : 0 <= n < 65536 -> image_line (dec n ++ [STAR; ZERO]) = Some (n, 0).
Proof.
  intros Hn. destruct (dec_ok n Hn) as (Hp & _ & Hs & _).
  unfold image_line. rewrite (split_star_app _ [ZERO] Hs), Hp. reflexivity.
Qed.

Lemma image_runs_cells cells : Forall word cells ->
  image_runs (map hexmin cells) = Some (map (fun c => (1, c)) cells).
Proof.
  induction 1 as [|w ws Hw _ IH]; [reflexivity|].
  assert (Hw' : 0 <= w <= 65536) by (unfold word in Hw; lia).
  destruct (hexmin_ok w Hw') as (_ & _ & _ & Hne).
  cbn [map image_runs]. destruct (hexmin w) as [|c r] eqn:E; [discriminate|].
  rewrite <- E, (image_line_cell w Hw'), IH. reflexivity.
Qed.

Lemma nonempty_app a b : nonempty a = true -> nonempty (a ++ b) = true.
Proof. destruct a; [discriminate|reflexivity]. Qed.

Lemma nonl_app a b : nonl a = true -> nonl b = true -> nonl (a ++ b) = true.
Proof. unfold nonl. intros Ha Hb. rewrite forallb_app, Ha, Hb. reflexivity. Qed.

Definition image_of (ds : Z) (cells : list Z) : list (Z * Z) :=
  (ds - 1, 0) :: (1, Z.of_nat (length cells) + ds) :: map (fun c => (1, c)) cells.

Lemma read_data_listing ds cells :
  1 <= ds -> ds + Z.of_nat (length cells) <= 65536 -> Forall word cells ->
  read_image (data_listing ds cells) = Some (image_of ds cells).
Proof.
  intros Hds Hlen Hcells. unfold read_image, data_listing.
  assert (Hn : 0 <= ds - 1 < 65536) by lia.
  assert (Hc : 0 <= Z.of_nat (length cells) + ds <= 65536) by lia.
  destruct (dec_ok (ds - 1) Hn) as (_ & Hnl & _ & Hne).
  destruct (hexmin_ok _ Hc) as (_ & Hnl2 & _ & Hne2).
  change (dec (ds - 1) ++ [STAR; ZERO; NL] ++ hexmin (Z.of_nat (length cells) + ds) ++ NL :: join_lines (map hexmin cells))
    with (dec (ds - 1) ++ [STAR; ZERO] ++ NL :: (hexmin (Z.of_nat (length cells) + ds) ++ NL :: join_lines (map hexmin cells))).
  rewrite app_assoc, lines_app by (apply nonl_app; [exact Hnl|reflexivity]).
  rewrite lines_app by exact Hnl2.
  rewrite lines_join_any.
  2:{ intros w Hw. rewrite Forall_forall in Hcells. specialize (Hcells w Hw). unfold word in Hcells.
      apply (hexmin_ok w). lia. }
  assert (E1 : nonempty (dec (ds - 1) ++ [STAR; ZERO]) = true) by (now apply nonempty_app).
  cbn [image_runs].
  destruct (dec (ds - 1) ++ [STAR; ZERO]) as [|c1 r1] eqn:EA; [discriminate|]. rewrite <- EA.
  rewrite (image_line_zeros _ Hn).
  destruct (hexmin (Z.of_nat (length cells) + ds)) as [|c2 r2] eqn:EB; [discriminate|]. rewrite <- EB.
  rewrite (image_line_cell _ Hc).
  unfold image_of. destruct cells as [|c cs].
  - reflexivity.
  - rewrite (image_runs_cells _ Hcells). reflexivity.
Qed.

(* where the cells of the image lie *)
Lemma cell_at_cells cells : forall i, 0 <= i < Z.of_nat (length cells) ->
  cell_at (map (fun c => (1, c)) cells) i = nth (Z.to_nat i) cells 0.
Proof.
  induction cells as [|c cs IH]; intros i Hi; [simpl in Hi; lia|].
  cbn [map cell_at]. destruct (i <? 1) eqn:E.
  - apply Z.ltb_lt in E. assert (i = 0) by lia. subst. reflexivity.
  - apply Z.ltb_ge in E. rewrite IH by (simpl length in Hi; lia).
    replace (Z.to_nat i) with (S (Z.to_nat (i - 1))) by lia. reflexivity.
Qed.

Lemma image_cells ds cells : 1 <= ds ->
  (forall a, 0 <= a < ds - 1 -> cell_at (image_of ds cells) a = 0) /\
  cell_at (image_of ds cells) (ds - 1) = Z.of_nat (length cells) + ds /\
  (forall i, 0 <= i < Z.of_nat (length cells) -> cell_at (image_of ds cells) (ds + i) = nth (Z.to_nat i) cells 0).
Proof.
  intros Hds. unfold image_of. repeat split.
  - intros a Ha. cbn [cell_at]. destruct (a <? ds - 1) eqn:E; [reflexivity|]. apply Z.ltb_ge in E. lia.
  - cbn [cell_at]. rewrite Z.ltb_irrefl. replace (ds - 1 - (ds - 1)) with 0 by lia. reflexivity.
  - intros i Hi. cbn [cell_at]. destruct (ds + i <? ds - 1) eqn:E; [apply Z.ltb_lt in E; lia|].
    replace (ds + i - (ds - 1)) with (i + 1) by lia.
    destruct (i + 1 <? 1) eqn:E2; [apply Z.ltb_lt in E2; lia|].
    replace (i + 1 - 1) with i by lia. now apply cell_at_cells.
Qed.

(* ---- the code listing of a program, read back and decoded ----------------------------------------------- *)
From Hera.Spec Require Import ISA EncTable.
From Hera.Proofs Require Import C05_Sweep C06_Decode.

Definition chk_word_range (i : instr) : bool := (0 <=? word_of i) && (word_of i <? 65536).
Lemma word_range_all : forallb chk_word_range all_valid_instrs = true.
Proof. vm_compute. reflexivity. Qed.

Lemma word_of_word i : valid_instr i = true -> word (word_of i).
Proof.
  intros H. pose proof word_range_all as A. rewrite forallb_forall in A.
  specialize (A i (all_valid_complete i H)). unfold chk_word_range in A.
  apply andb_true_iff in A. destruct A as [A1 A2]. apply Z.leb_le in A1. apply Z.ltb_lt in A2.
  unfold word. lia.
Qed.

Lemma listing_disassembles instrs : instrs <> [] -> Forall (fun i => valid_instr i = true) instrs ->
  option_map (map decode_word) (read_code (code_listing (map word_of instrs))) =
  Some (map (fun i => Some (canon i)) instrs).
Proof.
  intros Hne Hv. rewrite read_code_listing.
  - cbn [option_map]. f_equal. rewrite map_map. apply map_ext_in.
    intros i Hi. rewrite Forall_forall in Hv. now apply decode_word_encode, Hv.
  - destruct instrs; [congruence|discriminate].
  - rewrite Forall_forall in *. intros w Hw. apply in_map_iff in Hw. destruct Hw as (i & <- & Hi).
    now apply word_of_word, Hv.
Qed.
