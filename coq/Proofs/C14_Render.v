(* C14_Render.v — completeness of the expression parser on the standard renderings: every
   expression tree, written with the usual minimal parentheses, is a sum of the stratified grammar
   denoting that tree (this file), and every derivation of the grammar is found by the Pratt
   parser given enough fuel (C14_Complete.v).  Together with soundness: parse (render e) = e. *)
From Coq Require Import ZArith List Bool Lia Arith.
From Hera.Model Require Import MiniParser.
From Hera.Spec Require Import ExprGrammar.
Import ListNotations.

Definition as_unary (e : expr) : list etok := parens (Nat.ltb (level e) 2) (render e).

(* continuation style: whatever tail follows the rendering of e continues from e *)
Definition CU (e : expr) : Prop := forall rest, Unary (as_unary e ++ rest) e rest.
Definition CP (e : expr) : Prop := forall X e' r', ProdTail e X e' r' -> Prod (render e ++ X) e' r'.
Definition CS (e : expr) : Prop := forall X e' r', starts_mul X = false -> SumTail e X e' r' -> Sum (render e ++ X) e' r'.

Lemma parens_app b ts rest : parens b ts ++ rest = if b then E_LP :: ts ++ E_RP :: rest else ts ++ rest.
Proof. unfold parens. destruct b; [cbn; rewrite <- app_assoc; reflexivity|reflexivity]. Qed.

Lemma CU_of_CS e : CS e -> forall rest, Unary (E_LP :: render e ++ E_RP :: rest) e rest.
Proof.
  intros H rest. apply U_paren. apply H; [reflexivity|]. apply ST_done; reflexivity.
Qed.

Lemma level_cases e : (level e = 0 \/ level e = 1 \/ level e = 2)%nat.
Proof. destruct e as [| | | | |o l r]; cbn; auto. destruct (is_add o); auto. Qed.

Theorem render_derivable e : CU e /\ ((1 <= level e)%nat -> CP e) /\ CS e.
Proof.
  induction e as [v|x|s|a IH|a IH|o l IHl r IHr].
  - assert (U : CU (EInt v)) by (intros rest; cbn; constructor).
    split; [exact U|]. assert (P : CP (EInt v)) by (intros X e' r' T; eapply P_intro; [apply (U X)|exact T]).
    split; [intros _; exact P|]. intros X e' r' M T. eapply S_intro; [apply P, PT_done, M|exact T].
  - assert (U : CU (EReg x)) by (intros rest; cbn; constructor).
    split; [exact U|]. assert (P : CP (EReg x)) by (intros X e' r' T; eapply P_intro; [apply (U X)|exact T]).
    split; [intros _; exact P|]. intros X e' r' M T. eapply S_intro; [apply P, PT_done, M|exact T].
  - assert (U : CU (ESym s)) by (intros rest; cbn; constructor).
    split; [exact U|]. assert (P : CP (ESym s)) by (intros X e' r' T; eapply P_intro; [apply (U X)|exact T]).
    split; [intros _; exact P|]. intros X e' r' M T. eapply S_intro; [apply P, PT_done, M|exact T].
  - destruct IH as (Ua & _ & _).
    assert (U : CU (EMem a)).
    { intros rest. unfold as_unary. cbn [level Nat.ltb Nat.leb parens render]. cbn [app]. apply U_at. apply Ua. }
    split; [exact U|].
    assert (P : CP (EMem a)).
    { intros X e' r' T. eapply P_intro; [|exact T]. specialize (U X). unfold as_unary in U. cbn [level Nat.ltb Nat.leb parens] in U. exact U. }
    split; [intros _; exact P|]. intros X e' r' M T. eapply S_intro; [apply P, PT_done, M|exact T].
  - destruct IH as (Ua & _ & _).
    assert (U : CU (ENeg a)).
    { intros rest. unfold as_unary. cbn [level Nat.ltb Nat.leb parens render]. cbn [app]. apply U_neg. apply Ua. }
    split; [exact U|].
    assert (P : CP (ENeg a)).
    { intros X e' r' T. eapply P_intro; [|exact T]. specialize (U X). unfold as_unary in U. cbn [level Nat.ltb Nat.leb parens] in U. exact U. }
    split; [intros _; exact P|]. intros X e' r' M T. eapply S_intro; [apply P, PT_done, M|exact T].
  - destruct IHl as (Ul & Pl & Sl). destruct IHr as (Ur & Pr & Sr).
    (* the sum-level statement first; the parenthesised unary form follows from it *)
    assert (S : CS (EBin o l r) /\ ((1 <= level (EBin o l r))%nat -> CP (EBin o l r))).
    { cbn [level].
      destruct (is_add o) eqn:A.
      - (* o is + or - : left operand never parenthesised, right operand parenthesised unless it binds tighter *)
        split; [|intros H; lia].
        intros X e' r' M T. cbn [render]. unfold oplevel. rewrite A. cbn [Nat.ltb Nat.leb parens]. rewrite <- app_assoc. cbn [app].
        apply Sl; [unfold starts_mul; cbn [cur]; destruct o; cbn in *; congruence|].
        eapply ST_more; [exact A| |exact T].
        rewrite parens_app.
        destruct (level_cases r) as [L|[L|L]]; rewrite L; cbn [Nat.leb].
        + eapply P_intro; [apply CU_of_CS, Sr|apply PT_done, M].
        + apply Pr; [lia|apply PT_done, M].
        + apply Pr; [lia|apply PT_done, M].
      - (* o is * or / *)
        assert (Mo : is_mul o = true) by (destruct o; cbn in *; congruence).
        assert (P : CP (EBin o l r)).
        { intros X e' r' T. cbn [render]. unfold oplevel. rewrite A.
          assert (R : Unary (parens (Nat.leb (level r) 1) (render r) ++ X) r X).
          { rewrite parens_app. destruct (level_cases r) as [L|[L|L]]; rewrite L; cbn [Nat.leb].
            - apply CU_of_CS, Sr.
            - apply CU_of_CS, Sr.
            - specialize (Ur X). unfold as_unary in Ur. rewrite L in Ur. exact Ur. }
          rewrite <- app_assoc. cbn [app].
          assert (T2 : ProdTail l (E_OP o :: parens (Nat.leb (level r) 1) (render r) ++ X) e' r')
            by (eapply PT_more; [exact Mo|exact R|exact T]).
          rewrite parens_app.
          destruct (level_cases l) as [L|[L|L]]; rewrite L; cbn [Nat.ltb Nat.leb].
          - eapply P_intro; [apply CU_of_CS, Sl|exact T2].
          - apply Pl; [lia|exact T2].
          - apply Pl; [lia|exact T2]. }
        split; [|intros _; exact P].
        intros X e' r' M T. eapply S_intro; [|exact T].
        exact (P X (EBin o l r) X (PT_done _ _ M)). }
    destruct S as [S P]. split; [|split; [exact P|exact S]].
    intros rest. unfold as_unary. assert (L : (level (EBin o l r) <? 2)%nat = true) by (cbn; destruct (is_add o); reflexivity).
    rewrite L, parens_app. apply CU_of_CS, S.
Qed.

Corollary render_is_sum e rest : starts_add rest = false -> starts_mul rest = false ->
  Sum (render e ++ rest) e rest.
Proof. intros A M. apply (proj2 (proj2 (render_derivable e))); [exact M|apply ST_done; assumption]. Qed.
