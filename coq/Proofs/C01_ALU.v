(* C01_ALU.v — the three-register arithmetic/logic instructions: the generated code
   (Gen/Ops.v, from hera/op.py) computes exactly Spec.ISA's step on every well-formed
   state, for every choice of registers (aliasing and R0 included), operand values and
   flag settings. *)
From Coq Require Import ZArith List Bool String Lia ZifyBool.
From Hera.Lib Require Import Py Machine Word16.
From Hera.Gen Require Import Utils Vm Ops.
From Hera.Spec Require Import ISA Wf.
From Hera.Proofs Require Import VmLemmas Tactics.
Import ListNotations.
Open Scope Z_scope.

Ltac Zify.zify_post_hook ::= Z.to_euclidean_division_equations.

(* ---- calculate_* : the arithmetic core ------------------------------------------- *)

Lemma calculate_AND_ok s x y : calculate_AND (PI x) (PI y) s = Ok (PI (fst (f_AND x y s)), snd (f_AND x y s)).
Proof. reflexivity. Qed.
Lemma calculate_OR_ok s x y : calculate_OR (PI x) (PI y) s = Ok (PI (fst (f_OR x y s)), snd (f_OR x y s)).
Proof. reflexivity. Qed.
Lemma calculate_XOR_ok s x y : calculate_XOR (PI x) (PI y) s = Ok (PI (fst (f_XOR x y s)), snd (f_XOR x y s)).
Proof. reflexivity. Qed.

Lemma calculate_ADD_ok s x y : wf_flags s -> word x -> word y ->
  calculate_ADD (PI x) (PI y) s = Ok (PI (fst (f_ADD x y s)), snd (f_ADD x y s)).
Proof.
  intros Hf Hx Hy. expose_state s Hf. unfold word in *.
  unfold calculate_ADD, f_ADD, cin, flag, fits16s, sgn16.
  destruct bc, bcb; msimpl; norm_words; msimpl; bsimpl; st_eq.
Qed.

Lemma calculate_SUB_ok s x y : wf_flags s -> word x -> word y ->
  calculate_SUB (PI x) (PI y) s = Ok (PI (fst (f_SUB x y s)), snd (f_SUB x y s)).
Proof.
  intros Hf Hx Hy. expose_state s Hf. unfold word in *.
  unfold calculate_SUB, f_SUB, bin, flag, fits16s, sgn16.
  destruct bc, bcb; msimpl; norm_words;
    rewrite to_u16_val by lia; msimpl; norm_words; msimpl; bsimpl;
    rewrite ?Z.mod_mod by lia; st_eq.
Qed.

(* ---- the plumbing of BinaryOp.execute, identical for all six classes -------------- *)
Lemma getreg_word s i : wf_vm s -> reg_ix i -> word (getreg s i).
Proof.
  intros [[Hl [Hall _]] _ _ _ _ _ _ _ _] Hi. unfold getreg.
  rewrite Forall_forall in Hall. apply Hall. apply nth_In. unfold reg_ix in Hi. lia.
Qed.

Ltac exec3t calc_tac range_tac :=
  let W := fresh "W" in let Hd := fresh "Hd" in let Ha := fresh "Ha" in let Hb := fresh "Hb" in
  intros W Hd Ha Hb;
  pose proof (wf_vm_flags _ W) as Hf;
  pose proof (getreg_word _ _ W Ha) as Hx; pose proof (getreg_word _ _ W Hb) as Hy;
  destruct W as [[Hl _] _ _ _ _ _ _ Hwo _];
  mstep reflexivity;
  mstep ltac:(apply vm_load_register_ok; assumption);
  mstep reflexivity;
  mstep ltac:(apply vm_load_register_ok; assumption);
  mstep calc_tac;
  mstep ltac:(apply vm_set_zero_and_sign_ok; range_tac);
  mstep reflexivity;
  mstep ltac:(apply vm_store_register_ok; [exact Hl | assumption | exact Hwo]);
  mstep reflexivity;
  mstep reflexivity;
  reflexivity.

Ltac exec3 calc_ok range_tac := exec3t ltac:(apply calc_ok; assumption) range_tac.

Theorem exec_AND_ok s d a b : wf_vm s -> reg_ix d -> reg_ix a -> reg_ix b ->
  exec_AND [PI d; PI a; PI b] s = Ok (tt, step_AND d a b s).
Proof. unfold exec_AND. exec3 calculate_AND_ok ltac:(apply land_word; assumption). Qed.

Theorem exec_OR_ok s d a b : wf_vm s -> reg_ix d -> reg_ix a -> reg_ix b ->
  exec_OR [PI d; PI a; PI b] s = Ok (tt, step_OR d a b s).
Proof. unfold exec_OR. exec3 calculate_OR_ok ltac:(apply lor_word; assumption). Qed.

Theorem exec_XOR_ok s d a b : wf_vm s -> reg_ix d -> reg_ix a -> reg_ix b ->
  exec_XOR [PI d; PI a; PI b] s = Ok (tt, step_XOR d a b s).
Proof. unfold exec_XOR. exec3 calculate_XOR_ok ltac:(apply lxor_word; assumption). Qed.

Ltac mod_range := unfold word; cbn [fst f_ADD f_SUB f_MUL_low]; apply Z.mod_pos_bound; lia.

Theorem exec_ADD_ok s d a b : wf_vm s -> reg_ix d -> reg_ix a -> reg_ix b ->
  exec_ADD [PI d; PI a; PI b] s = Ok (tt, step_ADD d a b s).
Proof. unfold exec_ADD. exec3 calculate_ADD_ok mod_range. Qed.

Theorem exec_SUB_ok s d a b : wf_vm s -> reg_ix d -> reg_ix a -> reg_ix b ->
  exec_SUB [PI d; PI a; PI b] s = Ok (tt, step_SUB d a b s).
Proof. unfold exec_SUB. exec3 calculate_SUB_ok mod_range. Qed.
