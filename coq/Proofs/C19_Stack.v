(* C19_Stack.v — the stack-convention library routines `size` and `ord` (argument and result in
   the frame cell FP+3, scratch cell FP+4): for every well-formed machine state the result cell
   receives memory[argument + k], every register the caller owns (R1..R11, SP) comes back
   unchanged, FP is restored from FP_alt and control returns to PC_ret. *)
From Coq Require Import ZArith List Bool Lia.
From Hera.Lib Require Import Py Machine Word16.
From Hera.Spec Require Import ISA Wf.
From Hera.Proofs Require Import SpecLemmas SpecCore.
Import ListNotations.
Open Scope Z_scope.

Definition stack_load_code (k : Z) : list instr :=
  [I_INC 15 1; I_STORE 1 4 14; I_LOAD 1 3 14; I_LOAD 1 k 1; I_STORE 1 3 14; I_LOAD 1 4 14;
   I_DEC 15 1; I_RETURN 12 13].
Definition size_stack_code := stack_load_code 0.
Definition ord_stack_code := stack_load_code 1.

Lemma stack_load_core k base r m fS fZ fV fC fCB :
  0 <= r 15 < 65536 ->
  let a3 := (r 14 + 3) mod 65536 in let a4 := (r 14 + 4) mod 65536 in
  let m1 := mem_write m a4 (r 1) in
  let v := mem_read m1 ((mem_read m1 a3 + k) mod 65536) in
  let m2 := mem_write m1 a3 v in
  exists c', crun_at base (stack_load_code k) 8 (mkcore r m base fS fZ fV fC fCB) = Some c' /\
    cmem c' = m2 /\ cr c' 1 = mem_read m2 a4 /\ cpc c' = r 13 /\ cr c' 14 = r 12 /\ cr c' 15 = r 15 /\
    (forall j, 2 <= j <= 11 -> cr c' j = r j).
Proof.
  intros SP a3 a4 m1 v m2. eexists. split.
  - cgo 0%nat. cgo 1%nat. cgo 2%nat. cgo 3%nat. cgo 4%nat. cgo 5%nat. cgo 6%nat. cgo 7%nat. reflexivity.
  - cbn [cr cpc cmem]. cbn [Z.eqb Pos.eqb]. repeat split; try reflexivity.
    + Z.to_euclidean_division_equations; lia.
    + intros j Hj. repeat match goal with |- context [j =? ?x] => destruct (j =? x) eqn:?; try lia end; try reflexivity.
Qed.

Lemma stack_code_valid k : 0 <= k < 32 -> Forall (fun i => valid_instr i = true) (stack_load_code k).
Proof.
  intros Hk. unfold stack_load_code.
  assert (A : in_range 0 32 k = true) by (unfold in_range; lia).
  repeat constructor; cbn [valid_instr reg_ok]; rewrite ?A; reflexivity.
Qed.

Theorem stack_load_contract k base s :
  0 <= k < 32 -> List.length (regs s) = 16%nat -> pc s = base -> wf_mem (mem s) ->
  0 <= getreg s 15 < 65536 -> word (getreg s 1) ->
  let a3 := (getreg s 14 + 3) mod 65536 in let a4 := (getreg s 14 + 4) mod 65536 in
  let arg := mem_read (mem s) a3 in
  (arg + k) mod 65536 <> a4 ->                  (* the cell read is not the routine's scratch cell *)
  exists s', run_at base (stack_load_code k) 8 s = Some s' /\
    mem_read (mem s') a3 = mem_read (mem s) ((arg + k) mod 65536) /\          (* the result cell *)
    (forall b, 0 <= b -> b <> a3 -> b <> a4 -> mem_read (mem s') b = mem_read (mem s) b) /\
    getreg s' 1 = getreg s 1 /\ pc s' = getreg s 13 /\ getreg s' 14 = getreg s 12 /\
    getreg s' 15 = getreg s 15 /\ (forall j, 2 <= j <= 11 -> getreg s' j = getreg s j).
Proof.
  intros Hk L P WM SP W1 a3 a4 arg NA.
  destruct (stack_load_core k base (getreg s) (mem s) (flag (f_s s)) (flag (f_z s)) (flag (f_v s))
              (flag (f_c s)) (flag (f_cb s)) SP) as (c' & E & Q1 & Q2 & Q3 & Q4 & Q5 & Q6).
  pose proof (sim_core_of s L) as S0. unfold core_of in S0. rewrite P in S0.
  destruct (sim_run base (stack_load_code k) (stack_code_valid k Hk) 8 s _ c' S0 E) as (s' & Rn & S').
  exists s'. split; [exact Rn|].
  rewrite !(sim_reg s' c' _ S') by lia. rewrite (sim_pc s' c' S'), (sim_mem s' c' S').
  fold a3 a4 in Q1, Q2. rewrite Q1, Q2.
  assert (B3 : 0 <= a3 < 65536) by (unfold a3; apply Z.mod_pos_bound; lia).
  assert (B4 : 0 <= a4 < 65536) by (unfold a4; apply Z.mod_pos_bound; lia).
  assert (D : a4 <> a3) by (unfold a3, a4; Z.to_euclidean_division_equations; lia).
  set (m1 := mem_write (mem s) a4 (getreg s 1)).
  assert (WM1 : wf_mem m1) by (apply wf_mw; assumption).
  assert (A1 : mem_read m1 a3 = arg) by (unfold m1; rewrite mrw_other by (try lia; assumption); reflexivity).
  rewrite A1.
  assert (V : mem_read m1 ((arg + k) mod 65536) = mem_read (mem s) ((arg + k) mod 65536)).
  { pose proof (Z.mod_pos_bound (arg + k) 65536). unfold m1. apply mrw_other; try lia; try assumption. }
  rewrite V.
  repeat split; try assumption.
  - apply mrw_same. lia.
  - intros b Hb N3 N4. rewrite mrw_other by (try lia; assumption). unfold m1. apply mrw_other; try lia; assumption.
  - rewrite mrw_other by (try lia; assumption). unfold m1. apply mrw_same. lia.
  - intros j Hj. rewrite (sim_reg s' c' j S') by lia. apply Q6, Hj.
Qed.

Corollary size_stack_contract base s :
  List.length (regs s) = 16%nat -> pc s = base -> wf_mem (mem s) ->
  0 <= getreg s 15 < 65536 -> word (getreg s 1) ->
  let a3 := (getreg s 14 + 3) mod 65536 in let a4 := (getreg s 14 + 4) mod 65536 in
  let arg := mem_read (mem s) a3 in
  (arg + 0) mod 65536 <> a4 ->
  exists s', run_at base size_stack_code 8 s = Some s' /\
    mem_read (mem s') a3 = mem_read (mem s) ((arg + 0) mod 65536) /\
    (forall b, 0 <= b -> b <> a3 -> b <> a4 -> mem_read (mem s') b = mem_read (mem s) b) /\
    getreg s' 1 = getreg s 1 /\ pc s' = getreg s 13 /\ getreg s' 14 = getreg s 12 /\
    getreg s' 15 = getreg s 15 /\ (forall j, 2 <= j <= 11 -> getreg s' j = getreg s j).
Proof. apply stack_load_contract. lia. Qed.

Corollary ord_stack_contract base s :
  List.length (regs s) = 16%nat -> pc s = base -> wf_mem (mem s) ->
  0 <= getreg s 15 < 65536 -> word (getreg s 1) ->
  let a3 := (getreg s 14 + 3) mod 65536 in let a4 := (getreg s 14 + 4) mod 65536 in
  let arg := mem_read (mem s) a3 in
  (arg + 1) mod 65536 <> a4 ->
  exists s', run_at base ord_stack_code 8 s = Some s' /\
    mem_read (mem s') a3 = mem_read (mem s) ((arg + 1) mod 65536) /\
    (forall b, 0 <= b -> b <> a3 -> b <> a4 -> mem_read (mem s') b = mem_read (mem s) b) /\
    getreg s' 1 = getreg s 1 /\ pc s' = getreg s 13 /\ getreg s' 14 = getreg s 12 /\
    getreg s' 15 = getreg s 15 /\ (forall j, 2 <= j <= 11 -> getreg s' j = getreg s j).
Proof. apply stack_load_contract. lia. Qed.
