(* C14_Format.v — every numeric rendering format_int produces for a 16-bit value (Model/Format.v) reads back, as an
   integer literal, to that value (decimal, hexadecimal, octal, binary) or to its two's-complement reading (the
   signed form, shown exactly when the sign bit is set).  Finite sweep over all 16-bit values. *)
From Coq Require Import ZArith List Bool Lia.
From Hera.Lib Require Import Word16.
From Hera.Model Require Import Listing Format.
From Hera.Proofs Require Import C06_ListingSweep.
Import ListNotations.
Open Scope Z_scope.

Definition chk_fmt (v : Z) : bool :=
  is_some_eq (read_int (fmt_d v)) v && is_some_eq (read_int (fmt_x v)) v &&
  is_some_eq (read_int (fmt_o v)) v && is_some_eq (read_int (fmt_b v)) v &&
  (if 32768 <=? v then is_some_eq (read_int (fmt_s v)) (v - 65536) else true).

Lemma fmt_sweep : forallb chk_fmt (zrange 0 65536) = true.
Proof. vm_compute. reflexivity. Qed.

Lemma formats_read_back v : 0 <= v < 65536 ->
  read_int (fmt_d v) = Some v /\ read_int (fmt_x v) = Some v /\ read_int (fmt_o v) = Some v /\
  read_int (fmt_b v) = Some v /\ (32768 <= v -> read_int (fmt_s v) = Some (v - 65536)).
Proof.
  intros Hv. assert (H := range_forall chk_fmt 0 65536 fmt_sweep v Hv).
  unfold chk_fmt in H. repeat rewrite andb_true_iff in H. destruct H as [[[[H1 H2] H3] H4] H5].
  repeat split; try (now apply is_some_eq_spec).
  intros Hs. destruct (32768 <=? v) eqn:E; [now apply is_some_eq_spec|]. apply Z.leb_gt in E. lia.
Qed.

(* letter by letter *)
Lemma piece_denotes v c p : 0 <= v < 65536 -> piece v c = Some (Some p) ->
  ((c = 100 \/ c = 120 \/ c = 111 \/ c = 98) -> read_int p = Some v) /\
  (c = 115 -> 32768 <= v /\ read_int p = Some (v - 65536)).
Proof.
  intros Hv Hp. destruct (formats_read_back v Hv) as (Hd & Hx & Ho & Hb & Hs).
  unfold piece in Hp.
  destruct (c =? 100) eqn:E1; [apply Z.eqb_eq in E1; subst c; split; [intros _; congruence|intros C; discriminate C]|].
  destruct (c =? 120) eqn:E2; [apply Z.eqb_eq in E2; subst c; split; [intros _; congruence|intros C; discriminate C]|].
  destruct (c =? 111) eqn:E3; [apply Z.eqb_eq in E3; subst c; split; [intros _; congruence|intros C; discriminate C]|].
  destruct (c =? 98) eqn:E4; [apply Z.eqb_eq in E4; subst c; split; [intros _; congruence|intros C; discriminate C]|].
  apply Z.eqb_neq in E1, E2, E3, E4.
  split; [intros [C|[C|[C|C]]]; congruence|].
  intros C. subst c. cbn in Hp. destruct (32768 <=? v) eqn:E; [|discriminate Hp].
  apply Z.leb_le in E. split; [exact E|]. injection Hp as <-. now apply Hs.
Qed.

(* the signed reading is shown exactly when the sign bit is set *)
Lemma signed_shown_iff v : piece v 115 = Some None <-> v < 32768.
Proof.
  cbn. destruct (32768 <=? v) eqn:E.
  - apply Z.leb_le in E. split; [discriminate|lia].
  - apply Z.leb_gt in E. split; [intros _; exact E|reflexivity].
Qed.

(* the default specifier "xdsc" of the register dump and of print_reg *)
Lemma default_dump v : 0 <= v < 65536 ->
  format_int v [120; 100; 115; 99] =
  Some (join_eq ([fmt_x v; fmt_d v] ++ (if 32768 <=? v then [fmt_s v] else []) ++
                 (if printable v then [repr_chr v] else []))).
Proof.
  intros Hv. unfold format_int. cbn [pieces]. 
  change (piece v 120) with (Some (Some (fmt_x v))). change (piece v 100) with (Some (Some (fmt_d v))).
  change (piece v 115) with (Some (if 32768 <=? v then Some (fmt_s v) else None)).
  change (piece v 99) with (Some (if (v <? 128) && printable v then Some (repr_chr v) else None)).
  assert (E : (v <? 128) && printable v = printable v).
  { unfold printable. destruct (v <? 128) eqn:A; [reflexivity|]. apply Z.ltb_ge in A.
    destruct (v <? 127) eqn:B; [apply Z.ltb_lt in B; lia|]. now rewrite andb_false_r. }
  rewrite E. destruct (32768 <=? v); destruct (printable v); reflexivity.
Qed.
