(* C02_Init.v — reset() yields a well-formed machine for every admissible --init list, the
   data statements keep it well-formed, hence VirtualMachine.run as a whole never leaves the
   well-formed states and never raises. *)
From Coq Require Import ZArith List Bool String Lia ZifyBool.
From Hera.Lib Require Import Py Machine Word16.
From Hera.Gen Require Import Utils Vm Ops.
From Hera.Spec Require Import ISA Wf.
From Hera.Model Require Import InstrOf Run.
From Hera.Proofs Require Import VmLemmas Tactics SpecLemmas C01_ALU C01_Misc C01_All C02_Step C02_Exec C02_Run.
Import ListNotations.
Open Scope Z_scope.

(* what main.parse_init_string must guarantee: destinations R1..R15, values 16-bit words *)
Definition init_ok (c : settings) : Prop :=
  Forall (fun p : Z * Z => 0 < fst p < 16 /\ word (snd p)) (init c).
Definition init_okb (c : settings) : bool :=
  forallb (fun p : Z * Z => (0 <? fst p) && (fst p <? 16) && wordb (snd p)) (init c).

Lemma init_loop_wf l : Forall (fun p : Z * Z => 0 < fst p < 16 /\ word (snd p)) l ->
  forall s, wf_vm s ->
  exists s', for_pairs l (fun dest val => regs_setitem dest val ;;; ret tt) s = Ok (tt, s') /\
             wf_vm s' /\ pc s' = pc s /\ dc s' = dc s /\ cfg s' = cfg s /\ halted s' = halted s
             /\ op_count s' = op_count s.
Proof.
  induction 1 as [|[d v] t [Hd Hv] _ IH]; intros s W; cbn [for_pairs].
  - eexists. split; [reflexivity|]. split; [exact W|]. repeat split; reflexivity.
  - cbn [fst snd] in *. pose proof (wf_r _ W) as [Hl _].
    mstep ltac:(erewrite bind_Ok by (apply regs_setitem_ok; [exact Hl|unfold reg_ix; lia]); reflexivity).
    set (s1 := upd_regs (list_set (regs s) (Z.to_nat d) v) s).
    assert (W1 : wf_vm s1).
    { destruct W as [Wr ? ? ? ? ? ? ? ?]. constructor; cbn; try assumption.
      apply wf_regs_set; assumption. }
    destruct (IH s1 W1) as (s' & E & W' & P).
    rewrite E. eexists. split; [reflexivity|]. split; [exact W'|exact P].
Qed.

Theorem vm_reset_wf s : init_ok (cfg s) ->
  exists s0, vm_reset s = Ok (tt, s0) /\ wf_vm s0 /\ pc s0 = 0 /\ dc s0 = data_start (cfg s)
             /\ cfg s0 = cfg s /\ halted s0 = PB false /\ op_count s0 = 0.
Proof.
  intros Hi. unfold vm_reset.
  do 21 mstep reflexivity.
  match goal with |- exists _, (bind (for_pairs ?l _) _) ?st = _ /\ _ =>
    change l with (init (cfg s)); set (s1 := st) end.
  assert (W1 : wf_vm s1).
  { subst s1. constructor; cbn; try (eexists; reflexivity).
    - split; [reflexivity|]. split; [|reflexivity]. repeat constructor; unfold word; lia.
    - split; cbn; [lia|constructor]. }
  destruct (init_loop_wf (init (cfg s)) Hi s1 W1) as (s' & E & W' & Hp & Hd & Hc & Hh & Ho).
  mstep ltac:(exact E).
  eexists. split; [reflexivity|]. split; [exact W'|].
  rewrite Hp, Hd, Hc, Hh, Ho. subst s1. cbn. repeat split; reflexivity.
Qed.

(* ---- data statements ------------------------------------------------------------------------- *)
Definition data_size (o : rop) : Z :=
  match r_op o, r_args o with
  | O_INTEGER, _ => 1
  | O_DSKIP, [PI n] => n
  | O_LP_STRING, [PS str] => 1 + zlen str
  | _, _ => 0
  end.

Definition data_op_ok (o : rop) : Prop :=
  match r_op o, r_args o with
  | O_INTEGER, [PI v] => -32768 <= v < 65536
  | O_DSKIP, [PI n] => 0 <= n < 65536
  | O_LP_STRING, [PS str] => Forall word str
  | _, _ => False
  end.

Lemma store_cell_wf s v : wf_vm s -> 0 <= dc s < 65536 -> word v ->
  exists s', (x <- get_dc ;; vm_store_memory x (PI v) ;;; y <- get_dc ;; set_dc (py_add y (PI 1)) ;;; ret tt) s
             = Ok (tt, s') /\ wf_vm s' /\ dc s' = dc s + 1 /\ pc s' = pc s /\ cfg s' = cfg s
             /\ halted s' = halted s /\ op_count s' = op_count s.
Proof.
  intros W Hd Hv. pose proof (wf_m _ W) as [[Hm _] _].
  mstep reflexivity.
  mstep ltac:(apply vm_store_memory_ok; [lia|exact Hm]).
  mstep reflexivity. mstep reflexivity.
  eexists. split; [reflexivity|]. split.
  - apply wf_upd_dc, wf_upd_mem; [exact W|]. apply wf_mem_write; [apply (wf_m _ W)|exact Hd|exact Hv].
  - repeat split; reflexivity.
Qed.

Lemma chars_loop_wf str : Forall word str -> forall s, wf_vm s -> 0 <= dc s -> dc s + zlen str <= 65536 ->
  exists s', for_chars str (fun c =>
               v_7 <- get_dc ;; n_8 <- py_ord c ;; vm_store_memory v_7 n_8 ;;;
               v_10 <- get_dc ;; set_dc (py_add v_10 (PI 1)) ;;; ret tt) s = Ok (tt, s') /\
             wf_vm s' /\ dc s' = dc s + zlen str /\ pc s' = pc s /\ cfg s' = cfg s
             /\ halted s' = halted s /\ op_count s' = op_count s.
Proof.
  induction 1 as [|c t Hc _ IH]; intros s W Hd Hfit; cbn [for_chars].
  - eexists. split; [reflexivity|]. split; [exact W|]. unfold zlen. cbn [List.length Z.of_nat]. repeat split; try reflexivity. lia.
  - unfold zlen in *. cbn [List.length] in Hfit. pose proof (wf_m _ W) as [[Hm _] _].
    mstep ltac:(erewrite bind_Ok by reflexivity; erewrite bind_Ok by reflexivity;
                erewrite bind_Ok by (apply vm_store_memory_ok; [lia|exact Hm]);
                erewrite bind_Ok by reflexivity; erewrite bind_Ok by reflexivity; reflexivity).
    match goal with |- context [for_chars _ _ ?st] => set (s1 := st) end.
    assert (W1 : wf_vm s1).
    { subst s1. apply wf_upd_dc, wf_upd_mem; [exact W|].
      apply wf_mem_write; [apply (wf_m _ W)|lia|exact Hc]. }
    assert (D1 : dc s1 = dc s + 1) by reflexivity.
    destruct (IH s1 W1 ltac:(lia) ltac:(lia)) as (s' & E & W' & Hd' & Hp & Hcf & Hh & Ho).
    rewrite E. eexists. split; [reflexivity|]. split; [exact W'|].
    rewrite Hd', Hp, Hcf, Hh, Ho, D1. cbn [List.length]. repeat split; try reflexivity. lia.
Qed.

Lemma exec_data_wf o s : data_op_ok o -> wf_vm s -> 0 <= dc s -> dc s + data_size o <= 65536 ->
  exists s', exec (r_op o) (r_args o) s = Ok (tt, s') /\ wf_vm s' /\ dc s' = dc s + data_size o
             /\ pc s' = pc s /\ cfg s' = cfg s /\ halted s' = halted s /\ op_count s' = op_count s.
Proof.
  destruct o as [op args loc]. unfold data_op_ok, data_size. cbn [r_op r_args].
  intros Hok W Hd Hfit.
  destruct op; try contradiction;
    destruct args as [|[| |v|str|] [|]]; try contradiction; cbv beta iota delta [exec].
  - (* DSKIP *) unfold exec_DSKIP. astep. mstep reflexivity. mstep reflexivity.
    eexists. split; [reflexivity|]. split; [apply wf_upd_dc, W|]. repeat split; reflexivity.
  - (* INTEGER *) unfold exec_INTEGER.
    mstep reflexivity. astep.
    mstep ltac:(apply to_u16_word; lia).
    pose proof (wf_m _ W) as [[Hm _] _].
    mstep ltac:(apply vm_store_memory_ok; [lia|exact Hm]).
    mstep reflexivity. mstep reflexivity.
    eexists. split; [reflexivity|]. split.
    + apply wf_upd_dc, wf_upd_mem; [exact W|]. apply wf_mem_write; [apply (wf_m _ W)|lia|apply mod_word].
    + repeat split; reflexivity.
  - (* LP_STRING *) unfold exec_LP_STRING.
    mstep reflexivity. astep. mstep reflexivity.
    pose proof (wf_m _ W) as [[Hm _] _].
    assert (Hz : 0 <= zlen str) by (unfold zlen; lia).
    mstep ltac:(apply vm_store_memory_ok; [lia|exact Hm]).
    mstep reflexivity. mstep reflexivity. astep. mstep reflexivity.
    match goal with |- exists _, (bind (for_chars _ _) _) ?st = _ /\ _ => set (s1 := st) end.
    assert (W1 : wf_vm s1).
    { subst s1. apply wf_upd_dc, wf_upd_mem; [exact W|].
      apply wf_mem_write; [apply (wf_m _ W)|lia|unfold word; lia]. }
    assert (D1 : dc s1 = dc s + 1) by reflexivity.
    destruct (chars_loop_wf str Hok s1 W1 ltac:(lia) ltac:(lia)) as (s' & E & W' & Hd' & Hp & Hcf & Hh & Ho).
    mstep ltac:(exact E).
    eexists. split; [reflexivity|]. split; [exact W'|].
    rewrite Hd', Hp, Hcf, Hh, Ho, D1. repeat split; try reflexivity. lia.
Qed.

Fixpoint data_total (ops : list rop) : Z :=
  match ops with [] => 0 | o :: t => data_size o + data_total t end.

Lemma data_size_nonneg o : data_op_ok o -> 0 <= data_size o.
Proof.
  destruct o as [op args loc]. unfold data_op_ok, data_size. cbn [r_op r_args].
  destruct op; try contradiction; destruct args as [|[| |v|str|] [|]]; try contradiction; intros H;
    try lia. unfold zlen; lia.
Qed.

Lemma exec_all_data_wf ops : Forall data_op_ok ops -> forall s, wf_vm s -> 0 <= dc s ->
  dc s + data_total ops <= 65536 ->
  exists s', exec_all ops s = Ok (tt, s') /\ wf_vm s' /\ pc s' = pc s /\ cfg s' = cfg s
             /\ halted s' = halted s /\ op_count s' = op_count s.
Proof.
  induction 1 as [|o t Ho Ht IH]; intros s W Hd Hfit; cbn [exec_all data_total] in *.
  - eexists. split; [reflexivity|]. split; [exact W|]. repeat split; reflexivity.
  - pose proof (data_size_nonneg o Ho) as Hn.
    assert (Htn : 0 <= data_total t).
    { clear -Ht. induction Ht as [|x l Hx _ IHl]; cbn [data_total]; [lia|].
      pose proof (data_size_nonneg x Hx). lia. }
    destruct (exec_data_wf o s Ho W Hd ltac:(lia)) as (s1 & E & W1 & D1 & P1 & C1 & H1 & O1).
    mstep ltac:(exact E).
    destruct (IH s1 W1 ltac:(lia) ltac:(lia)) as (s' & E' & W' & P' & C' & H' & O').
    rewrite E'. eexists. split; [reflexivity|]. split; [exact W'|].
    rewrite P', C', H', O', P1, C1, H1, O1. repeat split; reflexivity.
Qed.

(* ---- the whole run -------------------------------------------------------------------------- *)
Definition program_ok (p : program) (c : settings) : Prop :=
  code_ok (p_code p) /\ Forall data_op_ok (p_data p) /\
  0 <= data_start c /\ data_start c + data_total (p_data p) <= 65536.

Theorem run_wf p fuel s : program_ok p (cfg s) -> init_ok (cfg s) ->
  match run fuel p s with
  | Ok s' => wf_vm s'
  | Raise OutOfFuel => True
  | Raise _ => False
  end.
Proof.
  intros (Cok & Dok & Hds & Hfit) Hi. unfold run.
  destruct (vm_reset_wf s Hi) as (s0 & E0 & W0 & P0 & D0 & C0 & H0 & O0).
  destruct (exec_all_data_wf (p_data p) Dok s0 W0 ltac:(lia) ltac:(lia)) as (s1 & E1 & W1 & _).
  erewrite bind_Ok by exact E0. rewrite E1.
  unfold main_step. destruct (throttle (cfg s1)).
  - apply iter_throttled_wf; assumption.
  - apply iter_wf; assumption.
Qed.

Lemma flags_word_range s : 0 <= flags_word s <= 31.
Proof.
  unfold flags_word.
  destruct (flag (f_s s)), (flag (f_z s)), (flag (f_v s)), (flag (f_c s)), (flag (f_cb s)); cbn; lia.
Qed.

(* SAVEF leaves a value in 0..31 in its destination *)
Lemma savef_range s d : wf_vm s -> reg_ix d -> d <> 0 ->
  0 <= getreg (step (I_SAVEF d) s) d <= 31.
Proof.
  intros W Hd Hn. unfold step, step_with, step_SAVEF, next.
  change (getreg (upd_pc (pc (setreg d (flags_word s) s) + 1) (setreg d (flags_word s) s)) d)
    with (getreg (setreg d (flags_word s) s) d).
  rewrite getreg_setreg_same; [apply flags_word_range|apply (wf_r _ W)|exact Hd|exact Hn].
Qed.

(* a concrete accepted program and its run: the hypotheses are satisfiable *)
Definition demo_program : program :=
  mkprogram [mkrop O_INTEGER [PI (-1)] PNone; mkrop O_LP_STRING [PS [72; 105]] PNone]
            [mkrop O_SETLO [PI 1; PI 200] PNone;       (* R1 := -56 *)
             mkrop O_BRR [PI (-5)] PNone].             (* jump to before instruction 0 *)
Definition demo_settings : settings := mksettings 49153 true [(2, 7)] None.

Lemma demo_program_ok : program_ok demo_program demo_settings /\ init_ok demo_settings.
Proof.
  split; [split; [|split; [|split]]|].
  - split; [|vm_compute; discriminate].
    constructor; [|constructor; [|constructor]].
    + left. exists [1; 200], (I_SETLO 1 200). repeat split; reflexivity.
    + left. exists [-5], (I_BREL cBR (-5)). repeat split; reflexivity.
  - constructor; [cbn; lia|constructor; [|constructor]].
    cbn. repeat constructor; unfold word; lia.
  - cbn; lia.
  - vm_compute; discriminate.
  - constructor; [|constructor]. cbn. unfold word. lia.
Qed.
