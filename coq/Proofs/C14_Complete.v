(* C14_Complete.v — every derivation of the stratified grammar is found by the Pratt parser, given
   enough fuel; with C14_Render: the parser returns e on the standard rendering of e. *)
From Coq Require Import ZArith List Bool Lia Arith.
From Hera.Model Require Import MiniParser.
From Hera.Spec Require Import ExprGrammar.
From Hera.Proofs Require Import C14_Pratt C14_Render.
Import ListNotations.
Open Scope Z_scope.

Scheme Unary_mut := Minimality for Unary Sort Prop
  with ProdTail_mut := Minimality for ProdTail Sort Prop
  with Prod_mut := Minimality for Prod Sort Prop
  with SumTail_mut := Minimality for SumTail Sort Prop
  with Sum_mut := Minimality for Sum Sort Prop.
Combined Scheme grammar_mutind from Unary_mut, ProdTail_mut, Prod_mut, SumTail_mut, Sum_mut.

Definition L (f : nat) := infix_loop (match_expr f).

(* the loop stops *)
Lemma stop_hi f p k lhs ts : 2 <= p -> L f p (S k) lhs ts = POk lhs ts.
Proof.
  intros H. unfold L. cbn [infix_loop]. destruct (cur ts); try reflexivity.
  assert (p <? prec_of o = false) as -> by (destruct o; cbn; lia). reflexivity.
Qed.
Lemma stop_1 f k lhs ts : starts_mul ts = false -> L f 1 (S k) lhs ts = POk lhs ts.
Proof.
  intros H. unfold L. cbn [infix_loop]. unfold starts_mul in H. destruct (cur ts); try reflexivity.
  destruct o; cbn in *; try reflexivity; discriminate.
Qed.
Lemma stop_0 f p k lhs ts : starts_add ts = false -> starts_mul ts = false -> L f p (S k) lhs ts = POk lhs ts.
Proof.
  intros A M. unfold L. cbn [infix_loop]. unfold starts_add, starts_mul in *. destruct (cur ts); try reflexivity.
  destruct o; cbn in *; discriminate.
Qed.

Definition PU (ts : list etok) (u : expr) (r : list etok) : Prop :=
  exists n, forall f, (n <= f)%nat -> forall p, match_expr (S f) p ts = L f p f u r.
Definition PPT (acc : expr) (ts : list etok) (e : expr) (r : list etok) : Prop :=
  starts_mul r = false /\
  exists nf nk, forall f, (nf <= f)%nat -> forall p k, p < 2 -> L f p (nk + k) acc ts = L f p k e r.
Definition PP (ts : list etok) (e : expr) (r : list etok) : Prop :=
  starts_mul r = false /\
  exists nf nk, forall f, (nf <= f)%nat -> forall p k, p < 2 -> f = (nk + k)%nat -> match_expr (S f) p ts = L f p k e r.
Definition PST (acc : expr) (ts : list etok) (e : expr) (r : list etok) : Prop :=
  (starts_add r = false /\ starts_mul r = false) /\
  exists nf nk, forall f, (nf <= f)%nat -> forall p k, p < 1 -> L f p (nk + k) acc ts = L f p k e r.
Definition PS (ts : list etok) (e : expr) (r : list etok) : Prop :=
  exists n, forall f, (n <= f)%nat -> match_expr f 0 ts = POk e r.

(* a unary expression parsed at a prefix precedence comes back as it is *)
Lemma PU_at_prefix ts u r : PU ts u r -> exists n, forall f, (n <= f)%nat -> forall p, 2 <= p -> match_expr f p ts = POk u r.
Proof.
  intros [n H]. exists (n + 2)%nat. intros f Hf p Hp.
  destruct f as [|[|f']]; try lia. rewrite (H (S f') ltac:(lia) p). apply stop_hi, Hp.
Qed.

(* a product parsed at precedence 1 *)
Lemma PP_at_1 ts e r : PP ts e r -> exists n, forall f, (n <= f)%nat -> match_expr f 1 ts = POk e r.
Proof.
  intros [M (nf & nk & H)]. exists (nf + nk + 2)%nat. intros f Hf.
  destruct f as [|f']; [lia|].
  rewrite (H f' ltac:(lia) 1 (f' - nk)%nat ltac:(lia) ltac:(lia)).
  destruct (f' - nk)%nat as [|k] eqn:E; [lia|]. apply stop_1, M.
Qed.

Theorem parser_complete :
  (forall ts u r, Unary ts u r -> PU ts u r) /\
  (forall acc ts e r, ProdTail acc ts e r -> PPT acc ts e r) /\
  (forall ts e r, Prod ts e r -> PP ts e r) /\
  (forall acc ts e r, SumTail acc ts e r -> PST acc ts e r) /\
  (forall ts e r, Sum ts e r -> PS ts e r).
Proof.
  apply grammar_mutind.
  - (* U_int *) intros v r. exists 0%nat. intros f _ p. reflexivity.
  - intros x r. exists 0%nat. intros f _ p. reflexivity.
  - intros s r. exists 0%nat. intros f _ p. reflexivity.
  - (* U_paren *) intros ts e r _ [n H]. exists n. intros f Hf p. cbn [match_expr cur adv].
    rewrite (H f Hf). cbn [cur adv]. reflexivity.
  - (* U_neg *) intros ts e r _ IH. destruct (PU_at_prefix _ _ _ IH) as [n H].
    exists n. intros f Hf p. cbn [match_expr cur adv]. rewrite (H f Hf PREC_PREFIX ltac:(unfold PREC_PREFIX; lia)). reflexivity.
  - (* U_at *) intros ts e r _ IH. destruct (PU_at_prefix _ _ _ IH) as [n H].
    exists n. intros f Hf p. cbn [match_expr cur adv]. rewrite (H f Hf PREC_PREFIX ltac:(unfold PREC_PREFIX; lia)). reflexivity.
  - (* PT_done *) intros acc ts M. split; [exact M|]. exists 0%nat, 0%nat. intros f _ p k _. reflexivity.
  - (* PT_more *) intros acc o ts u ts' e r Mo _ IHu _ [Me (nf & nk & H)].
    destruct (PU_at_prefix _ _ _ IHu) as [nu Hu].
    split; [exact Me|]. exists (Nat.max nf nu), (S nk). intros f Hf p k Hp.
    unfold L at 1. cbn [Nat.add infix_loop cur adv]. rewrite (prec_mul o Mo).
    assert (p <? 2 = true) as -> by lia.
    rewrite (Hu f ltac:(lia) 2 ltac:(lia)). apply (H f ltac:(lia) p k Hp).
  - (* P_intro *) intros ts u ts' e r _ [nu Hu] _ [Me (nf & nk & H)].
    split; [exact Me|]. exists (Nat.max nf nu), nk. intros f Hf p k Hp Ef.
    rewrite (Hu f ltac:(lia) p). rewrite Ef at 2. apply (H f ltac:(lia) p k Hp).
  - (* ST_done *) intros acc ts A M. split; [split; assumption|]. exists 0%nat, 0%nat. intros f _ p k _. reflexivity.
  - (* ST_more *) intros acc o ts pr ts' e r Ao _ IHp _ [Ends (nf & nk & H)].
    destruct (PP_at_1 _ _ _ IHp) as [np Hp1].
    split; [exact Ends|]. exists (Nat.max nf np), (S nk). intros f Hf p k Hp.
    unfold L at 1. cbn [Nat.add infix_loop cur adv].
    assert (P1 : prec_of o = 1) by (destruct o; cbn in *; congruence). rewrite P1.
    assert (p <? 1 = true) as -> by lia.
    rewrite (Hp1 f ltac:(lia)). apply (H f ltac:(lia) p k Hp).
  - (* S_intro *) intros ts pr ts' e r _ [Mp (nfp & nkp & Hp)] _ [[Ae Me] (nfs & nks & Hs)].
    exists (nfp + nfs + nkp + nks + 2)%nat. intros f Hf. destruct f as [|f']; [lia|].
    rewrite (Hp f' ltac:(lia) 0 (f' - nkp)%nat ltac:(lia) ltac:(lia)).
    replace (f' - nkp)%nat with (nks + (f' - nkp - nks))%nat by lia.
    rewrite (Hs f' ltac:(lia) 0 (f' - nkp - nks)%nat ltac:(lia)).
    destruct (f' - nkp - nks)%nat as [|k] eqn:E; [lia|]. apply stop_0; assumption.
Qed.

(* the parser reads the standard rendering of any tree back as that tree *)
Theorem parse_render e rest : starts_add rest = false -> starts_mul rest = false ->
  exists n, forall f, (n <= f)%nat -> match_expr f 0 (render e ++ rest) = POk e rest.
Proof.
  intros A M. exact (proj2 (proj2 (proj2 (proj2 parser_complete))) _ _ _ (render_is_sum e rest A M)).
Qed.
