(* C08_Safe.v — an operation the checker accepts expands, without raising, to real instructions
   every operand of which fits the machine field it is encoded in (so C05 assembles them and C01 /
   C02 execute them). *)
From Coq Require Import ZArith List Bool String Lia ZifyBool.
From Hera.Lib Require Import Py Word16.
From Hera.Gen Require Import Utils Ops Tables Convert.
From Hera.Spec Require Import ISA.
From Hera.Model Require Import OpRep InstrOf Bitvec Preproc.
From Hera.Proofs Require Import C04_Oplen.
Import ListNotations.
Open Scope Z_scope.

Ltac Zify.zify_post_hook ::= Z.to_euclidean_division_equations.

(* tokens as the parser builds them: registers are 0..15, integer tokens carry ints, names strings *)
Definition tok_wf (t : token) : Prop :=
  match t_type t, t_val t with
  | T_REGISTER, PI r => 0 <= r < 16
  | T_INT, PI _ => True
  | T_SYMBOL, PS _ | T_STRING, PS _ => True
  | _, _ => False
  end.

(* symbol values as get_labels / typecheck produce them for programs shorter than 2^16 *)
Definition st_wf (st : symtab) : Prop :=
  forall k sv, dict_get st k = Some sv ->
    match sv with
    | SLabel v | SDataLabel v => 0 <= v < 65536
    | SConstant v => -32768 <= v < 65536
    end.
(* all that is used of it: code labels are addresses below 2^16 (data labels and constants are range-checked
   against the field they are used in) *)
Definition st_wf_labels (st : symtab) : Prop := forall k v, dict_get st k = Some (SLabel v) -> 0 <= v < 65536.
Lemma st_wf_weaken st : st_wf st -> st_wf_labels st.
Proof. intros H k v E. exact (H k _ E). Qed.

(* substitute_label, precisely *)
Lemma subst_tokens_exact ts st ts' : subst_tokens ts st = Ok ts' ->
  Forall2 (fun t t' => match t_type t with
                       | T_SYMBOL => exists sv, dict_get st (t_val t) = Some sv /\ t' = tok_int (PI (sym_int sv))
                       | _ => t' = t
                       end) ts ts'.
Proof.
  revert ts'. induction ts as [|t r IH]; intros ts' H; cbn [subst_tokens] in H.
  - injection H as <-. constructor.
  - destruct (t_type t) eqn:Et;
      try (unfold rbind in H; destruct (subst_tokens r st) as [r'|]; [|discriminate H]; injection H as <-;
           constructor; [rewrite Et; reflexivity|now apply IH]).
    destruct (dict_get st (t_val t)) as [sv|] eqn:Ed; [|discriminate H].
    unfold rbind in H. destruct (subst_tokens r st) as [r'|]; [|discriminate H]. injection H as <-.
    constructor; [rewrite Et; exists sv; split; [exact Ed|reflexivity]|now apply IH].
Qed.

Definition is_valid_real (r : op) : Prop :=
  exists i, instr_of_op r = Some i /\ valid_instr i = true.

(* the classes whose expansion consists of real instructions *)
Definition expands_to_instructions (c : opname) : bool :=
  negb (declares_symbol c) && negb (is_data_op c) && negb (is_debugging_op c)
  && negb (opname_eqb c O_OPCODE).

From Hera.Spec Require Import Signature.
From Hera.Proofs Require Import Tactics C09_Checker.

Ltac inv2 H := inversion H; subst; clear H.

(* what an accepted operand looks like: its token kind and the range of its final value *)
Definition shape (p : ptype) (t : token) (st : symtab) : Prop :=
  match p with
  | P_REGISTER => exists r, t = mktok T_REGISTER (PI r) /\ 0 <= r < 16
  | P_REGISTER_OR_LABEL =>
      (exists r, t = mktok T_REGISTER (PI r) /\ 0 <= r < 16) \/
      (exists k v, t = mktok T_SYMBOL k /\ dict_get st k = Some (SLabel v) /\ 0 <= v < 65536)
  | P_RANGE lo hi =>
      (exists v, t = mktok T_INT (PI v) /\ lo <= v < hi) \/
      (exists k v, t = mktok T_SYMBOL k /\ dict_get st k = Some (SConstant v) /\ lo <= v < hi)
  | P_I16_OR_LABEL =>
      (exists v, t = mktok T_INT (PI v) /\ -32768 <= v < 65536) \/
      (exists k sv, t = mktok T_SYMBOL k /\ dict_get st k = Some sv /\ -32768 <= sym_int sv < 65536)
  | P_I8_OR_LABEL =>
      (exists v, t = mktok T_INT (PI v) /\ -128 <= v < 256) \/
      (exists k sv, t = mktok T_SYMBOL k /\ dict_get st k = Some sv /\
                    (match sv with SLabel _ => True | _ => -128 <= sym_int sv < 256 end))
  | _ => True
  end.

Lemma arg_shape p t st : check_arg p t st = None -> tok_wf t -> st_wf_labels st -> shape p t st.
Proof.
  intros H W S.
  assert (Hp : tok_parsed t).
  { unfold tok_parsed, tok_wf in *. destruct t as [ty v]; cbn in *. destruct ty; auto. destruct v; try contradiction. now eexists. }
  apply (check_arg_exact p t st Hp) in H.
  destruct t as [ty v]. unfold tok_wf in W. cbn [t_type t_val] in *.
  destruct p; cbn [kind_of_ptype arg_ok shape t_type t_val] in *; unfold in_rng in *.
  - subst ty. destruct v; try contradiction. now eexists.
  - destruct H as [->|[-> [x Hx]]].
    + left. destruct v; try contradiction. now eexists.
    + right. exists v, x. split; [reflexivity|]. split; [exact Hx|]. apply (S _ _ Hx).
  - exact I.
  - exact I.
  - destruct H as [[-> [x [-> Hx]]]|[-> H]].
    + left. now exists x.
    + right. destruct H as [[x [Hx R]]|[[x [Hx R]]|[x Hx]]]; eexists v, _; (split; [reflexivity|]); (split; [exact Hx|]);
        cbn [sym_int]; try exact R. pose proof (S _ _ Hx) as B. cbn in B. lia.
  - destruct H as [[-> [x [-> Hx]]]|[-> H]].
    + left. now exists x.
    + right. destruct H as [[x [Hx R]]|[[x [Hx R]]|[x Hx]]]; eexists v, _; (split; [reflexivity|]); (split; [exact Hx|]);
        cbn [sym_int]; try exact R. exact I.
  - destruct H as [[-> [x [-> Hx]]]|[-> [x [Hx R]]]].
    + left. now exists x.
    + right. now exists v, x.
Qed.

Lemma shapes_of ps ts st :
  Forall2 (fun p t => check_arg p t st = None) ps ts -> Forall tok_wf ts -> st_wf_labels st ->
  Forall2 (fun p t => shape p t st) ps ts.
Proof.
  intros F W S. induction F as [|p t ps ts H _ IH]; constructor.
  - apply arg_shape; [exact H|now inversion W|exact S].
  - apply IH. now inversion W.
Qed.

Ltac open_shapes :=
  repeat match goal with
         | H : shape _ _ _ |- _ => cbn [shape] in H
         | H : exists _, _ |- _ => destruct H
         | H : _ /\ _ |- _ => destruct H
         | H : _ \/ _ |- _ => destruct H
         end; subst.

Ltac run_subst Hs :=
  cbn [subst_tokens t_type t_val rbind] in Hs;
  repeat match type of Hs with
         | context [dict_get ?st ?k] =>
             match goal with E : dict_get st k = Some _ |- _ => rewrite E in Hs end
         end;
  cbn [subst_tokens t_type t_val rbind] in Hs;
  injection Hs as <-.

Ltac valid_one :=
  eexists; split;
  [ reflexivity
  | cbn [valid_instr]; unfold reg_ok, in_range; cbn [sym_int] in *; lia ].

Ltac norm_vals :=
  unfold py_band, py_shr; cbn [as_int];
  rewrite ?land_255, ?shiftr_div by lia; change (2 ^ 8) with 256.

Ltac compute_l Hl :=
  cbv beta iota delta [convert_full convert o_cls o_args o_toks map t_val
                       convert_SET convert_CMP convert_SETRF convert_FLAGS convert_CALL convert_NEG convert_NOT
                       convert_CALL_via_AbstractOperation convert_MOVE convert_CON convert_COFF convert_CBON
                       convert_CCBOFF convert_HALT convert_NOP
                       convert_BR convert_BL convert_BGE convert_BLE convert_BG convert_BULE convert_BUG convert_BZ
                       convert_BNZ convert_BC convert_BNC convert_BS convert_BNS convert_BV convert_BNV
                       convert_BR_via_AbstractOperation convert_BL_via_AbstractOperation
                       convert_BGE_via_AbstractOperation convert_BLE_via_AbstractOperation
                       convert_BG_via_AbstractOperation convert_BULE_via_AbstractOperation
                       convert_BUG_via_AbstractOperation convert_BZ_via_AbstractOperation
                       convert_BNZ_via_AbstractOperation convert_BC_via_AbstractOperation
                       convert_BNC_via_AbstractOperation convert_BS_via_AbstractOperation
                       convert_BNS_via_AbstractOperation convert_BV_via_AbstractOperation
                       convert_BNV_via_AbstractOperation
                       tokens_at oargs_at rbind rret t_type t_val ttype_eqb py_getitem as_int tok_int tok_reg] in Hl;
  cbn [zlen List.length norm_index nth Z.to_nat Z.of_nat Z.ltb Z.add Z.compare Pos.compare Pos.compare_cont
       Pos.of_succ_nat Pos.succ Pos.to_nat Pos.iter_op Nat.add] in Hl;
  try change (Pos.to_nat 1) with 1%nat in Hl; try change (Pos.to_nat 2) with 2%nat in Hl; cbv beta iota in Hl;
  try match type of Hl with ?f _ = _ => unfold f, rret in Hl end.

(* (a relative branch whose operand is a label or data label does not go through
   substitute_label: convert_ops computes the distance instead — see rel_label_valid below) *)
Definition rel_symbol_is_constant (c : opname) (ts : list token) (st : symtab) : Prop :=
  is_relative_branch c = true -> forall t, In t ts -> t_type t = T_SYMBOL ->
  exists v, dict_get st (t_val t) = Some (SConstant v).

Theorem accepted_op_valid c ts st ts' l :
  expands_to_instructions c = true ->
  Forall tok_wf ts -> st_wf_labels st ->
  has_errors (default_typecheck (mkop c ts) st) = false ->
  rel_symbol_is_constant c ts st ->
  subst_tokens ts st = Ok ts' ->
  convert_full (mkop c ts') = Ok l ->
  Forall is_valid_real l.
Proof.
  intros Hc Hwf Hst Ht Hrel Hs Hl.
  pose proof (shapes_of _ _ _ (typecheck_clean _ _ Ht) Hwf Hst) as F. cbn [o_cls o_toks] in F. clear Ht Hwf.
  destruct c; try discriminate Hc; cbn [P_of] in F;
    repeat match goal with H : Forall2 _ (_ :: _) _ |- _ => inv2 H | H : Forall2 _ [] _ |- _ => inv2 H end.
  all: open_shapes.
  all: run_subst Hs.
  all: compute_l Hl.
  all: try compute_l Hl.
  all: rewrite ?to_u16_val in Hl by (cbn [sym_int] in *; lia); cbn [rbind rret app] in Hl; unfold rbind, rret in Hl.
  all: try compute_l Hl.
  all: try (injection Hl as <-).
  all: norm_vals.
  all: repeat (constructor; [valid_one|]); try constructor.
  (* relative branches whose operand is a constant symbol *)
  all: try constructor.
  all: try match goal with |- Forall _ [] => constructor end.
  all: match goal with
       | E : dict_get _ ?k = Some ?sv |- _ =>
           destruct (Hrel eq_refl (mktok T_SYMBOL k) (or_introl eq_refl) eq_refl) as [cv Ecv];
           cbn [t_val] in Ecv; rewrite E in Ecv; injection Ecv as ->
       end.
  all: valid_one.
Qed.

(* a relative branch to a label that convert_ops accepts carries a distance that fits its field *)
Theorem rel_label_valid c jump rest l :
  is_relative_branch c = true -> -128 <= jump < 128 ->
  convert_full (mkop c (tok_int (PI jump) :: rest)) = Ok l -> rest = [] ->
  Forall is_valid_real l.
Proof.
  intros Hr Hj Hl ->.
  destruct c; try discriminate Hr; compute_l Hl; injection Hl as <-;
    (constructor; [valid_one|constructor]).
Qed.

Lemma ktoks1_0 c a : tokens_at (mkop c [a]) 0 = Ok a.              Proof. reflexivity. Qed.
Lemma ktoks2_0 c a b : tokens_at (mkop c [a; b]) 0 = Ok a.         Proof. reflexivity. Qed.
Lemma ktoks2_1 c a b : tokens_at (mkop c [a; b]) 1 = Ok b.         Proof. reflexivity. Qed.

(* ... and the expansion itself never raises *)
Theorem accepted_op_converts c ts st :
  expands_to_instructions c = true ->
  Forall tok_wf ts -> st_wf_labels st ->
  has_errors (default_typecheck (mkop c ts) st) = false ->
  exists ts' l, subst_tokens ts st = Ok ts' /\ convert_full (mkop c ts') = Ok l.
Proof.
  intros Hc Hwf Hst Ht.
  pose proof (shapes_of _ _ _ (typecheck_clean _ _ Ht) Hwf Hst) as F. cbn [o_cls o_toks] in F. clear Ht Hwf.
  destruct c; try discriminate Hc; cbn [P_of] in F;
    repeat match goal with H : Forall2 _ (_ :: _) _ |- _ => inv2 H | H : Forall2 _ [] _ |- _ => inv2 H end.
  all: open_shapes.
  all: cbn [subst_tokens t_type t_val rbind];
       repeat match goal with E : dict_get ?st ?k = Some _ |- context [dict_get ?st ?k] => rewrite E end;
       cbn [subst_tokens t_type t_val rbind].
  all: eexists; eexists; split; [reflexivity|].
  all: cbv beta iota delta [convert_full convert o_cls o_args o_toks map t_val
                       convert_SET convert_CMP convert_SETRF convert_FLAGS convert_CALL convert_NEG convert_NOT
                       convert_CALL_via_AbstractOperation convert_MOVE convert_CON convert_COFF convert_CBON
                       convert_CCBOFF convert_HALT convert_NOP
                       convert_BR convert_BL convert_BGE convert_BLE convert_BG convert_BULE convert_BUG convert_BZ
                       convert_BNZ convert_BC convert_BNC convert_BS convert_BNS convert_BV convert_BNV
                       convert_BR_via_AbstractOperation convert_BL_via_AbstractOperation
                       convert_BGE_via_AbstractOperation convert_BLE_via_AbstractOperation
                       convert_BG_via_AbstractOperation convert_BULE_via_AbstractOperation
                       convert_BUG_via_AbstractOperation convert_BZ_via_AbstractOperation
                       convert_BNZ_via_AbstractOperation convert_BC_via_AbstractOperation
                       convert_BNC_via_AbstractOperation convert_BS_via_AbstractOperation
                       convert_BNS_via_AbstractOperation convert_BV_via_AbstractOperation
                       convert_BNV_via_AbstractOperation];
       try (match goal with |- ?f _ = _ => unfold f, rret end; reflexivity).
  all: unfold tokens_at, oargs_at, py_getitem, zlen; cbn [o_toks List.length Z.of_nat Pos.of_succ_nat Pos.succ as_int].
  all: unfold norm_index; cbn [Z.ltb Z.compare Z.add Pos.compare Pos.compare_cont].
  all: cbv beta iota; cbn [nth Z.to_nat]; try change (Pos.to_nat 1) with 1%nat; cbv beta iota.
  all: unfold rbind, rret; cbn [t_type t_val ttype_eqb tok_int tok_reg].
  all: rewrite ?to_u16_val by (cbn [sym_int] in *; lia).
  all: try reflexivity.
  all: rewrite ?ktoks1_0, ?ktoks2_0, ?ktoks2_1; cbn [t_val t_type tok_int tok_reg sym_int];
       rewrite ?to_u16_val by (cbn [sym_int] in *; lia); cbn [app]; try reflexivity.
  all: unfold tokens_at, py_getitem, zlen; cbn [o_toks List.length Z.of_nat Pos.of_succ_nat Pos.succ as_int];
       unfold norm_index; cbn [Z.ltb Z.compare Z.add Pos.compare Pos.compare_cont]; cbv beta iota;
       cbn [nth Z.to_nat]; try change (Pos.to_nat 1) with 1%nat; cbv beta iota;
       cbn [t_val t_type tok_int tok_reg sym_int];
       rewrite ?to_u16_val by (cbn [sym_int] in *; lia); cbn [app]; try reflexivity.
Qed.
