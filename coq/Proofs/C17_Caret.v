(* C17_Caret.v — the caret line printed under a quoted source line puts the caret in the display column
   of the reported character, whatever the distance between tab stops. *)
From Coq Require Import ZArith List Lia.
From Hera.Model Require Import Caret.
Import ListNotations.
Open Scope Z_scope.

Lemma layout_map w : forall s at_,
  layout w at_ (map (fun c => if c =? TAB then TAB else SPACE) s) = layout w at_ s.
Proof.
  induction s as [|c r IH]; intros at_; cbn [map layout]; [reflexivity|].
  destruct (c =? TAB) eqn:E.
  - change (TAB =? TAB) with true. cbv iota. apply IH.
  - change (SPACE =? TAB) with false. cbv iota. apply IH.
Qed.

(* both lines are printed after the same indentation (display column at_): the caret, written after
   align_caret line col, lands where the character line[col-1] of the quoted line is displayed *)
Theorem caret_under_column w line col at_ :
  layout w at_ (align_caret line col) = layout w at_ (firstn (Z.to_nat (col - 1)) line).
Proof. unfold align_caret. apply layout_map. Qed.

(* the white space has one character per character in front of the column *)
Theorem caret_prefix_length line col : 1 <= col -> col - 1 <= Z.of_nat (List.length line) ->
  Z.of_nat (List.length (align_caret line col)) = col - 1.
Proof.
  intros H1 H2. unfold align_caret. rewrite map_length, firstn_length. lia.
Qed.

Example caret_example :
  align_caret [83; 69; 84; 40; 82; 49; 44; 9; 55; 41] 9 = [32; 32; 32; 32; 32; 32; 32; 9] /\
  layout 8 2 [83; 69; 84; 40; 82; 49; 44; 9] = 16 /\ layout 4 2 [32; 32; 32; 32; 32; 32; 32; 9] = 12.
Proof. repeat split. Qed.
