(* C11_Debug.v — driving a program in the debugger visits exactly states of the interpreter's
   run: executing the real operations of one source operation (`next`/`step`/`continue` are built
   from this) equals that many iterations of the interpreter loop. *)
From Coq Require Import ZArith List Bool String Lia.
From Hera.Lib Require Import Py Machine Word16.
From Hera.Gen Require Import Utils Vm Ops.
From Hera.Spec Require Import ISA Wf.
From Hera.Model Require Import InstrOf Run Debugger.
From Hera.Proofs Require Import VmLemmas Tactics SpecLemmas C01_ALU C01_Misc C01_All C02_Step C02_Exec C02_Run C15_Repeat.
Import ListNotations.
Open Scope Z_scope.

(* exactly k iterations of the interpreter loop, none of them the last *)
Inductive run_k (code : list rop) : nat -> vm -> vm -> Prop :=
| run_0 s : run_k code 0 s s
| run_S k s s' s'' : loop_step code s = Ok (Some s') -> run_k code k s' s'' -> run_k code (S k) s s''.

(* operations that always fall through to the next instruction: the only ones convert() places
   before the last operation of an expansion *)
Definition seq_instr (i : instr) : bool :=
  match i with I_SETLO _ _ | I_SETHI _ _ | I_FON _ | I_FOFF _ => true | _ => false end.

Definition falls_through (o : rop) : Prop :=
  exists zs i, r_args o = map PI zs /\ instr_of (r_op o) zs = Some i /\ valid_instr i = true /\ seq_instr i = true.

(* within the expansion of one source operation only the last operation may branch or halt *)
Fixpoint only_last_branches (code : dcode) : Prop :=
  match code with
  | x :: ((y :: _) as t) => (dp_orig x = dp_orig y -> falls_through (dp_rop x)) /\ only_last_branches t
  | _ => True
  end.

Lemma seq_step mc mv i s : seq_instr i = true ->
  pc (step_with mc mv i s) = pc s + 1 /\ halted (step_with mc mv i s) = halted s.
Proof.
  destruct i; try discriminate; intros _; cbn [step_with];
    unfold step_SETLO, step_SETHI, step_FON, step_FOFF, next; cbn [pc halted upd_pc upd_f_cb upd_f_c upd_f_v upd_f_z upd_f_s];
    rewrite ?pc_setreg, ?halted_setreg; split; reflexivity.
Qed.

Lemma falls_through_exec o s : falls_through o -> wf_vm s ->
  exists s', exec (r_op o) (r_args o) s = Ok (tt, s') /\ wf_vm s' /\ pc s' = pc s + 1 /\ halted s' = halted s.
Proof.
  intros (zs & i & A & I & V & Sq) W. rewrite A.
  assert (C : constrained i s = true) by (destruct i; try discriminate Sq; reflexivity).
  destruct (exec_exact (r_op o) zs i s W I V C) as (mc & mv & Bc & Bv & E).
  eexists. split; [exact E|]. split.
  - apply step_wf_spec; try assumption. destruct i; try discriminate Sq; exact I0 || exact Logic.I.
  - apply seq_step, Sq.
Qed.

(* ---- one debugger-executed operation = one interpreter iteration --------------------------------- *)
Lemma nth_rops code k : nth k (rops code) dummy_rop = dp_rop (nth k code dummy_dop).
Proof. unfold rops. change dummy_rop with (dp_rop dummy_dop). apply map_nth. Qed.

Lemma zlen_rops code : zlen (rops code) = zlen code.
Proof. unfold zlen, rops. now rewrite map_length. Qed.

Lemma skipn_nth {A} (l : list A) k x t d : skipn k l = x :: t -> nth k l d = x /\ (k < List.length l)%nat.
Proof.
  revert l. induction k as [|k IH]; intros [|h l] H; cbn in *; try discriminate.
  - injection H as -> ->. split; [reflexivity|lia].
  - destruct (IH l H) as [E L]. split; [exact E|lia].
Qed.

Lemma loop_step_exec code s x t :
  wf_vm s -> flag (halted s) = false -> 0 <= pc s ->
  skipn (Z.to_nat (pc s)) code = x :: t ->
  loop_step (rops code) s =
  match (set_location (r_loc (dp_rop x)) ;;; exec (r_op (dp_rop x)) (r_args (dp_rop x))) s with
  | Ok (_, s') => Ok (Some s')
  | Raise e => Raise e
  end.
Proof.
  intros W Hh Hp Hsk. destruct (skipn_nth code _ x t dummy_dop Hsk) as [En Hl].
  destruct (run_guard_ok (rops code) s W) as (g & Eg & Tg).
  unfold loop_step. rewrite Eg, Tg. unfold guard_true. rewrite Hh, zlen_rops. cbn [negb andb].
  replace (0 <=? pc s) with true by lia. replace (pc s <? zlen code) with true by (unfold zlen; lia).
  cbn [andb]. unfold fetch_exec.
  erewrite bind_Ok by reflexivity.
  assert (Eg' : lift (py_getitem dummy_rop (rops code) (PI (pc s))) s = Ok (dp_rop x, s)).
  { unfold lift, py_getitem. cbn [as_int]. rewrite norm_index_in by (rewrite zlen_rops; unfold zlen; lia).
    rewrite nth_rops, En. reflexivity. }
  erewrite bind_Ok by exact Eg'. reflexivity.
Qed.

Lemma only_last_skipn code k : only_last_branches code -> only_last_branches (skipn k code).
Proof.
  revert code. induction k as [|k IH]; intros code H; [exact H|].
  destruct code as [|x [|y t]]; cbn [skipn]; try exact Logic.I.
  - destruct k; exact Logic.I.
  - apply IH. cbn [only_last_branches] in H. exact (proj2 H).
Qed.

Lemma skipn_S_cons {A} (l : list A) k x y t : skipn k l = x :: y :: t -> skipn (S k) l = y :: t.
Proof.
  revert l. induction k as [|k IH]; intros [|h l] H; cbn in *; try discriminate.
  - now injection H as -> ->.
  - apply IH, H.
Qed.

(* Executing the real operations of one source operation in list order — what the debugger does —
   is exactly |slice| iterations of the interpreter's fetch-execute loop: same states, same order,
   the program counter following the list because only the last operation may branch. *)
Theorem slice_runs code : only_last_branches code ->
  forall t x d d',
  wf_vm (d_vm d) -> flag (halted (d_vm d)) = false -> 0 <= pc (d_vm d) ->
  skipn (Z.to_nat (pc (d_vm d))) code = x :: t ->
  exec_slice (x :: same_orig_prefix (dp_orig x) t) d = Ok d' ->
  run_k (rops code) (List.length (x :: same_orig_prefix (dp_orig x) t)) (d_vm d) (d_vm d') /\
  d_bps d' = d_bps d.
Proof.
  intros OL. induction t as [|y t IH]; intros x d d' W Hh Hp Hsk E.
  - cbn [same_orig_prefix exec_slice List.length] in *.
    pose proof (loop_step_exec code (d_vm d) x [] W Hh Hp Hsk) as L.
    destruct ((set_location (r_loc (dp_rop x));;; exec (r_op (dp_rop x)) (r_args (dp_rop x))) (d_vm d))
      as [[[] s']|e]; [|discriminate E].
    injection E as <-. cbn [d_vm d_bps]. split; [|reflexivity].
    eapply run_S; [exact L|apply run_0].
  - cbn [same_orig_prefix] in *. destruct (Nat.eqb (dp_orig y) (dp_orig x)) eqn:Eo.
    + apply Nat.eqb_eq in Eo.
      cbn [exec_slice List.length] in *.
      pose proof (loop_step_exec code (d_vm d) x (y :: t) W Hh Hp Hsk) as L.
      (* x falls through *)
      pose proof (only_last_skipn code (Z.to_nat (pc (d_vm d))) OL) as OS. rewrite Hsk in OS.
      cbn [only_last_branches] in OS. destruct OS as [Ft _]. specialize (Ft (eq_sym Eo)).
      assert (Wl : wf_vm (upd_location (r_loc (dp_rop x)) (d_vm d))) by (apply wf_upd_location, W).
      destruct (falls_through_exec (dp_rop x) _ Ft Wl) as (s' & Ex & W' & Hpc & Hhl).
      assert (Eb : (set_location (r_loc (dp_rop x));;; exec (r_op (dp_rop x)) (r_args (dp_rop x))) (d_vm d) = Ok (tt, s')).
      { erewrite bind_Ok by reflexivity. exact Ex. }
      rewrite Eb in L, E.
      set (d1 := mkd s' (d_bps d) _) in E.
      assert (Hsk' : skipn (Z.to_nat (pc (d_vm d1))) code = y :: t).
      { subst d1. cbn [d_vm]. rewrite Hpc. cbn [pc upd_location].
        replace (Z.to_nat (pc (d_vm d) + 1)) with (S (Z.to_nat (pc (d_vm d)))) by lia.
        eapply skipn_S_cons, Hsk. }
      rewrite <- Eo in E.
      destruct (IH y d1 d' W' ltac:(subst d1; cbn [d_vm]; rewrite Hhl; exact Hh)
                  ltac:(subst d1; cbn [d_vm]; rewrite Hpc; cbn [pc upd_location]; lia) Hsk' E) as [R B].
      split; [|rewrite B; reflexivity].
      eapply run_S; [exact L|]. rewrite <- Eo. exact R.
    + cbn [exec_slice List.length] in *.
      pose proof (loop_step_exec code (d_vm d) x (y :: t) W Hh Hp Hsk) as L.
      destruct ((set_location (r_loc (dp_rop x));;; exec (r_op (dp_rop x)) (r_args (dp_rop x))) (d_vm d))
        as [[[] s']|e]; [|discriminate E].
      injection E as <-. cbn [d_vm d_bps]. split; [|reflexivity].
      eapply run_S; [exact L|apply run_0].
Qed.

(* ---- the stepping commands stay on the interpreter's trace ------------------------------------------ *)
Definition reach (code : dcode) (s0 s : vm) : Prop := exists k, run_k (rops code) k s0 s.

Lemma run_k_trans code k1 k2 a b c : run_k code k1 a b -> run_k code k2 b c -> run_k code (k1 + k2) a c.
Proof. induction 1; cbn [Nat.add]; intros H2; [exact H2|]. eapply run_S; [eassumption|auto]. Qed.

Lemma run_k_wf code k s s' : code_ok code -> wf_vm s -> run_k code k s s' -> wf_vm s'.
Proof.
  intros C W R. induction R as [|k s s1 s2 L _ IH]; [exact W|]. apply IH.
  destruct (loop_step_ok code s C W) as [[_ E]|(_ & _ & x & E & Wx)]; rewrite E in L; [discriminate L|].
  injection L as <-. exact Wx.
Qed.

Lemma not_finished_facts code d : d_finished code d = false -> is_bool (halted (d_vm d)) ->
  flag (halted (d_vm d)) = false /\ 0 <= pc (d_vm d) < zlen code.
Proof.
  unfold d_finished, flag. intros H [h Eh]. rewrite Eh in *. cbn [truthy] in *.
  destruct h; cbn [orb] in H; [discriminate H|]. split; [reflexivity|].
  destruct (0 <=? pc (d_vm d)) eqn:E1, (pc (d_vm d) <? zlen code) eqn:E2; cbn in H; try discriminate H. lia.
Qed.

Lemma skipn_in_range {A} (l : list A) k : (k < List.length l)%nat -> exists x t, skipn k l = x :: t.
Proof.
  revert l. induction k as [|k IH]; intros [|h l] H; cbn in *; try lia.
  - now eexists; eexists.
  - apply IH. lia.
Qed.

Definition dinv (code : dcode) (s0 : vm) (d : dstate) : Prop :=
  wf_vm (d_vm d) /\ reach code s0 (d_vm d).

Lemma next_into_inv code s0 d d' : code_ok (rops code) -> only_last_branches code ->
  dinv code s0 d -> next_into code d = Ok d' -> dinv code s0 d' /\ d_bps d' = d_bps d.
Proof.
  intros C OL [W [k R]] E. unfold next_into in E.
  destruct (d_finished code d) eqn:F.
  - injection E as <-. split; [split; [exact W|exists k; exact R]|reflexivity].
  - destruct (not_finished_facts code d F (wf_halted _ W)) as [Hh Hp].
    destruct (skipn_in_range code (Z.to_nat (pc (d_vm d))) ltac:(unfold zlen in Hp; lia)) as (x & t & Hsk).
    unfold slice_at in E. rewrite Hsk in E.
    destruct (slice_runs code OL t x d d' W Hh ltac:(lia) Hsk E) as [R' B].
    split; [|exact B]. split.
    + eapply run_k_wf; [exact C| |exact R']. exact W.
    + eexists. eapply run_k_trans; [exact R|exact R'].
Qed.

Lemma next_over_loop_inv code s0 : code_ok (rops code) -> only_last_branches code ->
  forall fuel c0 d d', dinv code s0 d -> next_over_loop fuel code c0 d = Ok d' -> dinv code s0 d'.
Proof.
  intros C OL. induction fuel as [|f IH]; intros c0 d d' I E; cbn [next_over_loop] in E; [discriminate E|].
  destruct (negb (d_finished code d) && negb (d_at_breakpoint code d) && (c0 <? d_calls d)).
  - destruct (next_into code d) as [d1|] eqn:N; [|discriminate E].
    apply (IH c0 d1 d'); [|exact E]. exact (proj1 (next_into_inv code s0 d d1 C OL I N)).
  - injection E as <-. exact I.
Qed.

Lemma next_over_inv code s0 fuel d d' : code_ok (rops code) -> only_last_branches code ->
  dinv code s0 d -> next_over fuel code d = Ok d' -> dinv code s0 d'.
Proof.
  intros C OL I E. unfold next_over in E.
  destruct (d_finished code d) eqn:F; [injection E as <-; exact I|].
  destruct (opname_is _ O_CALL).
  - destruct (next_into code d) as [d1|] eqn:N; [|discriminate E].
    eapply next_over_loop_inv; [exact C|exact OL| |exact E].
    exact (proj1 (next_into_inv code s0 d d1 C OL I N)).
  - assert (N : next_into code d = Ok d') by (unfold next_into; rewrite F; exact E).
    exact (proj1 (next_into_inv code s0 d d' C OL I N)).
Qed.

Lemma next_n_inv code s0 fuel : code_ok (rops code) -> only_last_branches code ->
  forall n d d', dinv code s0 d -> next_n fuel code n d = Ok d' -> dinv code s0 d'.
Proof.
  intros C OL. induction n as [|n IH]; intros d d' I E; cbn [next_n] in E; [injection E as <-; exact I|].
  destruct (d_finished code d); [injection E as <-; exact I|].
  destruct (next_over fuel code d) as [d1|] eqn:N; [|discriminate E].
  apply (IH d1 d'); [|exact E]. eapply next_over_inv; eassumption.
Qed.

Lemma continue_loop_inv code s0 : code_ok (rops code) -> only_last_branches code ->
  forall fuel d d', dinv code s0 d -> continue_loop fuel code d = Ok d' -> dinv code s0 d'.
Proof.
  intros C OL. induction fuel as [|f IH]; intros d d' I E; cbn [continue_loop] in E; [discriminate E|].
  destruct (negb (d_finished code d) && negb (d_at_breakpoint code d)).
  - destruct (next_into code d) as [d1|] eqn:N; [|discriminate E].
    apply (IH d1 d'); [|exact E]. exact (proj1 (next_into_inv code s0 d d1 C OL I N)).
  - injection E as <-. exact I.
Qed.

Lemma do_continue_inv code s0 fuel d d' : code_ok (rops code) -> only_last_branches code ->
  dinv code s0 d -> do_continue fuel code d = Ok d' -> dinv code s0 d'.
Proof.
  intros C OL I E. unfold do_continue in E.
  destruct (next_into code d) as [d1|] eqn:N; [|discriminate E].
  eapply continue_loop_inv; [exact C|exact OL| |exact E].
  exact (proj1 (next_into_inv code s0 d d1 C OL I N)).
Qed.

(* the stepping commands of the shell *)
Inductive stepcmd := CNext (n : nat) | CStep | CContinue.
Definition do_step (fuel : nat) (code : dcode) (c : stepcmd) (d : dstate) : res dstate :=
  match c with
  | CNext n => next_n fuel code n d
  | CStep => next_into code d
  | CContinue => do_continue fuel code d
  end.
Fixpoint do_steps (fuel : nat) (code : dcode) (cs : list stepcmd) (d : dstate) : res dstate :=
  match cs with
  | [] => Ok d
  | c :: t => match do_step fuel code c d with Ok d' => do_steps fuel code t d' | Raise e => Raise e end
  end.

Lemma run_k_iter code k s s' : run_k code k s s' -> loop_step code s' = Ok None ->
  iter (loop_step code) (S k) s = Ok s'.
Proof.
  induction 1 as [|k s s1 s2 L _ IH]; intros N; cbn [iter].
  - rewrite N. reflexivity.
  - rewrite L. apply IH, N.
Qed.

(* Any mixture of next, next n, step and continue that drives the program to its end leaves the
   debugger's machine in exactly the state in which the interpreter's loop ends (from the same
   initial state): registers, flags, memory, pc, halt status, call stack, output and warnings. *)
Theorem debugger_equals_interpreter code s0 fuel cs bps d' :
  code_ok (rops code) -> only_last_branches code -> wf_vm s0 ->
  do_steps fuel code cs (mkd s0 bps 0) = Ok d' ->
  d_finished code d' = true ->
  exists n, iter (loop_step (rops code)) n s0 = Ok (d_vm d').
Proof.
  intros C OL W0 E F.
  assert (I : dinv code s0 d').
  { assert (I0 : dinv code s0 (mkd s0 bps 0)) by (split; [exact W0|exists 0%nat; apply run_0]).
    revert E I0. generalize (mkd s0 bps 0). induction cs as [|c t IH]; intros d E I; cbn [do_steps] in E.
    - injection E as <-. exact I.
    - destruct (do_step fuel code c d) as [d1|] eqn:S1; [|discriminate E].
      apply (IH d1 E). destruct c; cbn [do_step] in S1.
      + eapply next_n_inv; eassumption.
      + exact (proj1 (next_into_inv code s0 d d1 C OL I S1)).
      + eapply do_continue_inv; eassumption. }
  destruct I as [W [k R]].
  exists (S k). apply (run_k_iter _ _ _ _ R).
  destruct (loop_step_ok (rops code) (d_vm d') C W) as [[_ E0]|(G & _)]; [exact E0|].
  exfalso. unfold d_finished in F. unfold guard_true in G. rewrite zlen_rops in G.
  unfold flag in G. destruct (truthy (halted (d_vm d'))); cbn in *; [discriminate G|].
  destruct ((0 <=? pc (d_vm d')) && (pc (d_vm d') <? zlen code)); cbn in *; discriminate.
Qed.
