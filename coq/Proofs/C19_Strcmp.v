(* C19_Strcmp.v — the register-convention tstrcmp (Model/Stdlib.v, tied to hera/stdlib.py by correspondence) is the
   lexicographic comparison of the two character sequences, for all strings: 0 for equal strings, 0xFFFF (-1) when
   the first is smaller — a proper prefix included — and 1 when it is greater. *)
From Coq Require Import ZArith List Bool Lia.
From Hera.Model Require Import Stdlib.
Import ListNotations.
Open Scope Z_scope.

(* the characters of the string at address s *)
Definition chars (rd : Z -> Z) (s : Z) : list Z :=
  map (fun i => rd (s + Z.of_nat i + 1)) (seq 0 (Z.to_nat (rd s))).

(* lexicographic order on character sequences; a proper prefix is smaller *)
Fixpoint lex (a b : list Z) : comparison :=
  match a, b with
  | [], [] => Eq
  | [], _ :: _ => Lt
  | _ :: _, [] => Gt
  | x :: a', y :: b' => if x <? y then Lt else if y <? x then Gt else lex a' b'
  end.
Definition enc (c : comparison) : Z := match c with Eq => 0 | Lt => 65535 | Gt => 1 end.

(* the characters from index i on *)
Definition chars_from (rd : Z -> Z) (s : Z) (i n : nat) : list Z :=
  map (fun j => rd (s + Z.of_nat j + 1)) (seq i n).

Lemma go_lex rd s1 s2 : forall k i,
  tstrcmp_go rd s1 s2 k (Z.of_nat i) =
  match lex (chars_from rd s1 i k) (chars_from rd s2 i k) with
  | Eq => None | c => Some (enc c) end.
Proof.
  induction k as [|k IH]; intros i; [reflexivity|].
  cbn [tstrcmp_go chars_from seq map lex].
  destruct (rd (s1 + Z.of_nat i + 1) <? rd (s2 + Z.of_nat i + 1)); [reflexivity|].
  destruct (rd (s2 + Z.of_nat i + 1) <? rd (s1 + Z.of_nat i + 1)); [reflexivity|].
  replace (Z.of_nat i + 1) with (Z.of_nat (S i)) by lia. exact (IH (S i)).
Qed.

(* comparing two sequences = comparing their common-length prefixes, then the lengths *)
Lemma lex_split (f g : nat -> Z) : forall n1 n2 i,
  lex (map f (seq i n1)) (map g (seq i n2)) =
  match lex (map f (seq i (Nat.min n1 n2))) (map g (seq i (Nat.min n1 n2))) with
  | Eq => Nat.compare n1 n2
  | c => c
  end.
Proof.
  induction n1 as [|n1 IH]; intros n2 i.
  - destruct n2; reflexivity.
  - destruct n2 as [|n2]; [reflexivity|].
    cbn [Nat.min seq map lex]. destruct (f i <? g i); [reflexivity|]. destruct (g i <? f i); [reflexivity|].
    rewrite IH. rewrite Nat.compare_succ. reflexivity.
Qed.

Theorem tstrcmp_reg_is_lex rd s1 s2 : 0 <= rd s1 -> 0 <= rd s2 ->
  tstrcmp_reg rd s1 s2 = enc (lex (chars rd s1) (chars rd s2)).
Proof.
  intros H1 H2. unfold tstrcmp_reg, chars.
  rewrite (lex_split (fun i => rd (s1 + Z.of_nat i + 1)) (fun i => rd (s2 + Z.of_nat i + 1))).
  change 0 with (Z.of_nat 0) at 1. rewrite (go_lex rd s1 s2 _ 0%nat). unfold chars_from.
  replace (Z.to_nat (Z.min (rd s1) (rd s2))) with (Nat.min (Z.to_nat (rd s1)) (Z.to_nat (rd s2))) by lia.
  destruct (lex _ _); try reflexivity.
  destruct (rd s1 =? rd s2) eqn:E.
  - replace (Z.to_nat (rd s1)) with (Z.to_nat (rd s2)) by lia. rewrite Nat.compare_refl. reflexivity.
  - destruct (rd s1 <? rd s2) eqn:L.
    + replace (Z.to_nat (rd s1) ?= Z.to_nat (rd s2))%nat with Lt; [reflexivity|]. symmetry. apply Nat.compare_lt_iff. lia.
    + replace (Z.to_nat (rd s1) ?= Z.to_nat (rd s2))%nat with Gt; [reflexivity|]. symmetry. apply Nat.compare_gt_iff. lia.
Qed.

(* consequences a caller relies on *)
Lemma lex_refl a : lex a a = Eq.
Proof. induction a as [|x a IH]; [reflexivity|]. cbn [lex]. rewrite Z.ltb_irrefl. exact IH. Qed.
Lemma lex_eq a : forall b, lex a b = Eq -> a = b.
Proof.
  induction a as [|x a IH]; intros [|y b] H; cbn [lex] in H; try discriminate H; [reflexivity|].
  destruct (x <? y) eqn:E1; [discriminate H|]. destruct (y <? x) eqn:E2; [discriminate H|].
  assert (x = y) by lia. subst y. f_equal. apply IH, H.
Qed.
Lemma lex_antisym a : forall b, lex b a = CompOpp (lex a b).
Proof.
  induction a as [|x a IH]; intros [|y b]; cbn [lex CompOpp]; try reflexivity.
  destruct (x <? y) eqn:E1; destruct (y <? x) eqn:E2; try reflexivity; try lia. apply IH.
Qed.

Theorem tstrcmp_reg_zero_iff_equal rd s1 s2 : 0 <= rd s1 -> 0 <= rd s2 ->
  (tstrcmp_reg rd s1 s2 = 0 <-> chars rd s1 = chars rd s2).
Proof.
  intros H1 H2. rewrite tstrcmp_reg_is_lex by assumption. split.
  - destruct (lex _ _) eqn:E; cbn [enc]; try discriminate. intros _. apply lex_eq, E.
  - intros ->. rewrite lex_refl. reflexivity.
Qed.

Theorem tstrcmp_reg_antisymmetric rd s1 s2 : 0 <= rd s1 -> 0 <= rd s2 ->
  tstrcmp_reg rd s2 s1 = enc (CompOpp (lex (chars rd s1) (chars rd s2))).
Proof. intros H1 H2. rewrite tstrcmp_reg_is_lex by assumption. rewrite lex_antisym. reflexivity. Qed.

Example tstrcmp_example :
  let rd a := nth (Z.to_nat a) [2; 97; 98; 3; 97; 98; 99; 0; 2; 97; 100] 0 in
  (tstrcmp_reg rd 0 3, tstrcmp_reg rd 3 0, tstrcmp_reg rd 0 0, tstrcmp_reg rd 7 0, tstrcmp_reg rd 8 3) = (65535, 1, 0, 65535, 1).
Proof. reflexivity. Qed.     (* "ab" < "abc", "abc" > "ab", "ab" = "ab", "" < "ab", "ad" > "abc" *)
